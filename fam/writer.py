"""C12, C40, C42 -- family `writer`.

C12  spec/Writer/Ring.tla       internal/queue ring modelled concretely (nodes[0..cap-1], head, tail, cnt, size, initCap, grow /
                                shrink rules of every Remove* variant, delayed-shrink timer) + refinement mapping to a FIFO
     spec/Writer/Writer.tla     writer.go over the FIFO: producers (enqueue / enqueueMany: Add, size check, flush scheduling),
                                writer goroutine (plain / WriteDelay), timer mode (timerScheduled, flush, reschedule), close(flush);
                                exactness, flush-close, slow-consumer, no-lost-wake-up invariants; liveness under fairness
     spec/Writer/RingSim.tla    -> harness `ring`: operation sequences replayed into the real queue, every op compared
     spec/Writer/WriterTrace.tla <- harness `writer`: the real writer under 2 producers + closer, recorded traces validated
C40  spec/Dissolve/Dissolve.tla queue + workers (Wait in two critical sections, Run, Requeue, Close discards); safety + liveness (WF)
     spec/Dissolve/DissolveTrace.tla <- harness `dissolve`: real Dissolver with self-logging jobs
C42  spec/Pools/Pools.tla       three size-classed pools over sync.Pool bags, user mutations, Get property; PoolsSim -> harness `pools`;
                                PoolsTable -> harness `classes` (size-class functions vs the three implementations)

Mutation testing (FRAMEWORK rule 3; scratch worktrees /tmp/writer-wt*, `VERIF_REPO=... ./check Cxx`, all removed afterwards).
C12 -- 16 of 16 caught (exit 1):
  resize copies from head+1 when wrapped (ring items)         resize copies q.nodes[1:tail] as second segment (ring: panic -> violation)
  shrink/resize drops the last element (ring items, Size)     RemoveManyIntoShrink removes n+1 (ring items, Len, Size)
  Remove does not decrement size (ring Size)                  RemoveManyInto does not decrement size (ring Size; writer slow-spurious; trace)
  writer drains everything but writes only MaxMessagesInFrame (writer loss, stuck, flush-loss)
  close(flush) writes the remainder asynchronously (flush-loss; trace CloseE rejected)
  close(flush) drops the last remaining item (flush-loss)     flush() reschedules only when Len > frame (timer stuck)
  flush() clears timerScheduled only when the queue is non-empty (timer stuck)
  slow check >= instead of > (slow-spurious; trace)           enqueueMany compares Len() instead of Size() (slow-missed; trace)
  delay path drops the first item of a batch (loss)           AddMany grows only once (phantom zero item, loss, dup)
  doShrinkLocked shrinks when cnt <= k+1 (phantom zero item, loss)
C40 -- 5 of 6 caught (exit 1): failed job not re-queued (stuck + trace); job re-queued after success (rerun-after-success + trace);
  job re-queued after success only when the queue has one element (same); Add re-opens a closed queue (submit-after-close + trace);
  Close keeps the queue and workers drain it (run-after-close: more late starts than workers + trace).
  Known behaviour of the unchanged code, reported as dissolve:job-started-after-close-returned when the schedule occurs (not forceable): a job
  dequeued before Close starts after Close() returned.
  Seeded changes (round 2): (1) Wait's empty check and park in separate critical sections -> dissolve:job-never-executed:worker-parked (mode
  dissolve_stress; spec: AtomicWait = FALSE violates SomeoneWillLook, lostwake.cfg); (2) Close only sets `closed`, queued jobs run after Close ->
  dissolve:queued-jobs-run-after-close (mode dissolve_probe; spec: QueuedAtCloseNeverStarts).  My earlier "Close keeps cnt/nodes is an equivalent
  mutant" was wrong: workers woken by a preceding Add's Signal reach Remove() after Close.
  Not caught: Close sets closed but keeps cnt/nodes -- an equivalent mutant (Wait/Remove never reach the kept items).
  A resize that loses a job panics inside a worker goroutine and kills the harness process: exit 2 (inconclusive), not 1.
C42 -- 7 of 7 effective mutants caught (exit 1), on a tree with the putItemBuf fix: nextLogBase2 one class low for 2^i+1 (class table +
  undersized); PutByteBuffer without Reset (dirty); prevLogBase2 rounds up (class table + undersized); byte-slices never reset
  (dirty); prevLogBase2ByteSlices off by one at exact powers of two (class table + undersized); putItemBuf without clearing (dirty
  items); getItemBuf one class low for 2^i+1 (panic in Get). Equivalent mutant: GetByteSlicesBuf without B[:0] (Put already resets).

Genuine finding (C42, unchanged tree exits 1 with sig pools:items:dirty-after-short-put): putItemBuf clears only len(buf.B) entries,
getItemBuf re-slices to the requested length, so a buffer returned with a shortened slice hands its old Items to the next user.
Latent (no caller in writer.go shortens B). Fix: clear(buf.B[:cap(buf.B)]) in putItemBuf.
"""
import json
import os

from lib import vf

# development aid (mutation testing): skip the exhaustive design runs, which do not depend on the code under test
_FAST = os.environ.get('VERIF_WRITER_FAST') == '1'


# ------------------------------------------------------------------------------------------------ C12
def _ring_states(beh):
    out = []
    for st in beh:
        nodes = st['nodes']
        cap = len(nodes) if isinstance(nodes, (dict, list)) else 0
        out.append({'step': st['step'], 'head': st['head'], 'tail': st['tail'], 'cnt': st['cnt'], 'size': st['size'],
                    'cap': cap, 'closed': st['closed'], 'initCap': st['initCap']})
    return out


def _validate_traces(c, family, module, cfg, traces, on_reject, reset=None, timeout=900):
    """Validates many traces in one TLC run (concatenated); on rejection isolates the rejected trace, reports it
    through on_reject(trace_index, trace, matched_prefix, info) and continues with the rest. Returns #accepted."""
    accepted = 0
    base = 0
    remaining = list(traces)
    for _round in range(8):
        events, bounds = [], []
        for t in remaining:
            events += t
            if reset is not None:
                events.append(reset)
            bounds.append(len(events))
        if not events:
            break
        ok, info = c.validate_trace(family, module, cfg, events, timeout=timeout)
        if ok:
            accepted += len(remaining)
            remaining = []
            break
        pref = info.get('matched_prefix', 0)
        bad_i = next((i for i, b in enumerate(bounds) if pref < b), len(remaining) - 1)
        t = remaining[bad_i]
        ok1, info1 = c.validate_trace(family, module, cfg, t + ([reset] if reset is not None else []), timeout=300)
        if ok1:
            raise vf.Inconclusive('batch of traces rejected but the single trace is accepted: %s' % info)
        on_reject(base + bad_i, t, info1.get('matched_prefix', 0), info1)
        accepted += bad_i
        base += bad_i + 1
        remaining = remaining[bad_i + 1:]
    if remaining:
        c.notes.append('more than 8 rejected traces; %d traces left unvalidated' % len(remaining))
    return accepted


def c12(c):
    quick = c.tier == 'quick'
    # 1. design: the concrete ring refines the FIFO (exhaustive), the writer over the FIFO delivers exactly
    if not _FAST:
        r = c.tlc_exhaustive('Writer', 'Ring', 'ring_quick.cfg' if quick else 'ring_thorough.cfg', workers=8, timeout=1500)
        c.log('Ring: %d distinct / %d generated states' % (r['distinct'], r['states']))
        r = c.tlc_exhaustive('Writer', 'Writer', 'writer_quick.cfg' if quick else 'writer_thorough.cfg', workers=8, timeout=2400)
        c.log('Writer: %d distinct / %d generated states, depth %d' % (r['distinct'], r['states'], r['depth']))
    if not quick and not _FAST:
        r = c.tlc_exhaustive('Writer', 'Writer', 'writer_live.cfg', workers=8, timeout=2400)
        c.log('Writer liveness (FairSpec): %d distinct states' % r['distinct'])
    binp = c.go_build('writer')
    # close-with-flush vs a write in flight (probe of the "drain + write is one step under the writer mutex" assumption)
    pr = c.harness(c.go_build('limits'), 'closeflush', {'n': 3 if c.tier == 'quick' else 10}, timeout=120)
    c.absorb(pr)
    c.cov['close_flush_probes'] = pr['completed']
    # 2. S: simulated operation sequences of the ring replayed into internal/queue
    nb = 150 if quick else 1500
    s = c.tlc('Writer', 'RingSim', 'ring_sim.cfg', simulate=nb, depth=50, timeout=900)
    if not s['ok']:
        raise vf.Inconclusive('RingSim simulation failed: %s' % s['out'][-2000:])
    behs = [_ring_states(b) for b in c.behaviours(s)]
    c.log('RingSim: %d behaviours' % len(behs))
    res = c.harness(binp, 'ring', behs, timeout=600)
    c.absorb(res)
    c.cov['traces_validated_against_impl'] += res['completed']
    c.cov['evaluations'] += res['counters'].get('ring_ops', 0)
    c.cov['distinct_nontrivial'] += res['nontrivial']
    c.cov['samples'] += res['samples'][:1]
    c.cov['ring_replay'] = {'behaviours': res['executed'], 'completed': res['completed'], 'ops': res['counters'].get('ring_ops', 0),
                            'nontrivial': res['nontrivial']}
    # 3. T: the real writer under 2 producers + closer; monitor in the harness, traces to TLC
    nruns = 1500 if quick else 12000
    ntr = 60 if quick else 400
    wr = c.harness(binp, 'writer', {'n': nruns, 'traces': ntr, 'parallel': 8}, timeout=900)
    c.absorb(wr)
    c.cov['evaluations'] += wr['executed']
    c.cov['distinct_nontrivial'] += wr['nontrivial']
    c.cov['writer_runs'] = {'runs': wr['executed'], 'clean': wr['completed'], 'counters': wr['counters'], 'nontrivial': wr['nontrivial']}
    traces = wr['extra']['traces']
    scen = wr['extra']['trace_scenarios']

    def rejected(i, t, k, info):
        ev = t[k] if k < len(t) else None
        if 'violated' in (info.get('error') or ''):
            what = 'recorded execution of the writer violates %s at event %d: %s' % (info['error'], k, ev)
        else:
            what = ('recorded execution of the writer is not a behaviour of spec/Writer: event %d %s cannot follow the matched prefix '
                    '(scenario %s)' % (k, json.dumps(ev), json.dumps(scen[i])))
        c.violation('trace:%s:%s' % (ev.get('ev') if ev else '?', scen[i]['mode']), what, {'scenario': scen[i], 'trace': t, 'matched_prefix': k})

    acc = _validate_traces(c, 'Writer', 'WriterTrace', 'writer_trace.cfg', traces, rejected)
    c.log('WriterTrace: %d of %d recorded traces accepted' % (acc, len(traces)))
    c.cov['traces_validated_against_impl'] += acc
    c.cov['trace_events'] = sum(len(t) for t in traces)
    if traces:
        c.cov['samples'].append({'recorded_trace': traces[0][:14]})
    c.cov['rule'] = ('ring: TLC -simulate of RingSim (ops/args by state hash) replayed into internal/queue, every op compared (items, ok, Len, Size; Cap/head/tail as drift); '
                     'non-trivial = behaviour with a grow while head>0 and a shrink with items left, distinct by operation list. '
                     'writer: seeded random scenarios (mode x delay x frame x maxq x initCap x shrink x close kind x transport fault), observable monitor on every run, '
                     'first N traces validated by TLC against WriterTrace; non-trivial = both producers interleaved in the delivered order and a batched frame, distinct by trace')
    c.assumptions += ['transport write functions are called with the items they must send; what the transport does with them is outside (C30/C32)',
                      'time is not modelled: sleeps/timers may end at any moment (the real executions are a subset)',
                      'ring: initial capacity >= 1 (newWriter maps 0 to 2); item payload sizes 0..5 bytes',
                      'a panic of the queue/writer is reported as a violation: the model prescribes a normal return with specific items']


# ------------------------------------------------------------------------------------------------ C40
def c40(c):
    quick = c.tier == 'quick'
    if not _FAST:
        r = c.tlc_exhaustive('Dissolve', 'Dissolve', 'quick.cfg' if quick else 'thorough.cfg', workers=8, timeout=1500)
        c.log('Dissolve safety: %d distinct / %d generated states' % (r['distinct'], r['states']))
        # liveness under fairness (no VIEW, no state constraint): Submitted ~> Succeeded \/ closed; workers exit after Close
        r = c.tlc_exhaustive('Dissolve', 'Dissolve', 'live.cfg' if quick else 'live_thorough.cfg', workers=8, timeout=2400)
        c.log('Dissolve liveness (FairSpec): %d distinct states' % r['distinct'])
        # what the design relies on: with Wait split into check-empty / park (AtomicWait = FALSE) TLC must find the lost wake-up
        r = c.tlc('Dissolve', 'Dissolve', 'lostwake.cfg', workers=2, timeout=300, expect_violation=True)
        c.cov['model_counterexample_nonatomic_wait'] = bool(r['error'] and 'SomeoneWillLook' in r['error'])
        if not c.cov['model_counterexample_nonatomic_wait']:
            raise vf.Inconclusive('lostwake.cfg: the non-atomic Wait variant did not produce the lost wake-up counterexample: %s' % r['out'][-1500:])
        c.log('Dissolve with non-atomic Wait: TLC finds the lost wake-up (job queued, only worker parked), as expected')
    binp = c.go_build('writer')
    # deterministic probe: jobs still QUEUED at Close never start (Close discards the queue atomically)
    pr = c.harness(binp, 'dissolve_probe', {'rounds': 40 if quick else 400, 'workers': 4}, timeout=300)
    c.absorb(pr)
    c.cov['evaluations'] += pr['executed']
    c.cov['close_probe'] = {'rounds': pr['executed'], 'clean': pr['completed'], 'counters': pr['counters']}
    c.log('close probe: %d rounds, %d clean' % (pr['executed'], pr['completed']))
    # lost wake-up stress: single-worker dissolvers, Submit aimed at the moment the worker goes idle
    st = c.harness(binp, 'dissolve_stress', {'dissolvers': 4, 'millis': 10000 if quick else 150000}, timeout=900)
    c.absorb(st)
    c.cov['evaluations'] += st['counters'].get('stress_submits', 0)
    c.cov['idle_submit_stress'] = {'dissolvers': st['executed'], 'clean': st['completed'], 'submits': st['counters'].get('stress_submits', 0)}
    c.log('idle-submit stress: %d submits on %d single-worker dissolvers, %d clean' % (st['counters'].get('stress_submits', 0), st['executed'], st['completed']))
    nruns = 1500 if quick else 12000
    ntr = 120 if quick else 800
    dr = c.harness(binp, 'dissolve', {'n': nruns, 'traces': ntr}, timeout=900)
    c.absorb(dr)
    c.cov['evaluations'] += dr['executed']
    c.cov['distinct_nontrivial'] += dr['nontrivial']
    c.cov['dissolve_runs'] = {'runs': dr['executed'], 'clean': dr['completed'], 'counters': dr['counters'], 'nontrivial': dr['nontrivial']}
    traces = dr['extra']['traces']
    scen = dr['extra']['trace_scenarios']

    def rejected(i, t, k, info):
        ev = t[k] if k < len(t) else None
        if 'violated' in (info.get('error') or ''):
            what = 'recorded execution of the dissolver violates %s at event %d: %s' % (info['error'], k, ev)
        else:
            what = ('recorded execution of the dissolver is not a behaviour of spec/Dissolve: event %d %s cannot follow the matched prefix '
                    '(scenario %s)' % (k, json.dumps(ev), json.dumps(scen[i])))
        c.violation('trace:%s' % (ev.get('ev') if ev else '?'), what, {'scenario': scen[i], 'trace': t, 'matched_prefix': k})

    acc = _validate_traces(c, 'Dissolve', 'DissolveTrace', 'trace.cfg', traces, rejected)
    c.log('DissolveTrace: %d of %d recorded traces accepted' % (acc, len(traces)))
    c.cov['traces_validated_against_impl'] += acc
    c.cov['trace_events'] = sum(len(t) for t in traces)
    c.cov['samples'] += dr['samples'][:1]
    c.cov['rule'] = ('seeded random scenarios (1-3 workers, 1-6 jobs failing 0-3 times, run durations, submits before/after Run, Close early or after quiescence, '
                     'Submit after Close); jobs log their own start/end; observable monitor on every run + bounded-time quiescence for the liveness clause; first N traces '
                     'validated by TLC against DissolveTrace; non-trivial = >1 worker, >1 job and at least one failed run, distinct by trace')
    c.assumptions += ['"runs until success" is demanded while the dissolver is open: Close discards queued jobs by design (documented in dissolve.go); StrongLiveness in Dissolve.tla states the absolute reading, TLC refutes it (strong.cfg)',
                      '"no job executed after close" is kept as stated for the observable monitor: a job whose first statement is numbered after the return of Close() is reported as '
                      'dissolve:job-started-after-close-returned (the code allows it for a job a worker had already dequeued, at most one per worker: runWorker calls job() right after '
                      'queue.Wait() returns, with no harness-controllable step in between, so a directed scenario -- Close called while 2-3 workers cycle through instant jobs -- makes the schedule '
                      'likely but cannot force it); the specification itself models what the code does (no dequeue and no re-queue after Close, lateStarts <= 1 per worker)',
                      'the two clauses of the statement conflict at Close (it discards queued jobs): reading kept = retry-until-success while open',
                      'late starts are split by class: dissolve:job-started-after-close-returned = a job a worker had already removed from the queue (random runs, or a single late start in a probe round); '
                      'dissolve:queued-jobs-run-after-close = jobs still queued at Close (probe under GOMAXPROCS(1): >= 2 late starts in a round, confirmed by immediate re-execution); '
                      'the spec states the distinction as QueuedAtCloseNeverStarts',
                      'lost wake-up (Wait must check empty and park in one critical section): spec constant AtomicWait, invariant SomeoneWillLook; on the real code a 10 s (quick) / 150 s (thorough) stress '
                      'with a 3 s + 2 s watchdog -- a window of tens of nanoseconds can be missed by the stress, the verdict "held" is only as strong as the time spent',
                      'each job is submitted once; jobs fail a finite number of times',
                      'liveness on the real code is a bounded-time check (5 s; typical completion < 5 ms)']


# ------------------------------------------------------------------------------------------------ C42
def c42(c):
    quick = c.tier == 'quick'
    if not _FAST:
        r = c.tlc_exhaustive('Pools', 'Pools', 'quick.cfg' if quick else 'thorough.cfg', workers=8, timeout=1500)
        c.log('Pools (write/append/foreign/put): %d distinct / %d generated states' % (r['distinct'], r['states']))
        if not quick:
            r = c.tlc_exhaustive('Pools', 'Pools', 'reslice_bs.cfg', workers=8, timeout=1500)
            c.log('Pools bytes+slices with reslicing: %d distinct states' % r['distinct'])
        # model-level finding (rule 1): with reslicing before Put the item-buffer model violates GetOK; whether the real
        # code does is decided below by the replay (scripts with Reslice)
        r = c.tlc('Pools', 'Pools', 'reslice_items.cfg', workers=8, timeout=600, expect_violation=True)
        c.cov['model_counterexample_items_reslice'] = bool(r['error'] and 'GetOK' in r['error'])
        c.log('Pools items with reslicing: model %s' % ('violates GetOK (counterexample: Get, Write, Reslice shorter, Put, Get)' if c.cov['model_counterexample_items_reslice'] else 'holds'))
    binp = c.go_build('writer')
    # size-class transcription vs the three real implementations
    t = c.tlc_exhaustive('Pools', 'PoolsTable', 'table.cfg', dump=True, workers=2, timeout=300)
    rows = [{k: st[k] for k in ('tk', 'tv', 'tnext', 'tprev')} for st in c.dump_states(t)]
    tr = c.harness(binp, 'classes', rows)
    c.absorb(tr)
    c.cov['evaluations'] += tr['executed']
    c.cov['class_table_rows'] = tr['executed']
    # scripts
    nb = 300 if quick else 3000
    s = c.tlc('Pools', 'PoolsSim', 'sim.cfg', simulate=nb, depth=40, timeout=900)
    if not s['ok']:
        raise vf.Inconclusive('PoolsSim simulation failed: %s' % s['out'][-2000:])
    behs = [[{'kind': st['kind'], 'step': st['step']} for st in b] for b in c.behaviours(s)]
    res = c.harness(binp, 'pools', behs, timeout=600)
    c.absorb(res)
    c.cov['traces_validated_against_impl'] += res['completed']
    c.cov['evaluations'] += res['counters'].get('pool_ops', 0)
    c.cov['distinct_nontrivial'] += res['nontrivial']
    c.cov['samples'] += res['samples'][:2]
    c.cov['pool_replay'] = {'scripts': res['executed'], 'clean': res['completed'], 'counters': res['counters']}
    hits = sum(v for k, v in res['counters'].items() if k.startswith('pool_hits_'))
    if hits == 0:
        c.drifts.append({'what': 'pools replay: no Get was served from a pool (sync.Pool dropped everything): the binding is vacuous'})
    c.cov['rule'] = ('TLC -simulate of PoolsSim (Get/Write/Append/Reslice/Foreign/Put with lengths around powers of two up to above the largest class), replayed into '
                     'GetByteBuffer/PutByteBuffer, GetByteSlicesBuf/PutByteSlicesBuf, getItemBuf/putItemBuf on one locked OS thread with GC off; after every Get: '
                     'cap >= n, len = 0 (items: len = n and all visible entries zero); pool hits counted by pointer identity; non-trivial = script with >= 2 Puts, distinct by ops')
    c.assumptions += ['lengths >= 0 (GetByteBuffer of a negative length is outside the statement)',
                      'users do not keep using a buffer after Put (aliasing after Put is outside the statement)',
                      'sync.Pool modelled as a bag that may lose or withhold anything; the replay cannot force a drop, it counts the hits it got']


# ------------------------------------------------------------------------------------------------ registry
CHECKS = {'C12': c12, 'C40': c40, 'C42': c42}

_trusted = ' Trusted: TLC, lib/tlaparse.py, the harness comparison/monitor code, the overlay shims (plain forwarders).'
META = {
    'C12': dict(
        level='model_checking',
        text=('Two specifications. Ring.tla models internal/queue concretely (backing array, head, tail, cnt, size, initCap, the grow rule, the shrink rule of every '
              'Remove* variant, FinishCollect and the delayed-shrink timer, Close/CloseRemaining) next to an abstract FIFO; TLC checks exhaustively that the ring refines the '
              'FIFO, that every returned value is the FIFO prefix, and the Len/Size/Cap formulas. Writer.tla models writer.go over that FIFO with one action per critical '
              'section (enqueue = Add, size check, flush scheduling; the writer goroutine with and without WriteDelay; timer mode; close(flush)) for 2 producers and a closer; '
              'TLC checks written.batch.queued = enqueued in queue order until close or a write error, close(flush) delivers everything accepted, exactly the enqueue that sees '
              'size > max is answered DisconnectSlow, nothing queued is ever left without somebody due to write it, and (fairness) everything queued is eventually written. '
              'Binding: TLC-simulated operation sequences are replayed into the real queue comparing items, ok, Len, Size (Cap/head/tail as drift) after every operation; the '
              'real writer, constructed as Client.startWriter does, runs thousands of seeded random schedules in all modes with a recording transport, an observable-only monitor '
              'is evaluated on every run and recorded traces are validated by TLC as behaviours of Writer.tla (linearizability search over the unlogged inner steps).'),
        note=('Bounds: ring exhaustive initCap {1,2} (thorough {1,2,3}), <=6 (9) items, batch {-1,1,2,3}, buffers {1,2,8}; writer exhaustive 2 producers + closer, <=3 items quick / 5 thorough, '
              'frame {-1,1,2}, maxq {0,2}, one write error, modes plain/delay/timer; liveness config 3 items (thorough). Replay: 150/1500 sequences of 50 ops, capacities up to 64; '
              '1500/12000 writer runs, 60/400 traces validated. Time is not modelled (timers may fire at any moment); the liveness clause on the real code is a 5 s bounded wait.' + _trusted),
        technique='TLA+ refinement spec + TLC exhaustive; behaviour replay into internal/queue; trace validation + runtime monitor of the real writer'),
    'C40': dict(
        level='model_checking',
        text=('Dissolve.tla models the dissolver as the code is written: FIFO, N workers with Wait split into its two critical sections, Run (start/end), re-Add after a failure, '
              'Close that discards the queue and wakes everybody, Submit. TLC checks exhaustively: while open nothing is lost (exactly one copy of every unfinished job), a failed run '
              're-queues, no job runs after it succeeded or twice at once, after Close nothing is dequeued or re-queued and each worker starts at most the job it already held; under weak '
              'fairness and finite failures every submitted job eventually succeeds or the dissolver was closed, and workers exit after Close. The absolute reading of the statement '
              '("every job submitted before Close runs until success") contradicts the design (Close drops queued jobs, documented in dissolve.go) and "nothing runs after Close" is '
              'unreachable for a job already dequeued; both are recorded as assumptions, not demanded. Binding: the real Dissolver runs seeded scenarios with jobs that log their own '
              'start/end/result; a monitor and a bounded-time quiescence check run on every execution and recorded traces are validated by TLC against DissolveTrace.tla.'),
        note=('Bounds: exhaustive 2 workers, 3 jobs, <=1 failure each quick / <=2 thorough; liveness 2 jobs/1 failure quick, 3 jobs/2 failures thorough (no VIEW, no constraint). '
              'Runs: 1-3 workers, 1-6 jobs, 0-3 failures; 1500/12000 runs, 120/800 traces validated. The ring buffer inside dissolve/queue.go is not modelled concretely (abstract FIFO).' + _trusted),
        technique='TLA+ spec + TLC exhaustive (safety) and liveness under WF; trace validation + runtime monitor of the real Dissolver'),
    'C42': dict(
        level='model_checking',
        text=('Pools.tla models the three pools (byte buffers, byte-slice lists, writer item buffers) with the size-class functions transcribed from the code, every class a bag that may '
              'lose or withhold buffers (sync.Pool), and a user who may write, append (also beyond the capacity), replace, and -- in a separate configuration -- reslice the buffer before '
              'Put, or Put buffers of his own (capacity not a power of two, zero, above the largest class). TLC checks for every Get: capacity >= requested length and empty (len 0; item '
              'buffers: the `length` visible entries are zero Items), with the supporting pool invariant, over lengths {2^i-1, 2^i, 2^i+1} around the small classes and the largest class. '
              'With reslicing the item-buffer model violates the property (model-level counterexample kept in reslice_items.cfg); the replay decides on the real code. Binding: the transcribed '
              'size-class functions are compared with all three implementations over every 2^i-1, 2^i, 2^i+1; TLC-simulated Get/Write/Append/Reslice/Foreign/Put scripts are replayed into the '
              'real functions on one locked thread with GC off (pool hits counted by pointer identity) and the property is evaluated on every Get.'),
        note=('Bounds: exhaustive lengths {0..5} + around 2^11/2^12 (2^17/2^18 for bytes), one pooled buffer per kind quick / two thorough; scripts 300/3000 of 40 steps with lengths up to above the '
              'largest class. Negative lengths and use-after-Put are outside the statement.' + _trusted),
        technique='TLA+ spec + TLC exhaustive; function-table replay of the size-class functions; script replay into the real pools'),
}
