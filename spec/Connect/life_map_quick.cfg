SPECIFICATION Spec
CONSTANTS
  MaxSub = 2
  MaxUnsub = 2
INVARIANTS C08_Unsub
CHECK_DEADLOCK FALSE
