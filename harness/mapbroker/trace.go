package main

import (
	"encoding/json"
	"fmt"
	"math/rand"
	"sync"
	"time"

	"github.com/centrifugal/centrifuge"

	"verifharness/vh"
)

type traceIn struct {
	N     int `json:"n"`
	Ops   int `json:"ops"`
	Ticks int `json:"ticks"`
}

var traceCfgs = []chanCfg{
	{"rec", false, 1, 2, 3, 5}, {"rec", true, 3, 3, 1, 5}, {"rec", false, 2, 1, 4, 6}, {"rec", true, 1, 3, 6, 6},
	{"rec", false, 2, 2, 2, 4}, {"rec", true, 1, 2, 1, 1}, {"rec", false, 2, 3, 2, 2},
	{"per", false, 0, 2, 1, 0}, {"per", true, 0, 3, 2, 0}, {"eph", false, 1, 0, 0, 0}, {"eph", true, 2, 0, 0, 0},
}

func modelScore(s int64) int {
	switch {
	case s < -1:
		return -2
	case s > 1:
		return 2
	}
	return int(s)
}

// trace: a seeded random driver per channel against ONE real broker whose sweepers run; operations are spread over the
// middle of each tick so that they collide with the sweepers' wake-ups. One event per operation is recorded (model
// vocabulary) for validation against MapBrokerTrace.tla. Independently of the specification an observable-only monitor
// judges key expiry from the event-handler log: a removal only for a live key (never twice), never before the key's
// last refresh + TTL, and no key left after its deadline + slack.
func trace(in json.RawMessage, res *vh.Result) error {
	var cfg traceIn
	if err := json.Unmarshal(in, &cfg); err != nil {
		return err
	}
	reg := &registry{}
	tick := time.Second
	b, rec, closeFn := newBroker(reg, true)
	defer closeFn()
	// the sweepers wake about every second after registration: put those moments in the middle of the ticks
	base := time.Now().Add(tick / 2)
	traces := make([][]map[string]any, cfg.N)
	var wg sync.WaitGroup
	for ti := 0; ti < cfg.N; ti++ {
		wg.Add(1)
		go func(ti int) {
			defer wg.Done()
			traces[ti] = oneTrace(b, rec, reg, res, cfg, ti, base, tick)
		}(ti)
	}
	wg.Wait()
	res.Extra["traces"] = traces
	return nil
}

type opTime struct {
	key   string
	start int64
	end   int64
}

func oneTrace(b *centrifuge.MemoryMapBroker, rec *recorder, reg *registry, res *vh.Result, in traceIn, ti int, base time.Time, tick time.Duration) []map[string]any {
	rng := rand.New(rand.NewSource(vh.Seed()*1000003 + int64(ti)))
	cc := traceCfgs[rng.Intn(len(traceCfgs))]
	ch := fmt.Sprintf("tr%d_%d", vh.Seed(), ti)
	reg.set(ch, cc.options(tick))
	ep := newEpochs()
	keys := []string{"a", "b", "c"}
	evs := []map[string]any{{"ev": "Cfg", "cf": map[string]any{"mode": cc.Mode, "ord": cc.Ord, "kttl": cc.KTTL, "size": cc.Size, "sttl": cc.STTL, "mttl": cc.MTTL}}}
	now, npub := 0, 0
	var refreshes []opTime // applied publishes and keep-alives of keys (for the monitor)
	var log []bcast        // everything the handler received for the channel, in order
	clears := map[int]bool{}
	mid := func(n int) time.Time { return base.Add(time.Duration(n)*tick + tick/2) }
	spread := func() { // somewhere in the middle 40 % of the tick, never backwards
		at := mid(now).Add(time.Duration(rng.Int63n(int64(tick)*2/5)) - tick/5)
		time.Sleep(time.Until(at))
	}
	late := func() bool { return time.Since(mid(now)) > tick/4 } // deadlines stay within [-0.2, +0.25] tick of their boundary
	takeBc := func() []bcast {
		h := rec.take(ch)
		log = append(log, h...)
		return h
	}
	ownBc := func(h []bcast, own func(bcast) bool) []map[string]any {
		out := []map[string]any{}
		for _, x := range h {
			if own(x) {
				out = append(out, map[string]any{"off": x.Off, "key": x.Key, "rm": x.Rm, "id": x.ID})
			}
		}
		return out
	}
	peek := func() {
		s := centrifuge.VerifMapPeek(b, ch)
		ks, offs, ids := []string{}, []int{}, []int{}
		for _, e := range s.State {
			ks = append(ks, e.Key)
			offs = append(offs, int(e.Offset))
			id := 0
			fmt.Sscan(string(e.Data), &id)
			ids = append(ids, id)
		}
		win := []map[string]any{}
		for _, it := range s.Stream {
			id := 0
			fmt.Sscan(string(it.Data), &id)
			win = append(win, map[string]any{"off": int(it.Offset), "key": it.Key, "rm": it.Removed, "id": id})
		}
		evs = append(evs, map[string]any{"ev": "Peek", "chEx": s.Exists, "keys": ks, "offs": offs, "ids": ids, "top": int(s.Top), "win": win})
	}
	casArg := func() map[string]any {
		if cc.Mode == "eph" || rng.Intn(3) > 0 {
			return map[string]any{"has": false, "off": 0, "ep": 0}
		}
		s := centrifuge.VerifMapPeek(b, ch)
		if len(s.State) > 0 && rng.Intn(2) == 0 { // the real position of a key (read-only look, the call below decides)
			e := s.State[rng.Intn(len(s.State))]
			return map[string]any{"has": true, "off": int(e.Offset), "ep": ep.number(s.Epoch)}
		}
		return map[string]any{"has": true, "off": rng.Intn(5), "ep": rng.Intn(3)}
	}
	updEv := func(name string, a map[string]any, got updRes, bc []map[string]any) map[string]any {
		cur := []map[string]any{}
		for _, c := range got.Cur {
			cur = append(cur, map[string]any{"off": c.Off, "id": c.ID})
		}
		return map[string]any{"ev": name, "args": a, "bc": bc,
			"res": map[string]any{"err": got.Err != "", "sup": got.Sup, "off": got.Off, "ep": ep.number(got.Ep), "cur": cur}}
	}
	pubEv := func(a map[string]any) updRes {
		t0 := time.Now().UnixMilli()
		got := doPublish(b, ch, a, ep, tick)
		t1 := time.Now().UnixMilli()
		h := takeBc()
		if got.Err == "" && (got.Sup == "" || (got.Sup == "key_exists" && vh.Str(a["km"]) == "if_new_refresh")) {
			refreshes = append(refreshes, opTime{vh.Str(a["key"]), t0, t1})
		}
		id := vh.Int(a["id"])
		evs = append(evs, updEv("Publish", a, got, ownBc(h, func(x bcast) bool { return !x.Rm && x.ID == id })))
		time.Sleep(1200 * time.Microsecond)
		return got
	}
	remEv := func(a map[string]any) updRes {
		got := doRemove(b, ch, a, ep, tick)
		h := takeBc()
		applied := got.Err == "" && got.Sup == ""
		var mine []map[string]any
		if applied {
			// the removal this call produced: by its offset on stream-backed channels, else the last removal of the key
			idx := -1
			for j, x := range h {
				if x.Rm && x.Key == vh.Str(a["key"]) && (!cc.hasStream() || x.Off == got.Off) {
					idx = j
				}
			}
			if idx >= 0 {
				x := h[idx]
				mine = []map[string]any{{"off": x.Off, "key": x.Key, "rm": true, "id": 0}}
				log[len(log)-len(h)+idx].ID = -1 // marks "by Remove" for the monitor
			}
		}
		if mine == nil {
			mine = []map[string]any{}
		}
		evs = append(evs, updEv("Remove", a, got, mine))
		return got
	}
	noCas := func() map[string]any { return map[string]any{"has": false, "off": 0, "ep": 0} }
	time.Sleep(time.Until(mid(0)))
	// C19 witness (a third of the traces): an idempotency key is saved with the shortest TTL, saved AGAIN after that TTL
	// elapsed (early in the tick, before the result-cache cleaner wakes and pops the first save's queue item), and
	// retried one tick later inside the second TTL: the retry has to be suppressed. Publish or Remove.
	if rng.Intn(3) == 0 && in.Ticks >= 3 {
		wpub := func(ittl int) {
			npub++
			pubEv(map[string]any{"key": "a", "km": "", "cas": noCas(), "v": 0, "ve": "", "ik": "kw", "ittl": ittl, "sc": 0, "id": npub})
		}
		wrem := func(ittl int) { remEv(map[string]any{"key": "a", "cas": noCas(), "ik": "kw", "ittl": ittl}) }
		tickTo := func() {
			now++
			time.Sleep(time.Until(mid(now).Add(-tick / 5)))
			evs = append(evs, map[string]any{"ev": "Tick", "now": now})
		}
		useRemove := cc.KTTL != 1 && rng.Intn(2) == 0
		if useRemove {
			npub++
			pubEv(map[string]any{"key": "a", "km": "", "cas": noCas(), "v": 0, "ve": "", "ik": "", "ittl": 1, "sc": 0, "id": npub})
			wrem(1) // applied: saves the result with TTL 1
			tickTo()
			npub++
			pubEv(map[string]any{"key": "a", "km": "", "cas": noCas(), "v": 0, "ve": "", "ik": "", "ittl": 1, "sc": 0, "id": npub})
			wrem(3) // first TTL elapsed: fresh, applied, saved again
			tickTo()
			spread()
			wrem(3) // inside the second TTL: suppressed by idempotency
		} else {
			wpub(1)
			tickTo()
			wpub(3)
			tickTo()
			spread()
			wpub(3)
		}
		res.Count("c19_witness_segments", 1)
	}
	for i := 0; i < in.Ops && !late(); i++ {
		switch r := rng.Intn(20); {
		case r < 4:
			if now >= in.Ticks {
				continue
			}
			now++
			time.Sleep(time.Until(mid(now).Add(-tick / 5)))
			evs = append(evs, map[string]any{"ev": "Tick", "now": now})
			spread()
			if rng.Intn(2) == 0 {
				takeBc()
				peek()
			}
		case r < 11:
			npub++
			v := 0
			ve := ""
			if cc.Mode != "eph" && rng.Intn(3) == 0 {
				v = 1 + rng.Intn(3)
				ve = []string{"", "va", "vb"}[rng.Intn(3)]
			}
			ik := ""
			ittl := 1
			if rng.Intn(3) == 0 { // repeats inside the TTL, re-saves after it (stale cleaner items), retries
				ik = []string{"k1", "k2"}[rng.Intn(2)]
				ittl = 1 + rng.Intn(3)
			}
			sc := 0
			if cc.Ord {
				sc = rng.Intn(3) - 1
			}
			a := map[string]any{"key": keys[rng.Intn(3)], "km": []string{"", "", "if_new", "if_new_refresh", "if_new_refresh", "if_exists"}[rng.Intn(6)],
				"cas": casArg(), "v": v, "ve": ve, "ik": ik, "ittl": ittl, "sc": sc, "id": npub}
			pubEv(a)
		case r < 13:
			ik := ""
			if rng.Intn(4) == 0 {
				ik = []string{"k1", "k2"}[rng.Intn(2)]
			}
			a := map[string]any{"key": keys[rng.Intn(3)], "cas": casArg(), "ik": ik, "ittl": 1 + rng.Intn(3)}
			if ik == "" {
				a["ittl"] = 1
			}
			remEv(a)
		case r < 14:
			if rng.Intn(3) > 0 {
				continue
			}
			if err := b.Clear(bg, ch, centrifuge.MapClearOptions{}); err != nil {
				res.Violate("C20", "clear:error", err.Error(), nil)
				return nil
			}
			takeBc()
			clears[len(log)] = true
			evs = append(evs, map[string]any{"ev": "Clear"})
		case r < 17:
			curArg := map[string]any{"has": false, "sc": 0, "k": ""}
			if rng.Intn(2) == 0 {
				curArg = map[string]any{"has": true, "sc": 0, "k": keys[rng.Intn(3)]}
				if cc.Ord {
					curArg["sc"] = rng.Intn(3) - 1
				}
			}
			a := map[string]any{"cur": curArg, "limit": []int{-1, 0, 1, 2, 3}[rng.Intn(5)], "asc": rng.Intn(2) == 0, "key": "", "rev": map[string]any{"has": false, "ep": 0}}
			if rng.Intn(4) == 0 {
				a = map[string]any{"cur": map[string]any{"has": false, "sc": 0, "k": ""}, "limit": -1, "asc": false, "key": keys[rng.Intn(3)], "rev": map[string]any{"has": false, "ep": 0}}
			} else if rng.Intn(5) == 0 {
				a["rev"] = map[string]any{"has": true, "ep": rng.Intn(3)}
			}
			got := doReadState(b, ch, a, ep, cc.Ord)
			pubs := []map[string]any{}
			for _, p := range got.Pubs {
				pubs = append(pubs, map[string]any{"key": p.Key, "off": p.Off, "id": p.ID, "sc": modelScore(p.Sc)})
			}
			next := map[string]any{"has": false, "sc": 0, "k": ""}
			if got.Next != "" {
				// decode the cursor through the entries of the page (it names the last one)
				if n := len(got.Pubs); n > 0 && cursorStr(map[string]any{"has": true, "sc": modelScore(got.Pubs[n-1].Sc), "k": got.Pubs[n-1].Key}, cc.Ord) == got.Next {
					next = map[string]any{"has": true, "sc": 0, "k": got.Pubs[n-1].Key}
					if cc.Ord {
						next["sc"] = modelScore(got.Pubs[n-1].Sc)
					}
				} else {
					res.Violate("C21", "readstate:cursor", fmt.Sprintf("ReadState returned cursor %q that does not name the last entry of its page %s", got.Next, vh.J(got.Pubs)), nil)
					return nil
				}
			}
			evs = append(evs, map[string]any{"ev": "ReadState", "args": a,
				"res": map[string]any{"err": got.Err != "", "pubs": pubs, "off": got.Off, "ep": ep.number(got.Ep), "next": next}})
		default:
			since := map[string]any{"has": false, "off": 0, "ep": 0}
			if rng.Intn(3) > 0 {
				since = map[string]any{"has": true, "off": rng.Intn(npub + 2), "ep": rng.Intn(3)}
			}
			a := map[string]any{"since": since, "limit": rng.Intn(5) - 1, "reverse": rng.Intn(2) == 0}
			got := doReadStream(b, ch, a, ep)
			evs = append(evs, map[string]any{"ev": "ReadStream", "args": a,
				"res": map[string]any{"err": got.Err != "", "pubs": got.Pubs, "off": got.Off, "ep": ep.number(got.Ep)}})
		}
		if late() {
			// the last event may have left its window: drop it, keep the valid prefix
			evs = evs[:len(evs)-1]
			res.Count("truncated_late", 1)
			break
		}
	}
	// let every deadline pass (plus sweeper slack), then look: nothing with a TTL may be left
	if cc.KTTL > 0 && !late() {
		for k := 0; k < cc.KTTL+3; k++ {
			now++
			time.Sleep(time.Until(mid(now)))
			evs = append(evs, map[string]any{"ev": "Tick", "now": now})
		}
		takeBc()
		peek()
		if s := centrifuge.VerifMapPeek(b, ch); len(s.State) > 0 {
			res.Violate("C24", "monitor:key-not-removed", fmt.Sprintf("%d ticks after the last operation key %s (TTL %d ticks) is still in the state of %+v", cc.KTTL+3, s.State[0].Key, cc.KTTL, cc), map[string]any{"trace": evs})
		}
	}
	takeBc()
	// ---- observable-only monitor over the handler log
	live := map[string]bool{}
	lastOff := -1
	lastEp := ""
	ttl := dur(cc.KTTL, tick).Milliseconds()
	for i, x := range log {
		if clears[i] {
			live = map[string]bool{}
			lastOff = -1
		}
		if x.Ep != lastEp {
			live = map[string]bool{}
			lastOff = -1
			lastEp = x.Ep
		}
		if cc.hasStream() {
			if lastOff >= 0 && x.Off != lastOff+1 {
				res.Violate("C20", "monitor:offsets-not-dense", fmt.Sprintf("event handler saw offset %d after %d in one epoch of %+v", x.Off, lastOff, cc), map[string]any{"log": log, "trace": evs})
			}
			lastOff = x.Off
		}
		if !x.Rm {
			live[x.Key] = true
			continue
		}
		if !live[x.Key] {
			res.Violate("C24", "monitor:removal-of-absent-key", fmt.Sprintf("removal of key %s broadcast (offset %d) while the key was not in the state: removed twice (%+v)", x.Key, x.Off, cc), map[string]any{"log": log, "trace": evs})
		}
		delete(live, x.Key)
		if x.ID != -1 { // an expiry removal: not before the last completed refresh + TTL
			res.Count("expiry_removals_observed", 1)
			for _, rf := range refreshes {
				if rf.key == x.Key && rf.end < x.At-1 && x.At < rf.start+ttl-2 {
					res.Violate("C24", "monitor:refreshed-key-removed", fmt.Sprintf("key %s removed by expiry %d ms after a completed publish/keep-alive, TTL %d ms (%+v)", x.Key, x.At-rf.start, ttl, cc), map[string]any{"log": log, "trace": evs})
				}
			}
		}
	}
	res.Done(1, 1)
	return evs
}
