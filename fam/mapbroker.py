"""C20, C21 (memory half), C24 -- spec/MapBroker bound to the real MemoryMapBroker (map_broker_memory.go, map_broker.go).
(The map half of C19 -- per-key versions, idempotency -- is stated as action properties of the same spec (VersionExact,
UnversionedKeepsVersion, VersionedStoresVersion, IdemReturnsOriginal, IdemSavedOnApply) and is checked together with C20;
the C19 check itself is owned by fam/membroker.py.)

Pieces
  spec/MapBroker/MapBroker.tla        one channel: state, stream window, epochs, idempotency cache, the three sweepers, two-phase
                                      key expiry (ExpirePhase1 / ExpirePhase2), pagination operators + independent SortedKeys
  quick-{checks,time,idem}.cfg        exhaustive (quick); thorough-{checks,time,idem,modes,race}.cfg (thorough)
  MapBrokerSim.tla sim.cfg sim-c19.cfg manual.cfg  behaviour generators (own sweepers, Deterministic / manual sweeps with a gate between the phases)
  MapBrokerPages.tla pages*.cfg       C21 table: all key sets over {a,b,c,d} x score assignments, all page sizes, both directions
  MapBrokerTrace.tla trace.cfg        trace validation of recorded executions (thorough tier)
  harness/mapbroker (replay, expiry, pages, trace), overlay/mapbroker/shim.go (option setters, handler without goroutines,
                                      manual expireKeysIteration, read-only snapshot)

c19_map(c) is the entry point for the lead's C19 check (map half): the result cache is modelled as the code has it (entries +
expiry-queue items that can be stale + the once-a-second cleaner SweepIdem that re-checks the current entry), judged against a
ghost cache that no cleaner touches (IdemExact, IdemSweepKeepsValid).

No hook in /repo is needed: the window between phase 1 and phase 2 of expireKeysIteration is held open by a natural gate
(phase 2 calls the event handler for a decoy channel whose key expires first; the harness' handler parks there).

Findings on the unchanged tree: none (seeds 1-5 quick, seed 1 thorough: exit 0).  Observations (not violations of the statements):
a channel whose MetaTTL equals (or is within ~1 s of) its KeyTTL can be dropped by removeChannels before expireKeys ran, the
keys then vanish without removal broadcast (the epoch changes, clients resync); expired-but-unswept keys (<= 1 s) still count as
existing for key modes / CAS / versions and are returned by ReadState; per-key version memory ends with Remove / expiry.

Mutation testing (FRAMEWORK.md rule 3; scratch worktrees /tmp/mapbroker-<name>, `VERIF_REPO=... ./check Cxx --tier quick`, all
worktrees removed).  exit 1 = caught.
 C20
  cas_before_keymode            CAS block of mapHub.add moved before the key-mode block                    exit 1 (reason position_mismatch != key_not_found / key_exists)
  suppressed_refreshes_version  key_exists-suppressed publish stores its (higher) version                  exit 1 (snapshot: stored version)
  suppressed_appends            key_not_found-suppressed publish still calls stream.Add                    exit 1 (returned offset / stream)
  version_lt                    `opts.Version < existing.Version` instead of <=                            exit 1 (equal version accepted; reason order)
  unversioned_resets_version    unversioned publish stores version 0                                       exit 1 (snapshot: stored version)
  clear_keeps_result_cache      Clear does not clear the channel's idempotency results                     exit 1 (idempotency after Clear; needed the SimIdem slot)
  broadcast_offset_before_incr  HandlePublication gets offset-1                                            exit 1 (broadcast offset)
  cas_ignores_epoch             CAS compares the offset only                                               exit 1 (applied where position_mismatch expected)
  remove_notfound_before_cas    Remove reports key_not_found before the CAS check                          exit 1
  idem_saved_on_suppress        suppressed publishes save an idempotency result                            exit 1
  remove_no_stream_ttl_touch    Remove does not extend the stream TTL                                      exit 1 (stream survives its model deadline); bookkeeping-only runs: exit 2
  (asked for but not applicable: "if-exists treats an expired-but-unswept key as existing" IS the code's behaviour -- existence is
   membership in channel.state, deadlines are only acted on by the sweeper; modelled as such.)
 C19 (map half; `c19_map` and C20)
  cleaner_no_recheck            expireResultCache deletes the entry whenever it pops an item of the key   exit 1 (a stale item of an older save / of before a Clear
                                (re-check `entry.ExpireAt <= now` dropped)                                 evicts the newer result: retry applied instead of suppressed)
  (seed C24-2, see C24)
 C21
  seed C21-3 (add(): `sortedKeysDirty = !keyExisted || score changed` as an assignment clears a dirty flag an earlier write owed)   exit 1
                                (pages:stale-sorted-view: per table state, after a read built the sorted view: rescore a / remove + add, then re-publish
                                another key unchanged, then walks in both directions against the table's order of the new state; panics are caught)
  seed C21-4 (getState holds channel.mu only around the rebuild of sortedKeys)                                     exit 1 (pages:concurrent-opposite-readers:
                                mode `readers`, 4000 keys with score ties, 2 ascending + 2 descending walkers, page sizes -1/1000/250, 3 s)
  seed C21-2 (upgrade branch of add() dropped: a channel object created by ReadState/ReadStream stays unordered)   exit 1 (pages table: every state is also built
                                after a read-before-first-publish / Clear+read / remove-all+read; replay: snapshot of channel.ordered against the model's chOrd)
  tie_cursor                    ordered cursor search uses >= / <= on equal scores                         exit 1 (duplicate key, no progress)
  desc_skips_first              descending pages start one past the cursor position                        exit 1
  unordered_restart             unordered cursor of a removed key restarts at 0                            exit 1 (probe with absent cursor key)
  cursor_off_by_one             next cursor names the second-to-last key of the page                       exit 1 (pages table only)
  sort_cache_ignores_direction  sorted-key cache not rebuilt when Asc changes                              exit 1
  single_key_ignores_missing    Key lookup of an absent key returns another entry                          exit 1
  score_parse_32bit             cursor score parsed with bitSize 32                                        exit 1 (min/max int64 scores)
 C24
  seed C24-3 (phase 2 releases pubLock before HandlePublication(removal))                                        exit 1 (expiry:removal-broadcast-after-later-publication:
                                the sweeper is parked inside its handler call, the model's next write of the channel is started concurrently; on HEAD it
                                waits, on the seed its broadcast overtakes the removal; model: SplitDeliver / ExpiryHoldsPubLock, ExpireDeliver,
                                HandlerInOffsetOrder, SubscriberConverges, WritersWaitForSweeper; order-cex.cfg must be refuted by TLC)
  seed C24-2 (h.nextKeyExpireCheck stored at the very end of the iteration with the phase-1 value)               exit 1 (expiry:sweep-idle: the next decoy key is
                                published INSIDE the parked sweep's window; the forgotten deadline leaves the sweeper idle and the expired key is never
                                removed; model: variable nkc, Arm(), invariant SweeperArmed)
  phase2_no_revalidation        phase 2 removes whenever the key exists (deadline not compared)            exit 1 (gated expiry mode only: refreshed key removed)
  broadcast_without_stream_entry phase 2 does not append the removal                                       exit 1
  double_removal                phase 2 also "removes" a key that is gone                                  exit 1 (expiry + replay + trace monitor)
  keepalive_leaves_entry_deadline RefreshTTLOnSuppress updates the queue but not entry.ExpireAt            exit 1 (deadline; key never expires)
  stream_entry_without_broadcast phase 2 never dispatches                                                  exit 1
  phase1_deletes_state          state deleted in phase 1, phase 2 only appends (the pre-fix design)        exit 1 (10 signatures)
  refresh_not_requeued_in_phase2 a key refreshed between the phases loses its keyExpires entry             exit 1 (gated expiry mode only: key never expires)
  leaves_ordered_index          phase 2 keeps channel.scores[key] / does not mark sortedKeys dirty        exit 2: unobservable through the API (the sorted
                                cache is rebuilt because its length differs; scores are only read for keys of the state) -- reported as drift
  remove_keeps_keyexpires       Remove leaves keyExpires[ch,key]                                           exit 0: equivalent (phase 1 drops entries of absent keys)
"""
import os

from lib import vf

SPEC = 'MapBroker'
WORKERS = int(os.environ.get('VERIF_TLC_WORKERS') or 8)


def _exhaustive(c, cfgs, timeout=1500):
    for cfg in cfgs:
        r = c.tlc_exhaustive(SPEC, 'MapBroker', cfg, workers=WORKERS, timeout=timeout)
        c.log('TLC exhaustive %s: %d distinct / %d generated states, depth %d, %.0f s'
              % (cfg, r['distinct'], r['states'], r['depth'], r['wall_s']))


def _order_counterexample(c):
    """Sensitivity of the handler-order properties: the design that releases the publish lock before the sweeper's
    HandlePublication call (ExpiryHoldsPubLock = FALSE) must be refuted by TLC (a later publication overtakes the removal)."""
    r = c.tlc(SPEC, 'MapBroker', 'order-cex.cfg', workers=WORKERS, timeout=600, expect_violation=True)
    err = r.get('error') or ''
    if r['ok'] or not ('HandlerInOffsetOrder' in err or 'SubscriberConverges' in err or 'WritersWaitForSweeper' in err):
        raise vf.Inconclusive('order-cex.cfg (sweeper releases pubLock before its handler call) is not refuted by the handler-order '
                              'properties any more: %s' % (err or 'no error'))
    c.log('TLC order-cex.cfg: counterexample as expected (%s)' % err[:90])
    c.cov['order_counterexample'] = err[:120]


def _simulate(c, cfg, n, depth=30):
    s = c.tlc(SPEC, 'MapBrokerSim', cfg, simulate=n, depth=depth, timeout=1500)
    if not s['ok']:
        raise vf.Inconclusive('simulation %s failed: %s' % (cfg, s['out'][-2000:]))
    behs = c.behaviours(s)
    c.log('TLC simulate %s: %d behaviours' % (cfg, len(behs)))
    return behs


def _take(c, res, what):
    c.absorb(res)
    c.cov['traces_validated_against_impl'] += res['completed']
    c.cov['evaluations'] += res['executed']
    c.cov['distinct_nontrivial'] += res['nontrivial']
    c.cov['samples'] += (res.get('samples') or [])[:1]
    c.cov.setdefault('harness_counters', {})[what] = res['counters']
    c.log('%s: %d executed, %d completed, %d non-trivial, counters %s' % (what, res['executed'], res['completed'], res['nontrivial'], res['counters']))
    late = res['counters'].get('skipped_late', 0)
    if res['executed'] and res['completed'] * 2 < res['executed'] and not res.get('violations'):
        raise vf.Inconclusive('%s: only %d of %d behaviours ran inside their time windows (%d abandoned as late): machine too loaded'
                              % (what, res['completed'], res['executed'], late))


def _timed(c, binp, behs):
    """Real-time replay (1 tick = 1 s, all behaviours of a wave wake in the same moments): on a loaded machine many
    operations miss their time window and the behaviour is abandoned (never judged). Retried with smaller waves."""
    res = c.harness(binp, 'replay', behs, timeout=600)
    for wave in ('80', '30'):
        if not res['executed'] or res['completed'] * 2 >= res['executed'] or res.get('violations'):
            break
        c.notes.append('replay: only %d of %d behaviours ran inside their time windows; retried with waves of %s' % (res['completed'], res['executed'], wave))
        res = c.harness(binp, 'replay', behs, timeout=1500, env={'VERIF_WAVE': wave})
    return res


def _replay(c, binp, n):
    behs = _simulate(c, 'sim.cfg', n)
    res = _timed(c, binp, behs)
    _take(c, res, 'replay')


def _expiry(c, binp, n):
    behs = _simulate(c, 'manual.cfg', n)
    res = c.harness(binp, 'expiry', behs, timeout=600)
    _take(c, res, 'expiry')


def _trace(c, binp, n):
    tr = c.harness(binp, 'trace', {'n': n, 'ops': 26, 'ticks': 7}, timeout=600)
    c.absorb(tr)
    traces = [t for t in (tr.get('extra') or {}).get('traces', []) if t]
    c.cov.setdefault('harness_counters', {})['trace'] = tr['counters']
    accepted = 0
    remaining = list(traces)
    for _round in range(8):
        events, bounds = [], []
        for t in remaining:
            events += t
            events.append({'ev': 'Reset'})
            bounds.append(len(events))
        if not events:
            break
        ok, info = c.validate_trace(SPEC, 'MapBrokerTrace', 'trace.cfg', events, timeout=900)
        if ok:
            accepted += len(remaining)
            break
        pref = info.get('matched_prefix', 0)
        bad_i = next((i for i, b in enumerate(bounds) if pref < b), len(remaining) - 1)
        t = remaining[bad_i]
        ok1, info1 = c.validate_trace(SPEC, 'MapBrokerTrace', 'trace.cfg', t + [{'ev': 'Reset'}], timeout=300)
        if ok1:
            raise vf.Inconclusive('batch trace rejected but the single trace is accepted: %s' % info)
        k = info1.get('matched_prefix', 0)
        ev = t[k] if k < len(t) else None
        p = _trace_prop(t, k)
        if 'violated' in (info1.get('error') or ''):
            what = 'recorded execution violates %s at event %d: %s' % (info1['error'], k, ev)
        else:
            what = ('recorded execution is not a behaviour of the reference map: event %d %s is not allowed after the '
                    'matched prefix (channel options %s)' % (k, ev, t[0].get('cf')))
        if c.prop in p:
            c.violation('trace:%s%s' % (ev.get('ev') if ev else '?', (':' + ev['res'].get('sup', '')) if ev and 'res' in ev and isinstance(ev['res'], dict) and ev['res'].get('sup') else ''),
                        what, {'trace': t, 'matched_prefix': k})
        accepted += bad_i
        remaining = remaining[bad_i + 1:]
    else:
        c.notes.append('more than 8 rejected traces; %d traces left unvalidated' % len(remaining))
    c.cov['traces_validated_against_impl'] += accepted
    c.cov['evaluations'] += len(traces)
    c.cov['trace_events'] = sum(len(t) for t in traces)
    if traces:
        c.cov['samples'].append({'recorded_trace': traces[0][:10]})
    c.log('trace: %d traces recorded, %d accepted by MapBrokerTrace, counters %s' % (len(traces), accepted, tr['counters']))


def _trace_prop(t, k):
    """The properties a rejected event belongs to: pagination for ReadState pages; key expiry when the channel has a key
    TTL and a read / snapshot disagrees; writes that carry an idempotency key or a version (or were suppressed for one
    of the two) also belong to the map half of C19."""
    ev = t[k] if k < len(t) else None
    if not ev:
        return {'C20'}
    if ev.get('ev') == 'ReadState' and not ev['args'].get('key') and ev['args'].get('limit') != 0:
        return {'C21'}
    cf = t[0].get('cf') or {}
    if cf.get('kttl', 0) > 0 and ev.get('ev') in ('ReadState', 'ReadStream', 'Peek'):
        return {'C24'}
    if ev.get('ev') in ('Publish', 'Remove'):
        a, r = ev.get('args') or {}, ev.get('res') or {}
        if a.get('ik') or a.get('v', 0) > 0 or r.get('sup') in ('idempotency', 'version'):
            return {'C20', 'C19'}
    return {'C20'}


ASSUME = ['memory map broker only: the Redis half (Lua scripts) cannot be executed in this sandbox',
          'single channel per behaviour (every map of the code is keyed by channel; the per-channel pubLock serialises writers)',
          'tick clock: one model tick = 1 s (own sweeper goroutines) or 400 ms (manual sweeps); every TTL is configured as k-1/2 ticks so '
          'that every deadline is a tick boundary; behaviours whose operations would start later than 0.4 tick after the middle of their tick are abandoned, not judged',
          'a sweeper that is late (load) gets 0.6 s of slack before the state is judged; the behaviour is then abandoned as late',
          'delta publishing (UseDelta/prevPub), tags, client info and keyless publishes are outside the spec']


def c20(c):
    quick = c.tier == 'quick'
    _exhaustive(c, ['quick-checks.cfg', 'quick-time.cfg', 'quick-idem.cfg'] if quick else ['thorough-checks.cfg', 'thorough-time.cfg', 'thorough-idem.cfg', 'thorough-modes.cfg'])
    binp = c.go_build('mapbroker')
    _replay(c, binp, 200 if quick else 1500)
    if not quick:
        _trace(c, binp, 300)
    c.cov['rule'] = ('behaviours: TLC -simulate of MapBrokerSim (slots + state hash; aimed slots for CAS hits and for publishes where two or three '
                     'checks would each suppress), replayed on ONE real MemoryMapBroker with its sweeper goroutines running, 1 tick = 1 s; compared '
                     'before and after every operation: result, read-only snapshot of the channel, event-handler calls. non-trivial = completed '
                     'behaviour with a suppressed/rejected write, a key expiry or a non-empty read, distinct by operation list')
    c.assumptions += ASSUME


def c21(c):
    quick = c.tier == 'quick'
    r = c.tlc_exhaustive(SPEC, 'MapBrokerPages', 'pages.cfg' if quick else 'pages-thorough.cfg', workers=WORKERS, timeout=1500, dump=True)
    c.log('TLC pages table: %d states' % r['distinct'])
    states = c.dump_states(r)
    binp = c.go_build('mapbroker')
    res = c.harness(binp, 'pages', states, timeout=600)
    _take(c, res, 'pages')
    # reads are atomic w.r.t. each other (blocking assumption of the spec): concurrent walks in both directions, no writer
    rd = c.harness(binp, 'readers', {'keys': 4000, 'seconds': 3 if quick else 10}, timeout=300)
    _take(c, rd, 'readers')
    _exhaustive(c, ['quick-checks.cfg'] if quick else ['thorough-checks.cfg'])
    _replay(c, binp, 100 if quick else 1000)
    c.cov['rule'] = ('table: every key set over {a,b,c,d} x every score assignment (quick: scores {min int64, 0, max int64}, thorough: {min, -1, 0, 1, max}; '
                     'ties included) for ordered channels and every key set for unordered ones; per state all page sizes 1..5 x both directions walked '
                     'to the end on the real broker, every page and cursor compared with the transcription, the concatenation with the independent '
                     'SortedKeys; 40 pages from arbitrary cursor positions; single-key reads of all keys. non-trivial = states with >= 2 keys. '
                     'Plus ReadState steps with random cursors inside the replayed behaviours (state changing between pages)')
    c.assumptions += ASSUME[:2] + ['page size bound 5, 4 keys']


def c24(c):
    quick = c.tier == 'quick'
    _exhaustive(c, ['quick-time.cfg', 'quick-order.cfg'] if quick else ['thorough-time.cfg', 'thorough-race.cfg', 'quick-order.cfg'])
    _order_counterexample(c)
    binp = c.go_build('mapbroker')
    _expiry(c, binp, 160 if quick else 1200)
    _replay(c, binp, 100 if quick else 1000)
    if not quick:
        _trace(c, binp, 300)
    c.cov['rule'] = ('expiry: TLC -simulate of MapBrokerSim with Manual=TRUE; one broker per behaviour built without its cleanup goroutines, the harness '
                     'calls expireKeysIteration and parks it between phase 1 and phase 2 (the event-handler call for a decoy channel whose key expires '
                     'first), runs the model\'s operations in the window, then lets phase 2 finish; removal broadcasts, stream and state compared. '
                     'non-trivial = behaviours with a write between the phases. broadcast-order probe: when the sweep removes keys and the model\'s '
                     'next step is an applied write of the channel, the sweeper is parked inside its HandlePublication(removal) call and the write '
                     'is started on another goroutine: it has to wait (counter order_probe_writer_waited...), and the handler must not see the '
                     'later publication before the removal call returned. replay: as C20, the sweeps are the broker\'s own')
    c.assumptions += ASSUME


def c19_map(c):
    """Map half of C19 (idempotent and versioned publishes suppress exactly the duplicates), to be called by the C19 check:
    the exhaustive configurations that carry idempotency keys / versions, then behaviours of MapBrokerSim with the
    idempotency- and version-aimed slots weighted up (sim-c19.cfg) replayed on the real broker; violations tagged C19
    (suppress-reason mismatches involving idempotency or version, idempotent position, stored per-key version)."""
    quick = c.tier == 'quick'
    _exhaustive(c, ['quick-idem.cfg', 'quick-checks.cfg'] if quick else ['thorough-idem.cfg', 'thorough-checks.cfg'])
    binp = c.go_build('mapbroker')
    behs = _simulate(c, 'sim-c19.cfg', 200 if quick else 1500)
    res = _timed(c, binp, behs)
    _take(c, res, 'replay-c19')
    if not quick:
        _trace(c, binp, 300)
    c.cov['rule'] = ((c.cov.get('rule') or '') + ' | map half: TLC -simulate of MapBrokerSim with Focus19 (repeats of an idempotency key inside its TTL, '
                     're-saves after the first TTL elapsed followed by the cache cleaner and a retry, Publish and Remove; versioned publishes below / at / above '
                     'the stored per-key version, same or other version epoch, unversioned in between), replayed on the real MemoryMapBroker with its '
                     'once-a-second result-cache cleaner placed 0.25 s after the operations of each tick').strip(' |')
    c.assumptions += [a for a in ASSUME if a not in c.assumptions]


CHECKS = {'C20': c20, 'C21': c21, 'C24': c24}

_note = ('Bounds: exhaustive configs 1 channel, 2 keys, <=3-4 operations (quick) / <=4-5 (thorough), stream size 1-2, TTL 1-3 ticks, 3 versions x 2 version '
         'epochs, 1 idempotency key, all three modes (ephemeral, recoverable, persistent; ordered or not); replay configs 3 keys, <=14 operations, 9 channel '
         'configurations. Memory map broker only. Trusted: TLC, lib/tlaparse.py, harness comparison code, overlay/mapbroker/shim.go (read-only snapshot, '
         'option setters, manual sweep trigger).')
META = {
    'C20': dict(level='model_checking',
                text='MapBroker.tla models the memory map broker for one channel step by step (state entries with offset/score/deadline/version, stream window, '
                     'epoch creation, idempotency cache, stream-TTL / meta-TTL / key-TTL sweepers with the two-phase key expiry) with the properties stated '
                     'separately: state is the fold of the unsuppressed operations, the reported suppress reason is that of the first failing check in the order '
                     'version, key mode, CAS, suppressed operations change/append/broadcast nothing, applied operations of stream-backed channels append exactly '
                     'one entry at top+1 and are broadcast once with it. TLC checks them exhaustively on small configurations for all three modes; hundreds of '
                     'simulated behaviours are replayed on the real broker in real time comparing results, a snapshot of the channel and the event-handler calls '
                     'after every step.',
                note=_note, technique='TLA+ spec + TLC exhaustive; behaviour replay into MemoryMapBroker; trace validation of recorded executions (thorough)'),
    'C21': dict(level='model_checking',
                text='The pagination code (sorted key cache, ordered/unordered cursor search by binary search, page cut and cursor construction) is transcribed as TLA+ '
                     'operators next to an independent definition of the sort order; TLC proves on every state of the bounded table and on every reachable state of '
                     'the exhaustive configurations that walking the pages with the returned cursors enumerates the sorted keys exactly once within |keys| pages; '
                     'every state of the table is rebuilt on the real broker and walked with all page sizes in both directions.',
                note=_note + ' Redis half (Lua) not executable here.', technique='TLA+ operators + TLC table; table replay into MemoryMapBroker'),
    'C24': dict(level='model_checking',
                text='Key expiry is modelled exactly as expireKeysIteration does it: phase 1 collects candidates under the hub lock, phase 2 revalidates each candidate '
                     'under pubLock -> hub lock; TLC explores every interleaving of Publish / Remove / Clear / keep-alive between the phases and checks exactly-once '
                     'removal (one stream entry, one broadcast), survival of refreshed keys, no double removal, no lost key. The same interleavings are forced on the '
                     'real code: the sweep is parked between its phases by a natural gate and the model\'s operations run in the window.',
                note=_note, technique='TLA+ spec + TLC exhaustive; gated behaviour replay (manual sweeps); behaviour replay with the real sweepers'),
}
