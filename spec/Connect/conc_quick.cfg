SPECIFICATION Spec
CONSTANTS N = 3
INVARIANT C09_Conc
CHECK_DEADLOCK FALSE
