------------------------------ MODULE DeltaSim ------------------------------
(* Behaviour generator for replay (TLC -simulate): the actions of Delta with
   weights.  TLC's simulator picks uniformly among the successor STATES; with
   the plain Next a behaviour is dominated by the many ways of delivering the
   publications on the wire, and few behaviours get through two or three
   subscribe sessions with publications in between.  Here every action class
   contributes a fixed number of distinct successors (the slot variable `w`
   makes them distinct): subscriber progress, publishing and in-order delivery
   are favoured, faults stay possible. *)
EXTENDS Delta

VARIABLE w
simvars == <<vars, w>>

Oldest == CHOOSE d \in wire : \A e \in wire : e.id >= d.id

SimNext ==
  \/ \E s \in 1..2, t \in PubTags : Publish(t, TRUE, "sim") /\ w' = s
  \/ \E t \in PubTags : "unrel" \in PayKinds /\ Publish(t, TRUE, "unrel") /\ w' = 0
  \/ \E t \in PubTags, pk \in PayKinds : FALSE \in DeltaOpts /\ Publish(t, FALSE, pk) /\ w' = 0
  \/ ClearHistory /\ w' = 0
  \/ \E s \in 1..4 : wire # {} /\ Deliver(Oldest, FALSE) /\ w' = s
  \/ \E d \in wire : Drop(d) /\ w' = 0
  \/ \E d \in wire, k \in BOOLEAN : Deliver(d, k) /\ w' = 0
  \/ \E s \in 1..5 : (SubStart \/ SubToHistory \/ SubHistRead \/ SubFinish) /\ w' = s
  \/ \E s \in 1..2 : EndSession /\ w' = s

SimSpec == Init /\ w = 0 /\ [][SimNext]_simvars
=============================================================================
