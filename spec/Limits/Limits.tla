------------------------------- MODULE Limits -------------------------------
(* C37 Connection limits: client.go validateSubscribeRequest (channel limit counts reservations and
   subscriptions, over-long channel names), Client.Subscribe (server-side: limit reached => disconnect),
   writer.go enqueue (pending bytes > ClientQueueMaxSize => slow-consumer close).

   One connection, channels Chans, limit L; subscribe callbacks are asynchronous so several reservations can
   be in flight at once.  The queue is modelled in units of one encoded publication push: the harness parks the
   connection's writer inside Transport.Write with one frame in flight, then pushes accumulate in the queue
   (nothing else is issued in that phase, so the queue holds publication pushes of one size only). *)
EXTENDS Integers, Sequences, FiniteSets, TLC

CONSTANTS Chans, L, QMax, MaxOps

VARIABLES st,        \* st[ch] \in {"none", "resv", "sub", "ssub"}
          status,    \* "open", "closed"
          blocked,   \* writer parked in Transport.Write
          q,         \* queued units
          nops, out, step

vars == <<st, status, blocked, q, nops, out, step>>
Count == Cardinality({c \in Chans : st[c] # "none"})            \* len(c.channels)

Init == /\ st = [c \in Chans |-> "none"] /\ status = "open" /\ blocked = FALSE /\ q = 0 /\ nops = 0
        /\ out = <<>> /\ step = [act |-> "Init"]

Op(a, c, r) == /\ nops < MaxOps /\ nops' = nops + 1 /\ status = "open"
               /\ step' = [act |-> a, ch |-> c, res |-> r] /\ out' = Append(out, [act |-> a, ch |-> c, res |-> r])

CSub(c) ==   \* client subscribe command: validate + reserve, callback pending
  LET r == IF st[c] # "none" THEN "already" ELSE IF Count >= L THEN "limit" ELSE "pending" IN
  /\ ~blocked /\ Op("CSub", c, r)
  /\ st' = IF r = "pending" THEN [st EXCEPT ![c] = "resv"] ELSE st
  /\ UNCHANGED <<status, blocked, q>>

CbOk(c) ==   /\ ~blocked /\ st[c] = "resv" /\ Op("CbOk", c, "ok") /\ st' = [st EXCEPT ![c] = "sub"] /\ UNCHANGED <<status, blocked, q>>
CbErr(c) ==  /\ ~blocked /\ st[c] = "resv" /\ Op("CbErr", c, "denied") /\ st' = [st EXCEPT ![c] = "none"] /\ UNCHANGED <<status, blocked, q>>
Unsub(c) ==  /\ ~blocked /\ st[c] \in {"sub", "ssub"} /\ Op("Unsub", c, "ok") /\ st' = [st EXCEPT ![c] = "none"] /\ UNCHANGED <<status, blocked, q>>

SSub(c) ==   \* server-side Client.Subscribe
  LET r == IF Count >= L THEN "disconnect-limit" ELSE IF st[c] # "none" THEN "already" ELSE "ok" IN
  /\ ~blocked /\ Op("SSub", c, r)
  /\ st' = IF r = "ok" THEN [st EXCEPT ![c] = "ssub"] ELSE st
  /\ status' = IF r = "disconnect-limit" THEN "closed" ELSE status
  /\ UNCHANGED <<blocked, q>>

LongName ==  /\ ~blocked /\ Op("LongName", "long", "badrequest") /\ UNCHANGED <<st, status, blocked, q>>

Block ==     \* a publication is written and the writer parks inside Transport.Write (one frame in flight, queue empty)
  /\ ~blocked /\ \E c \in Chans : st[c] \in {"sub", "ssub"}
  /\ Op("Block", "", "ok") /\ blocked' = TRUE /\ UNCHANGED <<st, status, q>>

Push ==      \* one more publication for a subscribed channel while the writer is parked
  /\ blocked /\ \E c \in Chans : st[c] \in {"sub", "ssub"}
  /\ LET slow == q + 1 > QMax IN
     /\ Op("Push", "", IF slow THEN "slow" ELSE "queued")
     /\ q' = q + 1
     /\ status' = IF slow THEN "closed" ELSE status
  /\ UNCHANGED <<st, blocked>>

Next == \/ \E c \in Chans : CSub(c) \/ CbOk(c) \/ CbErr(c) \/ Unsub(c) \/ SSub(c)
        \/ LongName \/ Block \/ Push
Spec == Init /\ [][Next]_vars

(* C37 *)
ClientSide == {c \in Chans : st[c] = "sub"}
LimitHolds == Cardinality(ClientSide) <= L /\ Count <= L
\* further client attempts at the limit get limit-exceeded, server-side ones disconnect (action properties over step)
LimitAnswered == [][ (step'.act = "CSub" /\ st[step'.ch] = "none" /\ Count >= L) => step'.res = "limit" ]_vars
ServerSideDisconnects == [][ (step'.act = "SSub" /\ Count >= L) => (step'.res = "disconnect-limit" /\ status' = "closed") ]_vars
SlowExact == [][ step'.act = "Push" => ((step'.res = "slow") <=> (q' > QMax)) ]_vars
QueueBound == status = "open" => q <= QMax
View == <<st, status, blocked, q, nops>>
=============================================================================
