SPECIFICATION Spec
CONSTANTS
  Tier = "quick"
INVARIANTS RoundTripIsIdentity SameTouched SameOutcome
CHECK_DEADLOCK FALSE
