SPECIFICATION Spec
CONSTANTS
  RecheckAtCommit = TRUE
  RecheckAtJoin = TRUE
  AllowResub = TRUE
  Replay = TRUE
INVARIANTS TypeOK C05_Keyed C05_Gen
CHECK_DEADLOCK FALSE
