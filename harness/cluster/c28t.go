// C28, presence tick: the unsubscribe-all overlapping a presence tick (spec/Cluster/UnsubTick.tla).
//
// One node with a manual TimerScheduler (the presence tick runs when the harness fires it) and cl.GatePresence. The
// connection is subscribed server-side to three presence channels. The tick is parked in PresenceManager.AddPresence
// (before the entry is written), the unsubscribe-all (Client.Unsubscribe("") or Node.Unsubscribe(user, "")) is parked in
// the OnUnsubscribe callback of the channel the tick is adding (its presence is removed by then, the next channel is
// not yet deleted), then the add is let land, the tick moves on to the next channel, and so on: for as many channels
// as the two iteration orders (chosen by the real code) allow, the tick's add lands after the unsubscribe's removal.
// Monitor = UnsubTick.tla NoPresenceLeft: when both are done the presence manager holds no entry of the connection.
package main

import (
	"encoding/json"
	"fmt"
	"sync"
	"time"

	"github.com/centrifugal/centrifuge"

	"verifharness/cl"
	"verifharness/vh"
)

func c28tAttempt(ai int, direct bool, res *vh.Result) (raced int, stale []string, err error) {
	timers := &cl.ManualTimers{}
	nd, err := newNode("P", false, func(c *centrifuge.Config) {
		c.ClientTimerScheduler = timers
		c.ClientPresenceUpdateInterval = time.Second
	})
	if err != nil {
		return 0, nil, err
	}
	gp, err := cl.NewGatePresence(nd.env.Node)
	if err != nil {
		return 0, nil, err
	}
	nd.env.Node.SetPresenceManager(gp)
	var mu sync.Mutex
	tickActive := false
	addArrived := make(chan string, 8)
	addRelease := make(chan struct{})
	unsubArrived := make(chan string, 8)
	unsubRelease := make(chan struct{})
	parkU := false
	gp.OnAdd = func(ch, _ string) {
		mu.Lock()
		a := tickActive
		mu.Unlock()
		if a {
			addArrived <- ch
			select {
			case <-addRelease:
			case <-time.After(3 * time.Second):
			}
		}
	}
	nd.onUnsub = func(_, ch string) {
		mu.Lock()
		p := parkU
		mu.Unlock()
		if p {
			unsubArrived <- ch
			select {
			case <-unsubRelease:
			case <-time.After(3 * time.Second):
			}
		}
	}
	if err := nd.env.Run(); err != nil {
		return 0, nil, err
	}
	defer func() { go nd.env.Close() }()
	user := fmt.Sprintf("t%d_%d", vh.Seed(), ai)
	h, err := nd.connect(connSpec{Name: "c", User: user})
	if err != nil {
		return 0, nil, err
	}
	defer h.drop()
	chans := []string{"pa", "pb", "pc"}
	for _, c := range chans {
		if err := h.c.Client.Subscribe(c, centrifuge.WithEmitPresence(true)); err != nil {
			return 0, nil, err
		}
	}
	mu.Lock()
	tickActive, parkU = true, true
	mu.Unlock()
	go timers.Fire()
	uDone := make(chan struct{})
	started := false
	var order []string
	for {
		var x string
		select {
		case x = <-addArrived:
		case <-time.After(300 * time.Millisecond):
			x = ""
		}
		if x == "" {
			break
		}
		if !started {
			started = true
			go func() {
				defer close(uDone)
				if direct {
					h.c.Client.Unsubscribe("")
				} else {
					_ = nd.env.Node.Unsubscribe(user, "")
				}
			}()
		} else {
			unsubRelease <- struct{}{} // the unsubscribe leaves the callback it was parked in and goes on
		}
		// let the unsubscribe run until it sits in the callback of x (x's presence is removed, the next channel untouched)
		reached := false
		for !reached {
			select {
			case c := <-unsubArrived:
				if c == x {
					reached = true
				} else {
					unsubRelease <- struct{}{}
				}
			case <-uDone:
				reached = true
			case <-time.After(2 * time.Second):
				return raced, nil, fmt.Errorf("the unsubscribe-all neither reached the callback of %s nor finished", x)
			}
		}
		raced++
		order = append(order, x)
		addRelease <- struct{}{} // the tick's add of x lands now, after the removal
	}
	mu.Lock()
	tickActive, parkU = false, false
	mu.Unlock()
	if started {
		for done := false; !done; {
			select {
			case <-uDone:
				done = true
			case <-unsubArrived:
				unsubRelease <- struct{}{}
			case unsubRelease <- struct{}{}:
			case <-time.After(3 * time.Second):
				return raced, nil, fmt.Errorf("the unsubscribe-all did not finish")
			}
		}
	}
	// both threads are done when the compensation pass ran: give it up to 1.5 s
	deadline := time.Now().Add(1500 * time.Millisecond)
	for {
		stale = nil
		for _, c := range chans {
			pr, err := nd.env.Node.Presence(c)
			if err != nil {
				return raced, nil, err
			}
			if _, ok := pr.Presence[h.id]; ok {
				stale = append(stale, c)
			}
		}
		if len(stale) == 0 || time.Now().After(deadline) {
			break
		}
		time.Sleep(2 * time.Millisecond)
	}
	if len(h.channels()) != 0 {
		return raced, stale, fmt.Errorf("connection still has channels %v", h.channels())
	}
	res.Extra["last_tick_order"] = order
	return raced, stale, nil
}

func c28t(_ json.RawMessage, res *vh.Result) error {
	multi := 0
	for ai := 0; ai < 40 && multi < 4; ai++ {
		direct := ai%2 == 0
		raced, stale, err := c28tAttempt(ai, direct, res)
		if err != nil {
			res.Drift("C28", fmt.Sprintf("presence tick attempt %d: %v", ai, err), nil)
			res.Done(1, 0)
			continue
		}
		res.Count(fmt.Sprintf("raced_%d_channels", raced), 1)
		if raced >= 2 {
			multi++
			res.Distinct(fmt.Sprintf("%d-%v", raced, direct))
		}
		if len(stale) > 0 {
			res.Violate("C28", fmt.Sprintf("emptych:presence-readded-by-tick:%d-channels", raced),
				fmt.Sprintf("unsubscribe-all (%s) overlapping a presence tick: for %d channels the tick's AddPresence landed after the unsubscribe's RemovePresence; when both had finished the presence manager still held the connection in %v although it is subscribed to nothing",
					map[bool]string{true: "Client.Unsubscribe(\"\")", false: "Node.Unsubscribe(user, \"\")"}[direct], raced, stale), map[string]any{"raced": raced, "stale": stale, "direct": direct})
			res.Done(1, 0)
			continue
		}
		res.Done(1, 1)
	}
	if multi == 0 {
		res.Drift("C28", "no attempt raced two or more channels (the iteration orders never lined up)", nil)
	}
	return nil
}
