"""C14 (delta encoding), C25 (shared poll) -- family `keyed`.  WORK IN PROGRESS (see docstring at the end of the build)."""
import json
import os
import re
from concurrent.futures import ThreadPoolExecutor

from lib import tlaparse, vf


def _error_trace(tlc_out):
    """The counterexample behaviour TLC prints after `Error: Invariant .. is violated` as a list of state dicts."""
    m = re.search(r'^Error: The behavior up to this point is:\s*$', tlc_out, re.M)
    if not m:
        return None
    text = tlc_out[m.end():]
    cut = re.search(r'^\d+ states generated', text, re.M)
    if cut:
        text = text[:cut.start()]
    return tlaparse.parse_states_file(text)


def _variant(c, family, cfg, withhold):
    """cfg file name to use for the probed tags-filter policy (a derived copy in the scratch spec dir)."""
    if not withhold:
        return cfg
    d = c._specdir(family)
    name = cfg.replace('.cfg', '_wh.cfg')
    text = open(os.path.join(d, cfg)).read().replace('Withhold = FALSE', 'Withhold = TRUE')
    with open(os.path.join(d, name), 'w') as fh:
        fh.write(text)
    return name


def _exhaustive_parallel(c, family, module, cfgs, workers=3, timeout=3000):
    c._specdir(family)
    with ThreadPoolExecutor(max_workers=len(cfgs)) as ex:
        futs = [(cfg, ex.submit(c.tlc_exhaustive, family, module, cfg, workers=workers, timeout=timeout)) for cfg in cfgs]
        for cfg, f in futs:
            r = f.result()
            c.log('TLC exhaustive %s: %d distinct / %d generated, depth %d, %.0fs' % (cfg, r['distinct'], r['states'], r['depth'], r['wall_s']))


def _absorb_delta(c, res, total):
    c.absorb(res)
    total['executed'] += res['executed']
    total['completed'] += res['completed']
    c.cov['distinct_nontrivial'] += res['nontrivial']
    for k, v in (res.get('counters') or {}).items():
        total['counters'][k] = total['counters'].get(k, 0) + v


def _par(jobs, width=4):
    """Runs callables concurrently (TLC processes with 1-2 workers each); returns their results in order."""
    with ThreadPoolExecutor(max_workers=width) as ex:
        futs = [ex.submit(j) for j in jobs]
        return [f.result() for f in futs]


def _exh(c, family, module, cfg, workers=1, timeout=3000):
    def run():
        r = c.tlc_exhaustive(family, module, cfg, workers=workers, timeout=timeout)
        c.log('TLC exhaustive %s: %d distinct / %d generated, depth %d, %.0fs' % (cfg, r['distinct'], r['states'], r['depth'], r['wall_s']))
        return r
    return run


def _witness(c, family, module, cfg):
    """Counterexample of an as-coded configuration as a replayable behaviour. The quick tier replays the frozen copy
    (spec/<family>/witness_<cfg>.json, produced by the same TLC run at build time; it is only a schedule - the verdict
    comes from the monitors on the real frames); the thorough tier lets TLC produce it again."""
    frozen = os.path.join(vf.ROOT, 'spec', family, 'witness_' + cfg.replace('_wh', '').replace('.cfg', '.json'))

    def run():
        if c.tier == 'quick' and os.path.exists(frozen) and not cfg.endswith('_wh.cfg'):
            wit = json.load(open(frozen))
            c.log('witness %s: frozen TLC counterexample, %d steps' % (cfg, len(wit) - 1))
            return wit
        w = c.tlc(family, module, cfg, workers=1, timeout=1500, expect_violation=True)
        wit = _error_trace(w['out']) if not w['ok'] else None
        if not wit:
            raise vf.Inconclusive('%s produced no counterexample: %s' % (cfg, w['out'][-1500:]))
        c.log('TLC counterexample %s: %d steps' % (cfg, len(wit) - 1))
        return wit
    return run


def _sim(c, family, module, cfg, n, depth):
    def run():
        s = c.tlc(family, module, cfg, simulate=n, depth=depth, timeout=2400)
        if not s['ok']:
            raise vf.Inconclusive('simulation %s failed: %s\n%s' % (cfg, s['error'], s['out'][-3000:]))
        behs = c.behaviours(s)
        c.log('TLC simulate %s: %d behaviours, %.0fs' % (cfg, len(behs), s['wall_s']))
        return behs
    return run


def c14(c):
    quick = c.tier == 'quick'
    total = {'executed': 0, 'completed': 0, 'counters': {}}
    binp = c.go_build('keyed')
    # 0. which tags-filter policy does the code apply to delta subscribers (C14 holds under both, see Delta.tla)
    pr = c.harness(binp, 'probe', {}, timeout=60)
    withhold = bool(pr['extra']['withhold'])
    c.log('probe: publications excluded by the tags filter are %s for delta subscribers' % ('withheld' if withhold else 'still pushed (live paths)'))
    c.cov['filter_policy_for_delta_subscribers'] = 'withhold' if withhold else 'push'
    c._specdir('Delta')
    v = lambda x: _variant(c, 'Delta', x, withhold)
    # 1. design check: the reference design satisfies C14 on every behaviour of the small configurations
    # 2. the code as written (flagDeltaAllowed after every recovered subscribe) has C14 counterexamples in the model
    # 3. behaviours of the reference design for replay
    cfgs = ['quick_rec.cfg', 'quick_np.cfg'] if quick else ['thorough_pos.cfg', 'thorough_np.cfg', 'thorough_faults.cfg']
    jobs = [_exh(c, 'Delta', 'Delta', v(x), workers=1 if quick else 2) for x in cfgs]
    if not quick:   # the other filter policy is sound as well
        jobs += [_exh(c, 'Delta', 'Delta', _variant(c, 'Delta', x, not withhold)) for x in ['quick_rec.cfg', 'quick_np.cfg']]
    nj = len(jobs)
    jobs += [_witness(c, 'Delta', 'Delta', v('ascoded.cfg')), _sim(c, 'Delta', 'DeltaSim', v('sim.cfg'), 600 if quick else 8000, 30)]
    # keyed path: behaviours of spec/SharedPoll (per-key deltaReady / version / base version), delta monitors only
    c._specdir('SharedPoll')
    jobs += [_sim(c, 'SharedPoll', 'SharedPollSim', 'sim_v.cfg', 80 if quick else 1500, 50)]
    # map paths: per-key bases (sequential model of the map subscribe protocol outcomes)
    jobs += [_exh(c, 'Delta', 'DeltaMap', 'map_quick.cfg'), _witness(c, 'Delta', 'DeltaMap', 'map_ascoded.cfg'),
             _sim(c, 'Delta', 'DeltaMap', 'map_sim.cfg', 150 if quick else 3000, 30)]
    out = _par(jobs)
    wit, behs, kbehs, mwit, mbehs = out[nj], out[nj + 1], out[nj + 2], out[nj + 4], out[nj + 5]
    res = c.harness(binp, 'mapdelta', {'compare': False, 'behaviours': [mwit]}, timeout=300)
    _absorb_delta(c, res, total)
    res = c.harness(binp, 'mapdelta', {'compare': True, 'behaviours': mbehs}, timeout=1800)
    _absorb_delta(c, res, total)
    res = c.harness(binp, 'sharedpoll', {'compare': False, 'versioned': True, 'behaviours': kbehs}, timeout=1800)
    _absorb_delta(c, res, total)
    res = c.harness(binp, 'delta', {'hist_size': 2, 'compare': False, 'behaviours': [wit]}, timeout=300)
    _absorb_delta(c, res, total)
    c.cov['samples'] += res['samples'][:1]
    res = c.harness(binp, 'delta', {'hist_size': 3, 'compare': True, 'behaviours': behs}, timeout=1800)
    _absorb_delta(c, res, total)
    c.cov['samples'] += res['samples'][:1]
    c.cov['traces_validated_against_impl'] = total['completed']
    c.cov['evaluations'] = total['executed']
    c.cov['replay_counters'] = total['counters']


def _absorb_sp(c, res, total):
    c.absorb(res)
    total['executed'] += res['executed']
    total['completed'] += res['completed']
    c.cov['distinct_nontrivial'] += res['nontrivial']
    for k, v in (res.get('counters') or {}).items():
        total['counters'][k] = total['counters'].get(k, 0) + v


def c25(c):
    quick = c.tier == 'quick'
    total = {'executed': 0, 'completed': 0, 'counters': {}}
    binp = c.go_build('keyed')
    c._specdir('SharedPoll')
    # 1. design check of the reference (safety: action properties on every frame + invariants; liveness under weak
    #    fairness of worker / publisher / revoker / track completion with the refresh timer on, no state constraint)
    # 2. deviations of the code from the reference found by TLC: counterexamples = witnesses for the real code
    # 3. behaviours of the reference for gate replay
    cfgs = ['quick.cfg', 'quick_vl.cfg'] if quick else ['thorough.cfg', 'thorough_vl.cfg', 'quick.cfg']
    jobs = [_exh(c, 'SharedPoll', 'SharedPoll', x, workers=1 if quick else 2) for x in cfgs + ['live.cfg', 'live_vl.cfg']]
    nj = len(jobs)
    wcfgs = ['ascoded_flip.cfg', 'ascoded_removal.cfg', 'ascoded_epoch.cfg']
    jobs += [_witness(c, 'SharedPoll', 'SharedPoll', x) for x in wcfgs]
    n = 160 if quick else 4000
    sims = (('sim_v.cfg', True, n), ('sim_flip.cfg', True, n // 4), ('sim_vl.cfg', False, n // 2))
    jobs += [_sim(c, 'SharedPoll', 'SharedPollSim', x, k, 50) for x, _, k in sims]
    out = _par(jobs)
    wits = out[nj:nj + len(wcfgs)]
    res = c.harness(binp, 'sharedpoll', {'compare': False, 'versioned': True, 'behaviours': wits}, timeout=300)
    _absorb_sp(c, res, total)
    for (cfg, versioned, _), behs in zip(sims, out[nj + len(wcfgs):]):
        res = c.harness(binp, 'sharedpoll', {'compare': True, 'versioned': versioned, 'behaviours': behs}, timeout=1800)
        _absorb_sp(c, res, total)
        c.cov['samples'] += res['samples'][:1]
    c.cov['traces_validated_against_impl'] = total['completed']
    c.cov['evaluations'] = total['executed']
    c.cov['replay_counters'] = total['counters']


CHECKS = {'C14': c14, 'C25': c25}
META = {
    'C14': dict(level='model_checking', text='wip', note='wip', technique='wip'),
    'C25': dict(level='model_checking', text='wip', note='wip', technique='wip'),
}
