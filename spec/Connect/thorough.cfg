SPECIFICATION Spec
CONSTANTS
  MaxCmds = 3
  MaxAsync = 1
  MaxFires = 2
  MaxEnv = 1
  UrgentClose = FALSE
  AfterClose = FALSE
  WithHist = FALSE
  Reduced = FALSE
  CfgSet <- CfgMain
  GenericKinds = {"rpc", "presence"}
VIEW View
INVARIANTS TypeOK C09 OneClose NothingAfterClose
CHECK_DEADLOCK FALSE
