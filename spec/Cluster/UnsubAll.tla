------------------------------ MODULE UnsubAll ------------------------------
(* C28  Unsubscribe with an empty channel removes all subscriptions.

   Authority: the doc comment of Node.Unsubscribe (node.go):
       "Unsubscribe unsubscribes user from a channel.
        If a channel is empty string then user will be unsubscribed from all channels."
   and of UnsubscribeOptions.labelFilter (options.go): "When the channel argument is empty
   (unsubscribe from all channels), the filter still applies and narrows which connections are affected."

   Code modelled (one action per API call; the per-connection work of one call is sequential in
   hub.connShard.unsubscribe -> Client.Unsubscribe -> Client.unsubscribe + sendUnsubscribe and touches only
   that connection, so it is folded into the call):
     Node.Unsubscribe(user, ch, opts)  - pubUnsubscribe (control message to the other nodes, handleControl there)
                                         + hub.unsubscribe / hub.unsubscribeAcrossUsers on the calling node:
                                         the connections are selected by user bucket (or every connection when
                                         user = "" and WithUnsubscribeAllUsers), WithUnsubscribeClient,
                                         WithUnsubscribeSession, WithUnsubscribeLabelFilter (AND);
     Client.unsubscribe(x)             - delete c.channels[x]; remove presence (flagEmitPresence); publish leave
                                         (flagEmitJoinLeave); node.removeSubscription (hub); OnUnsubscribe callback;
     Client.sendUnsubscribe(x)         - one unsubscribe push for x.
   Subscribe(c, x, k) stands for a client-side ("cs": subscribe command) or server-side ("ss": Client.Subscribe)
   subscription; whether a channel has presence / join-leave enabled is a constant of the channel (PresCh, JLCh).

   EmptyMeans = "all"     the documented meaning of ch = "" (reference the real code is compared with);
   EmptyMeans = "literal" what client.go does at the pinned commit 3a745de1: "" is looked up like a channel name,
                          nothing is found, and sendUnsubscribe("") writes a push with an empty channel.  TLC
                          reports EmptyChannelUnsubscribesAll violated for it (pinned.cfg, not run by the check);
                          the harness reproduces exactly that on the real nodes (DESIGN section 10 item 6).

   Connections (fixed universe; the harness creates exactly these):
        c1  user "u"  node A  session "s1"  label tier=pro
        c2  user "u"  node B  no session    label tier=free
        c3  user "v"  node A  session "s3"  label tier=pro
        c4  user ""   node B  no session    label tier=pro      (anonymous)                                   *)
EXTENDS Naturals, FiniteSets, TLC

CONSTANTS
  Chans,        \* channel names
  PresCh,       \* channels whose subscriptions emit presence
  JLCh,         \* channels whose subscriptions emit join/leave
  Free,         \* set of <<conn, chan>> that may be subscribed (bounds the state space)
  EmptyMeans,   \* "all" | "literal"
  ClientArgs,   \* WithUnsubscribeClient values offered ("" = option absent), subset of {"", "c1", "c3"}
  SessionArgs,  \* WithUnsubscribeSession values, subset of {"", "s1", "s3"}
  LabelArgs,    \* WithUnsubscribeLabelFilter(tier eq <label>) values, subset of {"", "pro", "free"}
  NamedArgs,    \* named channels offered as the channel argument (besides "")
  CustomArgs    \* WithCustomUnsubscribe present? subset of BOOLEAN

Conns == {"c1", "c2", "c3", "c4"}
UserOf(c)    == CASE c = "c1" -> "u" [] c = "c2" -> "u" [] c = "c3" -> "v" [] OTHER -> ""
NodeOf(c)    == CASE c = "c1" -> "A" [] c = "c2" -> "B" [] c = "c3" -> "A" [] OTHER -> "B"
SessionOf(c) == CASE c = "c1" -> "s1" [] c = "c3" -> "s3" [] OTHER -> ""
LabelOf(c)   == CASE c = "c2" -> "free" [] OTHER -> "pro"

Users    == {"u", "v", ""}
Kinds    == {"cs", "ss"}
ChArgs   == Chans \cup {""}

CodeServer == 2000                    \* unsubscribeServer
CodeCustom == 2600                    \* WithCustomUnsubscribe(Unsubscribe{Code: 2600, Reason: "custom"})

VARIABLES
  subs,   \* subs[c][x] \in {"none", "cs", "ss"}     Client.channels
  pres,   \* presence manager content: set of <<x, c>>
  hub,    \* hub subscriptions: set of <<x, c>>
  step    \* last action, its arguments and its effects (history; hidden by VIEW)

vars == <<subs, pres, hub, step>>
View == <<subs, pres, hub>>

\* values for the constant Free (cfg: Free <- FreeSmall)
FreeTiny  == ({"c1"} \X {"a", "b"}) \cup ({"c2", "c3", "c4"} \X {"a"})
FreeSmall == ({"c1", "c2"} \X {"a", "b"}) \cup ({"c3", "c4"} \X {"a"})
FreeBig   == ({"c1"} \X {"a", "b", "c"}) \cup ({"c2"} \X {"a", "b"}) \cup ({"c3", "c4"} \X {"a"})
FreeAll   == Conns \X Chans

Init ==
  /\ subs = [c \in Conns |-> [x \in Chans |-> "none"]]
  /\ pres = {} /\ hub = {}
  /\ step = [act |-> "Init"]

---------------------------------------------------------------------------
Subscribe(c, x, k) ==
  /\ <<c, x>> \in Free
  /\ subs[c][x] = "none"
  /\ subs' = [subs EXCEPT ![c][x] = k]
  /\ pres' = IF x \in PresCh THEN pres \cup {<<x, c>>} ELSE pres
  /\ hub'  = hub \cup {<<x, c>>}
  /\ step' = [act |-> "Subscribe", c |-> c, ch |-> x, k |-> k, join |-> x \in JLCh]

\* the connection selection of hub.connShard.unsubscribe / unsubscribeAcrossUsers
Selected(c, user, client, session, label, all) ==
  /\ IF user = "" /\ all THEN TRUE ELSE UserOf(c) = user
  /\ client = "" \/ c = client
  /\ session = "" \/ SessionOf(c) = session
  /\ label = "" \/ LabelOf(c) = label

\* Client.unsubscribe(ch) on connection c tears down channel x
TornDown(c, x, ch) ==
  /\ subs[c][x] # "none"
  /\ IF ch = "" THEN EmptyMeans = "all" ELSE x = ch

\* Client.sendUnsubscribe: an unsubscribe push is written to c for channel (argument) x.  For a named channel the code
\* writes the push whether or not the connection was subscribed (not part of C28, modelled as the code does it).
Pushed(c, x, ch) ==
  IF ch = ""
    THEN IF EmptyMeans = "all" THEN x # "" /\ subs[c][x] # "none" ELSE x = ""
    ELSE x = ch

NodeUnsubscribe(origin, user, ch, client, session, label, all, custom) ==
  LET Sel(c)  == Selected(c, user, client, session, label, all)
      Gone(p) == Sel(p[2]) /\ TornDown(p[2], p[1], ch)            \* p = <<channel, connection>>, p \in hub
  IN /\ subs' = [c \in Conns |-> [x \in Chans |-> IF Sel(c) /\ TornDown(c, x, ch) THEN "none" ELSE subs[c][x]]]
     /\ pres' = {p \in pres : ~Gone(p)}
     /\ hub'  = {p \in hub : ~Gone(p)}
     /\ step' = [act |-> "NodeUnsubscribe", origin |-> origin, user |-> user, ch |-> ch, client |-> client,
                 session |-> session, label |-> label, all |-> all, custom |-> custom,
                 code |-> IF custom THEN CodeCustom ELSE CodeServer,
                 sel    |-> {c \in Conns : Sel(c)},
                 \* effects as sets of <<channel, connection>>; each element stands for exactly ONE occurrence
                 \* (the harness compares multiplicities on the real side)
                 cbs    |-> {p \in hub : Gone(p)},                                   \* OnUnsubscribe callbacks
                 cbss   |-> {p \in hub : Gone(p) /\ subs[p[2]][p[1]] = "ss"},        \* ... reporting ServerSide = true
                 leaves |-> {p \in hub : Gone(p) /\ p[1] \in JLCh},                  \* leave publications
                 pushes |-> {p \in ChArgs \X Conns : Sel(p[2]) /\ Pushed(p[2], p[1], ch)}]   \* unsubscribe pushes

Next ==
  \/ \E c \in Conns, x \in Chans, k \in Kinds : Subscribe(c, x, k)
  \/ \E user \in Users, ch \in NamedArgs \cup {""}, client \in ClientArgs, session \in SessionArgs, label \in LabelArgs,
        all \in BOOLEAN, custom \in CustomArgs :
        NodeUnsubscribe("A", user, ch, client, session, label, all, custom)

Spec == Init /\ [][Next]_vars

---------------------------------------------------------------------------
TypeOK ==
  /\ subs \in [Conns -> [Chans -> {"none", "cs", "ss"}]]
  /\ pres \subseteq Chans \X Conns
  /\ hub \subseteq Chans \X Conns

\* presence and hub entries exist exactly for the live subscriptions
Consistent ==
  /\ hub  = {<<x, c>> \in Chans \X Conns : subs[c][x] # "none"}
  /\ pres = {<<x, c>> \in Chans \X Conns : subs[c][x] # "none" /\ x \in PresCh}

---------------------------------------------------------------------------
(* The property, stated from the documentation, independently of Selected/Targets/Pushed above.

   Which connections a call addresses (options.go doc comments): the user's connections - with an empty user the
   anonymous ones, or every connection when WithUnsubscribeAllUsers is set -, narrowed by client id, session id
   and label filter, all of which must hold.                                                                  *)
Addressed(c, s) ==
  /\ \/ UserOf(c) = s.user
     \/ s.user = "" /\ s.all
  /\ s.client # ""  => c = s.client
  /\ s.session # "" => SessionOf(c) = s.session
  /\ s.label # ""   => LabelOf(c) = s.label

EmptyChannelUnsubscribesAll ==
  [][ (step'.act = "NodeUnsubscribe" /\ step'.ch = "") =>
        \A c \in Conns :
          LET s      == step'
              former == {x \in Chans : subs[c][x] # "none"}
          IN IF Addressed(c, s)
               THEN /\ \A x \in Chans : subs'[c][x] = "none"                       \* no subscriptions left
                    /\ \A x \in former :
                         /\ <<x, c>> \in s.cbs                                      \* unsubscribe callback ...
                         /\ (<<x, c>> \in s.cbss) = (subs[c][x] = "ss")              \* ... describing the subscription
                         /\ (<<x, c>> \in s.leaves) = (x \in JLCh)                   \* leave if join/leave enabled
                         /\ <<x, c>> \notin pres'                                    \* presence removed
                         /\ <<x, c>> \notin hub'                                     \* no more routing
                         /\ <<x, c>> \in s.pushes                                    \* unsubscribe push for the channel
                    /\ \A x \in ChArgs \ former :                                    \* and nothing else
                         <<x, c>> \notin (s.cbs \cup s.leaves \cup s.pushes)
               ELSE /\ subs'[c] = subs[c]                                            \* other connections untouched
                    /\ \A x \in ChArgs : <<x, c>> \notin (s.cbs \cup s.leaves \cup s.pushes)
                    /\ \A x \in Chans : (<<x, c>> \in pres') = (<<x, c>> \in pres)
                    /\ \A x \in Chans : (<<x, c>> \in hub') = (<<x, c>> \in hub)
    ]_vars

\* the same statement for a named channel (not C28; keeps the reference honest about what it models)
NamedChannelUnsubscribesOne ==
  [][ (step'.act = "NodeUnsubscribe" /\ step'.ch # "") =>
        \A c \in Conns :
          LET s == step' IN
          /\ \A x \in Chans \ {s.ch} : subs'[c][x] = subs[c][x]
          /\ subs'[c][s.ch] = (IF Addressed(c, s) THEN "none" ELSE subs[c][s.ch])
    ]_vars
=============================================================================
