//go:build verif

package centrifuge

import "time"

// Overlay-injected (never committed to /repo) for the /verif mapsub family (C22, C16 map paths).
// The memory map broker expires keys and streams from background goroutines driven by one-second timers; there is
// no public trigger.  The two functions below run, on the calling goroutine, exactly the body those sweeps run:
// one iteration of the key-expiry sweep, and the per-channel step of the stream-expiry sweep (stream.Clear()).
// The periodic position check of a connection is driven by a 25 s timer and a minimal delay between checks; the third
// function runs one tick now.  Nothing here changes the behaviour of the code under test.

// VerifMapSubSweepKeys runs one iteration of mapHub.expireKeysIteration (the body of the expireKeys loop).
func VerifMapSubSweepKeys(e *MemoryMapBroker) {
	var next int64
	e.mapHub.expireKeysIteration(&next)
}

// VerifMapSubExpireStream does for one channel what mapHub.expireStreams does when the channel's stream TTL has
// elapsed: forget the deadline and clear the retained entries (top and epoch stay). Reports whether a stream existed.
func VerifMapSubExpireStream(e *MemoryMapBroker, ch string) bool {
	h := e.mapHub
	h.Lock()
	defer h.Unlock()
	delete(h.expires, ch)
	channel, ok := h.channels[ch]
	if !ok || channel.stream == nil {
		return false
	}
	channel.stream.Clear()
	return true
}

// VerifMapSubPositionTick runs one periodic tick of a connection (Client.updatePresence: presence refresh, position
// check and what follows from an invalid position) on the calling goroutine, with the node's clock (nowTimeGetter,
// read by Client.checkPosition to decide whether a check is due) set `advance` ahead of the real time so that the
// check is due now instead of after ClientChannelPositionCheckDelay.
func VerifMapSubPositionTick(c *Client, advance time.Duration) {
	c.node.nowTimeGetter = func() time.Time { return time.Now().Add(advance) }
	c.updatePresence()
}
