SPECIFICATION Spec
CONSTANTS
  Conns = {"c1", "c2"}
  Keys = {"k1"}
  MaxChg = 2
  MaxFlips = 0
  MaxOps = 4
  Versioned = FALSE
  Timer = FALSE
  AllowRevoke = TRUE
  AllowPublish = FALSE
  SplitTrack = FALSE
  AsCoded = {}
  Replay = FALSE
VIEW View
INVARIANTS TypeOK VersionConsistent C25_Epoch HubHasEntry
PROPERTIES C25_Frames
CHECK_DEADLOCK FALSE
