SPECIFICATION SpecR
CONSTANTS
  Workers = {1, 2}
  Jobs = {1, 2, 3}
  MaxFail = 1
  AllowClose = TRUE
VIEW View
INVARIANTS TypeOK NothingLost OneCopy ClosedQuiet
PROPERTIES NoRerun FailedRequeued NoDequeueAfterClose SubmitAnswer
CHECK_DEADLOCK FALSE
