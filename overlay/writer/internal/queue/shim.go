//go:build verif

package queue

// Overlay-injected (never committed to /repo): read-only view of the ring for the /verif harness.

// VerifState returns head, tail, cnt, size, len(nodes) under the queue lock.
func (q *Queue) VerifState() (head, tail, cnt, size, length int, closed bool) {
	q.mu.RLock()
	defer q.mu.RUnlock()
	return q.head, q.tail, q.cnt, q.size, len(q.nodes), q.closed
}
