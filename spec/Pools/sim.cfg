SPECIFICATION SimSpec
CONSTANTS
  Kinds = {"bytes", "slices", "items"}
  Small = {0, 1, 2, 3, 4, 5, 7, 8, 9, 15, 16, 17, 31, 32, 33, 63, 64, 65, 1023, 1024, 1025}
  Around <- AroundStd
  PoolBound = 3
  Reslice = TRUE
INVARIANTS PoolInv
CHECK_DEADLOCK FALSE
