"""redisfuncs -- C33 / C34 / C35: the pure-function parts of the Redis integration that are decidable
offline (there is no Redis server and no Lua interpreter here; nothing in this family needs one).

C33  spec/PushFrame   grammar of PUB/SUB payload frames (Encode as the Lua scripts / Go do it, a TOTAL Decode
                      written from the grammar); TLC: Decode(Encode(x)) = x, accepted frames are canonical,
                      Decode defined on every enumerated string.  Rows (string -> plain | frame fields |
                      rejected) replayed into extractPushData with recover(): panic = VIOLATION (sig
                      panic:<frame type>:<message>), different decode of a plain payload / well-formed frame =
                      VIOLATION (sig decode:<frame type>:<field>).  Strings outside the grammar that the code
                      accepts leniently are counted, not judged.
C34  spec/RedisKeys   Redis hash-tag rule + key/channel builders of RedisBroker, RedisMapBroker,
                      RedisPresenceManager in 4 schemes (plain, cluster, sharded PUB/SUB with numeric /
                      precomputed tags) + the INVOCATIONS: per operation and variant (broker Publish: history x
                      delta x idempotency key x version; map Publish: mode x keyed x ordered x idempotency key;
                      map Remove, ReadState, ReadStream, Stats, Clear, cleanup find / batch-remove per map mode;
                      presence Add/Remove/Get/Stats) the commands it sends with KEYS by position (placeholders
                      included, an empty key is a key) and the PUB/SUB channel.  TLC classifies the inputs for
                      which the design is unsound.  Rows replayed into the real builders (engines built without
                      a connection), slots by an independent CRC16; EVERY invocation is executed: the real
                      operation runs against a recording rueidis client (overlay shim), the recorded KEYS /
                      channel are compared with the spec position by position (difference = drift) and must lie
                      in one slot (all variants on channels of length <= 1 (quick) / 2 (thorough), one variant
                      per script on every channel).
                      sig = <scheme>:<input class> for the classes of the spec (cluster|sharded|precomp :
                      channel-starts-with-} | prefix-unclosed-brace | prefix-empty-braces);
                      <scheme>:op:<engine.Operation>:<variant>:key-<i>-other-slot (or channel-other-slot,
                      rueidis-cross-slot-panic) for a stray key of a real invocation outside those classes;
                      <scheme>:op:<..>:UNEXPECTED(<class>) for builder-level failures outside the classes;
                      precomp:map.cleanup:registration-key-not-scanned for the cleanup worker's scan key.
C35  spec/Partition   tag tables DUMPED FROM THE CODE into PartitionData.tla, validated against a bitwise
                      CRC16-XMODEM + even contiguous slot assignment; rows falsifying the property are
                      violations (sig size|charset|distinct|balance:P=<n>), the harness compares TagSlot and
                      SlotToNode with the spec columns (sig tagslot, slot-to-node, counts).

Genuine defects found on the unchanged tree (details in the builder's report):
  C33  extractPushData / parseDeltaPush panic (slice bounds) on "__p__", "__p1__", "__d1:1:x:0:",
       "__d1:1:x:-1:", "__d1:1:e:2:ab", ... ; no recover on the PUB/SUB processor goroutine.
       Fix = three length checks (verified: check green, package tests green).
  C34  (a) keys `prefix{ch}` with a channel starting with '}' (empty hash tag) and prefixes with an unclosed or
       empty brace pair put the keys of one script into different slots (rueidis' cluster builder then panics
       "multi key command with different key slots are not allowed") -> known finding, no small repair;
       (b) with UsePrecomputedPartitionTags the map broker registers channels for expiry cleanup under
       ...:cleanup:channels:{<tag>} but the cleanup worker scans ...:cleanup:channels:{<index>}: registered
       channels are never cleaned and the batch-remove script would get keys of two slots.
       Fix = e.pubSubPartitionHashTag(i) instead of strconv.Itoa(i) in cleanupShard and updateCleanupLag.

Mutation testing (FRAMEWORK rule 3; scratch worktree with the C33 and C34(b) fixes applied and the C34(a)
classes listed as known findings, so that the baseline is green; every mutant must turn the check red):
  C33 (all caught, exit 1): delta offset taken from the payload-length field; delta prev payload one byte too
      long; join frame reported as leave; p1 epoch truncated at the first ':'; delta flag dropped; p1 offset
      parsed in base 8; p1 payload starting one byte late; each of the four added bounds checks reverted
      separately (short "__p" header, negative prev length, missing separator after prev, negative payload
      length).  The last one was MISSED by the first version of quick.cfg (no row reached the second
      length field with a sign) -> families d1y / d1z ("__d1:1:x:0::" / "__d1:1:x:1:x:" ++ tails) added.
  C34 (all caught, exit 1): history meta key without the tag braces (cluster); result-cache key built from a
      hard-coded prefix (caught through the {p} prefix class); sharded channel id from the partition of a
      different hash; extractChannel trimming one character too many (cluster); presence user-set key without
      braces; map cleanup registration key with the numeric index (inverse of defect (b)); sharded
      extractChannel splitting at the LAST dot; map state-order key outside the partition tag.
      Seeded change C34-1 (map Remove stops substituting the unused stateMetaKey by the :nil: key, so an
      ephemeral channel passes KEYS[7]="") was MISSED by the builder-level version (exit 0) -> invocation
      model + execution of every variant added; now exit 1 with sharded|precomp:op:map.Remove:ephemeral[,idem]:
      key-7-other-slot (+ rueidis-cross-slot-panic) and nothing else.
      Also caught by the invocation replay: map Publish without the :nil: substitution of the cleanup
      registration key (..:op:map.Publish:persistent,keyed:key-8-other-slot, also recoverable unkeyed);
      broker history publish passing an empty result key without idempotency key
      (..:op:broker.Publish:history:key-3-other-slot).
  C35 (all caught, exit 1): one precomputed tag altered (ms3 -> ms4: balance of size 16 on 8 masters);
      TagSlot modulo 16383; table of size 32 returned for 64; SlotToNode boundary r*sn instead of r*(sn+1)
      (first run: harness crashed with an index error = exit 2 -> range guard added, now exit 1); a tag
      containing '}'; a duplicated tag; crc16 polynomial 0x1023.
"""
import json
import os
import re

from lib import vf, tlaparse


# ------------------------------------------------------------------------------------------ helpers
def _workers():
    """TLC workers: the framework default unless VERIF_WORKERS is set (builders share the machine)."""
    w = int(os.environ.get('VERIF_WORKERS', '0') or 0)
    return w or None


def flat_rows(c, res, var='row'):
    """Fast reader for a `-dump` whose states are ONE variable holding a flat tuple of strings / ints /
    booleans (the table specs of this family are written that way: 10^5..10^6 rows). Strings of these
    specs contain no whitespace, quotes or backslashes, so a tuple is JSON after renaming the brackets.
    The first rows are cross-checked against the general parser lib/tlaparse.py."""
    txt = open(res['dump_file']).read()
    rows = []
    head = var + ' = <<'
    for blk in txt.split('\n\n'):
        i = blk.find(head)
        if i < 0:
            continue
        body = ' '.join(blk[i + len(head):].split())
        if not body.endswith('>>'):
            raise vf.Inconclusive('unexpected dump block: %r' % blk[:200])
        body = body[:-2].replace('TRUE', 'true').replace('FALSE', 'false').replace('<<', '[').replace('>>', ']')
        rows.append(json.loads('[' + body + ']'))
    ref = tlaparse.parse_states_file('\n\n'.join(txt.split('\n\n')[:50]))
    for a, b in zip(rows, ref):
        if a != b[var]:
            raise vf.Inconclusive('fast dump reader disagrees with lib/tlaparse: %r vs %r' % (a, b[var]))
    return rows


# ---------------------------------------------------------------------------------------------- C33
def c33(c):
    cfg = 'quick.cfg' if c.tier == 'quick' else 'thorough.cfg'
    r = c.tlc_exhaustive('PushFrame', 'PushFrame', cfg, dump=True, timeout=1500, workers=_workers())
    rows = [x for x in flat_rows(c, r) if x[0] != 'seed']
    bad = [x for x in rows if not (x[10] and x[11])]
    if bad:
        raise vf.Inconclusive('spec-level: TLC accepted rows flagged non-canonical / not round-tripping: %r' % bad[:3])
    fams = {}
    for x in rows:
        fams[x[0] + ':' + x[1]] = fams.get(x[0] + ':' + x[1], 0) + 1
    c.log('TLC: %d table rows (Decode total, RoundTrip and Canonical hold on the grammar): %s' % (len(rows), json.dumps(fams, sort_keys=True)))
    binp = c.go_build('redisfuncs')
    res = c.harness(binp, 'pushframe', {'rows': [x[:10] for x in rows]})
    c.absorb(res)
    cnt = res['counters']
    c.log('replay: %s lenient=%s' % (json.dumps(cnt, sort_keys=True), json.dumps(res['extra'].get('lenient_accepts_by_frame_type'))))
    c.cov['traces_validated_against_impl'] = res['completed']
    c.cov['evaluations'] = res['executed']
    c.cov['distinct_nontrivial'] = res['nontrivial']
    c.cov['exhaustive'] = True
    c.cov['row_classes'] = fams
    c.cov['replay_counters'] = cnt
    c.cov['lenient_accepts_by_frame_type'] = res['extra'].get('lenient_accepts_by_frame_type')
    c.cov['rule'] = ('every row (string, Decode(string)) enumerated by TLC from spec/PushFrame/%s: all strings / all "__"+tail / "__p1:"+tail / '
                     '"__d1:"+tail / "__d1:1:x:"+tail up to the configured lengths, every Encode(x) of the bounded field tuples, and every '
                     'prefix, one-character substitution and one-character deletion of the base frames; non-trivial = distinct strings '
                     'starting with "__" (frames, rejected strings, panicking strings)' % cfg)
    c.cov['samples'] = res['samples'] or [{'input': x[2], 'class': x[1]} for x in rows if x[1] == 'frame'][:3]
    c.assumptions += [
        'the Lua encoders (broker_history_add_stream.lua / broker_history_add_list.lua) are TRANSCRIBED into Encode, not executed (no Redis / Lua here); '
        'the join / leave encoders are Go and are executed',
        'epochs contain no "_" (positioned) and no ":" (delta): epoch.Generate() yields 8 letters; offsets < 10^14 (Lua formats larger numbers with an exponent)',
        'a plain (no-history) publication payload is a protocol.Publication protobuf, which cannot start with "__" (0x5F is not a valid field tag)',
        'strings outside the grammar that the code accepts leniently (e.g. "__jxx__p", "__pXY1:e__p", trailing bytes after a delta payload) are counted, not judged: '
        'the property only demands that decoding them does not crash',
        'bounded: alphabet and lengths as in spec/PushFrame/%s' % cfg]


# ---------------------------------------------------------------------------------------------- C34
def c34(c):
    cfg = 'quick.cfg' if c.tier == 'quick' else 'thorough.cfg'
    r = c.tlc_exhaustive('RedisKeys', 'RedisKeys', cfg, dump=True, timeout=1500, workers=_workers())
    allrows = flat_rows(c, r)
    ops = [x for x in allrows if x[0] == 'ops']
    rows = [x for x in allrows if x[0] not in ('ops', 'seed')]
    classes = {}
    for x in rows:
        k = x[0] + ':' + x[4]
        classes[k] = classes.get(k, 0) + 1
    c.log('TLC: %d rows (mode, prefix, lists, channel); every failing operation lies in a named input class and every class fails: %s'
          % (len(rows), json.dumps(classes, sort_keys=True)))
    binp = c.go_build('redisfuncs')
    res = c.harness(binp, 'keys', {'partitions': 16, 'ops': ops, 'rows': rows, 'capture': True,
                                    'full_variants_max_len': 1 if c.tier == 'quick' else 2}, timeout=1500)
    c.absorb(res)
    c.log('replay: %s extra=%s' % (json.dumps(res['counters'], sort_keys=True), json.dumps({k: v for k, v in res['extra'].items()})[:600]))
    c.log('violation signatures from the real code: %s; drifts: %d' % (sorted(v['sig'] for v in res.get('violations') or []), len(res.get('drifts') or [])))
    for d in (res.get('drifts') or [])[:5]:
        c.log('drift: %s' % d['what'])
    c.cov['traces_validated_against_impl'] = res['completed']
    c.cov['evaluations'] = res['executed']
    c.cov['distinct_nontrivial'] = res['nontrivial']
    c.cov['exhaustive'] = True
    c.cov['input_classes'] = classes
    c.cov['replay_counters'] = res['counters']
    c.cov['replay_extra'] = res['extra']
    c.cov['rule'] = ('every (mode in plain/cluster/sharded/precomputed, prefix in {default, p, p{, p}, {p}, a{}b}, UseLists, channel over '
                     "{'{','}','.','a',':'} up to the length of spec/RedisKeys/%s) enumerated by TLC; non-trivial = cluster-mode inputs whose "
                     'channel contains a brace' % cfg)
    c.cov['samples'] = res['samples']
    c.assumptions += [
        'the engines are built without a connection: RedisBroker / RedisPresenceManager by their real constructors around a RedisShard value, '
        'RedisMapBroker assembled in the shim from the constructor\'s statements (its constructor starts workers that need the connection)',
        'per-invocation KEYS lists (by position, per operation variant): transcribed in the spec from the call sites AND compared with the commands the real '
        'operations build on a recording rueidis client (EVALSHA KEYS + the channel argument, DEL keys, single-key commands); the Lua scripts themselves are not executed; '
        'every variant runs on channel names of length <= %d, one variant per script on every channel (which positions are unused does not depend on the name)' % (1 if c.tier == 'quick' else 2),
        'slots by an independent CRC16-XMODEM (bit-serial long division) + hash-tag rule in the harness, self-tested on the vectors of the Redis cluster specification',
        '16 partitions in the sharded modes; the idempotency key is "i"; bounded channel names and prefixes as in spec/RedisKeys/%s' % cfg]


# ---------------------------------------------------------------------------------------------- C35
def partition_data_module(sizes, tags):
    """The code's tag tables as a TLA+ data module (tags as byte sequences)."""
    out = ['---------------------------- MODULE PartitionData ----------------------------',
           '\\* GENERATED by fam/redisfuncs.py from redispartition.PrecomputedSizes() / FindTags(n) of the checked tree',
           '\\* (harness/redisfuncs mode dumptags). The copy committed under spec/Partition/ is the pinned commit\'s data',
           '\\* and is overwritten in the scratch copy of every check run.',
           'EXTENDS Integers, Sequences', '',
           'Sizes == <<%s>>' % ', '.join(str(s) for s in sizes), '']
    cases = []
    for s in sizes:
        rows = ['<<%s>>' % ', '.join(str(b) for b in t.encode('utf-8')) for t in tags[str(s)]]
        body = ',\n     '.join(', '.join(rows[i:i + 8]) for i in range(0, len(rows), 8))
        cases.append('T%d ==\n  <<%s>>\n' % (s, body))
    out += cases
    out.append('Tags == [P \\in {%s} |->\n  %s]' % (', '.join(str(s) for s in sizes),
               '\n  ELSE '.join('IF P = %d THEN T%d' % (s, s) for s in sizes) + '\n  ELSE <<>>'))
    out.append('=============================================================================')
    return '\n'.join(out) + '\n'


def c35(c):
    cfg = 'quick.cfg' if c.tier == 'quick' else 'thorough.cfg'
    binp = c.go_build('redisfuncs')
    d = c.harness(binp, 'dumptags', {})
    c.absorb(d)
    sizes, tags = d['extra']['sizes'], d['extra']['tags']
    specdir = c._specdir('Partition')
    with open(os.path.join(specdir, 'PartitionData.tla'), 'w') as fh:
        fh.write(partition_data_module(sizes, tags))
    c.log('code data: sizes %s, %d tags' % (sizes, sum(len(v) for v in tags.values())))
    r = c.tlc_exhaustive('Partition', 'Partition', cfg, dump=True, timeout=1800, workers=_workers())
    rows = [x for x in flat_rows(c, r) if x[0] != 'seed']
    nbal = 0
    for x in rows:
        if x[0] == 'size':
            _, p, n, charset, distinct, inorder, slots = x
            if n != p:
                c.violation('size:P=%d' % p, 'FindTags(%d) returns %d tags' % (p, n), {'size': p, 'tags': tags[str(p)][:8]})
            if not charset:
                c.violation('charset:P=%d' % p, 'a tag of size %d is empty or has a character outside [a-z0-9] (a brace breaks the hash tag, a dot extractChannel): %r'
                            % (p, [t for t in tags[str(p)] if not re.fullmatch('[a-z0-9]+', t)][:5]), {'size': p})
            if not distinct:
                dup = sorted(s for s in set(slots) if slots.count(s) > 1)
                c.violation('distinct:P=%d' % p, 'size %d: tags share a Redis hash slot: %r' % (p, [(tags[str(p)][i], s) for s in dup[:3] for i in range(len(slots)) if slots[i] == s]), {'size': p})
            if not inorder:
                c.notes.append('size %d: the table is not stored in slot order' % p)
        elif x[0] == 'bal':
            _, p, k, lo, hi, mn, mx = x
            nbal += 1
            if mx - mn > 1 or mn < lo or mx > hi:
                c.violation('balance:P=%d' % p, 'size %d on a cluster of %d masters: per-node partition counts range over [%d,%d], balanced would be [%d,%d]'
                            % (p, k, mn, mx, lo, hi), {'size': p, 'k': k})
    c.log('TLC: %d sizes, %d (P,k) balance rows evaluated on the code\'s tables' % (len(sizes), nbal))
    res = c.harness(binp, 'partition', {'rows': rows}, timeout=1500)
    c.absorb(res)
    c.log('replay: %s extra=%s' % (json.dumps(res['counters'], sort_keys=True), json.dumps(res['extra'])[:500]))
    c.cov['traces_validated_against_impl'] = res['completed']
    c.cov['evaluations'] = res['executed'] + res['counters'].get('slot_to_node_checked', 0)
    c.cov['distinct_nontrivial'] = res['nontrivial']
    c.cov['exhaustive'] = True
    c.cov['sizes'] = sizes
    c.cov['balance_pairs_by_tlc'] = nbal
    c.cov['balance_pairs_by_harness_sweep'] = res['counters'].get('balance_pairs_by_harness_sweep', 0)
    c.cov['rediscli_float_split_information'] = res['extra'].get('rediscli_float_split')
    c.cov['rule'] = ('every precomputed size P of the code and the cluster sizes k <= P selected by spec/Partition/%s (quick: all k for P <= 128, a stride for larger P; '
                     'thorough: all k); the remaining (P,k) are swept by the harness with the same assignment formula, cross-checked against TLC on sampled k; '
                     'non-trivial = (P,k) rows and sizes' % cfg)
    c.cov['samples'] = [{'size': x[1], 'k': x[2], 'floor': x[3], 'ceil': x[4], 'min': x[5], 'max': x[6]} for x in rows if x[0] == 'bal' and x[2] in (3, 7, 100)][:3]
    c.assumptions += [
        'the slot assignment of a k-master cluster is the even contiguous split the package documents (first 16384 mod k nodes own one more slot); '
        'redis-cli --cluster create rounds boundaries with float arithmetic - reported as information, not judged',
        'TLC decides distinctness and balance on the code\'s dumped tables; the harness decides TagSlot = spec slot for every tag, SlotToNode = spec assignment '
        'for every slot and every k <= 4096, and repeats every (P,k) count with the code\'s own functions']


CHECKS = {'C33': c33, 'C34': c34, 'C35': c35}

META = {
    'C33': dict(
        level='model_checking',
        text='The frame grammar of Redis PUB/SUB payloads is written in TLA+ from the encoders (Lua scripts for positioned and delta frames, Go for join/leave, raw protobuf for plain), with Encode and a total Decode. TLC checks on the grammar that Decode(Encode(x)) = x over bounded fields (payloads containing ":" "__" and digits, epochs, empty and non-empty previous payloads), that every accepted frame re-encodes to itself, and that Decode is defined on every enumerated string. Every row (string, expected decode / plain / rejected) is replayed into the real extractPushData with recover(): a panic violates "never crashes the node", a different decode of a plain payload or well-formed frame violates the round trip.',
        note='Bounds: see spec/PushFrame/quick.cfg and thorough.cfg (exhaustive short strings over an 11-character alphabet, exhaustive tails after the frame headers, mutants of valid frames). The Lua encoders are transcribed, not executed. Trusted: TLC, the dump reader (cross-checked against lib/tlaparse.py), the harness comparison.',
        technique='TLA+ grammar (Encode / total Decode) + TLC exhaustive enumeration; function-table replay into extractPushData with recover()',
        design_ref='DESIGN.md 4.4, 8 (C33), 9, 10 item 5'),
    'C34': dict(
        level='model_checking',
        text='The Redis Cluster hash-tag rule and the key / channel builders of the stream broker, the map broker and the presence manager are transcribed into TLA+ for the four deployment modes (plain, cluster, sharded PUB/SUB with numeric or precomputed partition tags), together with the key set every script call receives. TLC evaluates, for every bounded (mode, prefix, channel), whether all KEYS (by position, placeholders included) and the PUB/SUB channel of every command of every operation variant carry the same hash tag and whether extractChannel(messageChannelID(ch)) = ch, and proves that every failure lies in a named input class. Every row is replayed into the real builders (engines constructed without a connection); slots are computed by an independent CRC16 + hash-tag implementation, every operation variant (broker publish with/without history, delta, idempotency key, version; map publish/remove/read/clear/cleanup in ephemeral, recoverable and persistent mode; presence) is executed against a recording rueidis client and the recorded KEYS and channel of each command must equal the list of the spec position by position and lie in one slot.',
        note='Bounds: channel names up to 3 (quick) / 4 (thorough) characters over { } . a :, six prefixes, 16 partitions. Unsound input classes of the design are reported with signatures mode:operation:class. Trusted: TLC, the dump reader, the harness slot function (self-tested on the Redis specification vectors).',
        technique='TLA+ transcription of key builders and hash-tag rule + TLC exhaustive enumeration; function-table replay into the real builders and command capture on a recording client',
        design_ref='DESIGN.md 4.4, 8 (C34), 10 item 10'),
    'C35': dict(
        level='model_checking',
        text='The precomputed partition tag tables are dumped from the code (PrecomputedSizes / FindTags) into a generated TLA+ data module and validated against an independent oracle: CRC16-XMODEM written as bit-serial polynomial division (Bitwise xor, no table), slot = crc mod 16384, and the even contiguous slot-to-node assignment of a k-master cluster. TLC computes, per supported size, the slots, their pairwise distinctness and the tag character set, and per (size, cluster size) the minimum and maximum per-node partition count; rows that falsify the property are violations. The Go harness compares the spec slot of every tag with the code\'s TagSlot, the assignment with SlotToNode for every slot and every cluster size up to 4096, and recomputes every (P,k) count with the code\'s functions.',
        note='quick: all cluster sizes for P <= 128, strided for 256..4096 in TLC and all remaining (P,k) by the harness sweep with the same formula; thorough: every (P,k), k <= P, in TLC. Trusted: TLC + the Bitwise module override, the generated data module writer, the harness.',
        technique='code data dumped into a TLA+ data module + TLC evaluation of an independent CRC16 / slot-assignment oracle; table comparison with TagSlot / SlotToNode in the Go harness',
        design_ref='DESIGN.md 4.4, 8 (C35)'),
}
