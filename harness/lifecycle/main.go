// C04 C05 C06 C07 C08(unsubscribe/disconnect callbacks) C26: gate replay of spec/SubLifecycle behaviours.
//
// Every model thread (CS client subscribe, CU client unsubscribe, SS Client.Subscribe, SU Client.Unsubscribe,
// CL close, TK presence tick, JOB dissolver job) is a real goroutine that is parked where the model's pc says:
// inside calls through public interfaces implemented by the harness (OnSubscribe, Broker.Subscribe/Unsubscribe,
// PresenceManager.Add/RemovePresence, Broker.PublishJoin/PublishLeave, OnUnsubscribe, OnAlive, Transport.Close,
// OnDisconnect) and at the `verif` hooks (unsub:snapshot, sub:replied, ssub:committed, tick:done).
// One model step = release exactly one thread and wait until it parks again or finishes. After every step
// the abstract state is projected from the real objects and compared with the model; at the end the
// observable-only monitors of the properties are evaluated on the real observations and decide the verdict.
//
// Failing round trips (model constant Faults): the node's broker and presence manager are faultBroker /
// faultPresence, thin wrappers around cl.GateBroker / cl.GatePresence whose PublishJoin, PublishLeave, AddPresence,
// RemovePresence (and Broker.Unsubscribe through GateBroker.UnsubscribeErr) park at the same natural gates and, when
// the model step that releases them says `fail`, return an error (AddPresence / PublishJoin / PublishLeave /
// Unsubscribe: nothing reaches the inner implementation; RemovePresence: the removal lands, the reply is lost).
//
// Routing attributes (model variable attr): the client-side subscribe of a behaviour carries a client tags filter
// (fA: SubscribeRequest.Tf) or a server tags filter (fB: OnSubscribe reply options), the server-side subscribe a
// server tags filter (SubscribeOptions.ServerTagsFilter); both are marked with SubscribeOptions.Source so that the
// settled-state probe reads from the connection WHICH subscription it reports, publishes three marker publications
// (admitted only by filter A, only by filter B, untagged) and requires exactly the set that subscription admits.
package main

import (
	"context"
	"encoding/json"
	"errors"
	"fmt"
	"sync"
	"time"

	"github.com/centrifugal/centrifuge"
	"github.com/centrifugal/protocol"

	"verifharness/cl"
	"verifharness/vh"
)

const stepTimeout = 4 * time.Second

// thread is one model thread; `at` is the gate it is parked at ("" = running or not started).
type thread struct {
	name    string
	arrived chan string   // gate kind, or "done"
	release chan struct{} // one token per release
}

type runner struct {
	w      *worker
	ch     string
	conn   *cl.Conn
	client string
	async  bool

	mu          sync.Mutex
	gids        map[uint64]string // goroutine id -> thread name
	expect      map[string]string // thread -> gate kind it is expected to park at next
	parked      map[string]string // thread -> gate kind it is parked at
	threads     map[string]*thread
	jl          []string
	pendCb      func(centrifuge.SubscribeReply, error)
	brokerCalls []string
	failNext    map[string]bool // thread -> the round trip it is parked in returns an error when released
	positioned  bool            // the client-side subscription is positioned (Broker.History after AddPresence)
	attrCS      string          // routing attribute of the client-side / server-side subscribe: "none", "fA", "fB"
	attrSS      string
}

var errFault = errors.New("verif: injected round trip failure")

const (
	srcCS uint8 = 1 // SubscribeOptions.Source of the behaviour's client-side subscription
	srcSS uint8 = 2 // ... of its server-side subscription
)

var (
	filterA = &centrifuge.FilterNode{Key: "t", Cmp: "eq", Val: "a"}
	filterB = &centrifuge.FilterNode{Key: "t", Cmp: "eq", Val: "b"}
)

func attrFilter(a string) *centrifuge.FilterNode {
	switch a {
	case "fA":
		return filterA
	case "fB":
		return filterB
	}
	return nil
}

// admitted: the marker publications (A: tags t=a, B: tags t=b, U: untagged) a subscription with this attribute gets
func admitted(a string) string {
	switch a {
	case "fA":
		return "A"
	case "fB":
		return "B"
	}
	return "ABU"
}

// faultBroker / faultPresence: cl.GateBroker / cl.GatePresence whose gated round trips can be released with an error.
type faultBroker struct {
	*cl.GateBroker
	w *worker
}

func (b *faultBroker) PublishJoin(ch string, info *centrifuge.ClientInfo) error {
	if r := b.w.runner(); r != nil && ch == r.ch {
		fail := r.gate("PublishJoin")
		r.mu.Lock()
		r.jl = append(r.jl, "join")
		r.mu.Unlock()
		if fail {
			return errFault
		}
	}
	return b.Inner.PublishJoin(ch, info)
}

func (b *faultBroker) PublishLeave(ch string, info *centrifuge.ClientInfo) error {
	if r := b.w.runner(); r != nil && ch == r.ch {
		fail := r.gate("PublishLeave")
		r.mu.Lock()
		r.jl = append(r.jl, "leave")
		r.mu.Unlock()
		if fail {
			return errFault
		}
	}
	return b.Inner.PublishLeave(ch, info)
}

// History: the stream-top read of a positioned client-side subscribe is a gate; a failing step answers a client
// error (non-internal *centrifuge.Error): the subscribe command is answered with an error reply, no disconnect.
func (b *faultBroker) History(ch string, opts centrifuge.HistoryOptions) ([]*centrifuge.Publication, centrifuge.StreamPosition, error) {
	if r := b.w.runner(); r != nil && ch == r.ch {
		if r.gate("BrokerHistory") {
			return nil, centrifuge.StreamPosition{}, centrifuge.ErrorUnrecoverablePosition
		}
	}
	return b.GateBroker.History(ch, opts)
}

type faultPresence struct {
	*cl.GatePresence
	w *worker
}

func (p *faultPresence) AddPresence(ch string, clientID string, info *centrifuge.ClientInfo) error {
	if r := p.w.runner(); r != nil && ch == r.ch {
		if r.gate("AddPresence") {
			return errFault // nothing landed
		}
	}
	return p.Inner.AddPresence(ch, clientID, info)
}

func (p *faultPresence) RemovePresence(ch string, clientID string, userID string) error {
	fail := false
	if r := p.w.runner(); r != nil && ch == r.ch {
		fail = r.gate("RemovePresence")
	}
	err := p.Inner.RemovePresence(ch, clientID, userID)
	if fail {
		return errFault // the removal landed, its reply was lost
	}
	return err
}

type worker struct {
	env    *cl.Env
	gb     *cl.GateBroker
	gp     *cl.GatePresence
	timers *cl.ManualTimers
	cur    *runner
	curMu  sync.RWMutex
}

func (w *worker) runner() *runner {
	w.curMu.RLock()
	defer w.curMu.RUnlock()
	return w.cur
}

var workers sync.Map // client id -> *worker (for the global hook gate)

func (r *runner) th(name string) *thread {
	r.mu.Lock()
	defer r.mu.Unlock()
	t, ok := r.threads[name]
	if !ok {
		t = &thread{name: name, arrived: make(chan string, 8), release: make(chan struct{}, 8)}
		r.threads[name] = t
	}
	return t
}

func (r *runner) register(name string) {
	r.mu.Lock()
	r.gids[cl.GoID()] = name
	r.mu.Unlock()
}

// whoami maps the calling goroutine to a model thread; goroutines spawned by the library itself are
// attributed by the kind of the call.
func (r *runner) whoami(kind string) string {
	r.mu.Lock()
	defer r.mu.Unlock()
	if n, ok := r.gids[cl.GoID()]; ok {
		return n
	}
	switch kind {
	case "OnAlive", "AddPresence", "tick:done":
		return "TK"
	case "BrokerUnsubscribe":
		return "JOB"
	}
	return "CL"
}

// gate is called from every natural gate / hook. It parks the calling goroutine iff the scheduler expects
// this thread to park at this kind; otherwise the call passes through.
func (r *runner) gate(kind string) (fail bool) {
	name := r.whoami(kind)
	r.mu.Lock()
	exp := r.expect[name]
	if exp != kind {
		r.mu.Unlock()
		return false
	}
	r.expect[name] = ""
	r.parked[name] = kind
	r.mu.Unlock()
	t := r.th(name)
	t.arrived <- kind
	select {
	case <-t.release:
	case <-time.After(3 * stepTimeout):
	}
	r.mu.Lock()
	r.parked[name] = ""
	fail = r.failNext[name]
	r.failNext[name] = false
	r.mu.Unlock()
	return fail
}

// failOnRelease: the round trip thread `name` is parked in returns an error when it is released next
func (r *runner) failOnRelease(name string) {
	r.mu.Lock()
	r.failNext[name] = true
	r.mu.Unlock()
}

func (r *runner) done(name string) { r.th(name).arrived <- "done" }

// await waits until thread `name` parks (returns the gate kind) or finishes ("done"); "" on timeout.
func (r *runner) await(name string, d time.Duration) string {
	select {
	case k := <-r.th(name).arrived:
		return k
	case <-time.After(d):
		return ""
	}
}

func (r *runner) expectAt(name, kind string) {
	r.mu.Lock()
	r.expect[name] = kind
	r.mu.Unlock()
}

func (r *runner) releaseThread(name string) { r.th(name).release <- struct{}{} }

// ---------------------------------------------------------------- worker setup

func newWorker() (*worker, error) {
	w := &worker{timers: &cl.ManualTimers{}}
	env, err := cl.NewEnv(centrifuge.Config{
		LogLevel:             centrifuge.LogLevelNone,
		ClientTimerScheduler: w.timers,
	})
	if err != nil {
		return nil, err
	}
	w.env = env
	gb, err := cl.NewGateBroker(env.Node)
	if err != nil {
		return nil, err
	}
	w.gb = gb
	gp, err := cl.NewGatePresence(env.Node)
	if err != nil {
		return nil, err
	}
	w.gp = gp
	env.Node.SetBroker(&faultBroker{GateBroker: gb, w: w})
	env.Node.SetPresenceManager(&faultPresence{GatePresence: gp, w: w})
	gb.OnSubscribe = func(ch string) {
		if r := w.runner(); r != nil && ch == r.ch {
			r.mu.Lock()
			r.brokerCalls = append(r.brokerCalls, "sub")
			r.mu.Unlock()
			r.gate("BrokerSubscribe")
		}
	}
	// GateBroker.Unsubscribe asks UnsubscribeErr first: the gate of the dissolver job's Broker.Unsubscribe, which a
	// failing model step releases with an error (nothing reaches the inner broker, no "unsub" is recorded)
	gb.UnsubscribeErr = func(ch string) error {
		if r := w.runner(); r != nil && ch == r.ch {
			if r.gate("BrokerUnsubscribe") {
				return errFault
			}
			r.mu.Lock()
			r.brokerCalls = append(r.brokerCalls, "unsub")
			r.mu.Unlock()
		}
		return nil
	}
	env.OnSubscribe = func(_ *centrifuge.Client, e centrifuge.SubscribeEvent, cb centrifuge.SubscribeCallback) {
		r := w.runner()
		if r == nil || e.Channel != r.ch {
			cb(centrifuge.SubscribeReply{}, nil)
			return
		}
		if r.async {
			r.mu.Lock()
			r.pendCb = cb
			r.mu.Unlock()
			return
		}
		r.gate("OnSubscribe")
		cb(r.subReply(), nil)
	}
	env.Setup = func(c *centrifuge.Client) {
		c.OnAlive(func() {
			if r := w.runner(); r != nil {
				r.gate("OnAlive")
			}
		})
	}
	env.PreHook = func(client, kind, ch string) {
		r := w.runner()
		if r == nil || client != r.client {
			return
		}
		switch kind {
		case "unsubscribe":
			if ch == r.ch {
				r.gate("OnUnsubscribe")
			}
		case "disconnect":
			r.gate("OnDisconnect")
		}
	}
	if err := env.Run(); err != nil {
		return nil, err
	}
	return w, nil
}

// subReply: the OnSubscribe reply of the behaviour's client-side subscribe (attribute fB = a server tags filter set here;
// fA = the client's own tags filter, sent in the subscribe request and allowed here)
func (r *runner) subReply() centrifuge.SubscribeReply {
	o := centrifuge.SubscribeOptions{EmitPresence: true, EmitJoinLeave: true, AllowTagsFilter: true, Source: srcCS, EnablePositioning: r.positioned}
	if r.attrCS == "fB" {
		o.ServerTagsFilter = filterB
	}
	return centrifuge.SubscribeReply{Options: o}
}

func (r *runner) subRequest() *protocol.SubscribeRequest {
	req := &protocol.SubscribeRequest{Channel: r.ch}
	if r.attrCS == "fA" {
		req.Tf = filterA
	}
	return req
}

// reported: the routing attribute of the subscription the connection itself reports for the channel ("" = none)
func (r *runner) reported() (attr string, subscribed bool) {
	ctx, ok := r.conn.Client.ChannelsWithContext()[r.ch]
	if !ok {
		return "", false
	}
	switch ctx.Source {
	case srcCS:
		return r.attrCS, true
	case srcSS:
		return r.attrSS, true
	}
	return "?", true
}

// markerProbe publishes the three marker publications and returns which of them the connection received (a letter
// per marker, followed by its count when it arrived more than once), in A, B, U order.
func (r *runner) markerProbe(subID, unsubID uint32) string {
	r.conn.Barrier(time.Second)
	before := len(r.frames(subID, unsubID))
	n := r.w.env.Node
	_, _ = n.Publish(r.ch, []byte(`"mA"`), centrifuge.WithTags(map[string]string{"t": "a"}))
	_, _ = n.Publish(r.ch, []byte(`"mB"`), centrifuge.WithTags(map[string]string{"t": "b"}))
	_, _ = n.Publish(r.ch, []byte(`"mU"`))
	r.conn.Barrier(time.Second)
	cnt := map[string]int{}
	for _, f := range r.frames(subID, unsubID)[before:] {
		switch f {
		case `pub:"mA"`:
			cnt["A"]++
		case `pub:"mB"`:
			cnt["B"]++
		case `pub:"mU"`:
			cnt["U"]++
		}
	}
	got := ""
	for _, k := range []string{"A", "B", "U"} {
		if cnt[k] == 1 {
			got += k
		} else if cnt[k] > 1 {
			got += fmt.Sprintf("%s%d", k, cnt[k])
		}
	}
	return got
}

// the process-wide hook gate dispatches by client id
func hookGate(point, clientID, channel string) {
	v, ok := workers.Load(clientID)
	if !ok {
		return
	}
	r := v.(*worker).runner()
	if r == nil || r.client != clientID {
		return
	}
	if channel != "" && channel != r.ch {
		return
	}
	if point == "tick:done" {
		r.done("TK")
		return
	}
	r.gate(point)
}

// ---------------------------------------------------------------- projection

type proj struct {
	Subscribed bool     `json:"subscribed"`
	Hub        bool     `json:"hub"`
	Pres       bool     `json:"pres"`
	Closed     bool     `json:"closed"`
	JL         []string `json:"jl"`
	Cbs        []string `json:"cbs"`
	BrokerSub  bool     `json:"broker_sub"`
}

func (r *runner) project() proj {
	p := proj{JL: []string{}, Cbs: []string{}}
	p.Subscribed = r.conn.Client.IsSubscribed(r.ch)
	p.Hub = r.w.env.Node.Hub().NumSubscribers(r.ch) > 0
	if m, err := r.w.gp.Inner.Presence(r.ch); err == nil {
		_, p.Pres = m[r.client]
	}
	p.Closed, _ = r.conn.T.Closed()
	r.mu.Lock()
	p.JL = append(p.JL, r.jl...)
	if n := len(r.brokerCalls); n > 0 {
		p.BrokerSub = r.brokerCalls[n-1] == "sub"
	}
	r.mu.Unlock()
	for _, ev := range r.w.env.EventsOf(r.client) {
		switch {
		case ev.Kind == "unsubscribe" && ev.Ch == r.ch:
			p.Cbs = append(p.Cbs, "unsub")
		case ev.Kind == "disconnect":
			p.Cbs = append(p.Cbs, "disc")
		}
	}
	return p
}

func modelProj(st map[string]any) proj {
	p := proj{JL: []string{}, Cbs: []string{}}
	e := vh.Map(st["entry"])
	p.Subscribed = vh.Int(e["gen"]) != 0 && vh.Bool(e["sub"])
	p.Hub = vh.Int(st["hubE"]) != 0
	p.Pres = vh.Bool(st["pres"])
	p.BrokerSub = vh.Bool(st["brokerSub"])
	for _, x := range vh.List(st["jl"]) {
		p.JL = append(p.JL, vh.Str(vh.Map(x)["k"]))
	}
	for _, x := range vh.List(st["cbs"]) {
		p.Cbs = append(p.Cbs, vh.Str(x))
	}
	return p
}

func sameStrs(a, b []string) bool {
	if len(a) != len(b) {
		return false
	}
	for i := range a {
		if a[i] != b[i] {
			return false
		}
	}
	return true
}

// frames written to the subject connection, as the model's `out` kinds
func (r *runner) frames(subID, unsubID uint32) []string {
	var out []string
	for _, rep := range r.conn.Frames() {
		switch {
		case rep.Connect != nil:
		case rep.Id == subID && subID != 0 && rep.Subscribe != nil:
			out = append(out, "subreply")
		case rep.Id == subID && subID != 0 && rep.Error != nil:
			out = append(out, "suberr")
		case rep.Id == unsubID && unsubID != 0 && rep.Unsubscribe != nil:
			out = append(out, "unsubreply")
		case rep.Push != nil && rep.Push.Channel == r.ch && rep.Push.Subscribe != nil:
			out = append(out, "subpush")
		case rep.Push != nil && rep.Push.Channel == r.ch && rep.Push.Unsubscribe != nil:
			out = append(out, "unsubpush")
		case rep.Push != nil && rep.Push.Disconnect != nil:
		case rep.Push != nil && rep.Push.Channel == r.ch && rep.Push.Pub != nil:
			out = append(out, "pub:"+string(rep.Push.Pub.Data))
		case rep.Push != nil && (rep.Push.Join != nil || rep.Push.Leave != nil):
		default:
			out = append(out, "other:"+cl.Describe(rep))
		}
	}
	if closed, _ := r.conn.T.Closed(); closed {
		out = append(out, "disc")
	}
	return out
}

// ---------------------------------------------------------------- one behaviour

// nextGate: the gate kind at which thread t parks when the model's pc[t] has the given value.
func gateOf(t, pc string) string {
	switch pc {
	case "cb":
		return "OnSubscribe"
	case "bsub":
		return "BrokerSubscribe"
	case "pres", "tkpres":
		return "AddPresence"
	case "hist":
		return "BrokerHistory"
	case "replied":
		return "sub:replied"
	case "committed":
		return "ssub:committed"
	case "join":
		return "PublishJoin"
	case "snap":
		return "unsub:snapshot"
	case "rempres":
		return "RemovePresence"
	case "leave":
		return "PublishLeave"
	case "ucb":
		return "OnUnsubscribe"
	case "tclose":
		return "TransportClose"
	case "kdisc":
		return "OnDisconnect"
	case "tkalive":
		return "OnAlive"
	}
	return ""
}

func (w *worker) run(bi int, beh []map[string]any, res *vh.Result) {
	st0 := beh[0]
	r := &runner{w: w, ch: fmt.Sprintf("lc%d_%d", vh.Seed(), bi), async: vh.Bool(st0["async"]),
		gids: map[uint64]string{}, expect: map[string]string{}, parked: map[string]string{}, threads: map[string]*thread{},
		failNext: map[string]bool{}, attrCS: "none", attrSS: "none"}
	r.positioned = vh.Bool(st0["positioned"])
	if a := vh.Map(st0["attr"]); a != nil {
		r.attrCS, r.attrSS = vh.Str(a["CS"]), vh.Str(a["SS"])
	}
	t := cl.NewTransport(centrifuge.ProtocolTypeJSON)
	if vh.Bool(st0["nopush"]) {
		t.DisabledFlags = centrifuge.PushFlagSubscribe // the server-side subscribe writes no push on this transport
	}
	t.OnClose = func(centrifuge.Disconnect) {
		if rr := w.runner(); rr == r {
			r.gate("TransportClose")
		}
	}
	conn, err := w.env.NewConnT("u", t)
	if err != nil {
		res.Drift("", "NewConn: "+err.Error(), nil)
		res.Done(1, 0)
		return
	}
	r.conn = conn
	r.client = conn.Client.ID()
	workers.Store(r.client, w)
	defer workers.Delete(r.client)
	w.curMu.Lock()
	w.cur = r
	w.curMu.Unlock()
	defer func() {
		w.curMu.Lock()
		w.cur = nil
		w.curMu.Unlock()
		conn.Client.Disconnect()
		conn.Cancel()
	}()
	if conn.Connect() == nil {
		res.Drift("", "connect failed", nil)
		res.Done(1, 0)
		return
	}
	var steps []any
	completed := 1
	ops := vh.J(st0["ops"]) + fmt.Sprintf(" attr cs=%s ss=%s positioned=%v", r.attrCS, r.attrSS, r.positioned)
	type pdrift struct {
		what   string
		replay any
	}
	var pending []pdrift
	drift := func(what string) {
		pending = append(pending, pdrift{fmt.Sprintf("%s (behaviour %d ops %s async %v)", what, bi, ops, r.async), map[string]any{"ops": st0["ops"], "attr": st0["attr"], "async": r.async, "steps": append([]any(nil), steps...)}})
		completed = 0
	}
	var subID, unsubID uint32
	closeStarted := false
	jobDrift := false // the model's dissolver job step found no job calling Broker.Unsubscribe (all threads had finished)
	// schedule classes of the behaviour (from the model's pre-states), part of the violation signatures so that a
	// known finding is matched by the schedule that produces it and not by its symptom alone
	tags := map[string]bool{}
	pendingJoin := func(st map[string]any) bool {
		pcs := vh.Map(st["pc"])
		return vh.Str(pcs["CS"]) == "join" || vh.Str(pcs["SS"]) == "committed" || vh.Str(pcs["SS"]) == "join"
	}

	// advance: after the operation for this step was triggered, wait for thread `thr` to reach what the model says
	advance := func(thr string, st map[string]any) {
		pcs := vh.Map(st["pc"])
		pc := vh.Str(pcs[thr])
		want := gateOf(thr, pc)
		if thr == "CS" && pc == "cb" && r.async {
			return // handler returned with the callback captured; nobody is parked
		}
		if pc == "done" {
			want = "done"
		}
		got := r.await(thr, stepTimeout)
		if got != want {
			drift(fmt.Sprintf("thread %s reached %q, model expects %q (pc %s)", thr, got, want, pc))
		}
	}
	// prepare: tell the gates where thread `thr` is expected to park after this step
	prepare := func(thr string, st map[string]any) {
		pc := vh.Str(vh.Map(st["pc"])[thr])
		r.expectAt(thr, gateOf(thr, pc))
	}

	for si := 1; si < len(beh) && completed == 1; si++ {
		st := beh[si]
		step := vh.Map(st["step"])
		thr, act := vh.Str(step["thr"]), vh.Str(step["act"])
		fail := vh.Bool(step["fail"]) // the round trip this step releases returns an error
		if fail {
			steps = append(steps, thr+":"+act+"(fails)")
		} else {
			steps = append(steps, thr+":"+act)
		}
		if (act == "UnsubProceed" || act == "Leave") && pendingJoin(beh[si-1]) {
			tags["unsubscribe-overtakes-pending-join"] = true
		}
		if thr == "TK" && act == "TickAdd" {
			e := vh.Map(beh[si-1]["entry"])
			if vh.Int(e["gen"]) != 0 && !vh.Bool(e["sub"]) {
				tags["tick-add-lands-on-reservation"] = true
			}
		}
		if thr == "SS" && act == "Push" && vh.Str(beh[si-1]["status"]) == "closed" {
			tags["server-subscribe-push-after-close"] = true
		}
		if vh.Bool(st["closeReq"]) && !vh.Bool(beh[si-1]["closeReq"]) && vh.Str(vh.Map(st["pc"])["CL"]) == "idle" && vh.Str(st["status"]) != "closed" {
			// this step makes the library spawn `go c.close(..)`: it must park at Transport.Close
			r.expectAt("CL", "TransportClose")
		}
		prevPC := ""
		if v, ok := vh.Map(beh[si-1]["pc"])[thrKey(thr)]; ok {
			prevPC = vh.Str(v)
		}
		switch {
		case thr == "CS" && act == "Reserve":
			subID = conn.NextID()
			id := subID
			if r.async {
				// the handler captures the callback and returns; the command returns
				doneCh := make(chan struct{})
				go func() {
					r.register("CS")
					conn.Do(&protocol.Command{Id: id, Subscribe: r.subRequest()})
					close(doneCh)
				}()
				select {
				case <-doneCh:
				case <-time.After(stepTimeout):
					drift("subscribe command did not return (async)")
				}
			} else {
				prepare("CS", st)
				go func() {
					r.register("CS")
					conn.Do(&protocol.Command{Id: id, Subscribe: r.subRequest()})
					r.done("CS")
				}()
				advance("CS", st)
			}
		case thr == "CS" && act == "Callback" && r.async:
			r.mu.Lock()
			cb := r.pendCb
			r.mu.Unlock()
			if cb == nil {
				drift("no captured subscribe callback")
				break
			}
			prepare("CS", st)
			go func() {
				r.register("CS")
				cb(r.subReply(), nil)
				r.done("CS")
			}()
			advance("CS", st)
		case thr == "SS" && act == "Reserve":
			prepare("SS", st)
			go func() {
				r.register("SS")
				_ = conn.Client.Subscribe(r.ch, centrifuge.WithEmitPresence(true), centrifuge.WithEmitJoinLeave(true), centrifuge.WithSubscribeSource(srcSS),
					func(o *centrifuge.SubscribeOptions) { o.ServerTagsFilter = attrFilter(r.attrSS) })
				r.done("SS")
			}()
			advance("SS", st)
		case (thr == "CU" || thr == "SU") && act == "UnsubStart":
			prepare(thr, st)
			if thr == "CU" {
				unsubID = conn.NextID()
				id := unsubID
				go func() {
					r.register("CU")
					conn.Do(&protocol.Command{Id: id, Unsubscribe: &protocol.UnsubscribeRequest{Channel: r.ch}})
					r.done("CU")
				}()
			} else {
				go func() {
					r.register("SU")
					conn.Client.Unsubscribe(r.ch)
					r.done("SU")
				}()
			}
			advance(thr, st)
		case thr == "CL" && act == "CloseStart":
			prepare("CL", st)
			if vh.Str(vh.Map(st["pc"])["CL"]) == "done" {
				// close on an already closed client: a no-op without gates; nothing to wait for
				if !vh.Bool(beh[si-1]["closeReq"]) || !closeStarted {
					conn.Client.Disconnect()
				}
				break
			}
			if !vh.Bool(beh[si-1]["closeReq"]) {
				conn.Client.Disconnect()
			}
			closeStarted = true
			got := r.await("CL", stepTimeout)
			if got != "TransportClose" {
				drift(fmt.Sprintf("close reached %q, expected Transport.Close", got))
			}
		case thr == "CL" && act == "DisconnectCallback":
			r.releaseThread("CL")
			// close returns right after the callback: nothing more to observe
			time.Sleep(2 * time.Millisecond)
		case thr == "TK" && act == "TickStart":
			prepare("TK", st)
			go func() {
				r.register("TKfire")
				w.timers.Fire()
			}()
			if vh.Str(vh.Map(st["pc"])["TK"]) == "done" && vh.Str(beh[si-1]["status"]) == "closed" {
				// onTimerOp returns at once on a closed client (no tick, no hook)
				time.Sleep(5 * time.Millisecond)
				break
			}
			advance("TK", st)
		case thr == "TK2" && act == "SettleTick":
			if vh.Str(st["status"]) != "closed" {
				go func() { w.timers.Fire() }()
				if got := r.await("TK", stepTimeout); got != "done" {
					drift(fmt.Sprintf("settle tick: got %q", got))
				}
			}
		case thr == "JOB":
			// the dissolver job runs >= 1 s after it was submitted; it calls Broker.Unsubscribe only when the channel is empty
			// (a failing call: the job cools down 500 ms, returns the error, is re-queued and arrives here again)
			if fail || (!vh.Bool(st["brokerSub"]) && vh.Bool(beh[si-1]["brokerSub"])) {
				r.expectAt("JOB", "BrokerUnsubscribe")
				if got := r.await("JOB", 8*time.Second); got != "BrokerUnsubscribe" {
					drift(fmt.Sprintf("dissolver job: got %q, model expects Broker.Unsubscribe", got))
					jobDrift = true
					break
				}
				if fail {
					r.failOnRelease("JOB")
				}
				r.releaseThread("JOB")
				time.Sleep(5 * time.Millisecond)
			}
		default:
			// a continuation step of thread thr: release it from its gate and follow it to the next one
			if prevPC == "" || gateOf(thrKey(thr), prevPC) == "" {
				drift(fmt.Sprintf("step %s:%s from pc %q is not a continuation", thr, act, prevPC))
				break
			}
			prepare(thrKey(thr), st)
			if fail {
				r.failOnRelease(thrKey(thr))
			}
			r.releaseThread(thrKey(thr))
			advance(thrKey(thr), st)
		}
		if completed == 0 {
			break
		}
		// projection after the step: everything is parked or finished
		mp := modelProj(st)
		var rp proj
		okp := false
		for try := 0; try < 40; try++ { // callbacks/log appends right after a gate release may lag by microseconds
			rp = r.project()
			bsubParked := false
			for _, v := range vh.Map(st["pc"]) {
				if vh.Str(v) == "bsub" {
					bsubParked = true
				}
			}
			if rp.Subscribed == mp.Subscribed && rp.Hub == mp.Hub && rp.Pres == mp.Pres && sameStrs(rp.JL, mp.JL) &&
				sameStrs(rp.Cbs, mp.Cbs) && (bsubParked || rp.BrokerSub == mp.BrokerSub) {
				okp = true
				break
			}
			time.Sleep(500 * time.Microsecond)
		}
		if !okp {
			pending = append(pending, pdrift{fmt.Sprintf("state differs after %s:%s: real %s, model %s (behaviour %d ops %s async %v)", thr, act, vh.J(rp), vh.J(mp), bi, ops, r.async),
				map[string]any{"ops": st0["ops"], "async": r.async, "steps": append([]any(nil), steps...), "real": rp, "model": mp}})
			completed = 0
		}
	}
	// release whatever is still parked so that nothing leaks into the next behaviour
	r.mu.Lock()
	for k := range r.expect {
		r.expect[k] = ""
	}
	var parked []string
	for k, v := range r.parked {
		if v != "" {
			parked = append(parked, k)
		}
	}
	r.mu.Unlock()
	for _, k := range parked {
		r.releaseThread(k)
	}

	if len(pending) > 0 {
		// The real code left the model. Nothing is parked any more: let the started operations run to the end and
		// judge the settled state with the monitors that need no model information. A property broken on the
		// real code is a violation; otherwise the divergence is reported as drift.
		var prev proj
		for i := 0; i < 60; i++ {
			time.Sleep(25 * time.Millisecond)
			cur := r.project()
			if i > 2 && vh.J(cur) == vh.J(prev) {
				break
			}
			prev = cur
		}
		rp := r.project()
		found := false
		fr := func(prop, sig, what string) {
			found = true
			res.Violate(prop, sig+"+freerun", fmt.Sprintf("%s (after leaving the model at: %s)", what, pending[0].what), pending[0].replay)
		}
		if rp.Subscribed != rp.Hub {
			fr("C04", fmt.Sprintf("subscribed=%v,routing=%v", rp.Subscribed, rp.Hub), fmt.Sprintf("settled: connection reports subscribed=%v, routing entry present=%v", rp.Subscribed, rp.Hub))
		}
		if rp.Closed && rp.Hub {
			fr("C05", "routing-after-close", "routing entry survives the closed connection")
		}
		if rp.Closed && rp.Pres {
			fr("C05", "presence-after-close", "presence entry survives the closed connection")
		}
		if !rp.Closed && rp.Subscribed != rp.Pres {
			// the reference keeps presence and subscription state together in this schedule (the model state that the
			// real code left had them equal or is about to repair them); the real code settled with them apart
			fr("C06", fmt.Sprintf("subscribed=%v,presence=%v", rp.Subscribed, rp.Pres), fmt.Sprintf("settled: subscribed=%v but presence contains the connection=%v", rp.Subscribed, rp.Pres))
		}
		j, l := 0, 0
		for _, k := range rp.JL {
			if k == "join" {
				j++
			} else {
				l++
			}
		}
		b := 0
		if rp.Subscribed {
			b = 1
		}
		if j-l != b {
			fr("C07", fmt.Sprintf("unpaired:joins=%d,leaves=%d,subscribed=%v", j, l, rp.Subscribed), fmt.Sprintf("join/leave not paired: %v with subscribed=%v", rp.JL, rp.Subscribed))
		}
		if jobDrift && rp.BrokerSub != rp.Hub {
			// every thread had finished and the (possibly retried) dissolver job did not arrive within 8 s: give it more
			// time, then C26's drained-state monitor decides (a job that gave up leaves the node subscribed for nobody)
			for i := 0; i < 60 && rp.BrokerSub != rp.Hub; i++ {
				time.Sleep(100 * time.Millisecond)
				rp = r.project()
			}
			if rp.BrokerSub != rp.Hub {
				fr("C26", fmt.Sprintf("broker=%v,local=%v", rp.BrokerSub, rp.Hub), fmt.Sprintf("all operations finished and no dissolver job calls Broker.Unsubscribe any more: node broker-subscribed=%v but local subscribers present=%v", rp.BrokerSub, rp.Hub))
			}
		}
		if !found {
			for _, d := range pending {
				res.Drift("", d.what, d.replay)
			}
		}
	}
	last := beh[len(beh)-1]
	final := completed == 1 && allDone(last)
	if final {
		// quiescent end state of a complete behaviour: evaluate the monitors on the REAL observations
		if closed, _ := conn.T.Closed(); !closed {
			conn.Barrier(time.Second)
		}
		time.Sleep(2 * time.Millisecond)
		rp := r.project()
		settled := vh.Bool(last["settled"])
		nojobs := vh.Int(last["jobs"]) == 0
		fr := r.frames(subID, unsubID)
		if !rp.Closed {
			// C04 marker publications: the connection receives, exactly once each, the markers that the subscription it
			// REPORTS admits (none when it reports no subscription): routing entry = reported subscription, attributes included
			want := ""
			repAttr, repSub := r.reported()
			if repSub {
				want = admitted(repAttr)
			}
			got := r.markerProbe(subID, unsubID)
			if got != want {
				res.Violate("C04", fmt.Sprintf("markers:got=%s,want=%s", got, want), fmt.Sprintf("connection reports subscribed=%v (routing attribute %q) and must receive exactly the marker publications %q of {A: tags t=a, B: tags t=b, U: untagged}, but received %q (ops %s, steps %v)", repSub, repAttr, want, got, ops, steps), map[string]any{"ops": st0["ops"], "attr": st0["attr"], "async": r.async, "steps": steps})
			}
		}
		tagl := ""
		for _, k := range []string{"server-subscribe-push-after-close", "unsubscribe-overtakes-pending-join"} {
			if tags[k] {
				tagl += "+" + k
			}
		}
		if tagl == "" {
			tagl = "+plain"
		}
		viol := func(prop, sig, what string) {
			if prop == "C07" {
				sig += tagl
			}
			if prop == "C05" && sig == "presence-after-close" {
				if tags["tick-add-lands-on-reservation"] {
					sig += "+tick-add-lands-on-reservation"
				} else {
					sig += "+plain"
				}
			}
			res.Violate(prop, sig, fmt.Sprintf("%s (ops %s async %v steps %v)", what, ops, r.async, steps), map[string]any{"ops": st0["ops"], "async": r.async, "steps": steps, "real": rp, "frames": fr})
		}
		if rp.Subscribed != rp.Hub {
			viol("C04", fmt.Sprintf("subscribed=%v,routing=%v", rp.Subscribed, rp.Hub), fmt.Sprintf("settled: connection reports subscribed=%v, routing entry present=%v", rp.Subscribed, rp.Hub))
		}
		if rp.Closed {
			if rp.Hub {
				viol("C05", "routing-after-close", "routing entry survives the closed connection")
			}
			if rp.Pres {
				viol("C05", "presence-after-close", "presence entry survives the closed connection")
			}
			// only this behaviour's connection: the previous behaviour's connection on this node is closed
			// asynchronously (Client.Disconnect) and may not have left the hub yet
			if _, still := w.env.Node.Hub().Connections()[r.client]; still {
				viol("C05", "client-after-close", "the closed connection is still registered in the hub")
			}
		}
		if settled && rp.Subscribed != rp.Pres {
			viol("C06", fmt.Sprintf("subscribed=%v,presence=%v", rp.Subscribed, rp.Pres), fmt.Sprintf("settled (after a presence tick): subscribed=%v but presence contains the connection=%v", rp.Subscribed, rp.Pres))
		}
		joins, leaves := 0, 0
		lbj := false
		for _, k := range rp.JL {
			if k == "join" {
				joins++
			} else {
				leaves++
			}
			if leaves > joins && !lbj {
				lbj = true
				viol("C07", "leave-before-join", fmt.Sprintf("a leave reached the broker before its join: %v", rp.JL))
			}
		}
		bal := 0
		if rp.Subscribed {
			bal = 1
		}
		if joins-leaves != bal {
			viol("C07", fmt.Sprintf("unpaired:joins=%d,leaves=%d,subscribed=%v", joins, leaves, rp.Subscribed), fmt.Sprintf("join/leave not paired: %v with subscribed=%v", rp.JL, rp.Subscribed))
		}
		unsubs, discs := 0, 0
		for _, c := range rp.Cbs {
			if c == "unsub" {
				unsubs++
			} else {
				discs++
			}
		}
		if discs > 1 {
			viol("C08", "disconnect-twice", fmt.Sprintf("disconnect callback ran %d times", discs))
		}
		if unsubs != leaves {
			viol("C08", fmt.Sprintf("unsub-callbacks=%d,ended=%d", unsubs, leaves), fmt.Sprintf("unsubscribe callback ran %d times for %d ended subscriptions", unsubs, leaves))
		}
		if nojobs && rp.BrokerSub != rp.Hub {
			viol("C26", fmt.Sprintf("broker=%v,local=%v", rp.BrokerSub, rp.Hub), fmt.Sprintf("settled and drained: node broker-subscribed=%v but local subscribers present=%v", rp.BrokerSub, rp.Hub))
		}
		// frames against the model (not a property by itself: drift)
		var mo []string
		for _, x := range vh.List(last["out"]) {
			mo = append(mo, vh.Str(x))
		}
		var fr2 []string
		for _, f := range fr {
			if len(f) < 4 || f[:4] != "pub:" {
				fr2 = append(fr2, f)
			}
		}
		if !sameStrs(fr2, mo) {
			res.Drift("", fmt.Sprintf("frames differ: real %v, model %v (ops %s steps %v)", fr2, mo, ops, steps), nil)
			completed = 0
		}
		res.Distinct(ops + fmt.Sprint(r.async) + vh.J(steps))
	}
	if bi < 2 {
		res.Sample(map[string]any{"ops": st0["ops"], "async": r.async, "steps": steps})
	}
	res.Done(1, completed)
}

func thrKey(thr string) string { return thr }

func allDone(st map[string]any) bool {
	pcs := vh.Map(st["pc"])
	ops := map[string]bool{}
	for _, o := range vh.List(st["ops"]) {
		ops[vh.Str(o)] = true
	}
	for t, v := range pcs {
		p := vh.Str(v)
		if p != "idle" && p != "done" {
			return false
		}
		if ops[t] && p != "done" {
			return false
		}
	}
	if vh.Bool(st["closeReq"]) && vh.Str(pcs["CL"]) != "done" {
		return false
	}
	return true
}

type replayIn struct {
	Behaviours [][]map[string]any `json:"behaviours"`
}

func replay(in json.RawMessage, res *vh.Result) error {
	var ri replayIn
	if err := json.Unmarshal(in, &ri); err != nil {
		return err
	}
	centrifuge.VerifSetGate(hookGate)
	defer centrifuge.VerifSetGate(nil)
	nw := 32
	var wg sync.WaitGroup
	jobs := make(chan int)
	for i := 0; i < nw; i++ {
		w, err := newWorker()
		if err != nil {
			return err
		}
		wg.Add(1)
		go func() {
			defer wg.Done()
			defer func() {
				ctx, cancel := context.WithTimeout(context.Background(), 2*time.Second)
				defer cancel()
				_ = w.env.Node.Shutdown(ctx)
			}()
			for bi := range jobs {
				w.run(bi, ri.Behaviours[bi], res)
			}
		}()
	}
	for bi := range ri.Behaviours {
		jobs <- bi
	}
	close(jobs)
	wg.Wait()
	return nil
}

// jobprobe: conformance of an atomicity assumption of SubLifecycle.tla. The model takes the dissolver job
// (check "no local subscribers" + Broker.Unsubscribe) as ONE action under the channel's subLock, mutually
// exclusive with addSubscription's (hub add + Broker.Subscribe). The probe parks the real job inside
// Broker.Unsubscribe and starts another connection's subscribe: it must not get through before the job is
// released; at the end a local subscriber must imply a broker subscription (C26) and receive a publication (C04).
func jobprobe(in json.RawMessage, res *vh.Result) error {
	var cfg struct {
		N int `json:"n"`
	}
	_ = json.Unmarshal(in, &cfg)
	if cfg.N == 0 {
		cfg.N = 4
	}
	var wg sync.WaitGroup
	for i := 0; i < cfg.N; i++ {
		wg.Add(1)
		go func(i int) {
			defer wg.Done()
			env, err := cl.NewEnv(centrifuge.Config{LogLevel: centrifuge.LogLevelNone})
			if err != nil {
				res.Drift("", err.Error(), nil)
				return
			}
			gb, err := cl.NewGateBroker(env.Node)
			if err != nil {
				res.Drift("", err.Error(), nil)
				return
			}
			env.Node.SetBroker(gb)
			ch := fmt.Sprintf("jp%d_%d", vh.Seed(), i)
			unsubGate := cl.NewGate()
			var mu sync.Mutex
			var calls []string
			subArrived := make(chan struct{}, 4)
			gb.OnSubscribe = func(c string) {
				if c == ch {
					mu.Lock()
					calls = append(calls, "sub")
					mu.Unlock()
					subArrived <- struct{}{}
				}
			}
			gb.OnUnsubscribe = func(c string) {
				if c == ch {
					unsubGate.Arrive(10 * time.Second)
					mu.Lock()
					calls = append(calls, "unsub")
					mu.Unlock()
				}
			}
			if err := env.Run(); err != nil {
				res.Drift("", err.Error(), nil)
				return
			}
			defer env.Close()
			a, _ := env.NewConn("a", centrifuge.ProtocolTypeJSON)
			b, _ := env.NewConn("b", centrifuge.ProtocolTypeJSON)
			a.Connect()
			b.Connect()
			if err := a.Client.Subscribe(ch); err != nil {
				res.Drift("", "probe subscribe: "+err.Error(), nil)
				return
			}
			<-subArrived
			a.Client.Unsubscribe(ch)
			if !unsubGate.WaitArrived(4 * time.Second) {
				res.Drift("C26", "dissolver job did not call Broker.Unsubscribe within 4 s after the last subscriber left", nil)
				res.Done(1, 0)
				return
			}
			// the job is parked inside Broker.Unsubscribe (holding the subLock in the reference)
			bDone := make(chan error, 1)
			go func() { bDone <- b.Client.Subscribe(ch) }()
			early := false
			select {
			case <-subArrived:
				early = true
			case <-bDone:
				early = true
			case <-time.After(150 * time.Millisecond):
			}
			unsubGate.Release()
			if !early {
				select {
				case <-bDone:
				case <-time.After(3 * time.Second):
					res.Drift("C26", "second subscribe did not finish after the job was released", nil)
					res.Done(1, 0)
					return
				}
			} else {
				select {
				case <-bDone:
				case <-time.After(time.Second):
				}
			}
			time.Sleep(20 * time.Millisecond)
			mu.Lock()
			cs := append([]string(nil), calls...)
			mu.Unlock()
			local := env.Node.Hub().NumSubscribers(ch) > 0
			brokerSub := len(cs) > 0 && cs[len(cs)-1] == "sub"
			replay := map[string]any{"scenario": "subscribe; unsubscribe; dissolver job parked in Broker.Unsubscribe; second connection subscribes; job released", "broker_calls": cs, "second_subscribe_got_through_early": early}
			if local && !brokerSub {
				res.Violate("C26", "probe:local-subscriber-without-broker-subscription", fmt.Sprintf("a connection is subscribed locally but the node's last broker call for the channel is an unsubscribe (calls %v): a subscribe got through while the deferred broker unsubscribe was in flight", cs), replay)
				res.Violate("C04", "probe:subscribed-without-broker-routing", fmt.Sprintf("connection reports subscribed=%v but the node is not subscribed to the channel in the broker (calls %v)", b.Client.IsSubscribed(ch), cs), replay)
			} else if early {
				res.Drift("C26", fmt.Sprintf("subscribe was not blocked by the parked dissolver job, calls %v", cs), replay)
			}
			res.Distinct(fmt.Sprintf("probe-%d", i))
			res.Sample(replay)
			res.Done(1, 1)
		}(i)
	}
	wg.Wait()
	return nil
}

// subfailprobe: addSubscription (hub add + Broker.Subscribe, with rollback of the hub entry when the broker call
// fails) is one critical section under the channel's subLock in SubLifecycle.tla. The probe parks the first
// subscriber's Broker.Subscribe, starts a second connection's subscribe to the same channel, then makes the first
// call fail. Afterwards a local subscriber must imply a broker subscription.
func subfailprobe(in json.RawMessage, res *vh.Result) error {
	var cfg struct {
		N int `json:"n"`
	}
	_ = json.Unmarshal(in, &cfg)
	if cfg.N == 0 {
		cfg.N = 3
	}
	for i := 0; i < cfg.N; i++ {
		env, err := cl.NewEnv(centrifuge.Config{LogLevel: centrifuge.LogLevelNone})
		if err != nil {
			return err
		}
		gb, err := cl.NewGateBroker(env.Node)
		if err != nil {
			return err
		}
		env.Node.SetBroker(gb)
		ch := fmt.Sprintf("sf%d_%d", vh.Seed(), i)
		gate := cl.NewGate()
		var mu sync.Mutex
		var calls []string
		first := true
		gb.SubscribeErr = func(c string) error {
			if c != ch {
				return nil
			}
			mu.Lock()
			isFirst := first
			first = false
			mu.Unlock()
			if isFirst {
				gate.Arrive(10 * time.Second)
				mu.Lock()
				calls = append(calls, "sub-fail")
				mu.Unlock()
				return fmt.Errorf("verif: broker subscribe failed")
			}
			mu.Lock()
			calls = append(calls, "sub")
			mu.Unlock()
			return nil
		}
		gb.OnUnsubscribe = func(c string) {
			if c == ch {
				mu.Lock()
				calls = append(calls, "unsub")
				mu.Unlock()
			}
		}
		if err := env.Run(); err != nil {
			return err
		}
		a, _ := env.NewConn("a", centrifuge.ProtocolTypeJSON)
		b, _ := env.NewConn("b", centrifuge.ProtocolTypeJSON)
		a.Connect()
		b.Connect()
		aDone := make(chan error, 1)
		go func() { aDone <- a.Client.Subscribe(ch) }()
		if !gate.WaitArrived(3 * time.Second) {
			res.Drift("C26", "first subscriber did not reach Broker.Subscribe", nil)
			env.Close()
			continue
		}
		bDone := make(chan error, 1)
		go func() { bDone <- b.Client.Subscribe(ch) }()
		early := false
		select {
		case <-bDone:
			early = true
		case <-time.After(150 * time.Millisecond):
		}
		gate.Release()
		<-aDone
		if !early {
			select {
			case <-bDone:
			case <-time.After(3 * time.Second):
				res.Drift("C26", "second subscribe did not finish", nil)
			}
		}
		time.Sleep(20 * time.Millisecond)
		mu.Lock()
		cs := append([]string(nil), calls...)
		mu.Unlock()
		local := env.Node.Hub().NumSubscribers(ch) > 0
		brokerSub := false
		for _, c := range cs {
			switch c {
			case "sub":
				brokerSub = true
			case "unsub":
				brokerSub = false
			}
		}
		replay := map[string]any{"scenario": "first subscriber parked in Broker.Subscribe; second connection subscribes; first Broker.Subscribe fails", "broker_calls": cs, "second_subscribe_finished_early": early}
		if local && !brokerSub {
			res.Violate("C26", "probe:subscriber-registered-while-first-broker-subscribe-failed", fmt.Sprintf("a connection is subscribed locally (reports subscribed=%v) but the node never subscribed successfully in the broker (calls %v)", b.Client.IsSubscribed(ch), cs), replay)
		}
		res.Distinct(fmt.Sprintf("subfail-%d", i))
		res.Sample(replay)
		res.Done(1, 1)
		env.Close()
	}
	return nil
}

// pubunsubprobe (C04): the first publication to a delta subscription is parked between its position update and the
// flag write-back (Transport.DisabledPushFlags is called there); the client unsubscribes meanwhile. The model keeps
// "entry deleted" stable: afterwards "reports subscribed" and "has a routing entry" must agree.
// connectcloseprobe (C05): a connection with a connect-time server-side subscription (presence enabled) is closed
// after the subscription's presence landed and before connect finalizes; nothing of it may remain.
func pubunsubprobe(in json.RawMessage, res *vh.Result) error {
	var cfg struct {
		N int `json:"n"`
	}
	_ = json.Unmarshal(in, &cfg)
	if cfg.N == 0 {
		cfg.N = 3
	}
	env, err := cl.NewEnv(centrifuge.Config{LogLevel: centrifuge.LogLevelNone})
	if err != nil {
		return err
	}
	env.OnSubscribe = func(_ *centrifuge.Client, _ centrifuge.SubscribeEvent, cb centrifuge.SubscribeCallback) {
		cb(centrifuge.SubscribeReply{Options: centrifuge.SubscribeOptions{EnablePositioning: true, AllowedDeltaTypes: []centrifuge.DeltaType{centrifuge.DeltaTypeFossil}}}, nil)
	}
	if err := env.Run(); err != nil {
		return err
	}
	defer env.Close()
	for i := 0; i < cfg.N; i++ {
		ch := fmt.Sprintf("pu%d_%d", vh.Seed(), i)
		t := cl.NewTransport(centrifuge.ProtocolTypeJSON)
		armed := false
		var amu sync.Mutex
		gate := cl.NewGate()
		t.OnDisabledPushFlags = func() {
			amu.Lock()
			a := armed
			armed = false
			amu.Unlock()
			if a {
				gate.Arrive(5 * time.Second)
			}
		}
		conn, _ := env.NewConnT("u", t)
		conn.Connect()
		sid := conn.NextID()
		conn.Do(&protocol.Command{Id: sid, Subscribe: &protocol.SubscribeRequest{Channel: ch, Delta: "fossil"}})
		if rep := conn.WaitReply(sid, 2*time.Second); rep == nil || rep.Subscribe == nil {
			res.Drift("C04", "probe: delta subscribe failed", nil)
			continue
		}
		amu.Lock()
		armed = true
		amu.Unlock()
		pubDone := make(chan struct{})
		go func() {
			_, _ = env.Node.Publish(ch, []byte(`{"a":"0123456789012345678901234567890123456789"}`), centrifuge.WithHistory(10, time.Minute), centrifuge.WithDelta(true))
			close(pubDone)
		}()
		if !gate.WaitArrived(2 * time.Second) {
			<-pubDone
			res.Count("pubunsub-not-applicable", 1) // DisabledPushFlags is not called in this window on this tree
			conn.Client.Disconnect()
			continue
		}
		unsubDone := make(chan struct{})
		uid := conn.NextID()
		go func() {
			conn.Do(&protocol.Command{Id: uid, Unsubscribe: &protocol.UnsubscribeRequest{Channel: ch}})
			close(unsubDone)
		}()
		for k := 0; k < 200 && conn.Client.IsSubscribed(ch); k++ {
			time.Sleep(5 * time.Millisecond)
		}
		deleted := !conn.Client.IsSubscribed(ch)
		gate.Release()
		<-pubDone
		select {
		case <-unsubDone:
		case <-time.After(3 * time.Second):
		}
		time.Sleep(10 * time.Millisecond)
		sub := conn.Client.IsSubscribed(ch)
		hub := env.Node.Hub().NumSubscribers(ch) > 0
		replay := map[string]any{"probe": "first delta publication parked before its flag write-back; client unsubscribes; publication released", "channel_deleted_while_parked": deleted, "subscribed": sub, "routing": hub}
		if sub != hub {
			res.Violate("C04", fmt.Sprintf("probe:pub-vs-unsubscribe:subscribed=%v,routing=%v", sub, hub), fmt.Sprintf("after an unsubscribe raced the first publication of a delta subscription the connection reports subscribed=%v, routing entry present=%v", sub, hub), replay)
		}
		res.Distinct("pubunsub")
		res.Sample(replay)
		res.Done(1, 1)
		conn.Client.Disconnect()
	}
	return nil
}

func connectcloseprobe(in json.RawMessage, res *vh.Result) error {
	var cfg struct {
		N int `json:"n"`
	}
	_ = json.Unmarshal(in, &cfg)
	if cfg.N == 0 {
		cfg.N = 3
	}
	for i := 0; i < cfg.N; i++ {
		env, err := cl.NewEnv(centrifuge.Config{LogLevel: centrifuge.LogLevelNone})
		if err != nil {
			return err
		}
		gp, err := cl.NewGatePresence(env.Node)
		if err != nil {
			return err
		}
		env.Node.SetPresenceManager(gp)
		gbk, err := cl.NewGateBroker(env.Node)
		if err != nil {
			return err
		}
		env.Node.SetBroker(gbk)
		ch := fmt.Sprintf("cc%d_%d", vh.Seed(), i)
		var jlMu sync.Mutex
		var jl []string
		gbk.OnPublishJoin = func(c string, _ *centrifuge.ClientInfo) {
			if c == ch {
				jlMu.Lock()
				jl = append(jl, "join")
				jlMu.Unlock()
			}
		}
		gbk.OnPublishLeave = func(c string, _ *centrifuge.ClientInfo) {
			if c == ch {
				jlMu.Lock()
				jl = append(jl, "leave")
				jlMu.Unlock()
			}
		}
		gate := cl.NewGate()
		gp.OnAdded = func(c, _ string) {
			if c == ch {
				gate.Arrive(5 * time.Second)
			}
		}
		env.OnConnecting = func(_ context.Context, _ centrifuge.ConnectEvent) (centrifuge.ConnectReply, error) {
			return centrifuge.ConnectReply{Subscriptions: map[string]centrifuge.SubscribeOptions{ch: {EmitPresence: true, EmitJoinLeave: true}}}, nil
		}
		if err := env.Run(); err != nil {
			return err
		}
		conn, _ := env.NewConn("u", centrifuge.ProtocolTypeJSON)
		connDone := make(chan struct{})
		go func() {
			conn.Do(&protocol.Command{Id: conn.NextID(), Connect: &protocol.ConnectRequest{}})
			close(connDone)
		}()
		if !gate.WaitArrived(3 * time.Second) {
			res.Drift("C05", "probe: connect-time subscription did not add presence", nil)
			env.Close()
			continue
		}
		conn.Client.Disconnect(centrifuge.DisconnectForceNoReconnect)
		// close() flips the status at once and then may wait for the connect in progress; give it a moment
		time.Sleep(60 * time.Millisecond)
		gate.Release()
		<-connDone
		for k := 0; k < 100; k++ {
			if c, _ := conn.T.Closed(); c {
				break
			}
			time.Sleep(10 * time.Millisecond)
		}
		time.Sleep(50 * time.Millisecond)
		pres, _ := gp.Inner.Presence(ch)
		hub := env.Node.Hub().NumSubscribers(ch)
		clients := env.Node.Hub().NumClients()
		replay := map[string]any{"probe": "connect with a server-side subscription (presence); close after the presence add landed, before connect finalizes", "presence": len(pres), "routing": hub, "clients": clients}
		if len(pres) > 0 {
			res.Violate("C05", "probe:connect-close:presence-after-close", fmt.Sprintf("presence of the closed connection remains for the connect-time subscription (%d entries)", len(pres)), replay)
		}
		if hub > 0 {
			res.Violate("C05", "probe:connect-close:routing-after-close", "routing entry of the closed connection remains for the connect-time subscription", replay)
		}
		if clients > 0 {
			res.Violate("C05", "probe:connect-close:client-after-close", fmt.Sprintf("%d connections still registered", clients), replay)
		}
		// C07: the connect-time subscription was rolled back (or completed): every leave needs an earlier join
		jlMu.Lock()
		seq := append([]string(nil), jl...)
		jlMu.Unlock()
		bal := 0
		for _, e := range seq {
			if e == "join" {
				bal++
			} else {
				bal--
			}
			if bal < 0 {
				res.Violate("C07", "probe:connect-close:leave-without-join", fmt.Sprintf("connect-time subscription closed during connect: observers got %v", seq), map[string]any{"probe": replay["probe"], "joinleave": seq})
				break
			}
		}
		res.Distinct("connectclose")
		res.Sample(replay)
		res.Done(1, 1)
		env.Close()
	}
	return nil
}

// retryBroker: cl.GateBroker that keeps the set of channels the node is subscribed to in the broker, makes every
// Unsubscribe slow and lets the first `failFirst` Unsubscribe calls fail (nothing reaches the inner broker).
type retryBroker struct {
	*cl.GateBroker
	slow      time.Duration
	mu        sync.Mutex
	subs      map[string]bool
	failed    map[string]int // channel -> failed Unsubscribe calls
	failFirst int
	calls     int
}

func (b *retryBroker) Subscribe(chs ...string) error {
	if err := b.GateBroker.Subscribe(chs...); err != nil {
		return err
	}
	b.mu.Lock()
	for _, ch := range chs {
		b.subs[ch] = true
	}
	b.mu.Unlock()
	return nil
}

func (b *retryBroker) Unsubscribe(chs ...string) error {
	time.Sleep(b.slow)
	b.mu.Lock()
	b.calls++
	fail := b.calls <= b.failFirst
	if fail {
		for _, ch := range chs {
			b.failed[ch]++
		}
	}
	b.mu.Unlock()
	if fail {
		return errFault
	}
	if err := b.GateBroker.Unsubscribe(chs...); err != nil {
		return err
	}
	b.mu.Lock()
	for _, ch := range chs {
		delete(b.subs, ch)
	}
	b.mu.Unlock()
	return nil
}

func (b *retryBroker) snapshot() (subs []string, failed map[string]int, calls int) {
	b.mu.Lock()
	defer b.mu.Unlock()
	failed = map[string]int{}
	for ch := range b.subs {
		subs = append(subs, ch)
	}
	for ch, n := range b.failed {
		failed[ch] = n
	}
	return subs, failed, b.calls
}

// jobretryprobe (C26, spec/SubLifecycle/Dissolver.tla): a backlog of deferred broker unsubscribes (more emptied
// channels than dissolver workers) whose first wave of Broker.Unsubscribe calls fails. The model puts a failed job
// back into the queue and retries it until it succeeds: at rest the node is broker-subscribed to exactly the channels
// with local subscribers. Two connections subscribe to `chans` channels each, both leave at once, the first
// `fail` Unsubscribe calls fail and every call is slow; afterwards the broker's subscription set must become empty.
func jobretryprobe(in json.RawMessage, res *vh.Result) error {
	var cfg struct {
		N     int `json:"n"`
		Chans int `json:"chans"` // per connection
		Fail  int `json:"fail"`
	}
	_ = json.Unmarshal(in, &cfg)
	if cfg.N == 0 {
		cfg.N = 1
	}
	if cfg.Chans == 0 {
		cfg.Chans = 64
	}
	if cfg.Fail == 0 {
		cfg.Fail = 64 // the node's dissolver has 64 workers (node.go numSubDissolverWorkers): the whole first wave
	}
	for i := 0; i < cfg.N; i++ {
		env, err := cl.NewEnv(centrifuge.Config{LogLevel: centrifuge.LogLevelNone})
		if err != nil {
			return err
		}
		gb, err := cl.NewGateBroker(env.Node)
		if err != nil {
			return err
		}
		rb := &retryBroker{GateBroker: gb, slow: 60 * time.Millisecond, subs: map[string]bool{}, failed: map[string]int{}, failFirst: cfg.Fail}
		env.Node.SetBroker(rb)
		if err := env.Run(); err != nil {
			return err
		}
		conns := []*cl.Conn{}
		setupOK := true
		for k := 0; k < 2; k++ {
			c, _ := env.NewConn(fmt.Sprintf("u%d", k), centrifuge.ProtocolTypeJSON)
			if c.Connect() == nil {
				setupOK = false
			}
			conns = append(conns, c)
		}
		total := 0
		for k, c := range conns {
			for j := 0; j < cfg.Chans && setupOK; j++ {
				if err := c.Client.Subscribe(fmt.Sprintf("jr%d_%d_%d_%d", vh.Seed(), i, k, j)); err != nil {
					setupOK = false
				}
				total++
			}
		}
		if subs, _, _ := rb.snapshot(); !setupOK || len(subs) != total {
			res.Drift("C26", fmt.Sprintf("jobretryprobe: setup failed (%d of %d channels subscribed in the broker)", len(subs), total), nil)
			res.Done(1, 0)
			env.Close()
			continue
		}
		// everybody leaves at once: `total` deferred unsubscribe jobs for 64 workers
		for _, c := range conns {
			c.Client.Disconnect()
		}
		deadline := time.Now().Add(25 * time.Second)
		var left []string
		var failed map[string]int
		calls := 0
		quiet := 0
		for time.Now().Before(deadline) {
			time.Sleep(100 * time.Millisecond)
			var n int
			left, failed, n = rb.snapshot()
			if len(left) == 0 {
				calls = n
				break
			}
			// at rest = no Unsubscribe call for 5 s although channels are still subscribed (a retry comes within
			// ~0.6 s of the failure: 500 ms cool-down + queue); keep waiting until the deadline otherwise
			if n == calls {
				quiet++
			} else {
				quiet = 0
			}
			calls = n
			if quiet >= 50 && n >= total {
				break
			}
		}
		local := 0
		for _, ch := range left {
			if env.Node.Hub().NumSubscribers(ch) > 0 {
				local++
			}
		}
		leakedFailed := 0
		for _, ch := range left {
			if failed[ch] > 0 {
				leakedFailed++
			}
		}
		replay := map[string]any{"probe": "2 connections x channels subscribed, both disconnect at once; every Broker.Unsubscribe slow, the first wave fails", "channels": total, "failing_calls": cfg.Fail,
			"unsubscribe_calls": calls, "still_broker_subscribed": len(left), "of_them_failed_once": leakedFailed, "of_them_with_local_subscribers": local}
		if len(left)-local > 0 {
			sig := "broker-sub-without-local-interest:after-failed-unsubscribe"
			if leakedFailed == 0 {
				sig = "broker-sub-without-local-interest:never-failed"
			}
			res.Violate("C26", sig, fmt.Sprintf("%d of %d channels are still subscribed in the broker with no local subscriber after the deferred unsubscribes drained (%d of them had a failing Broker.Unsubscribe that was never retried; %d Unsubscribe calls in total)", len(left)-local, total, leakedFailed, calls), replay)
		}
		res.Distinct(fmt.Sprintf("jobretry-%d-%d", total, cfg.Fail))
		res.Sample(replay)
		res.Done(1, 1)
		env.Close()
	}
	return nil
}

func main() {
	vh.Main(map[string]vh.Mode{"replay": replay, "jobprobe": jobprobe, "jobretryprobe": jobretryprobe, "subfailprobe": subfailprobe, "pubunsubprobe": pubunsubprobe, "connectcloseprobe": connectcloseprobe})
}
