SPECIFICATION Spec
CONSTANTS
  Conns = {"c1", "c2"}
  Keys = {"k1"}
  MaxChg = 1
  MaxFlips = 0
  MaxOps = 4
  Versioned = TRUE
  Timer = FALSE
  AllowRevoke = FALSE
  AllowPublish = TRUE
  SplitTrack = TRUE
  AsCoded = {}
  Replay = FALSE
VIEW View
INVARIANTS TypeOK VersionConsistent C25_Epoch 
PROPERTIES C25_Frames 
CHECK_DEADLOCK FALSE
