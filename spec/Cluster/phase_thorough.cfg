SPECIFICATION Spec
CONSTANTS
  Chans = {"a", "b"}
  MaxInProg = 2
  Phases = {"cb", "csbr", "ssbr"}
  CustomArgs = {FALSE, TRUE}
  Free <- FreeAll
VIEW View
INVARIANTS TypeOK Consistent CanFinish
PROPERTIES UnsubscribeAllCoversEveryPhase
CHECK_DEADLOCK FALSE
