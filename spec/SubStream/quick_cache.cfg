SPECIFICATION Spec
CONSTANTS
  MaxPub = 2
  HistSize = 2
  MaxFaults = 0
  Kinds = {"cache"}
  UrgentAsync = FALSE
  RecLimit = 0
  MaxChecks = 0
  Servers = {FALSE, TRUE}
VIEW View
INVARIANTS TypeOK C01 C03 C10 C16 PosConsistent
CHECK_DEADLOCK FALSE
