---------------------------- MODULE SharedPoll ----------------------------
(* C25: shared-poll keyed delivery for one channel (KeepLatestData, fossil
   delta negotiated by every connection).

   Code map (one action per critical section):
     client_shared_poll.go handleSharedPollSubscribe                     Subscribe
     client_keyed.go  handleTrack step 1-4 (trackKeys reservation, commit of
                      per-connection key state, cached items, reply)     Track1
                      step 5-7 (addSubscribers, release, warm delivery,
                      cold notify, markNeedsBroadcast)                   Track2
                      handleUntrack / cleanupKeyed                       Untrack / ClientUnsub
                      keyedWritePublication phase 1 (outside c.mu)       Prep
                      phase 3 (re-check, delta decision, enqueue, state) Enq
                      keyedWriteRemoval (delete under c.mu / enqueue)    RevDel / RevPush
     shared_poll.go   runRefreshCycle / runNotifiedRefreshCycle: items built
                      under s.mu + OnSharedPoll call                     WCallTimer / WCallNotif
                      applyRefreshResponse / handlePublishedData:
                        flipEpochAndCollectClients                       Flip
                        Client.Unsubscribe per collected client          FlipUnsub
                        per-item change detection under s.mu             WApply / PApply
                      SharedPollRevokeKeys                               RevStart..RevEnd
     keyed_hub.go     broadcastToKey (snapshot of subscribers)           BNext

   The backend (`bk`, `bep`) is the harness's scripted OnSharedPoll handler /
   publisher: per key a version and a payload identity; a restart of the
   publisher starts a new epoch with versions from 1 again.

   Threads: the refresh worker "w" (one goroutine per channel: notified and
   timer cycles are sequential), one publisher "p", the revoker, and the client
   commands of each connection.                                              *)
EXTENDS Integers, Sequences, FiniteSets, TLC

CONSTANTS
  Conns, Keys,
  MaxChg,        \* backend data changes
  MaxFlips,      \* publisher restarts (epoch changes)
  MaxOps,        \* client commands (subscribe, track, untrack, unsubscribe) + revokes + publishes
  Versioned,     \* TRUE: Mode "versioned" (backend versions, SharedPollPublish, cached items); FALSE: versionless
  Timer,         \* TRUE: the periodic refresh timer fires; FALSE: only notified refreshes
  AllowRevoke, AllowPublish,
  SplitTrack,    \* TRUE: other threads may run between Track1 and Track2 of a connection
  Replay,        \* TRUE: behaviours for gate replay: a thread released from a gate runs to its next gate before anything
                 \* else happens (gates = OnSharedPoll handler entry/return, the trace-log call between the two phases of
                 \* the keyed write when exactly one subscriber passes phase 1, start/return of publish and revoke calls)
  AsCoded        \* deviations of the code from the reference design that satisfies C25 (subset of the names below);
                 \* {} = reference.  TLC finds C25 counterexamples for each; they are replayed on the real code.
                 \*  "flip-trackers-only": flipEpochAndCollectClients collects only connections that track a key at
                 \*                       that moment (keyed hub members); a subscription without keys survives the flip
                 \*  "removal-unlocked":   keyedWriteRemoval deletes the key state under c.mu but writes the removal
                 \*                       publication after releasing it
                 \*  "warm-class-only":    after the keyed-hub join only keys classified warm at trackKeys time get the
                 \*                       post-join snapshot / needsBroadcast; a key the client tracked at the server's then
                 \*                       current version whose entry advanced before the join is left behind
                 \*  "revoke-ignores-pending": the unfiltered SharedPollRevokeKeys deletes the itemIndex entry without the
                 \*                       pendingHubJoin guard: an entry reserved by another connection's in-flight track
                 \*                       (between trackKeys and addSubscribers) is deleted under it
                 \*  "no-epoch-check":     epoch races: (a) a broadcast computed under one epoch is delivered to a
                 \*                       subscription of another epoch (the per-connection key state carries no
                 \*                       epoch), (b) the items of a response / publish are applied after a concurrent
                 \*                       flip changed the epoch they were checked against

None == "none"
Threads == {"w", "p"}

VARIABLES
  bk, bep, ndata, nchg, nflip,          \* backend: bk[k] = [ver, data], epoch number (0 = no epoch), counters
  sep, entry, pend, hub, vctr, notifq,  \* server channel state (epoch, itemIndex, pendingHubJoin, keyed hub, versionCounter, notifCh)
  sub, cep, ks, trk,                    \* per connection: subscribed, epoch of the subscribe reply, key state, in-flight track
  cst, cheld, cver, cdata,              \* client model per key: "no"/"tracked", delta base the SDK holds, version known, payload the application has
  th,                                   \* broadcasting threads w and p
  rv,                                   \* revoker
  ops,
  out, step

bvars == <<bk, bep, ndata, nchg, nflip>>
svars == <<sep, entry, pend, hub, vctr, notifq>>
cvars == <<sub, cep, ks, trk>>
mvars == <<cst, cheld, cver, cdata>>
vars  == <<bvars, svars, cvars, mvars, th, rv, ops, out, step>>

NoEntry == [ex |-> FALSE, ver |-> 0, data |-> 0, nb |-> FALSE, fresh |-> FALSE]
NoKs    == [tr |-> FALSE, ver |-> 0, dr |-> FALSE]
NoB     == [k |-> None, ver |-> 0, data |-> 0, pdata |-> 0, pver |-> 0, ep |-> 0, tg |-> {}, c |-> None, dposs |-> FALSE, solo |-> TRUE]
Idle    == [pc |-> "idle", keys |-> {}, resp |-> <<>>, ep |-> 0, unsubs |-> {}, q |-> <<>>, cur |-> NoB,
            pk |-> [k |-> None, ver |-> 0, data |-> 0]]
NoRv    == [pc |-> "idle", k |-> None, tg |-> {}, c |-> None]
NoTrk   == [k |-> None, cls |-> "none"]

KeyIdx(k) == IF k = "k1" THEN 1 ELSE 2
Zero == [k \in Keys |-> 0]

Init ==
  /\ bk = [k \in Keys |-> [ver |-> 1, data |-> KeyIdx(k)]] /\ bep = 0 /\ ndata = 2 /\ nchg = 0 /\ nflip = 0
  /\ sep = 0 /\ entry = [k \in Keys |-> NoEntry] /\ pend = Zero /\ hub = [k \in Keys |-> {}]
  /\ vctr = 0 /\ notifq = <<>>
  /\ sub = [c \in Conns |-> FALSE] /\ cep = [c \in Conns |-> 0]
  /\ ks = [c \in Conns |-> [k \in Keys |-> NoKs]] /\ trk = [c \in Conns |-> NoTrk]
  /\ cst = [c \in Conns |-> [k \in Keys |-> "no"]]
  /\ cheld = [c \in Conns |-> Zero] /\ cver = [c \in Conns |-> Zero] /\ cdata = [c \in Conns |-> Zero]
  /\ th = [t \in Threads |-> Idle] /\ rv = NoRv /\ ops = 0
  /\ out = [c \in Conns |-> <<>>]
  /\ step = [act |-> "Init"]

Say(c, f) == out' = [out EXCEPT ![c] = Append(@, f)]
Silent == UNCHANGED out

---------------------------------------------------------------------------
(* backend *)
BackendChange(k) ==
  /\ nchg < MaxChg
  /\ nchg' = nchg + 1 /\ ndata' = ndata + 1
  /\ bk' = [bk EXCEPT ![k] = [ver |-> @.ver + 1, data |-> ndata + 1]]
  /\ UNCHANGED <<bep, nflip, svars, cvars, mvars, th, rv, ops>>
  /\ Silent /\ step' = [act |-> "BackendChange", k |-> k, ver |-> bk[k].ver + 1, data |-> ndata + 1]

\* the publisher restarts: new epoch, versions start again, all payloads new
BackendRestart ==
  /\ Versioned /\ nflip < MaxFlips
  /\ nflip' = nflip + 1 /\ bep' = bep + 1
  /\ ndata' = ndata + Cardinality(Keys)
  /\ bk' = [k \in Keys |-> [ver |-> 1, data |-> ndata + KeyIdx(k)]]
  /\ UNCHANGED <<nchg, svars, cvars, mvars, th, rv, ops>>
  /\ Silent /\ step' = [act |-> "BackendRestart", ep |-> bep + 1, data |-> [k \in Keys |-> ndata + KeyIdx(k)]]

---------------------------------------------------------------------------
(* client commands *)
NoTrackInFlight == \A c \in Conns : trk[c].k = None

\* the SDK compares the epoch of the subscribe reply with the one it knew and forgets its versions when it changed
Subscribe(c) ==
  /\ ~sub[c] /\ trk[c].k = None /\ ops < MaxOps /\ ops' = ops + 1
  /\ sub' = [sub EXCEPT ![c] = TRUE] /\ cep' = [cep EXCEPT ![c] = sep]
  /\ IF cep[c] # sep
       THEN cver' = [cver EXCEPT ![c] = Zero] /\ cdata' = [cdata EXCEPT ![c] = Zero]
       ELSE UNCHANGED <<cver, cdata>>
  /\ Say(c, [t |-> "subreply", ep |-> sep])
  /\ UNCHANGED <<bvars, svars, ks, trk, cst, cheld, th, rv>>
  /\ step' = [act |-> "Subscribe", c |-> c]

\* handleTrack steps 1-4; v = version the client supplies (0 or the version it knows)
\* Replay only: the order in which a broadcast visits the subscribers it snapshotted is Go map order.  While a
\* broadcast is parked between the two phases of one subscriber, another subscriber of the snapshot (filtered in
\* phase 1 or not, depending on that order) must not start to pass: its re-track is left to the exhaustive runs.
ReplayTrackOK(c, k) == ~Replay \/ \A t \in Threads : ~(th[t].pc = "bcast" /\ th[t].cur.k = k /\ c \in th[t].cur.tg)

Track1(c, k, v) ==
  /\ sub[c] /\ cst[c][k] = "no" /\ trk[c].k = None /\ ops < MaxOps /\ ops' = ops + 1
  /\ ReplayTrackOK(c, k)
  /\ v \in {0, cver[c][k]}
  /\ LET isNew  == ~entry[k].ex
         e0     == IF isNew THEN [NoEntry EXCEPT !.ex = TRUE] ELSE entry[k]
         cls    == IF isNew /\ v = 0 THEN "cold"
                   ELSE IF (~isNew /\ v = 0) \/ e0.ver > v THEN "warm" ELSE "none"
         \* getCachedData: versioned + KeepLatestData, server has a newer version than the client
         cached == Versioned /\ e0.ver > 0 /\ e0.data # 0 /\ e0.ver > v
     IN /\ entry' = [entry EXCEPT ![k] = e0]
        /\ pend' = [pend EXCEPT ![k] = @ + 1]
        /\ ks' = [ks EXCEPT ![c][k] = IF cached THEN [tr |-> TRUE, ver |-> e0.ver, dr |-> TRUE]
                                              ELSE [tr |-> TRUE, ver |-> v, dr |-> FALSE]]
        /\ trk' = [trk EXCEPT ![c] = [k |-> k, cls |-> cls]]
        /\ cst' = [cst EXCEPT ![c][k] = "tracked"]
        \* the SDK holds no delta base for a key it starts to track; a cached item of the reply seeds it
        /\ cheld' = [cheld EXCEPT ![c][k] = IF cached THEN e0.data ELSE 0]
        /\ cver' = [cver EXCEPT ![c][k] = IF cached THEN e0.ver ELSE v]
        /\ cdata' = [cdata EXCEPT ![c][k] = IF cached THEN e0.data ELSE IF v = 0 THEN 0 ELSE @]
        /\ Say(c, [t |-> "trackreply", k |-> k, ver |-> IF cached THEN e0.ver ELSE 0, data |-> IF cached THEN e0.data ELSE 0])
  /\ UNCHANGED <<bvars, sep, hub, vctr, notifq, sub, cep, th, rv>>
  /\ step' = [act |-> "Track1", c |-> c, k |-> k, v |-> v]

\* handleTrack steps 5-7
Track2(c) ==
  /\ trk[c].k # None
  /\ LET k   == trk[c].k
         cls == trk[c].cls
         e   == entry[k]
         \* the entry moved past what this connection has while it was not yet in the hub (reference: covered like warm)
         ahead    == e.ex /\ ks[c][k].tr /\ e.ver > ks[c][k].ver /\ "warm-class-only" \notin AsCoded
         cand     == cls = "warm" \/ ahead
         \* getWarmKeyData: versioned, KeepLatestData, entry has data
         direct   == cand /\ Versioned /\ e.ex /\ e.ver > 0 /\ e.data # 0
         deliver  == direct /\ ks[c][k].tr /\ e.ver > ks[c][k].ver
         deferred == cand /\ ~direct
         flagNow  == deferred /\ e.ex /\ ~e.nb
     IN IF ~sub[c]
          THEN \* the subscription ended while the command was between reply and join: the join is refused, the
               \* reservation released (handleTrack step 5 re-validates under c.mu)
               /\ pend' = [pend EXCEPT ![k] = @ - 1]
               /\ entry' = IF hub[k] = {} /\ pend[k] = 1 THEN [entry EXCEPT ![k] = NoEntry] ELSE entry
               /\ trk' = [trk EXCEPT ![c] = NoTrk]
               /\ UNCHANGED <<hub, ks, cheld, cver, cdata, notifq>> /\ Silent
          ELSE
        /\ hub' = [hub EXCEPT ![k] = @ \cup {c}]
        /\ pend' = [pend EXCEPT ![k] = @ - 1]
        /\ trk' = [trk EXCEPT ![c] = NoTrk]
        /\ IF deliver
             THEN /\ ks' = [ks EXCEPT ![c][k] = [tr |-> TRUE, ver |-> e.ver, dr |-> TRUE]]
                  /\ cheld' = [cheld EXCEPT ![c][k] = e.data] /\ cver' = [cver EXCEPT ![c][k] = e.ver]
                  /\ cdata' = [cdata EXCEPT ![c][k] = e.data]
                  /\ Say(c, [t |-> "pub", k |-> k, ver |-> e.ver, data |-> e.data, delta |-> FALSE, base |-> 0])
             ELSE UNCHANGED <<ks, cheld, cver, cdata>> /\ Silent
        /\ entry' = IF flagNow THEN [entry EXCEPT ![k].nb = TRUE] ELSE entry
        /\ notifq' = IF cls = "cold" \/ (flagNow /\ e.ver > 0) THEN Append(notifq, k) ELSE notifq
  /\ UNCHANGED <<bvars, sep, vctr, sub, cep, cst, th, rv, ops>>
  /\ step' = [act |-> "Track2", c |-> c]

Untrack(c, k) ==
  /\ sub[c] /\ cst[c][k] = "tracked" /\ trk[c].k = None /\ ops < MaxOps /\ ops' = ops + 1
  /\ ks' = [ks EXCEPT ![c][k] = NoKs]
  /\ LET h == [hub EXCEPT ![k] = @ \ {c}] IN
       /\ hub' = h
       /\ entry' = IF ks[c][k].tr /\ h[k] = {} /\ pend[k] = 0 THEN [entry EXCEPT ![k] = NoEntry] ELSE entry
  /\ cst' = [cst EXCEPT ![c][k] = "no"] /\ cheld' = [cheld EXCEPT ![c][k] = 0]
  /\ Say(c, [t |-> "untrackreply", k |-> k])
  /\ UNCHANGED <<bvars, sep, pend, vctr, notifq, sub, cep, trk, cver, cdata, th, rv>>
  /\ step' = [act |-> "Untrack", c |-> c, k |-> k]

\* the teardown of one connection's keyed subscription: cleanupKeyed
Teardown(c) ==
  LET h == [k \in Keys |-> hub[k] \ {c}] IN
  /\ ks' = [ks EXCEPT ![c] = [k \in Keys |-> NoKs]]
  /\ hub' = h
  /\ entry' = [k \in Keys |-> IF ks[c][k].tr /\ h[k] = {} /\ pend[k] = 0 THEN NoEntry ELSE entry[k]]
  /\ sub' = [sub EXCEPT ![c] = FALSE]
  /\ cst' = [cst EXCEPT ![c] = [k \in Keys |-> "no"]]
  /\ cheld' = [cheld EXCEPT ![c] = Zero]

ClientUnsub(c) ==
  /\ sub[c] /\ trk[c].k = None /\ ops < MaxOps /\ ops' = ops + 1
  /\ Teardown(c)
  /\ Say(c, [t |-> "unsubreply"])
  /\ UNCHANGED <<bvars, sep, pend, vctr, notifq, cep, trk, cver, cdata, th, rv>>
  /\ step' = [act |-> "ClientUnsub", c |-> c]

---------------------------------------------------------------------------
(* the refresh worker's calls to the backend: the response is what the backend holds at the moment of the call *)
WCallNotif ==
  /\ th["w"].pc = "idle" /\ notifq # <<>>
  /\ notifq' = Tail(notifq)
  /\ LET k == Head(notifq) IN
       IF entry[k].ex
         THEN th' = [th EXCEPT !["w"] = [Idle EXCEPT !.pc = "called", !.keys = {k}, !.resp = [x \in {k} |-> bk[x]], !.ep = bep]]
         ELSE UNCHANGED th
  /\ UNCHANGED <<bvars, sep, entry, pend, hub, vctr, cvars, mvars, rv, ops>>
  /\ Silent /\ step' = [act |-> "WCallNotif", k |-> Head(notifq), called |-> entry[Head(notifq)].ex]

WCallTimer ==
  /\ Timer /\ th["w"].pc = "idle"
  /\ LET all  == {k \in Keys : entry[k].ex}
         keys == {k \in all : ~entry[k].fresh}
     IN /\ all # {}
        /\ entry' = [k \in Keys |-> IF entry[k].ex THEN [entry[k] EXCEPT !.fresh = FALSE] ELSE entry[k]]
        /\ th' = IF keys = {} THEN th
                 ELSE [th EXCEPT !["w"] = [Idle EXCEPT !.pc = "called", !.keys = keys, !.resp = [x \in keys |-> bk[x]], !.ep = bep]]
  /\ UNCHANGED <<bvars, sep, pend, hub, vctr, notifq, cvars, mvars, rv, ops>>
  /\ Silent /\ step' = [act |-> "WCallTimer"]

\* SharedPollPublish of the backend's current value of k (local mode: handlePublishedData on the caller's goroutine)
PubStart(k) ==
  /\ AllowPublish /\ Versioned /\ th["p"].pc = "idle" /\ ops < MaxOps /\ ops' = ops + 1
  /\ th' = [th EXCEPT !["p"] = [Idle EXCEPT !.pc = "called", !.ep = bep, !.pk = [k |-> k, ver |-> bk[k].ver, data |-> bk[k].data]]]
  /\ UNCHANGED <<bvars, svars, cvars, mvars, rv>>
  /\ Silent /\ step' = [act |-> "PubStart", k |-> k, ver |-> bk[k].ver, data |-> bk[k].data, ep |-> bep]

---------------------------------------------------------------------------
(* flipEpochAndCollectClients, then Client.Unsubscribe for each collected client *)
\* late = the backend computed its answer only now (what it holds at the return of the call), otherwise the answer
\* is what it held when the call started (a publish may have overtaken it)
Flip(t, late) ==
  /\ th[t].pc = "called"
  /\ late => t = "w"
  /\ LET ep  == IF late THEN bep ELSE th[t].ep
         rsp == IF late THEN [x \in th[t].keys |-> bk[x]] ELSE th[t].resp
     IN
     IF Versioned /\ ep # sep
       THEN /\ sep' = ep
            /\ entry' = [k \in Keys |-> IF entry[k].ex THEN [NoEntry EXCEPT !.ex = TRUE] ELSE entry[k]]
            /\ th' = [th EXCEPT ![t].pc = "unsub", ![t].ep = ep, ![t].resp = rsp,
                                ![t].unsubs = IF "flip-trackers-only" \in AsCoded THEN UNION {hub[k] : k \in Keys}
                                              ELSE {c \in Conns : sub[c]}]
       ELSE /\ th' = [th EXCEPT ![t].pc = "apply", ![t].ep = ep, ![t].resp = rsp] /\ UNCHANGED <<sep, entry>>
  /\ UNCHANGED <<bvars, pend, hub, vctr, notifq, cvars, mvars, rv, ops>>
  /\ Silent /\ step' = [act |-> "Flip", t |-> t, late |-> late,
                        flipped |-> (Versioned /\ (IF late THEN bep ELSE th[t].ep) # sep)]

FlipUnsub(t, c) ==
  /\ th[t].pc = "unsub" /\ c \in th[t].unsubs
  /\ th' = [th EXCEPT ![t].unsubs = @ \ {c}]
  /\ IF sub[c]
       THEN /\ Teardown(c) /\ Say(c, [t |-> "unsub"])
       ELSE /\ UNCHANGED <<ks, hub, entry, sub, cst, cheld>> /\ Silent
  /\ UNCHANGED <<bvars, sep, pend, vctr, notifq, cep, trk, cver, cdata, rv, ops>>
  /\ step' = [act |-> "FlipUnsub", t |-> t, c |-> c]

FlipDone(t) ==
  /\ th[t].pc = "unsub" /\ th[t].unsubs = {}
  /\ th' = [th EXCEPT ![t].pc = "apply"]
  /\ UNCHANGED <<bvars, svars, cvars, mvars, rv, ops>>
  /\ Silent /\ step' = [act |-> "FlipDone", t |-> t]

---------------------------------------------------------------------------
(* per-item change detection under s.mu; result: updated entries + list of broadcasts *)
RECURSIVE ApplyItems(_, _, _, _, _)
\* (remaining keys as sequence, response, entries, version counter, broadcasts so far)
ApplyItems(ksq, resp, en, vc, acc) ==
  IF ksq = <<>> THEN [en |-> en, vc |-> vc, q |-> acc]
  ELSE
    LET k == Head(ksq)
        e == en[k]
        r == resp[k]
        mk(ver, data, pdata, pver) == [NoB EXCEPT !.k = k, !.ver = ver, !.data = data, !.pdata = pdata, !.pver = pver]
    IN IF ~e.ex THEN ApplyItems(Tail(ksq), resp, en, vc, acc)
       ELSE IF ~Versioned THEN
         \* versionless + KeepLatestData: change detection by content, synthetic version counter
         LET changed == IF e.ver > 0 THEN e.data # r.data ELSE TRUE IN
         IF ~changed
           THEN IF e.nb /\ e.ver > 0
                  THEN ApplyItems(Tail(ksq), resp, [en EXCEPT ![k].nb = FALSE], vc, Append(acc, mk(e.ver, r.data, 0, 0)))
                  ELSE ApplyItems(Tail(ksq), resp, en, vc, acc)
           ELSE ApplyItems(Tail(ksq), resp, [en EXCEPT ![k] = [e EXCEPT !.nb = FALSE, !.ver = vc + 1, !.data = r.data]],
                           vc + 1, Append(acc, mk(vc + 1, r.data, e.data, e.ver)))
       ELSE IF r.ver <= e.ver THEN
         IF e.nb /\ e.ver > 0
           THEN ApplyItems(Tail(ksq), resp, [en EXCEPT ![k].nb = FALSE], vc, Append(acc, mk(e.ver, e.data, 0, 0)))
           ELSE ApplyItems(Tail(ksq), resp, en, vc, acc)
       ELSE ApplyItems(Tail(ksq), resp, [en EXCEPT ![k] = [e EXCEPT !.nb = FALSE, !.ver = r.ver, !.data = r.data]],
                       vc, Append(acc, mk(r.ver, r.data, e.data, e.ver)))

RECURSIVE KeySeq(_)
KeySeq(S) == IF S = {} THEN <<>> ELSE LET x == CHOOSE y \in S : \A z \in S : KeyIdx(y) <= KeyIdx(z) IN <<x>> \o KeySeq(S \ {x})

\* reference: the epoch check and the application of the items are one critical section - a response (or publish)
\* whose epoch is no longer the channel's when its items are applied is discarded.  As coded the lock is released
\* in between and a concurrent flip lets old-epoch data in under the new epoch.
StaleEpoch(t) == Versioned /\ th[t].ep # sep /\ "no-epoch-check" \notin AsCoded

WApply ==
  /\ th["w"].pc = "apply"
  /\ LET a == ApplyItems(KeySeq(th["w"].keys), th["w"].resp, entry, vctr, <<>>) IN
       IF StaleEpoch("w") THEN th' = [th EXCEPT !["w"] = Idle] /\ UNCHANGED <<entry, vctr>>
       ELSE
       /\ entry' = a.en /\ vctr' = a.vc
       /\ th' = [th EXCEPT !["w"].pc = "bcast", !["w"].q = [i \in 1..Len(a.q) |-> [a.q[i] EXCEPT !.ep = sep]]]
  /\ UNCHANGED <<bvars, sep, pend, hub, notifq, cvars, mvars, rv, ops>>
  /\ Silent /\ step' = [act |-> "WApply"]

PApply ==
  /\ th["p"].pc = "apply"
  /\ LET k == th["p"].pk.k
         e == entry[k]
         v == th["p"].pk.ver
     IN IF ~e.ex \/ v <= e.ver \/ StaleEpoch("p")
          THEN /\ th' = [th EXCEPT !["p"] = Idle] /\ UNCHANGED entry
          ELSE /\ entry' = [entry EXCEPT ![k] = [e EXCEPT !.ver = v, !.data = th["p"].pk.data, !.fresh = TRUE]]
               /\ th' = [th EXCEPT !["p"].pc = "bcast",
                                   !["p"].q = <<[NoB EXCEPT !.k = k, !.ver = v, !.data = th["p"].pk.data, !.pdata = e.data, !.pver = e.ver, !.ep = sep]>>]
  /\ UNCHANGED <<bvars, sep, pend, hub, vctr, notifq, cvars, mvars, rv, ops>>
  /\ Silent /\ step' = [act |-> "PApply"]

---------------------------------------------------------------------------
(* hub.broadcastToKey + the two-phase keyed write *)
\* reference: a broadcast is only for subscriptions of the epoch it was computed under
EpochOK(b, c) == "no-epoch-check" \in AsCoded \/ b.ep = cep[c]
Passes(b, c)  == ks[c][b.k].tr /\ b.ver > ks[c][b.k].ver /\ EpochOK(b, c)
PassSet(b, h) == {c \in h : Passes(b, c)}
BNext(t) ==                                     \* take the next broadcast: snapshot of the key's subscribers
  /\ th[t].pc = "bcast" /\ th[t].cur.k = None
  /\ IF th[t].q = <<>>
       THEN th' = [th EXCEPT ![t] = Idle]
       ELSE LET b == Head(th[t].q) IN
            th' = [th EXCEPT ![t].cur = [b EXCEPT !.tg = hub[b.k], !.solo = (~Replay \/ Cardinality(PassSet(b, hub[b.k])) <= 1)],
                             ![t].q = Tail(@)]
  /\ UNCHANGED <<bvars, svars, cvars, mvars, rv, ops>>
  /\ Silent /\ step' = [act |-> "BNext", t |-> t]

BTargetsDone(t) ==
  /\ th[t].pc = "bcast" /\ th[t].cur.k # None /\ th[t].cur.c = None /\ th[t].cur.tg = {}
  /\ th' = [th EXCEPT ![t].cur = NoB]
  /\ UNCHANGED <<bvars, svars, cvars, mvars, rv, ops>>
  /\ Silent /\ step' = [act |-> "BTargetsDone", t |-> t]

\* phase 1: first check and tentative delta decision, outside the lock
Prep(t, c) ==
  /\ th[t].pc = "bcast" /\ th[t].cur.k # None /\ th[t].cur.c = None /\ c \in th[t].cur.tg
  /\ LET b == th[t].cur
         s == ks[c][b.k]
     IN IF ~Passes(b, c)
          THEN th' = [th EXCEPT ![t].cur.tg = @ \ {c}]                                 \* filtered early
          ELSE th' = [th EXCEPT ![t].cur.tg = @ \ {c}, ![t].cur.c = c, ![t].cur.dposs = (b.pdata # 0 /\ s.dr)]
  /\ UNCHANGED <<bvars, svars, cvars, mvars, rv, ops>>
  /\ Silent /\ step' = [act |-> "Prep", t |-> t, c |-> c, passed |-> Passes(th[t].cur, c)]

\* phase 3: re-check, delta-vs-full, enqueue and state update in one critical section
Enq(t) ==
  /\ th[t].pc = "bcast" /\ th[t].cur.c # None
  /\ LET b == th[t].cur
         c == b.c
         s == ks[c][b.k]
         useDelta == b.dposs /\ s.dr /\ s.ver = b.pver
     IN /\ th' = [th EXCEPT ![t].cur.c = None, ![t].cur.dposs = FALSE]
        /\ IF ~Passes(b, c)
             THEN UNCHANGED <<ks, cheld, cver, cdata>> /\ Silent
             ELSE /\ ks' = [ks EXCEPT ![c][b.k] = [tr |-> TRUE, ver |-> b.ver, dr |-> TRUE]]
                  /\ cheld' = [cheld EXCEPT ![c][b.k] = b.data] /\ cver' = [cver EXCEPT ![c][b.k] = b.ver]
                  /\ cdata' = [cdata EXCEPT ![c][b.k] = b.data]
                  /\ Say(c, [t |-> "pub", k |-> b.k, ver |-> b.ver, data |-> b.data, delta |-> useDelta,
                             base |-> IF useDelta THEN b.pdata ELSE 0])
  /\ UNCHANGED <<bvars, svars, sub, cep, trk, cst, rv, ops>>
  /\ step' = [act |-> "Enq", t |-> t, c |-> th[t].cur.c]

---------------------------------------------------------------------------
(* SharedPollRevokeKeys for all users *)
RevStart(k) ==
  /\ AllowRevoke /\ rv.pc = "idle" /\ entry[k].ex /\ ops < MaxOps /\ ops' = ops + 1
  /\ rv' = [pc |-> "removal", k |-> k, tg |-> hub[k], c |-> None]
  /\ UNCHANGED <<bvars, svars, cvars, mvars, th>>
  /\ Silent /\ step' = [act |-> "RevStart", k |-> k]

RevDel(c) ==                                    \* keyedWriteRemoval: delete(chanKeys, key) under c.mu
  /\ rv.pc = "removal" /\ rv.c = None /\ c \in rv.tg
  /\ ks' = [ks EXCEPT ![c][rv.k] = NoKs]
  /\ IF "removal-unlocked" \in AsCoded
       THEN /\ rv' = [rv EXCEPT !.tg = @ \ {c}, !.c = c]
            /\ Silent /\ UNCHANGED mvars
       ELSE \* reference: the removal publication is enqueued in the same critical section
            /\ rv' = [rv EXCEPT !.tg = @ \ {c}]
            /\ IF sub[c] /\ ks[c][rv.k].tr
                 THEN /\ Say(c, [t |-> "removed", k |-> rv.k])
                      /\ cst' = [cst EXCEPT ![c][rv.k] = "no"] /\ cheld' = [cheld EXCEPT ![c][rv.k] = 0]
                 ELSE Silent /\ UNCHANGED <<cst, cheld>>
            /\ UNCHANGED <<cver, cdata>>
  /\ UNCHANGED <<bvars, svars, sub, cep, trk, th, ops>>
  /\ step' = [act |-> "RevDel", c |-> c]

RevPush ==                                      \* ... the removal publication is written outside the lock
  /\ rv.pc = "removal" /\ rv.c # None
  /\ rv' = [rv EXCEPT !.c = None]
  /\ IF sub[rv.c]
       THEN /\ Say(rv.c, [t |-> "removed", k |-> rv.k])
            /\ cst' = [cst EXCEPT ![rv.c][rv.k] = "no"] /\ cheld' = [cheld EXCEPT ![rv.c][rv.k] = 0]
       ELSE Silent /\ UNCHANGED <<cst, cheld>>
  /\ UNCHANGED <<bvars, svars, cvars, cver, cdata, th, ops>>
  /\ step' = [act |-> "RevPush", c |-> rv.c]

RevEnd ==                                       \* removeAllSubscribers + itemIndex cleanup under s.mu
  /\ rv.pc = "removal" /\ rv.c = None /\ rv.tg = {}
  /\ rv' = NoRv
  /\ hub' = [hub EXCEPT ![rv.k] = {}]
  /\ entry' = IF pend[rv.k] = 0 \/ "revoke-ignores-pending" \in AsCoded THEN [entry EXCEPT ![rv.k] = NoEntry] ELSE entry
  /\ UNCHANGED <<bvars, sep, pend, vctr, notifq, cvars, mvars, th, ops>>
  /\ Silent /\ step' = [act |-> "RevEnd"]

---------------------------------------------------------------------------
WStep == WCallNotif \/ WCallTimer \/ WApply
         \/ (\E late \in BOOLEAN : Flip("w", late)) \/ FlipDone("w") \/ BNext("w") \/ BTargetsDone("w") \/ Enq("w")
         \/ \E c \in Conns : FlipUnsub("w", c) \/ Prep("w", c)
PStep == PApply
         \/ Flip("p", FALSE) \/ FlipDone("p") \/ BNext("p") \/ BTargetsDone("p") \/ Enq("p")
         \/ \E c \in Conns : FlipUnsub("p", c) \/ Prep("p", c)
RStep == RevPush \/ RevEnd \/ \E c \in Conns : RevDel(c)
TStep == \E c \in Conns : Track2(c)

EnvStep ==
  \/ \E k \in Keys : BackendChange(k) \/ PubStart(k) \/ RevStart(k)
  \/ BackendRestart
  \/ \E c \in Conns : Subscribe(c) \/ ClientUnsub(c)
  \/ \E c \in Conns, k \in Keys, v \in 0..(MaxChg + 1) : Track1(c, k, v)
  \/ \E c \in Conns, k \in Keys : Untrack(c, k)

\* a thread between two gates
Running(t) == th[t].pc \in {"unsub", "apply"} \/ (th[t].pc = "bcast" /\ ~(th[t].cur.c # None /\ th[t].cur.solo))
RevRunning == rv.pc = "removal" /\ rv.c = None

Next ==
  IF ~SplitTrack /\ ~NoTrackInFlight THEN TStep
  ELSE IF Replay /\ Running("w") THEN WStep
  ELSE IF Replay /\ Running("p") THEN PStep
  ELSE IF Replay /\ RevRunning THEN RStep
  \* the real worker calls the backend as soon as it is idle and a notification is queued
  ELSE IF Replay /\ th["w"].pc = "idle" /\ notifq # <<>> THEN WCallNotif
  ELSE WStep \/ PStep \/ RStep \/ TStep \/ EnvStep

Spec     == Init /\ [][Next]_vars
FairSpec == Spec /\ WF_vars(WStep) /\ WF_vars(PStep) /\ WF_vars(RStep) /\ WF_vars(TStep)

---------------------------------------------------------------------------
(* Observable-only monitors, evaluated on every appended frame against what the client model knew BEFORE the
   frame (action properties: `out` and `step` are outside the VIEW). *)
NewFrame(c) == out'[c] # out[c]
Last(c)     == out'[c][Len(out'[c])]

\* versions of pushed updates strictly increase per connection and key (also above the version the client supplied)
C25_Mono  == \A c \in Conns : (NewFrame(c) /\ Last(c).t = "pub") => Last(c).ver > cver[c][Last(c).k]
\* a delta applies to the payload the connection holds for the key
C25_Delta == \A c \in Conns : (NewFrame(c) /\ Last(c).t = "pub" /\ Last(c).delta) =>
                 (cheld[c][Last(c).k] # 0 /\ Last(c).base = cheld[c][Last(c).k])
\* no update for a key that the client does not track (before the track reply, after the untrack reply, a removal
\* or the end of the subscription).  A removal notice itself may still arrive after the client's own untrack was
\* acknowledged (revocation racing with the untrack): it carries no data and the statement is about updates.
C25_Tracked == \A c \in Conns : (NewFrame(c) /\ Last(c).t = "pub") => cst[c][Last(c).k] = "tracked"

C25_Frames == [][C25_Mono /\ C25_Delta /\ C25_Tracked]_vars

\* epoch change => insufficient-state unsubscribe: a subscription that was established under another epoch than the
\* channel's current one is being ended by the flipping thread
C25_Epoch ==
  \A c \in Conns : (sub[c] /\ cep[c] # sep) => \E t \in Threads : c \in th[t].unsubs

\* what the server thinks the connection has is what the client has
VersionConsistent ==
  \A c \in Conns, k \in Keys : (ks[c][k].tr /\ cst[c][k] = "tracked") => cver[c][k] = ks[c][k].ver

TypeOK == (\A k \in Keys : pend[k] >= 0) /\ ops <= MaxOps
\* a key with subscribers in the keyed hub (or a reservation) has its itemIndex entry: otherwise it is never polled
\* and direct publishes are dropped
HubHasEntry == \A k \in Keys : (hub[k] # {} \/ pend[k] > 0) => entry[k].ex

\* liveness: eventually every tracking connection has the newest payload of the key, for good
AllFresh == \A c \in Conns, k \in Keys : cst[c][k] = "tracked" => cdata[c][k] = bk[k].data
C25_Live == <>[]AllFresh

\* Scenarios for witness configurations (negated as invariants): a track parked between reply and hub join while the
\* entry of its key moved on; everything else at rest
AtRest == \A t \in Threads : th[t].pc = "idle" /\ rv.pc = "idle" /\ notifq = <<>>
ScnTrackWindowCached == \E c \in Conns : trk[c].k # None /\ AtRest /\ ks[c][trk[c].k].dr /\ entry[trk[c].k].ver > ks[c][trk[c].k].ver
ScnTrackWindowSame   == \E c \in Conns : trk[c].k # None /\ AtRest /\ trk[c].cls = "none" /\ ks[c][trk[c].k].ver > 0
                                          /\ entry[trk[c].k].ver > ks[c][trk[c].k].ver
NotScnTrackWindowCached == ~ScnTrackWindowCached
NotScnTrackWindowSame   == ~ScnTrackWindowSame

View == <<bvars, svars, cvars, mvars, th, rv, ops>>
=============================================================================
