SPECIFICATION Spec
CONSTANTS
  Subs = {"p1", "p2"}
  OptSets <- OptShared
  MaxPub = 1
  MaxFaults = 1
  MaxTicks = 4
  MaxResub = 0
  QMax = 1
  Timed = TRUE
  CheckDelay = 40
  Advances = {12, 38, 50}
  MaxNow = 112
  Urgent = FALSE
VIEW View
INVARIANTS TypeOK InOrder GapFree Bracketed NoSilentLoss
PROPERTIES TickOneExact StampMoves
CHECK_DEADLOCK FALSE
