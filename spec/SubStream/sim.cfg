SPECIFICATION Spec
CONSTANTS
  MaxPub = 4
  HistSize = 2
  MaxFaults = 2
  Kinds = {"pos", "rec", "plain", "nohist", "cache"}
  UrgentAsync = TRUE
  RecLimit = 0
  MaxChecks = 1
  Servers = {FALSE, TRUE}
INVARIANTS TypeOK C01 C02 C03 C10 C16 PosConsistent
CHECK_DEADLOCK FALSE
