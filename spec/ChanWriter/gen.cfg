SPECIFICATION SubSpec
CONSTANTS
  Keys = {"a", "b"}
  NonPub = {"join", "leave"}
  Sizes = {0, 2, 3}
  Delays = {TRUE, FALSE}
  Lates = {TRUE, FALSE}
  Threads = {1}
  MaxAdds = 3
  MaxEnds = 100
  AtomicAdd = TRUE
  ClosedRefuses = TRUE
  SplitGet = FALSE
  RecheckOnStore = TRUE
  StaleTimers = FALSE
  EarlyDel = TRUE
  MaxGen = 2
  BatchedKinds = {"pub", "join", "leave", "other"}
  SubSplit = FALSE
  CfgSwitch = "none"
VIEW SubView
INVARIANTS TypeOK LatUnique PendingAgree TimerSane NoLeftover WireOrdered
PROPERTIES GenBracket OrderPreserved LatestCoalesced EndDiscards SizeExact
CHECK_DEADLOCK FALSE
