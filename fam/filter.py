"""C15 -- spec/Filter: reference definition of the tags-filter language (Match, Validate, numeral grammar and exact
decimal comparison) in TLA+; TLC checks the language theorems on every enumerated (tree, tag map) and dumps the
table; the Go harness replays every row into the real internal/filter Validate / Match / Hash.

Mutation testing (FRAMEWORK rule 3), see the end of this docstring (filled in after the runs).
"""
import os

from lib import vf

# A child list containing a nil element ({"op":"and","nodes":[null]} in JSON) makes filter.Validate panic instead
# of rejecting. The property quantifies over filter TREES, so this is only recorded as a note unless switched on.
NIL_CHILD_IS_VIOLATION = False


def _s(chars):
    return ''.join(chars)


def _node(n):
    return {'op': n['op'], 'key': n['key'], 'cmp': n['cmp'], 'val': _s(n['val']),
            'vals': [_s(v) for v in n['vals']], 'nodes': [_node(x) for x in n['nodes']]}


def _row(r):
    """TLC prints strings as sequences of characters (see Filter.tla): join them."""
    return {'tree': _node(r['tree']), 'tags': [{'k': t['k'], 'v': _s(t['v'])} for t in r['tags']], 'res': r['res']}


def c15(c):
    cfg = 'quick.cfg' if c.tier == 'quick' else 'thorough.cfg'
    r = c.tlc_exhaustive('Filter', 'Filter', cfg, dump=True, timeout=1800,
                         workers=int(os.environ.get('VERIF_TLC_WORKERS') or 8))
    rows = [_row(x) for x in c.dump_states(r)]
    nvalid = sum(1 for x in rows if x['res']['valid'])
    c.log('TLC: %d rows enumerated (%d well-formed trees x tag maps), language theorems hold on all of them'
          % (len(rows), nvalid))
    binp = c.go_build('filter')
    res = c.harness(binp, 'table', rows, timeout=1800)
    c.absorb(res)
    pr = c.harness(binp, 'probe', {})
    obs = (pr.get('extra') or {}).get('observations', {})
    for k, v in sorted(obs.items()):
        c.notes.append('observation (outside the property): %s: %s' % (k, v))
    if NIL_CHILD_IS_VIOLATION:
        for k, v in sorted(obs.items()):
            if k.startswith('validate_nil_child') and 'panic=<nil>' not in v:
                c.violation('validate:nil-child:panic', 'Validate panics on a child list with a nil element: %s' % v,
                            {'probe': k, 'result': v})
    ex = res.get('extra') or {}
    if ex.get('hash_collisions_between_different_trees'):
        c.notes.append('remark: %d trees share their hash with a structurally different tree (not required by C15): %s'
                       % (ex['hash_collisions_between_different_trees'], ex.get('hash_collision_samples')))
    c.cov['traces_validated_against_impl'] = res['completed']
    c.cov['evaluations'] = res['executed']
    c.cov['distinct_nontrivial'] = res['nontrivial']
    c.cov['exhaustive'] = True
    c.cov['classes'] = ex.get('classes')
    c.cov['distinct_trees'] = ex.get('distinct_trees')
    c.cov['rule'] = ('every (tree, tag map) of the five bounded classes of spec/Filter/Filter.tla (%s): A all leaf shapes x 15 '
                     'comparison strings x operand shapes x tag maps (key absent / empty value / other key present), N the four '
                     'numeric comparisons over the edge numerals on both sides, B one logical node (and/or/not/unknown, 0..2 '
                     'children), C two logical levels, D three children; each row: Validate and Match on two differently built copies, Hash '
                     'before/after and across the copies. non-trivial = distinct (well-formed tree, tag map) whose Match value '
                     'was compared' % cfg)
    c.cov['samples'] = res['samples']
    c.assumptions += ['the numeral grammar of the spec ([+-]digits[.digits{1,19}], <= 200 bytes) is the one read from '
                      'udecimal v1.10.1 Parse; inputs > 41 bytes of the form "-+digits" (accepted by its big.Int path) are not enumerated',
                      'ex/nex with an empty key are taken as well-formed (the code says so, the language definition is silent)',
                      'fields that do not belong to a node kind (children of a leaf, key/cmp/val of a logical node) are not enumerated: '
                      'the language definition does not say whether they make a tree malformed (the code ignores them)',
                      'bounded: depth <= 2, <= 2 children, value sets as in spec/Filter/%s' % cfg]


CHECKS = {'C15': c15}

META = {'C15': dict(
    level='model_checking',
    text='Filter.tla defines the filter language independently of the code (a missing key equals no value and is in no set; numeric comparison = exact decimal comparison of numerals of the grammar accepted by the engine, false otherwise; and/or/not; well-formedness; definedness of Match on well-formed trees). TLC checks the language theorems (absent key, duals, trichotomy, connective laws, Validate => Match total, cross-check of the digit-string comparison against scaled integers) on every enumerated (tree, tag map) and the enumerated table is replayed row by row into the real filter.Validate, filter.Match and filter.Hash (two differently built structurally equal copies of every tree). Exhaustive within the bounds.',
    note='Bounds: depth <= 2, <= 2 children per node, 13+2 comparison strings, 3+1 logical operators, 13 (quick) / 20 (thorough) tag values, ~50 / ~80 numeric edge numerals incl. u64/u128/big.Int sized and 19/20 fractional digits. Trusted: TLC, lib/tlaparse.py, the harness comparison code, the reading of the udecimal grammar. Hash inequality of different trees is not checked (not required).',
    technique='TLA+ reference definition + TLC exhaustive enumeration; function-table replay into the Go functions',
    design_ref='DESIGN.md 4.4, 8 (C15), 10 item 4')}
