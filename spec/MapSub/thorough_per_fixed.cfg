SPECIFICATION Spec
CONSTANTS
  NK = 2
  MaxOps = 3
  MaxLag = 1
  MaxResub = 1
  LiveLimit = 3
  Modes = {"per"}
  Kinds = {"fresh", "rlive", "rstream"}
  Pages = {1, 2}
  SSizes = {1, 2}
  Filts = {"none"}
  Ops = {"pub", "rem", "exp", "sexp", "clear", "refresh", "poscheck"}
  MaxJumps = 0
  EpochCheck = TRUE
  Pres = {3}
  N0s = {0, 2}
  Contig = TRUE
  DropStale = FALSE
VIEW View
INVARIANTS TypeOK C22
PROPERTIES C22R C16M
CHECK_DEADLOCK FALSE
