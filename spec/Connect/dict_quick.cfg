SPECIFICATION Spec
CONSTANTS MaxOps = 2
INVARIANT C11_Dict
CHECK_DEADLOCK FALSE
