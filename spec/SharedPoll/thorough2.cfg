SPECIFICATION Spec
CONSTANTS
  Conns = {"c1", "c2"}
  Keys = {"k1", "k2"}
  MaxChg = 1
  MaxFlips = 1
  MaxOps = 5
  Versioned = TRUE
  Timer = FALSE
  AllowRevoke = TRUE
  AllowPublish = TRUE
  SplitTrack = FALSE
  AsCoded = {}
  Replay = FALSE
VIEW View
INVARIANTS TypeOK VersionConsistent C25_Epoch HubHasEntry
PROPERTIES C25_Frames
CHECK_DEADLOCK FALSE
