SPECIFICATION Spec
CONSTANTS
  MaxPub = 2
  HistSize = 2
  MaxFaults = 0
  Kinds = {"cache"}
  UrgentAsync = TRUE
  RecLimit = 0
  MaxChecks = 0
  Servers = {FALSE}
CHECK_DEADLOCK FALSE
