------------------------------- MODULE Survey -------------------------------
(* C41  Survey collects one answer per node and terminates.

   Code modelled (node.go): Node.Survey, handleSurveyResponse, the survey registry (surveyRegistry, surveyMu,
   surveyID) and the buffered response channel of capacity numNodes = size of the node registry.

     Survey(ctx, op, data, ""):  id := ++surveyID; ch := make(chan, numNodes); registry[id] = ch      -- Start
                                 local OnSurvey handler is invoked synchronously with a callback       -- (st = "handler")
                                 go collector; publishControl(request)                                 -- HandlerDone
                                 collector: loop { select { resp := <-ch: results[resp.UID] = resp;
                                                            if len(results) == numNodes return
                                                          <-ctx.Done(): return } }
                                 wg.Wait(); err := ctx.Err()                                           -- (st = "exited")
                                 deferred: delete(registry, id)                                        -- Return
     handleSurveyResponse(uid, resp): RLock; if ch, ok := registry[resp.Id]; ok { select { ch <- ...: default: } }
     local callback:              ch <- survey{UID: n.uid, ...}                      (see LocalSend)

   The harness controls exactly these points through public interfaces: the OnSurvey handler (parks the surveying
   goroutine between Start and HandlerDone), Controller.PublishControl (sees the request), Node.HandleControl
   (injects encoded responses), and the caller's context.Context (Done() is the deadline, Err() is called after
   the collector has finished and before the deferred registry delete runs: st = "exited").

   Modelling decisions (assumptions of the check):
   * The collector goroutine is eager: whenever it runs, a response handed to the channel is consumed before the
     next environment step (the harness waits for the channel to drain after every step).  A collector starved
     while >= numNodes responses arrive is not modelled.
   * The deadline fires only while the collector is waiting with an empty channel (Go's select would otherwise
     choose arbitrarily between a ready response and ctx.Done()).
   * "expected nodes" is what the code counts: numNodes distinct responders, whoever they are (a node that is
     not yet in the registry may answer - Extra - and counts; the code comment in handleSurveyResponse says so).
   * LocalSend = "nonblocking" is the reference the real code is compared with: a late local answer is dropped
     when the channel is full, like a late remote answer.  LocalSend = "blocking" transcribes the pinned commit
     (ch <- survey{...} in the local callback): TLC finds NoBlockedCallback violated for it (survey_pinned.cfg:
     deadline passes, two late answers fill the channel between the collector's end and the registry delete,
     then the application's asynchronous local callback blocks forever); the harness reproduces that on the real
     node and reports it as violation "late-local-reply-blocks".                                               *)
EXTENDS Naturals, Sequences, FiniteSets, TLC

CONSTANTS
  Nodes,        \* uids of the other nodes in the registry (self is "n1")
  Extra,        \* uids of responders that are not in the registry
  MaxSurveys,   \* surveys issued per behaviour (ids 1..MaxSurveys), all may overlap
  MaxDeliver,   \* bound on injected responses
  LocalModes,   \* how the local OnSurvey handler answers: subset of {"sync", "async", "never"}
  DupOK,        \* TRUE: a responder may answer the same survey more than once
  Causal,       \* TRUE: no response for a survey arrives before its request was published
  LocalSend     \* "nonblocking" | "blocking"

Self     == "n1"
NumNodes == 1 + Cardinality(Nodes)
Ids      == 1..MaxSurveys
FId      == MaxSurveys + 1            \* an id this node never issues (foreign)
Uids     == {Self} \cup Nodes \cup Extra
None     == [id |-> 0, uid |-> "", k |-> 0]
Payload(id, uid, k) == [id |-> id, uid |-> uid, k |-> k]

VARIABLES
  nextId,     \* n.surveyID
  reg,        \* n.surveyRegistry: the set of ids that have a response channel registered (answers are routed by id)
  heard,      \* heard[id]: responders whose answer for id arrived while survey id was waiting for answers (history)
  st,         \* st[id]: "idle" | "handler" | "collecting" | "exited" | "returned" | "stuck"
  lm,         \* lm[id]: local answer mode chosen at Start
  lpend,      \* lpend[id]: the local callback has not been called yet
  buf,        \* buf[id]: content of the response channel (sequence of payloads)
  results,    \* results[id][uid]: payload or None
  deadline,   \* deadline[id]: ctx.Done() closed
  count,      \* count[id][uid]: answers sent so far by uid for id (ids 1..FId)
  ndel,       \* responses injected so far
  blocked,    \* set of ids whose local callback is blocked forever in its send
  out,        \* out[id]: what Survey returned: [res, err] (history)
  step

vars == <<nextId, reg, heard, st, lm, lpend, buf, results, deadline, count, ndel, blocked, out, step>>
View == <<nextId, reg, heard, st, lm, lpend, buf, results, deadline, count, ndel, blocked, out>>

Registered(id) == id \in reg
NRes(r) == Cardinality({u \in Uids : r[u] # None})

\* the collector consumes a sequence of payloads until the result map is complete
RECURSIVE Consume(_, _)
Consume(r, q) ==
  IF q = <<>> \/ NRes(r) = NumNodes THEN [r |-> r, rest |-> q]
  ELSE Consume([r EXCEPT ![Head(q).uid] = Head(q)], Tail(q))

Init ==
  /\ nextId = 0
  /\ reg = {}
  /\ heard = [i \in Ids |-> {}]
  /\ st = [i \in Ids |-> "idle"]
  /\ lm = [i \in Ids |-> "never"]
  /\ lpend = [i \in Ids |-> FALSE]
  /\ buf = [i \in Ids |-> <<>>]
  /\ results = [i \in Ids |-> [u \in Uids |-> None]]
  /\ deadline = [i \in Ids |-> FALSE]
  /\ count = [i \in 1..FId |-> [u \in Uids |-> 0]]
  /\ ndel = 0
  /\ blocked = {}
  /\ out = [i \in Ids |-> [res |-> [u \in Uids |-> None], err |-> FALSE, done |-> FALSE]]
  /\ step = [act |-> "Init"]

---------------------------------------------------------------------------
\* Node.Survey up to the invocation of the local handler
Start(m) ==
  /\ nextId < MaxSurveys
  /\ LET id == nextId + 1 IN
     /\ nextId' = id
     /\ reg' = reg \cup {id}                  \* registry[request id] = channel
     /\ st' = [st EXCEPT ![id] = "handler"]
     /\ lm' = [lm EXCEPT ![id] = m]
     /\ lpend' = [lpend EXCEPT ![id] = (m # "never")]
     /\ step' = [act |-> "Start", id |-> id, mode |-> m, cap |-> NumNodes]
  /\ UNCHANGED <<heard, buf, results, deadline, count, ndel, blocked, out>>

\* a send into the response channel by the local callback
\* returns [buf, ok, blocks]
LocalPut(id, b) ==
  IF Len(b) < NumNodes THEN [buf |-> Append(b, Payload(id, Self, 1)), blocks |-> FALSE]
  ELSE [buf |-> b, blocks |-> LocalSend = "blocking"]

\* the handler returns (answering inside it when the mode is "sync"), the collector starts and drains what is
\* already in the channel, the request is published
HandlerDone(id) ==
  /\ id \in Ids /\ st[id] = "handler"
  /\ LET p == IF lm[id] = "sync" THEN LocalPut(id, buf[id]) ELSE [buf |-> buf[id], blocks |-> FALSE] IN
     IF p.blocks
       THEN \* the surveying goroutine itself is stuck in the callback's send: no collector, no request
            /\ st' = [st EXCEPT ![id] = "stuck"]
            /\ UNCHANGED <<buf, results, lpend>>
            /\ step' = [act |-> "HandlerDone", id |-> id, stuck |-> TRUE, exits |-> FALSE]
       ELSE LET c == Consume(results[id], p.buf) IN
            /\ results' = [results EXCEPT ![id] = c.r]
            /\ buf' = [buf EXCEPT ![id] = c.rest]
            /\ lpend' = [lpend EXCEPT ![id] = IF lm[id] = "sync" THEN FALSE ELSE lpend[id]]
            /\ st' = [st EXCEPT ![id] = IF NRes(c.r) = NumNodes THEN "exited" ELSE "collecting"]
            /\ step' = [act |-> "HandlerDone", id |-> id, stuck |-> FALSE, exits |-> NRes(c.r) = NumNodes]
  /\ UNCHANGED <<nextId, reg, heard, lm, deadline, count, ndel, blocked, out>>

\* the environment delivers a survey response to Node.HandleControl -> handleSurveyResponse (never blocks)
Deliver(id, uid) ==
  /\ ndel < MaxDeliver
  /\ id \in 1..FId /\ uid \in Nodes \cup Extra
  /\ DupOK \/ count[id][uid] = 0
  /\ Causal => ~(id \in Ids /\ st[id] = "handler")
  /\ ndel' = ndel + 1
  /\ count' = [count EXCEPT ![id][uid] = @ + 1]
  /\ heard' = IF id \in Ids /\ st[id] = "collecting" THEN [heard EXCEPT ![id] = @ \cup {uid}] ELSE heard
  /\ LET pl == Payload(id, uid, count[id][uid] + 1) IN
     IF ~Registered(id)
       THEN \* no such survey (never issued, not yet issued, or finished): ignored
            /\ UNCHANGED <<st, buf, results>>
            /\ step' = [act |-> "Deliver", id |-> id, uid |-> uid, k |-> pl.k, fate |-> "ignored", exits |-> FALSE]
     ELSE IF st[id] = "collecting"
       THEN \* handed to the channel and consumed by the collector
            LET r == [results[id] EXCEPT ![uid] = pl] IN
            /\ results' = [results EXCEPT ![id] = r]
            /\ st' = [st EXCEPT ![id] = IF NRes(r) = NumNodes THEN "exited" ELSE "collecting"]
            /\ UNCHANGED buf
            /\ step' = [act |-> "Deliver", id |-> id, uid |-> uid, k |-> pl.k, fate |-> "collected", exits |-> NRes(r) = NumNodes]
     ELSE \* registered but nobody reads (handler still running, collector finished, or stuck): buffered or dropped
            /\ buf' = [buf EXCEPT ![id] = IF Len(@) < NumNodes THEN Append(@, pl) ELSE @]
            /\ UNCHANGED <<st, results>>
            /\ step' = [act |-> "Deliver", id |-> id, uid |-> uid, k |-> pl.k,
                        fate |-> IF Len(buf[id]) < NumNodes THEN "buffered" ELSE "dropped", exits |-> FALSE]
  /\ UNCHANGED <<nextId, reg, lm, lpend, deadline, blocked, out>>

\* ctx.Done() fires while the collector waits
Deadline(id) ==
  /\ id \in Ids /\ st[id] = "collecting" /\ ~deadline[id]
  /\ deadline' = [deadline EXCEPT ![id] = TRUE]
  /\ st' = [st EXCEPT ![id] = "exited"]
  /\ step' = [act |-> "Deadline", id |-> id]
  /\ UNCHANGED <<nextId, reg, heard, lm, lpend, buf, results, count, ndel, blocked, out>>

\* wg.Wait() returned, ctx.Err() evaluated; now the deferred registry delete runs and Survey returns
Return(id) ==
  /\ id \in Ids /\ st[id] = "exited"
  /\ st' = [st EXCEPT ![id] = "returned"]
  /\ reg' = reg \ {id}                       \* deferred delete(registry, THIS survey's request id)
  /\ out' = [out EXCEPT ![id] = [res |-> results[id], err |-> deadline[id], done |-> TRUE]]
  /\ step' = [act |-> "Return", id |-> id, res |-> results[id], err |-> deadline[id]]
  /\ UNCHANGED <<nextId, heard, lm, lpend, buf, results, deadline, count, ndel, blocked>>

\* the application calls the local callback later, from its own goroutine ("async" mode)
LocalReply(id) ==
  /\ id \in Ids /\ lm[id] = "async" /\ lpend[id] /\ st[id] \in {"collecting", "exited", "returned"}
  /\ lpend' = [lpend EXCEPT ![id] = FALSE]
  /\ IF st[id] = "collecting"
       THEN LET r == [results[id] EXCEPT ![Self] = Payload(id, Self, 1)] IN
            /\ results' = [results EXCEPT ![id] = r]
            /\ st' = [st EXCEPT ![id] = IF NRes(r) = NumNodes THEN "exited" ELSE "collecting"]
            /\ UNCHANGED <<buf, blocked>>
            /\ step' = [act |-> "LocalReply", id |-> id, fate |-> "collected", exits |-> NRes(r) = NumNodes]
       ELSE LET p == LocalPut(id, buf[id]) IN
            /\ buf' = [buf EXCEPT ![id] = p.buf]
            /\ blocked' = IF p.blocks THEN blocked \cup {id} ELSE blocked
            /\ UNCHANGED <<st, results>>
            /\ step' = [act |-> "LocalReply", id |-> id,
                        fate |-> IF p.blocks THEN "blocks" ELSE IF Len(buf[id]) < NumNodes THEN "buffered" ELSE "dropped",
                        exits |-> FALSE]
  /\ UNCHANGED <<nextId, reg, heard, lm, deadline, count, ndel, out>>

Next ==
  \/ \E m \in LocalModes : Start(m)
  \/ \E id \in Ids : HandlerDone(id) \/ Deadline(id) \/ Return(id) \/ LocalReply(id)
  \/ \E id \in 1..FId, uid \in Nodes \cup Extra : Deliver(id, uid)

Spec == Init /\ [][Next]_vars

---------------------------------------------------------------------------
TypeOK ==
  /\ nextId \in 0..MaxSurveys
  /\ \A i \in Ids : st[i] \in {"idle", "handler", "collecting", "exited", "returned", "stuck"}
  /\ \A i \in Ids : Len(buf[i]) <= NumNodes
  /\ blocked \subseteq Ids

\* C41 (1): at most one entry per responding node (results is a map), every entry was really sent by that node
\* for THIS survey - a foreign, late or duplicated response never shows up in another survey's result
ResultsAreOwnAnswers ==
  \A i \in Ids : \A u \in Uids :
    LET p == results[i][u] IN
    p # None => /\ p.id = i /\ p.uid = u
                /\ p.k >= 1
                /\ (u # Self => p.k <= count[i][u])
                /\ (u = Self => lm[i] # "never" /\ ~lpend[i])
ReturnedIsCollected ==
  \A i \in Ids : out[i].done => /\ \A u \in Uids : out[i].res[u] # None => out[i].res[u].id = i /\ out[i].res[u].uid = u
                                /\ Cardinality({u \in Uids : out[i].res[u] # None}) <= NumNodes

\* per survey: every node whose answer arrived while the survey was waiting (before completion / deadline) is in what
\* the survey returns - whatever other surveys did meanwhile
HeardAreReturned == \A i \in Ids : out[i].done => \A u \in heard[i] : out[i].res[u] # None /\ out[i].res[u].id = i
\* the registry holds exactly the surveys in flight (each survey registers and unregisters ITS OWN id), hence it is
\* empty once every survey has returned
RegistryIsInFlight == reg = {i \in Ids : st[i] \in {"handler", "collecting", "exited", "stuck"}}
RegistryEmptyAfterAll == (\A i \in Ids : st[i] \in {"idle", "returned"}) => reg = {}

\* C41 (2): it keeps waiting only while answers are missing and the deadline has not passed, and it ends for one of
\* the two reasons
WaitsOnlyWhileIncomplete == \A i \in Ids : st[i] = "collecting" => NRes(results[i]) < NumNodes /\ ~deadline[i]
EndsForAReason == \A i \in Ids : st[i] \in {"exited", "returned"} => NRes(results[i]) = NumNodes \/ deadline[i]
ErrIffDeadline == \A i \in Ids : out[i].done => (out[i].err = deadline[i])

\* C41 (3): nothing blocks: neither the surveying goroutine nor a late local callback (handleSurveyResponse is
\* non-blocking by construction of Deliver; on the real node a watchdog checks it)
NoStuckSurvey == \A i \in Ids : st[i] # "stuck"
NoBlockedCallback == blocked = {}

\* witness generators (survey_wit.cfg): "properties" whose counterexamples are the schedules every run must replay
WitLateLocalDrop == [][~(step'.act = "LocalReply" /\ step'.fate = "dropped")]_vars
WitLateRemoteDrop == [][~(step'.act = "Deliver" /\ step'.fate = "dropped")]_vars
\* two overlapping surveys: the older one has returned, then the newer one gets its last answer
WitOverlap == [][~(step'.act = "Deliver" /\ step'.exits /\ \E j \in Ids : j < step'.id /\ st[j] = "returned")]_vars

\* progress within the model: a survey that started can always be brought to its return
CanFinish == \A i \in Ids : st[i] \in {"handler", "collecting", "exited"} => ENABLED (HandlerDone(i) \/ Deadline(i) \/ Return(i))
=============================================================================
