package main

import (
	"encoding/json"
	"fmt"
	"os"
	"strconv"
	"sync"
	"time"

	"github.com/centrifugal/centrifuge"

	"verifharness/vh"
)

// runner replays one behaviour on one channel.
type runner struct {
	b      *centrifuge.MemoryMapBroker
	rec    *recorder
	reg    *registry
	ch     string
	cfg    chanCfg
	ep     *epochs
	base   time.Time
	tick   time.Duration
	manual bool
	res    *vh.Result
	bi     int

	ops    []any
	failed bool
	book   []string // divergences of internal bookkeeping (TTL maps): reported as drift unless a violation follows

	// auto: broadcasts of the silent sweeps the model performed since the last operation
	pending   []bcast
	silentKey bool

	// manual: the gated sweep
	decoys    [2]string // two decoy channels (distinct pubLock indexes), used alternately
	decoyN    int       // the armed decoy key lives in decoys[decoyN%2]
	g         *gate
	held      bool
	sweeping  bool
	done      chan struct{}
	collected []bcast
	inWindow  bool     // between phase 1 and phase 2
	gated     string   // decoy channel the running sweep is parked on
	early     *earlyOp // an operation already executed by the broadcast-order probe (its step comes later)
}

func (r *runner) fail(prop, sig, what string, step any, si int) {
	r.res.Violate(prop, sig, fmt.Sprintf("%s (behaviour %d step %d %s; channel options %+v; real time %.2f ticks)", what, r.bi, si, vh.J(step), r.cfg,
		float64(time.Since(r.base))/float64(r.tick)),
		map[string]any{"channel": r.ch, "cfg": r.cfg, "manual": r.manual, "steps": r.ops})
	r.failed = true
}

func (r *runner) drift(what string, si int) {
	r.res.Drift("", fmt.Sprintf("%s (behaviour %d step %d; channel options %+v)", what, r.bi, si, r.cfg), map[string]any{"steps": r.ops})
	r.failed = true
}

func (r *runner) mid(tickNo int) time.Time {
	return r.base.Add(time.Duration(tickNo)*r.tick + r.tick/2)
}

// late: the operation would not run inside "the middle of tick now" any more -- the behaviour is abandoned
func (r *runner) late(now int) bool {
	return time.Since(r.mid(now)) > r.tick*2/5
}

func (r *runner) snapshot() centrifuge.VerifMapSnapshot { return centrifuge.VerifMapPeek(r.b, r.ch) }

// propOfMismatch for a divergence that only the sweepers can have caused
func (r *runner) sweepProp(m mismatch, real []bcast) string {
	if r.cfg.KTTL > 0 && (m.kind == "state" || m.kind == "deadline" || r.silentKey || len(real) > 0) {
		return "C24"
	}
	return "C20"
}

// ---- manual sweep with the gate between the phases

// The decoy: a key with a 1 ms TTL in a channel of its own. It is the first candidate of the next sweep, and phase 2 of
// that sweep calls the event handler for its removal -- where the harness parks the sweeper (gate between phase 1 and
// the phase 2 of the channel under test). The decoy of the NEXT sweep is published while the current sweep is parked,
// i.e. inside its phase 1 / phase 2 window, into the other decoy channel (the parked sweeper holds the pubLock of the
// current one): a TTL publish between the phases, like the model's own operations. Nothing else re-arms the sweeper,
// so a deadline registered in the window and forgotten by the sweep shows as a sweep that does not even start.
func (r *runner) decoy() string { return r.decoys[r.decoyN%2] }

func (r *runner) publishDecoy() {
	r.decoyN++
	_, _ = r.b.Publish(bg, r.decoy(), "d", centrifuge.MapPublishOptions{Data: []byte("0")})
	r.rec.take(r.decoy())
	time.Sleep(2500 * time.Microsecond) // its 1 ms TTL has passed before the next sweep can start
}

func (r *runner) startSweep(si int) bool {
	r.g = &gate{entered: make(chan struct{}, 1), release: make(chan struct{})}
	cur := r.decoy()
	r.rec.mu.Lock()
	r.rec.gates[cur] = r.g
	r.rec.mu.Unlock()
	r.done = make(chan struct{})
	go func(done chan struct{}) {
		defer close(done)
		defer func() {
			if p := recover(); p != nil {
				r.res.Drift("C24", fmt.Sprintf("expireKeysIteration panicked: %v", p), nil)
			}
		}()
		centrifuge.VerifMapExpireKeysIteration(r.b)
	}(r.done)
	r.sweeping = true
	select {
	case <-r.g.entered:
		r.held = true
		r.gated = cur
		r.publishDecoy() // the next sweep's decoy: a TTL publish inside this sweep's window
		return true
	case <-r.done:
		r.held = false
		d := centrifuge.VerifMapPeek(r.b, cur)
		switch {
		case d.Exists && len(d.State) == 0:
			// the decoy key expired and was removed, but its removal never reached the event handler
			r.fail("C24", "expiry:removal-not-broadcast", "an expired key was removed from the state by the sweep without any call of the event handler (decoy channel)", "ExpirePhase1", si)
		case len(d.State) == 1 && d.State[0].ExpireAt != 0 && d.State[0].ExpireAt < time.Now().UnixMilli()-1:
			r.fail("C24", "expiry:sweep-idle", fmt.Sprintf("a key whose TTL elapsed %d ms ago was not removed by a sweep iteration that ran afterwards: the sweeper is idle or scheduled later than a live deadline "+
				"(the key was published with a TTL while the previous sweep was between phase 1 and the end of phase 2; decoy channel, nextKeyExpireCheck bookkeeping)",
				time.Now().UnixMilli()-d.State[0].ExpireAt), "ExpirePhase1", si)
		default:
			r.drift("the sweep finished without passing the gate (decoy key was not collected)", si)
		}
		return false
	case <-time.After(3 * time.Second):
		r.drift("the sweep did not reach the gate within 3 s", si)
		return false
	}
}

type earlyOp struct {
	si  int
	got updRes
	h   []bcast
}

// orderProbe (C24, premise of C20/C22): per channel the event handler must receive the changes in the order they were applied
// (stream-offset order) -- that holds because the publish lock covers "append + handler call", in Publish / Remove and in
// phase 2 of the key sweep alike. The sweep of this run is going to remove `k` keys and the model's next step is an applied
// Publish / Remove of the same channel: the sweeper is parked INSIDE its HandlePublication call for the k-th removal (the
// handler is ours), the write is started on another goroutine. It has to wait (blocking assumption of the model: writers do
// not run while the sweeper is between its append and the return of the handler call); once the call returns the handler
// must have seen the removal before the later publication. The write's result is kept for its own step.
func (r *runner) orderProbe(beh []map[string]any, si int) (handled bool, ok bool) {
	k, j := 0, si
	for ; j < len(beh); j++ {
		stp := vh.Map(beh[j]["step"])
		if vh.Str(stp["act"]) != "ExpirePhase2" {
			break
		}
		if vh.Bool(stp["removed"]) {
			k++
		}
	}
	if k == 0 || j >= len(beh) {
		return false, true
	}
	op := vh.Map(beh[j]["step"])
	act := vh.Str(op["act"])
	if act != "Publish" && act != "Remove" {
		return false, true
	}
	if mr := vh.Map(op["res"]); vh.Bool(mr["err"]) || vh.Str(mr["sup"]) != "" {
		return false, true
	}
	args := vh.Map(op["args"])
	pk := &park{nth: k, entered: make(chan struct{}, 1), release: make(chan struct{})}
	r.rec.mu.Lock()
	r.rec.parks[r.ch] = pk
	r.rec.mu.Unlock()
	unpark := func() {
		r.rec.mu.Lock()
		delete(r.rec.parks, r.ch)
		r.rec.mu.Unlock()
	}
	if r.held { // open the decoy gate: phase 2 of the channel under test starts
		close(r.g.release)
		r.held = false
	}
	select {
	case <-pk.entered:
	case <-r.done:
		unpark() // fewer removals than the reference: the ordinary comparison of the run reports it
		return false, true
	case <-time.After(3 * time.Second):
		unpark()
		close(pk.release)
		r.drift("broadcast-order probe: the sweep did not reach its removal broadcast within 3 s", si)
		return true, false
	}
	var got updRes
	opDone := make(chan struct{})
	go func() {
		defer close(opDone)
		if act == "Publish" {
			got = doPublish(r.b, r.ch, args, r.ep, r.tick)
		} else {
			got = doRemove(r.b, r.ch, args, r.ep, r.tick)
		}
	}()
	waited := true
	select {
	case <-opDone:
		waited = false
	case <-time.After(40 * time.Millisecond):
	}
	if waited {
		r.res.Count("order_probe_writer_waited_for_the_sweepers_handler_call", 1)
	}
	unpark()
	close(pk.release)
	okAll := true
	select {
	case <-r.done:
	case <-time.After(3 * time.Second):
		r.drift("broadcast-order probe: the sweep did not finish within 3 s after its handler call returned", si)
		okAll = false
	}
	select {
	case <-opDone:
	case <-time.After(3 * time.Second):
		r.drift("broadcast-order probe: the write did not return within 3 s after the sweep finished", si)
		return true, false
	}
	r.sweeping = false
	r.rec.mu.Lock()
	delete(r.rec.gates, r.gated)
	r.rec.mu.Unlock()
	all := r.rec.take(r.ch) // in the order the handler calls RETURNED
	r.res.Count("order_probes", 1)
	// the write's own broadcast; the rest belongs to the sweep
	mine := -1
	for i, x := range all {
		if (act == "Publish" && !x.Rm && x.ID == vh.Int(args["id"])) || (act == "Remove" && x.Rm && x.Key == vh.Str(args["key"]) && got.Err == "" && got.Sup == "") {
			mine = i
		}
	}
	var h []bcast
	for i, x := range all {
		if i == mine {
			h = append(h, x)
		} else {
			r.collected = append(r.collected, x)
		}
	}
	if mine >= 0 {
		w := all[mine]
		for _, x := range r.collected {
			if x.Rm && x.Start < w.Start && w.End < x.End {
				what := fmt.Sprintf("the event handler received the later %s of key %s (offset %d) while the sweep's call for the expiry removal of key %s (offset %d) had not returned: "+
					"subscribers get [publication %d, removal %d] and one that applies events in arrival order ends with a key set that differs from the state; "+
					"the write did not wait for the sweeper's handler call (waited=%v)", act, w.Key, w.Off, x.Key, x.Off, w.Off, x.Off, waited)
				r.fail("C24", "expiry:removal-broadcast-after-later-publication", what, op, si)
				return true, false
			}
		}
	}
	r.early = &earlyOp{si: j, got: got, h: h}
	return true, okAll
}

func (r *runner) finishSweep(si int) bool {
	if !r.sweeping {
		return true
	}
	if r.held {
		close(r.g.release)
		r.held = false
	}
	ok := true
	select {
	case <-r.done:
	case <-time.After(3 * time.Second):
		r.drift("the sweep did not finish within 3 s after the gate was opened", si)
		ok = false
	}
	r.sweeping = false
	r.rec.mu.Lock()
	delete(r.rec.gates, r.gated)
	r.rec.mu.Unlock()
	r.collected = append(r.collected, r.rec.take(r.ch)...)
	return ok
}

// ---- one behaviour

func (r *runner) run(beh []map[string]any) (completed int) {
	defer func() {
		if r.sweeping {
			r.finishSweep(-1)
		}
	}()
	now := 0
	time.Sleep(time.Until(r.mid(0)))
	if r.manual {
		r.publishDecoy()
	}
	for si := 1; si < len(beh); si++ {
		st := beh[si]
		prev := beh[si-1]
		step := vh.Map(st["step"])
		act := vh.Str(step["act"])
		r.ops = append(r.ops, step)
		switch act {
		case "Tick":
			now = vh.Int(step["now"])
			time.Sleep(time.Until(r.mid(now)))
			continue
		case "SweepExpire", "SweepRemove", "SweepIdem":
			continue // performed by the broker's own goroutines; checked before the next operation
		case "ExpirePhase1":
			if !r.manual {
				r.silentKey = true
				continue
			}
			if r.late(now) {
				r.res.Count("skipped_late", 1)
				return 0
			}
			if !r.startSweep(si) {
				return 0
			}
			if r.late(now) { // phase 1 read the clock before the gate was reached
				r.res.Count("skipped_late", 1)
				return 0
			}
			r.inWindow = true
			if vh.Int(step["n"]) == 0 {
				r.inWindow = false
				if !r.finishSweep(si) {
					return 0
				}
				if r.late(now) { // the next decoy key must be in place well before the tick ends
					r.res.Count("skipped_late", 1)
					return 0
				}
				if len(r.collected) > 0 {
					r.fail("C24", "expiry:spurious-removal", fmt.Sprintf("a sweep with no expired key broadcast %s", vh.J(r.collected)), step, si)
					return 0
				}
				if !r.checkSnapshot(st, "C24", "expiry:noop-sweep", step, si) {
					return 0
				}
			}
			continue
		case "ExpirePhase2":
			mb := modelBcast(st["bc"])
			if !r.manual {
				r.silentKey = true
				r.pending = append(r.pending, mb...)
				continue
			}
			if r.inWindow {
				r.inWindow = false
				handled, ok := r.orderProbe(beh, si)
				if !ok {
					return 0
				}
				if !handled && !r.finishSweep(si) {
					return 0
				}
				if r.late(now) {
					r.res.Count("skipped_late", 1)
					return 0
				}
			}
			key := vh.Str(step["key"])
			if len(mb) == 1 {
				if len(r.collected) == 0 {
					r.fail("C24", "expiry:removal-not-broadcast", fmt.Sprintf("expired key %s: no removal reached the event handler, reference %s", key, vh.J(mb)), step, si)
					return 0
				}
				got := r.collected[0]
				r.collected = r.collected[1:]
				if m := sameBcast(mb, []bcast{got}, r.cfg.hasStream()); m != "" {
					r.fail("C24", "expiry:removal-broadcast", "expired key "+key+": "+m, step, si)
					return 0
				}
				r.res.Count("expiry_removals", 1)
			} else {
				r.res.Count("expiry_revalidation_skips", 1)
			}
			if len(vh.List(st["pend"])) == 0 {
				if len(r.collected) > 0 {
					r.fail("C24", "expiry:spurious-removal", fmt.Sprintf("the sweep broadcast %s beyond the reference removals", vh.J(r.collected)), step, si)
					return 0
				}
				// (after a broadcast-order probe the next write has already run: the state is compared at its own step)
				if r.early == nil && !r.checkSnapshot(st, "C24", "expiry:after-sweep", step, si) {
					return 0
				}
			}
			continue
		}
		// ---- an API operation
		if r.late(now) {
			r.res.Count("skipped_late", 1)
			return 0
		}
		if !r.manual {
			// everything the sweepers had to do by now is done: the channel must equal the model's pre-state
			// (a sweeper that is late under load gets 600 ms of slack; the behaviour is then abandoned as late)
			var real []bcast
			for try := 0; ; try++ {
				real = append(real, r.rec.take(r.ch)...)
				if try >= 12 || (len(real) >= len(r.pending) && !hard(compareSnapshot(r.snapshot(), prev, r.cfg, r.ep, r.base, r.tick))) {
					break
				}
				time.Sleep(50 * time.Millisecond)
			}
			if m := sameBcast(r.pending, real, r.cfg.hasStream()); m != "" {
				r.fail("C24", "expiry:broadcasts", "between operations (key expiry sweeps): "+m, step, si)
				return 0
			}
			for _, m := range compareSnapshot(r.snapshot(), prev, r.cfg, r.ep, r.base, r.tick) {
				if m.kind == "book" {
					r.book = append(r.book, fmt.Sprintf("step %d before %s: %s", si, act, m.what))
					continue
				}
				p := r.sweepProp(m, real)
				r.fail(p, "sweep:"+m.kind, "before "+act+" (after the sweepers ran): "+m.what, step, si)
				return 0
			}
			r.pending = nil
			r.silentKey = false
		}
		winProp := func(p string) string {
			if r.inWindow {
				return "C24"
			}
			return p
		}
		args := map[string]any{}
		if a, ok := step["args"]; ok {
			args = vh.Map(a)
		}
		exp := map[string]any{}
		if e, ok := step["res"]; ok {
			exp = vh.Map(e)
		}
		switch act {
		case "Publish", "Remove":
			var got updRes
			var h []bcast
			if r.early != nil && r.early.si == si { // already executed by the broadcast-order probe
				got, h = r.early.got, r.early.h
				r.early = nil
			} else {
				if act == "Publish" {
					got = doPublish(r.b, r.ch, args, r.ep, r.tick)
				} else {
					got = doRemove(r.b, r.ch, args, r.ep, r.tick)
				}
				h = r.rec.take(r.ch)
			}
			if r.late(now) {
				r.res.Count("skipped_late", 1)
				return 0
			}
			lc := "publish"
			if act == "Remove" {
				lc = "remove"
			}
			if (got.Err != "") != vh.Bool(exp["err"]) {
				r.fail(winProp("C20"), lc+":error", fmt.Sprintf("%s returned error %q, reference error=%v", act, got.Err, vh.Bool(exp["err"])), step, si)
				return 0
			}
			if got.Err == "" {
				if got.Sup != vh.Str(exp["sup"]) {
					sig := fmt.Sprintf("%s:suppress:%s!=%s", lc, got.Sup, vh.Str(exp["sup"]))
					what := fmt.Sprintf("%s suppressed=%q, reference %q", act, got.Sup, vh.Str(exp["sup"]))
					if w, ok := step["would"]; ok {
						what += fmt.Sprintf(" (checks that would each suppress: %s; canonical order version, key mode, CAS)", vh.J(w))
					}
					if in19(got.Sup) || in19(vh.Str(exp["sup"])) {
						r.fail("C19", sig, what, step, si) // the map half of C19 is decided here too
					}
					r.fail(winProp("C20"), sig, what, step, si)
					return 0
				}
				if got.Off != vh.Int(exp["off"]) {
					if got.Sup == "idempotency" {
						r.fail("C19", lc+":idempotent-position", fmt.Sprintf("%s suppressed by idempotency returned offset %d, the original result has %d", act, got.Off, vh.Int(exp["off"])), step, si)
					}
					r.fail(winProp("C20"), lc+":offset", fmt.Sprintf("%s returned offset %d, reference %d", act, got.Off, vh.Int(exp["off"])), step, si)
					return 0
				}
				if m := r.ep.check(vh.Int(exp["ep"]), got.Ep); m != "" {
					r.fail(winProp("C20"), lc+":epoch", m, step, si)
					return 0
				}
				me := vh.List(exp["cur"])
				okCur := len(me) == len(got.Cur)
				if okCur && len(me) == 1 {
					c := vh.Map(me[0])
					okCur = vh.Int(c["off"]) == got.Cur[0].Off && vh.Int(c["id"]) == got.Cur[0].ID
				}
				if !okCur {
					r.fail(winProp("C20"), lc+":current-entry", fmt.Sprintf("CurrentEntry %s, reference %s", vh.J(got.Cur), vh.J(me)), step, si)
					return 0
				}
			}
			if m := sameBcast(modelBcast(st["bc"]), h, r.cfg.hasStream()); m != "" {
				sig := lc + ":broadcast"
				if got.Sup != "" || got.Err != "" {
					sig = lc + ":suppressed-broadcast"
				}
				r.fail(winProp("C20"), sig, m, step, si)
				return 0
			}
			if !r.checkSnapshot(st, winProp("C20"), lc+":state", step, si) {
				return 0
			}
			if got.Sup != "" {
				r.res.Count("suppressed:"+got.Sup, 1)
			}
			if w, ok := step["would"]; ok {
				n := 0
				for _, v := range vh.Map(w) {
					if vh.Bool(v) {
						n++
					}
				}
				if n >= 2 {
					r.res.Count("publishes_with_two_or_three_failing_checks", 1)
				}
			}
			if act == "Publish" {
				time.Sleep(1200 * time.Microsecond) // distinct millisecond deadlines, as in the model's `seq`
			}
		case "Clear":
			err := r.b.Clear(bg, r.ch, centrifuge.MapClearOptions{})
			if r.late(now) {
				r.res.Count("skipped_late", 1)
				return 0
			}
			if err != nil {
				r.fail(winProp("C20"), "clear:error", err.Error(), step, si)
				return 0
			}
			if h := r.rec.take(r.ch); len(h) > 0 {
				r.fail(winProp("C20"), "clear:broadcast", "Clear broadcast "+vh.J(h), step, si)
				return 0
			}
			if !r.checkSnapshot(st, winProp("C20"), "clear:state", step, si) {
				return 0
			}
		case "ReadState":
			got := doReadState(r.b, r.ch, args, r.ep, r.cfg.Ord)
			if r.late(now) {
				r.res.Count("skipped_late", 1)
				return 0
			}
			if (got.Err != "") != vh.Bool(exp["err"]) {
				r.fail(winProp("C20"), "readstate:error", fmt.Sprintf("ReadState error %q, reference error=%v", got.Err, vh.Bool(exp["err"])), step, si)
				return 0
			}
			if got.Off != vh.Int(exp["off"]) {
				r.fail(winProp("C20"), "readstate:position", fmt.Sprintf("ReadState position offset %d, reference %d", got.Off, vh.Int(exp["off"])), step, si)
				return 0
			}
			if m := r.ep.check(vh.Int(exp["ep"]), got.Ep); m != "" {
				r.fail(winProp("C20"), "readstate:epoch", m, step, si)
				return 0
			}
			if got.Err == "" {
				single := vh.Str(args["key"]) != ""
				sig := "readstate:page"
				if single {
					sig = "readstate:single-key"
				}
				mp := vh.List(exp["pubs"])
				same := len(mp) == len(got.Pubs)
				for i := 0; same && i < len(mp); i++ {
					m := vh.Map(mp[i])
					g := got.Pubs[i]
					same = vh.Str(m["key"]) == g.Key && vh.Int(m["off"]) == g.Off && vh.Int(m["id"]) == g.ID && scoreOf(vh.Int(m["sc"])) == g.Sc && !g.Rm
				}
				if !same {
					r.fail(winProp("C21"), sig, fmt.Sprintf("ReadState returned %s, reference %s", vh.J(got.Pubs), vh.J(mp)), step, si)
					return 0
				}
				if want := cursorStr(vh.Map(exp["next"]), r.cfg.Ord); want != got.Next {
					r.fail(winProp("C21"), "readstate:cursor", fmt.Sprintf("ReadState returned cursor %q, reference %q", got.Next, want), step, si)
					return 0
				}
				if len(got.Pubs) > 0 {
					r.res.Count("nonempty_state_reads", 1)
				}
			}
			if !r.checkSnapshot(st, winProp("C20"), "readstate:state", step, si) {
				return 0
			}
		case "ReadStream":
			got := doReadStream(r.b, r.ch, args, r.ep)
			if r.late(now) {
				r.res.Count("skipped_late", 1)
				return 0
			}
			if (got.Err != "") != vh.Bool(exp["err"]) {
				r.fail(winProp("C20"), "readstream:error", fmt.Sprintf("ReadStream error %q, reference error=%v", got.Err, vh.Bool(exp["err"])), step, si)
				return 0
			}
			if got.Err == "" {
				if mp := modelEntries(exp["pubs"]); !sameEntries(mp, got.Pubs) {
					r.fail(winProp("C20"), "readstream:pubs", fmt.Sprintf("ReadStream returned %v, reference %v", got.Pubs, mp), step, si)
					return 0
				}
				if got.Off != vh.Int(exp["off"]) {
					r.fail(winProp("C20"), "readstream:position", fmt.Sprintf("ReadStream position offset %d, reference %d", got.Off, vh.Int(exp["off"])), step, si)
					return 0
				}
				if m := r.ep.check(vh.Int(exp["ep"]), got.Ep); m != "" {
					r.fail(winProp("C20"), "readstream:epoch", m, step, si)
					return 0
				}
				if len(got.Pubs) > 0 {
					r.res.Count("nonempty_stream_reads", 1)
				}
			}
			if !r.checkSnapshot(st, winProp("C20"), "readstream:state", step, si) {
				return 0
			}
		default:
			r.drift("unknown action "+act, si)
			return 0
		}
		if r.late(now) {
			r.res.Count("skipped_late", 1)
			return 0
		}
	}
	if len(r.book) > 0 {
		r.drift("internal TTL bookkeeping differs from the model without an observable consequence in this behaviour: "+r.book[0], len(beh)-1)
		return 0
	}
	return 1
}

func (r *runner) checkSnapshot(st map[string]any, prop, sig string, step any, si int) bool {
	for _, m := range compareSnapshot(r.snapshot(), st, r.cfg, r.ep, r.base, r.tick) {
		if m.kind == "book" {
			r.book = append(r.book, fmt.Sprintf("step %d after %s: %s", si, sig, m.what))
			continue
		} else if m.kind == "deadline" {
			r.fail("C24", sig+":deadline", m.what, step, si)
		} else if m.kind == "ordered" {
			r.fail("C21", sig+":ordered", m.what, step, si) // the sort order of the pages hangs on this flag
			r.fail(prop, sig+":ordered", m.what, step, si)
		} else if m.kind == "version" {
			r.fail("C19", sig+":version", m.what, step, si)
			r.fail(prop, sig+":version", m.what, step, si)
		} else {
			r.fail(prop, sig+":"+m.kind, m.what, step, si)
		}
		return false
	}
	return true
}

func in19(sup string) bool { return sup == "idempotency" || sup == "version" }

func hard(ms []mismatch) bool {
	for _, m := range ms {
		if m.kind != "book" {
			return true
		}
	}
	return false
}

func nontrivialKey(ops []any) (string, bool) {
	nt := false
	for _, o := range ops {
		m := vh.Map(o)
		switch vh.Str(m["act"]) {
		case "Publish", "Remove":
			if r := vh.Map(m["res"]); vh.Bool(r["err"]) || vh.Str(r["sup"]) != "" {
				nt = true
			}
		case "ExpirePhase2":
			nt = true
		case "ReadState", "ReadStream":
			if len(vh.List(vh.Map(m["res"])["pubs"])) > 0 {
				nt = true
			}
		}
	}
	return vh.J(ops), nt
}

// ---------------------------------------------------------------- replay (sweeper goroutines running, 1 tick = 1 s)

func replayAuto(in json.RawMessage, res *vh.Result) error {
	var behs [][]map[string]any
	if err := json.Unmarshal(in, &behs); err != nil {
		return err
	}
	reg := &registry{}
	b, rec, closeFn := newBroker(reg, true)
	defer closeFn()
	tick := time.Second
	wave := 350 // behaviours stepped concurrently (they all wake in the middle of the same ticks)
	if v, err := strconv.Atoi(os.Getenv("VERIF_WAVE")); err == nil && v > 0 {
		wave = v // smaller waves on a loaded machine (the check retries with this when too many behaviours ran late)
	}
	for lo := 0; lo < len(behs); lo += wave {
		hi := lo + wave
		if hi > len(behs) {
			hi = len(behs)
		}
		replayWave(b, rec, reg, res, behs[lo:hi], lo, tick)
	}
	return nil
}

func replayWave(b *centrifuge.MemoryMapBroker, rec *recorder, reg *registry, res *vh.Result, behs [][]map[string]any, off int, tick time.Duration) {
	// operations run at tick + 0.5 s; the broker's cleaners (started at registeredAt, period ~1 s) are placed at about
	// tick + 0.75 s: after the operations of the tick in which a deadline falls, well before those of the next tick
	base := registeredAt.Add(250 * time.Millisecond)
	for time.Until(base) < 1200*time.Millisecond {
		base = base.Add(time.Second)
	}
	var wg sync.WaitGroup
	for i, beh := range behs {
		bi := off + i
		wg.Add(1)
		go func(bi int, beh []map[string]any) {
			defer wg.Done()
			cfg := cfgOf(vh.Map(beh[0]["cf"]))
			ch := fmt.Sprintf("rp%d_%d", vh.Seed(), bi)
			reg.set(ch, cfg.options(tick))
			r := &runner{b: b, rec: rec, reg: reg, ch: ch, cfg: cfg, ep: newEpochs(), base: base, tick: tick, res: res, bi: bi}
			completed := r.run(beh)
			if r.failed {
				completed = 0
			}
			if completed == 1 {
				if k, nt := nontrivialKey(r.ops); nt {
					res.Distinct(k)
				}
				res.Count("mode:"+cfg.Mode, 1)
			}
			if bi < 2 {
				res.Sample(r.ops)
			}
			res.Done(1, completed)
		}(bi, beh)
	}
	wg.Wait()
}

// ---------------------------------------------------------------- expiry (no goroutines, manual sweeps, gate between the phases)

func replayManual(in json.RawMessage, res *vh.Result) error {
	var behs [][]map[string]any
	if err := json.Unmarshal(in, &behs); err != nil {
		return err
	}
	tick := 400 * time.Millisecond
	sem := make(chan struct{}, 64)
	var wg sync.WaitGroup
	for bi, beh := range behs {
		wg.Add(1)
		sem <- struct{}{}
		go func(bi int, beh []map[string]any) {
			defer wg.Done()
			defer func() { <-sem }()
			reg := &registry{}
			b, rec, closeFn := newBroker(reg, false)
			defer closeFn()
			cfg := cfgOf(vh.Map(beh[0]["cf"]))
			ch := fmt.Sprintf("ex%d_%d", vh.Seed(), bi)
			reg.set(ch, cfg.options(tick))
			var decoys [2]string
			used := map[int]bool{centrifuge.VerifMapPubLockIndex(ch): true}
			for d, i := 0, 0; d < 2; i++ {
				name := fmt.Sprintf("decoy%d_%d_%d", vh.Seed(), bi, i)
				if ix := centrifuge.VerifMapPubLockIndex(name); !used[ix] {
					used[ix] = true
					decoys[d] = name
					reg.set(name, centrifuge.MapChannelOptions{Mode: centrifuge.MapModeEphemeral, KeyTTL: time.Millisecond})
					d++
				}
			}
			r := &runner{b: b, rec: rec, reg: reg, ch: ch, cfg: cfg, ep: newEpochs(), base: time.Now().Add(5 * time.Millisecond).Add(-tick / 2),
				tick: tick, manual: true, res: res, bi: bi, decoys: decoys}
			completed := r.run(beh)
			if r.failed {
				completed = 0
			}
			if completed == 1 {
				raced := false
				inWin := false
				for _, o := range r.ops {
					m := vh.Map(o)
					switch vh.Str(m["act"]) {
					case "ExpirePhase1":
						inWin = vh.Int(m["n"]) > 0
					case "ExpirePhase2":
						inWin = false
					case "Publish", "Remove", "Clear":
						if inWin {
							raced = true
						}
					}
				}
				if raced {
					res.Count("behaviours_with_writes_between_the_phases", 1)
					res.Distinct(vh.J(r.ops))
				}
			}
			if bi < 2 {
				res.Sample(r.ops)
			}
			res.Done(1, completed)
		}(bi, beh)
	}
	wg.Wait()
	return nil
}
