#!/usr/bin/env python3
"""Runs every registered check (quick tier by default) on /repo as it is and prints one line per check.
usage: lib/runall.py [quick|thorough] [--seed N] [ID ...]"""
import json, os, subprocess, sys, time
ROOT = os.path.dirname(os.path.dirname(os.path.abspath(__file__)))
tier = 'quick'
seed = '1'
ids = []
a = sys.argv[1:]
while a:
    x = a.pop(0)
    if x in ('quick', 'thorough'):
        tier = x
    elif x == '--seed':
        seed = a.pop(0)
    else:
        ids.append(x)
man = json.load(open(os.path.join(ROOT, 'MANIFEST.json')))
bad = 0
for c in man['checks']:
    pid = c['property_id']
    if ids and pid not in ids:
        continue
    cmd = c['quick_cmd'] if tier == 'quick' else c['thorough_cmd']
    t0 = time.time()
    p = subprocess.run(cmd, shell=True, cwd=ROOT, env=dict(os.environ, VERIF_SEED=seed), stdout=subprocess.PIPE, stderr=subprocess.STDOUT, text=True)
    kf = sum(1 for l in p.stdout.splitlines() if l.startswith('KNOWN-FINDING'))
    print('%s exit=%d wall=%ds known=%d' % (pid, p.returncode, time.time() - t0, kf), flush=True)
    if p.returncode != 0:
        bad += 1
        print(p.stdout[-1500:])
sys.exit(1 if bad else 0)
