------------------------------ MODULE Control ------------------------------
(* C27  Server-side operations act the same from any node.

   Node.Subscribe / Unsubscribe / Disconnect / Refresh apply the options on the calling node directly
   (hub.subscribe(..., opts...) etc. receive the caller's option functions) and send a controlpb message to the
   other nodes (node.go pubSubscribe / pubUnsubscribe / pubDisconnect / pubRefresh), which rebuild an option list
   from the message fields (node.go handleControl) and apply that.  This module transcribes

       Proto(op)      the fields of the control.proto message of the operation,
       EncodeMap(op)  which message field pubX fills from which option,
       DecodeMap(op)  which option handleControl rebuilds from which field,

   derives the option set that survives the trip (Remote), and an abstract effect of an option set on the four
   connections the harness creates, transcribed from hub.connShard.* (selection) and Client.Subscribe /
   subscribeCmd, Client.Unsubscribe, Client.Disconnect, Client.Refresh (content).  An option is either absent or
   set to one distinguished non-default value (listed at Opts).

   Property:  Effect(op, X) = Effect(op, Remote(op, X))   for every option set X the call accepts.
   The transcription does NOT satisfy it: Lost(op) below is computed from the maps and the spec STATES what it
   is (ASSUME LostAsStated); TLC checks the statement, and that the remote effect is exactly the local effect of
   the option set minus the lost options (RemoteIsLocalMinusLost), that option sets without lost options agree
   (AgreeUnlessLost).  The harness replays every enumerated row on two real nodes, local and remote, and the
   verdict comes from the real effects only; the rows' `differs` / `culprits` are cross-checked against the real
   attribution (drift if the model predicts a loss the real nodes do not show).

   Connections (harness creates exactly these on node A; node B holds none and is the remote caller):
       T  user "u"  session sT   label tier=pro      the target
       D  user "u"  no session   label tier=free     decoy, same user
       E  user "v"  session sE   label tier=pro      other user
       N  user ""   no session   label tier=pro      anonymous                                                *)
EXTENDS Naturals, FiniteSets, TLC

CONSTANTS Tier     \* "quick" | "thorough": which option sets Init enumerates

Ops == {"subscribe", "unsubscribe", "disconnect", "refresh"}

(* Options per call (options.go).  "AnonUser" is not an option but the userID argument being "" (it decides what
   AllUsers means).  "ServerTagsFilter" has no With... constructor: SubscribeOption is a plain function type over a pointer to SubscribeOptions,
   the field is exported and Client.Subscribe honours it - it is listed as a field-level item (signature
   subscribe:field:ServerTagsFilter) so that the lead can treat it separately from the With... options.
   Distinguished values: Client = id of T, Session = session of T, LabelFilter = {tier eq pro},
   ExpireAt = now + 3600, ChannelInfo = "ci", Data = "sd", RecoveryMode = RecoveryModeCache,
   RecoverSince = {offset 1, epoch of the stream} on a stream with top offset 3 retaining only offset 3,
   Source = 7, HistoryMetaTTL = 77s, ServerTagsFilter = {t eq keep}; Custom unsubscribe = {2600, "custom"};
   Custom disconnect = {4100, "custom"}; Whitelist = [id of D]; refresh Info = "ri".                          *)
Targeting == {"Client", "Session", "LabelFilter", "AllUsers", "AnonUser"}
SubContent == {"ExpireAt", "ChannelInfo", "EmitPresence", "EmitJoinLeave", "PushJoinLeave", "Positioning", "Recovery",
               "RecoveryMode", "Data", "RecoverSince", "AutoCacheRecover", "Source", "HistoryMetaTTL", "ServerTagsFilter"}
RecoveryGroup == {"Positioning", "Recovery", "RecoveryMode", "RecoverSince", "AutoCacheRecover", "HistoryMetaTTL"}
Content(op) == CASE op = "subscribe"   -> SubContent
                 [] op = "unsubscribe" -> {"Custom", "EmptyChannel"}   \* EmptyChannel: the channel argument is "" (= all channels)
                 [] op = "disconnect"  -> {"Custom", "Whitelist"}
                 [] op = "refresh"     -> {"Expired", "ExpireAt", "Info"}
Opts(op) == Targeting \cup Content(op)

---------------------------------------------------------------------------
(* internal/controlpb/control.proto *)
Proto(op) ==
  CASE op = "subscribe"   -> {"user", "channel", "emit_presence", "emit_join_leave", "expire_at", "position", "recover",
                              "channel_info", "client", "data", "recover_since", "session", "push_join_leave", "source",
                              "label_filter", "all_users"}
    [] op = "unsubscribe" -> {"channel", "user", "client", "session", "code", "reason", "label_filter", "all_users"}
    [] op = "disconnect"  -> {"user", "whitelist", "code", "reason", "reconnect", "client", "session", "label_filter", "all_users"}
    [] op = "refresh"     -> {"user", "client", "expired", "expire_at", "info", "session", "label_filter", "all_users"}

(* node.go pubSubscribe / pubUnsubscribe / pubDisconnect / pubRefresh: <<option, field it fills>> *)
TargetEnc == {<<"Client", "client">>, <<"Session", "session">>, <<"LabelFilter", "label_filter">>, <<"AllUsers", "all_users">>}
EncodeMap(op) ==
  TargetEnc \cup
  CASE op = "subscribe"   -> {<<"EmitPresence", "emit_presence">>, <<"EmitJoinLeave", "emit_join_leave">>,
                              <<"PushJoinLeave", "push_join_leave">>, <<"ChannelInfo", "channel_info">>,
                              <<"Positioning", "position">>, <<"Recovery", "recover">>, <<"ExpireAt", "expire_at">>,
                              <<"Data", "data">>, <<"Source", "source">>, <<"RecoverSince", "recover_since">>}
    [] op = "unsubscribe" -> {<<"Custom", "code">>, <<"Custom", "reason">>}
    [] op = "disconnect"  -> {<<"Custom", "code">>, <<"Custom", "reason">>, <<"Whitelist", "whitelist">>}
    [] op = "refresh"     -> {<<"Expired", "expired">>, <<"ExpireAt", "expire_at">>, <<"Info", "info">>}

(* node.go handleControl: <<field, option rebuilt from it>>.  An option built from two fields (Custom) needs both. *)
TargetDec == {<<"client", "Client">>, <<"session", "Session">>, <<"label_filter", "LabelFilter">>, <<"all_users", "AllUsers">>}
DecodeMap(op) ==
  TargetDec \cup
  CASE op = "subscribe"   -> {<<"expire_at", "ExpireAt">>, <<"channel_info", "ChannelInfo">>, <<"emit_presence", "EmitPresence">>,
                              <<"emit_join_leave", "EmitJoinLeave">>, <<"push_join_leave", "PushJoinLeave">>,
                              <<"position", "Positioning">>, <<"recover", "Recovery">>, <<"data", "Data">>,
                              <<"recover_since", "RecoverSince">>, <<"source", "Source">>}
    [] op = "unsubscribe" -> {<<"code", "Custom">>, <<"reason", "Custom">>}
    [] op = "disconnect"  -> {<<"code", "Custom">>, <<"reason", "Custom">>, <<"whitelist", "Whitelist">>}
    [] op = "refresh"     -> {<<"expired", "Expired">>, <<"expire_at", "ExpireAt">>, <<"info", "Info">>}

\* zero-arity constant tables (TLC evaluates them once)
ProtoT == [o \in Ops |-> Proto(o)]
EncT   == [o \in Ops |-> EncodeMap(o)]
DecT   == [o \in Ops |-> DecodeMap(o)]
OptsT  == [o \in Ops |-> Opts(o)]

\* the non-default fields of the message built from option set X (user and channel are always carried as given;
\* unsubscribe / disconnect always carry code and reason, the default ones when Custom is absent)
Wire(op, X) == {f \in ProtoT[op] : \E o \in X : <<o, f>> \in EncT[op]}
\* the options the receiving node applies
Remote(op, X) ==
  LET W == Wire(op, X) IN
  (X \cap {"AnonUser", "EmptyChannel"}) \cup       \* user and channel travel as given
  {o \in OptsT[op] : /\ \E f \in W : <<f, o>> \in DecT[op]
                     /\ \A f \in ProtoT[op] : <<f, o>> \in DecT[op] => f \in W}

LostT == [o \in Ops |-> {c \in Opts(o) \ {"AnonUser", "EmptyChannel"} : c \notin Remote(o, {c})}]
Lost(op) == LostT[op]

---------------------------------------------------------------------------
(* hub.connShard.subscribe / unsubscribe / refresh / disconnect (+ ...AcrossUsers): which connections are touched *)
Conns == {"T", "D", "E", "N"}
UserOf(c)  == CASE c = "T" -> "u" [] c = "D" -> "u" [] c = "E" -> "v" [] OTHER -> ""
ProLabel(c) == c # "D"
Touched(op, X) ==
  {c \in Conns :
     /\ IF "AnonUser" \in X THEN ("AllUsers" \in X \/ UserOf(c) = "") ELSE UserOf(c) = "u"
     /\ "Client" \in X => c = "T"
     /\ "Session" \in X => c = "T"
     /\ "LabelFilter" \in X => ProLabel(c)
     /\ (op = "disconnect" /\ "Whitelist" \in X) => c # "D"}

(* Client.Subscribe -> subscribeCmd (server side): what the subscription of a touched connection looks like.
   hist: the Broker.History call made while subscribing; offset: the offset written into the subscribe push. *)
RecAttempt(X) == "Recovery" \in X /\ ("RecoverSince" \in X \/ ("AutoCacheRecover" \in X /\ "RecoveryMode" \in X))
HistCall(X) ==
  IF ~("Positioning" \in X \/ "Recovery" \in X) THEN "none"
  ELSE IF RecAttempt(X) THEN (IF "RecoveryMode" \in X THEN "cache" ELSE "stream")
  ELSE "top"
Offset(X) ==
  CASE HistCall(X) = "none"   -> "zero"
    [] HistCall(X) = "top"    -> "top"
    [] HistCall(X) = "stream" -> "top"                  \* offset 2 is gone from history: not recovered, push carries the top
    [] HistCall(X) = "cache"  -> "top"                  \* recovered: the push cannot carry publications, it announces the position
                                                        \* the subscription continues from (/repo fix 255a1d9b; before: the requested offset)
B(b) == IF b THEN "y" ELSE "n"
PerConn(op, X) ==
  CASE op = "subscribe" ->
         [expire      |-> B("ExpireAt" \in X),
          info        |-> B("ChannelInfo" \in X),
          presence    |-> B("EmitPresence" \in X),
          joinleave   |-> B("EmitJoinLeave" \in X),
          pushjl      |-> B("PushJoinLeave" \in X),
          positioned  |-> B("Positioning" \in X \/ "Recovery" \in X),
          recoverable |-> B("Recovery" \in X),
          data        |-> B("Data" \in X),
          source      |-> B("Source" \in X),
          meta        |-> B("HistoryMetaTTL" \in X),
          histmeta    |-> B(HistCall(X) # "none" /\ "HistoryMetaTTL" \in X),
          hist        |-> HistCall(X),
          offset      |-> Offset(X),
          stf         |-> B("ServerTagsFilter" \in X)]
    \* the harness subscribes every connection to the channel and to a second one: rest = what became of the second
    [] op = "unsubscribe" -> [custom |-> B("Custom" \in X), rest |-> IF "EmptyChannel" \in X THEN "gone" ELSE "kept"]
    [] op = "disconnect"  -> [custom |-> B("Custom" \in X)]
    [] op = "refresh" ->
         \* Client.Refresh: Expired closes the connection; otherwise a refresh push; Info is taken only with ExpireAt
         [kind    |-> IF "Expired" \in X THEN "expired" ELSE "push",
          expires |-> B("Expired" \notin X /\ "ExpireAt" \in X),
          info    |-> B("Expired" \notin X /\ "ExpireAt" \in X /\ "Info" \in X)]

\* the effect: which connections are touched and what each of them observes (all values are strings; "-" when no
\* connection is touched and nothing can be observed)
Effect(op, X) ==
  LET t == Touched(op, X)
      p == PerConn(op, X)
  IN [touched |-> t, per |-> [k \in DOMAIN p |-> IF t = {} THEN "-" ELSE p[k]]]

---------------------------------------------------------------------------
(* Which option sets are enumerated.  quick: pairwise-complete (all sets with at most two options, all sets lacking
   at most two options) plus every subset of the interacting recovery options; thorough additionally every subset of
   the recovery options together with three representative independent ones, and every targeting set of at most two
   options combined with the pairwise-complete content sets and the recovery subsets; the three small calls are
   always enumerated in full.                                                                                   *)
AtMost2(U)   == {{}} \cup {{a, b} : a \in U, b \in U}
SmallSets(U) == AtMost2(U) \cup {U \ S : S \in AtMost2(U)}
Combos(op) ==
  IF op # "subscribe" THEN SUBSET Opts(op)
  ELSE SmallSets(Opts(op)) \cup (SUBSET RecoveryGroup) \cup
       (IF Tier = "thorough"
          THEN (SUBSET (RecoveryGroup \cup {"ServerTagsFilter", "EmitPresence", "ChannelInfo"})) \cup
               {t \cup k : t \in AtMost2(Targeting), k \in SmallSets(SubContent) \cup (SUBSET RecoveryGroup)}
          ELSE {})

VARIABLES op, x, wire, remote, local, reff, differs, culprits
vars == <<op, x, wire, remote, local, reff, differs, culprits>>

\* the attribution rule the harness applies to the REAL effects, here applied to the model's: an option of X is a
\* culprit if removing it alone on the local side moves the effect towards the remote one: every component then has
\* either its local or its remote value, and at least one differing component takes the remote value
Culprits(o, X) ==
  LET L == Effect(o, X)
      R == Effect(o, Remote(o, X))
  IN {c \in X :
        LET E == Effect(o, X \ {c}) IN
        /\ E.touched \in {L.touched, R.touched}
        /\ \A k \in DOMAIN L.per : E.per[k] \in {L.per[k], R.per[k]}
        /\ \/ L.touched # R.touched /\ E.touched = R.touched
           \/ \E k \in DOMAIN L.per : L.per[k] # R.per[k] /\ E.per[k] = R.per[k]}

Init ==
  /\ op \in Ops
  /\ x \in Combos(op)
  /\ wire = Wire(op, x)
  /\ remote = Remote(op, x)
  /\ local = Effect(op, x)
  /\ reff = Effect(op, remote)
  /\ differs = (local # reff)
  /\ culprits = IF local = reff THEN {} ELSE Culprits(op, x)
Next == UNCHANGED vars
Spec == Init /\ [][Next]_vars

---------------------------------------------------------------------------
\* what the spec states about the projection (checked by TLC against the maps above)
ASSUME LostAsStated ==
  /\ Lost("subscribe") = {"RecoveryMode", "AutoCacheRecover", "HistoryMetaTTL", "ServerTagsFilter"}
  /\ Lost("unsubscribe") = {} /\ Lost("disconnect") = {} /\ Lost("refresh") = {}
\* every field the code fills exists in the .proto, and every field it reads too
ASSUME MapsWellFormed ==
  \A o \in Ops : /\ \A p \in EncodeMap(o) : p[1] \in Opts(o) /\ p[2] \in Proto(o)
                 /\ \A p \in DecodeMap(o) : p[1] \in Proto(o) /\ p[2] \in Opts(o)

RemoteIsLocalMinusLost == remote = x \ Lost(op)
AgreeUnlessLost == (x \cap Lost(op) = {}) => ~differs
CulpritsAreLost == culprits \subseteq (x \cap Lost(op)) /\ (differs => culprits # {})
=============================================================================
