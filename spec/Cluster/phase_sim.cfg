SPECIFICATION Spec
CONSTANTS
  Chans = {"a", "b"}
  MaxInProg = 2
  Phases = {"cb", "csbr", "ssbr"}
  CustomArgs = {FALSE, TRUE}
  Free <- FreeAll
CHECK_DEADLOCK FALSE
