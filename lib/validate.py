"""Validates MANIFEST.json and evidence/*.json against the schemas (uses the tooling venv's jsonschema)."""
import json, sys, glob
import jsonschema
ok = True
def v(path, schema):
    global ok
    try:
        jsonschema.validate(json.load(open(path)), json.load(open(schema)))
    except Exception as e:
        ok = False
        print('INVALID', path, str(e)[:300])
v('/verif/MANIFEST.json', '/root/.vp/MANIFEST.schema.json')
import os
for c in json.load(open('/verif/MANIFEST.json'))['checks']:
    f = '/verif/' + c['evidence_file']
    if os.path.exists(f):
        v(f, '/root/.vp/EVIDENCE.schema.json')
    else:
        ok = False; print('MISSING', f)
print('all valid' if ok else 'FAILED')
sys.exit(0 if ok else 1)
