SPECIFICATION Spec
CONSTANTS
  Clients = {1, 2}
  MaxFails = 2
  MaxOps = 5
  RollbackOnFail = TRUE
INVARIANTS TypeOK C26M
PROPERTIES Delivered
CHECK_DEADLOCK FALSE
