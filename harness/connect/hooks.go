package main

import (
	"sync"
	"sync/atomic"
	"time"

	"github.com/centrifugal/centrifuge"
)

// The end of a presence tick is not observable through the public API, and a tick fired while the previous tick's
// goroutine is still finishing is skipped by the code. The repo's `verif` build tag offers a gate call at the end
// of updatePresence ("tick:done"); the harness only COUNTS it (nothing is parked there) to know when the next
// tick may be fired.
var tickDone sync.Map // client id -> *atomic.Int64

func init() {
	centrifuge.VerifSetGate(func(point, id, _ string) {
		if point == "tick:done" {
			v, _ := tickDone.LoadOrStore(id, new(atomic.Int64))
			v.(*atomic.Int64).Add(1)
		}
	})
}

func ticksDone(id string) int64 {
	if v, ok := tickDone.Load(id); ok {
		return v.(*atomic.Int64).Load()
	}
	return 0
}

// waitTickDone waits until a presence tick of the client finished after the count `after` was read.
func waitTickDone(id string, after int64, d time.Duration) bool {
	for deadline := time.Now().Add(d); time.Now().Before(deadline); time.Sleep(100 * time.Microsecond) {
		if ticksDone(id) > after {
			time.Sleep(300 * time.Microsecond) // the in-flight flag is cleared right after the gate call
			return true
		}
	}
	return false
}
