SPECIFICATION Spec
CONSTANTS
  NK = 2
  MaxOps = 2
  MaxLag = 1
  MaxResub = 1
  LiveLimit = 3
  Modes = {"eph"}
  Kinds = {"fresh"}
  Pages = {1, 2}
  SSizes = {1}
  Filts = {"none"}
  Ops = {"pub", "rem", "exp"}
  MaxJumps = 0
  EpochCheck = TRUE
  Pres = {2}
  N0s = {0}
  Contig = FALSE
  DropStale = FALSE
VIEW View
INVARIANTS TypeOK C22
PROPERTIES C22R C16M
CHECK_DEADLOCK FALSE
