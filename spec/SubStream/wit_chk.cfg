SPECIFICATION Spec
CONSTANTS
  MaxPub = 2
  HistSize = 2
  MaxFaults = 1
  Kinds = {"pos"}
  UrgentAsync = TRUE
  RecLimit = 0
  MaxChecks = 1
  Servers = {FALSE}
CHECK_DEADLOCK FALSE
