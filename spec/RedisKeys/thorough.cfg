SPECIFICATION Spec
CONSTANTS
  ChanChars = {"{", "}", ".", "a", ":"}
  MaxChan = 4
  Modes = {"plain", "cluster", "sharded", "precomp"}
INVARIANTS Classified Tight
CHECK_DEADLOCK FALSE
