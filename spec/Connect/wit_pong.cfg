SPECIFICATION Spec
CONSTANTS
  MaxCmds = 3
  MaxAsync = 0
  MaxFires = 2
  MaxEnv = 0
  UrgentClose = TRUE
  AfterClose = FALSE
  WithHist = FALSE
  Reduced = FALSE
  CfgSet <- CfgMain
  GenericKinds = {"rpc"}
INVARIANTS WitPongAfterCheck
CHECK_DEADLOCK FALSE
