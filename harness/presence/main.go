// C06 (statistics clause): replays spec/Presence behaviours on the real MemoryPresenceManager.
package main

import (
	"encoding/json"
	"fmt"

	"github.com/centrifugal/centrifuge"

	"verifharness/vh"
)

func replay(in json.RawMessage, res *vh.Result) error {
	var behs [][]map[string]any
	if err := json.Unmarshal(in, &behs); err != nil {
		return err
	}
	node, err := centrifuge.New(centrifuge.Config{LogLevel: centrifuge.LogLevelNone})
	if err != nil {
		return err
	}
	for bi, beh := range behs {
		pm, err := centrifuge.NewMemoryPresenceManager(node, centrifuge.MemoryPresenceManagerConfig{})
		if err != nil {
			return err
		}
		var steps []any
		ok := 1
		reads := 0
		for _, st := range beh[1:] {
			step := vh.Map(st["step"])
			steps = append(steps, step)
			ch := fmt.Sprintf("b%d_%s", bi, vh.Str(step["ch"]))
			switch vh.Str(step["act"]) {
			case "Add":
				_ = pm.AddPresence(ch, vh.Str(step["cl"]), &centrifuge.ClientInfo{ClientID: vh.Str(step["cl"]), UserID: vh.Str(step["u"])})
			case "Remove":
				_ = pm.RemovePresence(ch, vh.Str(step["cl"]), "")
			case "Read":
				reads++
				stats, err := pm.PresenceStats(ch)
				if err != nil {
					res.Drift("C06", err.Error(), steps)
					ok = 0
					break
				}
				want := vh.Map(step["stats"])
				members := vh.Map(step["members"])
				if stats.NumClients != vh.Int(want["clients"]) || stats.NumUsers != vh.Int(want["users"]) {
					res.Violate("C06", fmt.Sprintf("stats:clients=%d/%d,users=%d/%d", stats.NumClients, vh.Int(want["clients"]), stats.NumUsers, vh.Int(want["users"])),
						fmt.Sprintf("presence stats (clients %d, users %d) for a presence set with %d distinct clients and %d distinct users: %s", stats.NumClients, stats.NumUsers, vh.Int(want["clients"]), vh.Int(want["users"]), vh.J(members)), steps)
					ok = 0
				}
				got, _ := pm.Presence(ch)
				if len(got) != len(members) {
					res.Violate("C06", "presence-set-size", fmt.Sprintf("presence returns %d entries, reference %s", len(got), vh.J(members)), steps)
					ok = 0
				}
				for cl, u := range members {
					if info, okk := got[cl]; !okk || info.UserID != vh.Str(u) {
						res.Violate("C06", "presence-set-member", fmt.Sprintf("presence lacks %s/%s: %v", cl, vh.Str(u), got), steps)
						ok = 0
					}
				}
			}
			if ok == 0 {
				break
			}
		}
		if ok == 1 && reads > 0 {
			res.Distinct(vh.J(steps))
		}
		if bi < 2 {
			res.Sample(steps)
		}
		res.Done(1, ok)
	}
	return nil
}

func main() { vh.Main(map[string]vh.Mode{"replay": replay}) }
