SPECIFICATION Spec
CONSTANTS
  Subs = {"p1", "p2"}
  OptSets <- OptSharedOnly
  MaxPub = 1
  MaxFaults = 1
  MaxTicks = 3
  MaxResub = 0
  QMax = 1
  Timed = TRUE
  CheckDelay = 40
  Advances = {12, 50}
  MaxNow = 100
  Urgent = FALSE
VIEW View
INVARIANTS TypeOK InOrder GapFree Bracketed NoSilentLoss
PROPERTIES TickOneExact StampMoves
CHECK_DEADLOCK FALSE
