----------------------------- MODULE TrackClose -----------------------------
(* C05 on the shared-poll track path: one connection, one keyed subscription,
   one key.  The track command (client_keyed.go handleTrack) as the steps the
   code takes, interleaved with close / unsubscribe (+ resubscribe) of the same
   connection:

     TVal     handleSubRefresh / handleTrack head: the channel must be a live
              keyed subscription; its generation is captured; OnTrack handler
              is invoked (application callback, may answer later)          gate "ontrack"
     TEnter   the callback body starts
     TOpts    Config.SharedPoll.GetSharedPollChannelOptions (application
              callback) + keyedManager.getOrCreateChannel                  gate "options"
     TMgr     SharedPollManager.trackKeys: itemIndex entry + pendingHubJoin
     TCommit  under c.mu: generation re-check, per-connection key state
     TReply   reply written, handleCommandFinished -> OnCommandProcessed    gate "processed"
     TJoin    keyedManager.addSubscribers + release of the reservation

     CloseA   close(): status closed, the channel leaves c.channels
     CloseB   ... cleanupKeyed: key state, keyed hub membership, untrack
     (Unsub = the same for a client unsubscribe; Resub = a fresh keyed
      subscription of the channel with a new generation)

   Switches: RecheckAtCommit (as coded: TRUE; FALSE = the check hoisted to the
   top of the callback, check-then-act), RecheckAtJoin (reference: TRUE = the
   hub join re-validates the subscription; as coded: FALSE).

   C05 here: once the connection's end has completed and no track step is in
   flight, nothing of it survives: no tracked key, no keyed-hub membership, no
   polled key.                                                              *)
EXTENDS Integers, TLC

CONSTANTS RecheckAtCommit, RecheckAtJoin, AllowResub,
          Replay   \* TRUE: steps without a gate in between run together (TOpts..TCommit, CloseA..CloseB)

VARIABLES sub, gen, closed, keys, kgen, hub, entry, pend, tr, cl, step
vars == <<sub, gen, closed, keys, kgen, hub, entry, pend, tr, cl, step>>

Init ==
  /\ sub = TRUE /\ gen = 1 /\ closed = FALSE      \* a live keyed subscription, generation 1
  /\ keys = FALSE /\ kgen = 0 /\ hub = FALSE /\ entry = FALSE /\ pend = 0
  /\ tr = [pc |-> "idle", gen |-> 0, res |-> "none"]
  /\ cl = [pc |-> "idle", kind |-> "none", n |-> 0]
  /\ step = [act |-> "Init"]

Live(g) == sub /\ gen = g
\* untrack-style cleanup of the manager entry
Entry(h, p) == IF ~h /\ p = 0 THEN FALSE ELSE entry

TVal ==
  /\ tr.pc = "idle" /\ sub /\ ~closed
  /\ tr' = [pc |-> "cb", gen |-> gen, res |-> "none"]
  /\ UNCHANGED <<sub, gen, closed, keys, kgen, hub, entry, pend, cl>>
  /\ step' = [act |-> "TVal"]

TEnter ==
  /\ tr.pc = "cb"
  /\ IF ~RecheckAtCommit /\ ~Live(tr.gen)
       THEN tr' = [tr EXCEPT !.pc = "done", !.res = "denied"]
       ELSE tr' = [tr EXCEPT !.pc = "opts"]
  /\ UNCHANGED <<sub, gen, closed, keys, kgen, hub, entry, pend, cl>>
  /\ step' = [act |-> "TEnter"]

TOpts ==
  /\ tr.pc = "opts"
  /\ tr' = [tr EXCEPT !.pc = "mgr"]
  /\ UNCHANGED <<sub, gen, closed, keys, kgen, hub, entry, pend, cl>>
  /\ step' = [act |-> "TOpts"]

TMgr ==
  /\ tr.pc = "mgr"
  /\ entry' = TRUE /\ pend' = pend + 1
  /\ tr' = [tr EXCEPT !.pc = "commit"]
  /\ UNCHANGED <<sub, gen, closed, keys, kgen, hub, cl>>
  /\ step' = [act |-> "TMgr"]

TCommit ==
  /\ tr.pc = "commit"
  /\ IF RecheckAtCommit /\ ~Live(tr.gen)
       THEN /\ pend' = pend - 1 /\ entry' = (hub \/ pend - 1 > 0)
            /\ tr' = [tr EXCEPT !.pc = "done", !.res = "denied"]
            /\ UNCHANGED <<keys, kgen>>
       ELSE /\ keys' = TRUE /\ kgen' = tr.gen /\ tr' = [tr EXCEPT !.pc = "reply"] /\ UNCHANGED <<pend, entry>>
  /\ UNCHANGED <<sub, gen, closed, hub, cl>>
  /\ step' = [act |-> "TCommit"]

TReply ==
  /\ tr.pc = "reply"
  /\ tr' = [tr EXCEPT !.pc = "join"]
  /\ UNCHANGED <<sub, gen, closed, keys, kgen, hub, entry, pend, cl>>
  /\ step' = [act |-> "TReply"]

TJoin ==
  /\ tr.pc = "join"
  /\ IF RecheckAtJoin /\ ~(Live(tr.gen) /\ keys)
       THEN /\ pend' = pend - 1 /\ entry' = (hub \/ pend - 1 > 0) /\ UNCHANGED hub
            /\ tr' = [tr EXCEPT !.pc = "done", !.res = "denied"]
       ELSE /\ hub' = TRUE /\ pend' = pend - 1 /\ UNCHANGED entry
            /\ tr' = [tr EXCEPT !.pc = "done", !.res = "ok"]
  /\ UNCHANGED <<sub, gen, closed, keys, kgen, cl>>
  /\ step' = [act |-> "TJoin"]

\* end of the subscription: kind = "close" (connection closes) or "unsub" (client unsubscribes)
EndA(kind) ==
  /\ cl.pc = "idle" /\ sub /\ ~closed /\ cl.n < 2
  /\ sub' = FALSE /\ closed' = (kind = "close")
  /\ cl' = [pc |-> "b", kind |-> kind, n |-> cl.n + 1]
  /\ UNCHANGED <<gen, keys, kgen, hub, entry, pend, tr>>
  /\ step' = [act |-> "EndA", kind |-> kind]

EndB ==                                        \* cleanupKeyed under c.mu
  /\ cl.pc = "b"
  /\ keys' = FALSE /\ kgen' = 0 /\ hub' = FALSE
  /\ entry' = IF keys /\ hub /\ pend = 0 THEN FALSE ELSE IF hub /\ pend = 0 THEN FALSE ELSE entry
  /\ cl' = [cl EXCEPT !.pc = "idle"]
  /\ UNCHANGED <<sub, gen, closed, pend, tr>>
  /\ step' = [act |-> "EndB"]

Resub ==
  /\ AllowResub /\ cl.pc = "idle" /\ ~sub /\ ~closed
  /\ sub' = TRUE /\ gen' = gen + 1
  /\ UNCHANGED <<closed, keys, kgen, hub, entry, pend, tr, cl>>
  /\ step' = [act |-> "Resub"]

Next ==
  IF Replay /\ tr.pc \in {"mgr", "commit"} THEN TMgr \/ TCommit
  ELSE IF Replay /\ cl.pc = "b" THEN EndB
  ELSE TVal \/ TEnter \/ TOpts \/ TMgr \/ TCommit \/ TReply \/ TJoin
       \/ EndA("close") \/ EndA("unsub") \/ EndB \/ Resub

Spec == Init /\ [][Next]_vars

\* nothing of an ended subscription survives once every thread is at rest
Quiet == tr.pc \in {"idle", "done"} /\ cl.pc = "idle"
C05_Keyed == (Quiet /\ ~sub) => (~keys /\ ~hub /\ ~entry)
\* a live subscription of another generation never inherits the keys of a track issued on an older one
C05_Gen == (Quiet /\ sub /\ (keys \/ hub)) => kgen = gen
TypeOK == pend >= 0

View == <<sub, gen, closed, keys, kgen, hub, entry, pend, tr, cl>>
=============================================================================
