//go:build verif

package centrifuge

// Overlay-injected by /verif (family wswriter, C30/C31); never committed to /repo.
// Re-exports of internal/websocket and of the unexported websocket transport for the harness module.

import (
	"net"

	"github.com/centrifugal/centrifuge/internal/websocket"
)

type (
	VerifWsConn            = websocket.Conn
	VerifWsUpgrader        = websocket.Upgrader
	VerifWsPreparedMessage = websocket.PreparedMessage
	VerifWsCloseError      = websocket.CloseError
	VerifWsBufferPool      = websocket.BufferPool
)

func VerifWsNewConn(nc net.Conn, isServer bool, readBufferSize, writeBufferSize int, pool websocket.BufferPool, compression bool) *websocket.Conn {
	return websocket.VerifNewConn(nc, isServer, readBufferSize, writeBufferSize, pool, compression)
}

func VerifWsNewPreparedMessage(messageType int, data []byte) (*websocket.PreparedMessage, error) {
	return websocket.NewPreparedMessage(messageType, data)
}

func VerifWsIsValidReceivedCloseCode(code int) bool {
	return websocket.VerifIsValidReceivedCloseCode(code)
}

func VerifWsFormatCloseMessage(code int, text string) []byte {
	return websocket.FormatCloseMessage(code, text)
}

// VerifWsTransportClose runs the real websocketTransport.Close(disconnect) on a transport built by the
// real constructor around conn. graceCh is passed closed so that Close does not wait the 5 s closing
// handshake grace period (the wait is not part of the property).
func VerifWsTransportClose(conn *websocket.Conn, d Disconnect) error {
	graceCh := make(chan struct{})
	close(graceCh)
	t := newWebsocketTransport(conn, websocketTransportOptions{protoType: ProtocolTypeJSON, protoMajor: 1}, graceCh, false)
	return t.Close(d)
}
