------------------------------ MODULE Connect ------------------------------
(* C09  Commands are gated by authentication and answered exactly once.

   The command layer of client.go for ONE connection: HandleCommand ->
   dispatchCommand (closed / unusable / authenticated gate, the pong rule with
   the lastPing sign trick, the request-field chain), the per-command handlers
   (handleConnect .. handleSubRefresh) with the application callback either
   answering inside the handler (sync ok / error / disconnect) or later
   (async: HandlerComplete is a separate action, so TLC enumerates completion
   orders), writeEncodedCommandReply / writeDisconnectOrErrorFlush, the single
   multiplexed timer as far as the command layer depends on it (stale, ping,
   pong check), Client.Disconnect, the transport's close function and close()
   itself.  close() is always spawned (`go c.close(d)`); `closing` holds the
   spawned, not yet executed calls.  UrgentClose = TRUE makes a spawned close
   run before anything else (replay configurations: the goroutine cannot be
   parked without a hook); FALSE lets it be delayed arbitrarily (design check).

   `out` = what the transport received (replies, pings, pushes, the close with
   its code), `cb` = application handler invocations, `cmds` = what the client
   sent (and how much of `out` it had seen by then).  The C09 monitors are
   formulas over these three only; the Go harness evaluates the same formulas
   on the real frames / handler log.

   The connect handshake and close() are single steps here; their inner
   interleavings belong to ConnLife.tla (C08, C11).                          *)
EXTENDS Naturals, Sequences, FiniteSets, TLC

CONSTANTS
  MaxCmds,      \* commands per behaviour
  MaxAsync,     \* outstanding asynchronous handler callbacks
  MaxFires,     \* timer firings
  MaxEnv,       \* Client.Disconnect / transport close actions
  UrgentClose,
  AfterClose,   \* TRUE: commands may still arrive on a closed connection
  WithHist,     \* TRUE: keep the whole step history in the state (dump runs: one state per path)
  CfgSet,       \* environment configurations offered by Init
  Reduced,      \* TRUE: secondary configurations get the part of the alphabet they are about (dump runs)
  GenericKinds  \* which of the state-less handler commands {"publish","presence","presence_stats","history","rpc"} are offered

BadRequest   == 3501     Stale      == 3502     NoPong       == 3012
Expired      == 3005     NotAvail   == 3508     ForceNoRec   == 3503
ConnClosed   == 3000     HandlerDisc == 4242
EAlready     == 105      EPermission == 103     EBadRequest  == 107
ENotAvail    == 108      HandlerErr  == 477     EUnauth      == 101
EExpired     == 110      ServerError == 3004
UnsubClient  == 0        UnsubDisc   == 1       UnsubInvalidated == 2502

\* csr: ClientSideRefresh for the connection and its subscriptions; handlers: the application registered
\* command handlers; pong: the transport has a pong timeout; mapsub: subscriptions are map subscriptions
\* with a server tags filter (only there sub_refresh may change the filter)
\* strict: the reader stops feeding commands once HandleCommand returned false (WebSocket handler); the emulation
\* endpoint keeps feeding whatever arrives
Cfg(c, h, p, m, s) == [csr |-> c, handlers |-> h, pong |-> p, mapsub |-> m, strict |-> s]
CfgAll   == {Cfg(c, h, p, m, s) : c \in BOOLEAN, h \in BOOLEAN, p \in BOOLEAN, m \in BOOLEAN, s \in BOOLEAN}
CfgMain  == {Cfg(TRUE, TRUE, TRUE, FALSE, TRUE)}
CfgLoose == {Cfg(TRUE, TRUE, TRUE, FALSE, FALSE)}
CfgMap   == {Cfg(TRUE, TRUE, TRUE, TRUE, TRUE)}
CfgOther == {Cfg(FALSE, TRUE, FALSE, FALSE, TRUE), Cfg(TRUE, FALSE, TRUE, FALSE, TRUE), Cfg(FALSE, FALSE, FALSE, FALSE, FALSE)}
CfgDesign == CfgMain \cup CfgLoose
CfgQuick == CfgMain \cup CfgLoose \cup CfgMap \cup CfgOther

VARIABLES
  cfg,
  status,    \* "connecting" | "connected" | "closed"
  auth, unusable,
  lp,        \* sign of lastPing: "none" (0) | "pos" (ping outstanding) | "neg" (ponged)
  tmr,       \* operation the single timer is armed for: "stale" | "ping" | "pong" | "none"
  sub,       \* the one channel: "none" | "pending" (reserved, async subscribe outstanding) | "live"
  pend,      \* outstanding asynchronous callbacks: set of [n, kind, id]
  closing,   \* spawned close() calls, not yet executed: sequence of codes
  cwait,     \* close() blocked in its unsubscribe loop on the pending subscribe: its code (0 = none)
  causes,    \* close causes the environment produced on its own: stale timer, pong timer, Disconnect, transport
  reading,   \* the transport's reader still feeds commands (it stops when HandleCommand returns false)
  lastid, ncmd, nfire, nenv,
  cmds,      \* what the client sent: sequence of [kind, id, var, seen]
  out, cb, step, hist

vars == <<cfg, status, auth, unusable, lp, tmr, sub, pend, closing, cwait, causes, reading, lastid, ncmd, nfire, nenv, cmds, out, cb, step, hist>>

---------------------------------------------------------------------------
Reply(i, k)    == [t |-> "reply", id |-> i, k |-> k, code |-> 0]
ErrReply(i, c) == [t |-> "reply", id |-> i, k |-> "error", code |-> c]
PingFrame      == [t |-> "ping", id |-> 0, k |-> "", code |-> 0]
UnsubPush(c)   == [t |-> "unsub", id |-> 0, k |-> "", code |-> c]
Disc(c)        == [t |-> "disc", id |-> 0, k |-> "", code |-> c]
CB(k, n, c)    == [k |-> k, n |-> n, code |-> c]

HandlerKinds == {"subscribe", "refresh", "sub_refresh"} \cup GenericKinds
ChannelKinds == {"subscribe", "unsubscribe", "sub_refresh"} \cup (GenericKinds \ {"rpc"})
Modes4       == {"ok", "err", "disc", "async"}

Sym(k, m, v) == [kind |-> k, mode |-> m, var |-> v]
Alphabet ==
       \* sserr / ssdisc: OnConnecting accepts, then a connect-time server-side subscription fails with a client
       \* error / with a disconnect - AFTER connectCmd set authenticated and registered the connection in the hub
       {Sym("connect", m, "ok") : m \in {"ok", "err", "disc", "nocred", "sserr", "ssdisc"}}
  \cup {Sym(k, m, "ok") : k \in HandlerKinds, m \in Modes4}
  \cup {Sym("refresh", "expired", "ok")}
  \* the handler grants an expiration that is not in the future: answered with the error "expired", nothing else
  \cup {Sym("refresh", "past", "ok"), Sym("sub_refresh", "past", "ok")}
  \cup {Sym("sub_refresh", "tagschange", "ok")}
  \cup {Sym("unsubscribe", "ok", "ok"), Sym("send", "ok", "ok")}
  \cup {Sym(k, "ok", "emptych") : k \in ChannelKinds}
  \cup {Sym(k, "ok", "emptytok") : k \in {"refresh", "sub_refresh"}}
  \* no request field at all but an id; a `ping` request (not dispatched in protocol v2); two request fields
  \* (subscribe + rpc: the first in the chain wins); an undecodable frame; a frame without any command
  \cup {Sym(k, "ok", "ok") : k \in {"empty", "pingfield", "multi", "malformed", "emptyframe"}}

\* id 0 turns every command except send into a pong; representatives: the real pong, one with a request, connect
IdModes(a) ==
  IF a.kind \in {"malformed", "emptyframe"} THEN {"none"}
  ELSE IF a.kind = "empty" THEN {"zero", "fresh"}
  ELSE IF a.kind = "send" THEN {"zero", "fresh"}
  ELSE IF a.kind = "rpc" /\ a.mode \in {"ok", "async"} THEN {"fresh", "dup"}
  ELSE IF (a.kind = "connect" /\ a.mode = "ok") \/ (a.kind = "presence" /\ a.mode = "ok" /\ a.var = "ok") THEN {"zero", "fresh"}
  ELSE {"fresh"}

\* what a configuration other than the main one adds: map subscriptions only change sub_refresh; without handlers
\* and without client-side refresh only the first decision of each handler matters; a reader that does not stop
\* matters for commands that return a disconnect / an error to the reader
Offered(a) ==
  Reduced =>
    /\ cfg.mapsub => /\ a.kind \in {"connect", "subscribe", "sub_refresh", "unsubscribe", "rpc"}
                     /\ a.mode \in {"ok", "async", "tagschange"} /\ a.var = "ok"
    /\ ~cfg.handlers => a.mode = "ok"
    /\ (cfg.handlers /\ ~cfg.csr) => a.kind \in {"connect", "subscribe", "refresh", "sub_refresh", "rpc"} /\ a.mode \in {"ok", "async"}
    /\ ~cfg.strict => a.mode # "async"

\* Reduced dumps: a command that neither changes the connection's state nor keeps a callback is only offered as the
\* last command of a sequence (the commands after it would see the same state as after `rpc ok`, which stays)
Changing(a) == a.mode = "async" \/ (a.kind \in {"subscribe", "multi", "rpc"} /\ a.mode = "ok" /\ a.var = "ok")
               \/ a.kind = "connect"

Init ==
  /\ cfg \in CfgSet
  /\ status = "connecting" /\ auth = FALSE /\ unusable = FALSE
  /\ lp = "none" /\ tmr = "stale" /\ sub = "none"
  /\ pend = {} /\ closing = <<>> /\ cwait = 0 /\ causes = {} /\ reading = TRUE
  /\ lastid = 0 /\ ncmd = 0 /\ nfire = 0 /\ nenv = 0
  /\ cmds = <<>> /\ out = <<>> /\ cb = <<>>
  /\ step = [act |-> "Init"] /\ hist = <<>>

---------------------------------------------------------------------------
(* close(): status flip, timer stop, hub removal, disconnect push + flush + transport close, unsubscribe loop
   (blocks on a pending client-side subscribe until it completes), disconnect callback iff it was connected *)
CloseEffects(code) ==
  IF status = "closed" THEN UNCHANGED <<status, tmr, out, cb, cwait, sub>>
  ELSE /\ status' = "closed" /\ tmr' = "none"
       /\ out' = Append(out, Disc(code))
       /\ cb' = cb \o (IF sub = "live" THEN <<CB("unsubscribe", 0, UnsubDisc)>> ELSE <<>>)
                   \o (IF status = "connected" /\ sub # "pending" THEN <<CB("disconnect", 0, code)>> ELSE <<>>)
       /\ cwait' = IF status = "connected" /\ sub = "pending" THEN code ELSE 0
       /\ sub' = IF sub = "live" THEN "none" ELSE sub

(* what a handler result does to an open connection: frames, spawned closes, subscription state, callbacks,
   and whether the application kept the callback *)
Eff(o, sp, s, c, as) == [o |-> o, sp |-> sp, sub |-> s, cb |-> c, async |-> as]

Result(kind, i, res) ==
  CASE res = "ok" /\ kind = "subscribe" -> Eff(<<Reply(i, "subscribe")>>, <<>>, "live", <<>>, FALSE)
    [] res = "ok" /\ kind # "subscribe" -> Eff(<<Reply(i, kind)>>, <<>>, sub, <<>>, FALSE)
    [] res = "err"                      -> Eff(<<ErrReply(i, HandlerErr)>>, <<>>, IF kind = "subscribe" THEN "none" ELSE sub, <<>>, FALSE)
    [] res = "disc"                     -> Eff(<<>>, <<HandlerDisc>>, IF kind = "subscribe" THEN "none" ELSE sub, <<>>, FALSE)
    [] res = "expired"                  -> Eff(<<>>, <<Expired>>, sub, <<>>, FALSE)
    [] res = "past"                     -> Eff(<<ErrReply(i, EExpired)>>, <<>>, sub, <<>>, FALSE)
    \* the callback changed the server tags filter of a map subscription: the subscription is ended with
    \* "state invalidated" AND the command is answered first (DESIGN section 10 item 12, repaired in 2d880987)
    [] res = "tagschange"               -> IF sub = "live" /\ cfg.mapsub
                                             THEN Eff(<<Reply(i, kind), UnsubPush(UnsubInvalidated)>>, <<>>, "none",
                                                      <<CB("unsubscribe", 0, UnsubInvalidated)>>, FALSE)
                                             ELSE Eff(<<Reply(i, kind)>>, <<>>, sub, <<>>, FALSE)

Apply(e) ==
  /\ out' = out \o e.o
  /\ closing' = closing \o e.sp
  /\ sub' = e.sub

(* dispatch of one command on an open, authenticated, usable connection with id > 0 (or send) *)
Handle(a, n, i) ==
  LET k      == IF a.kind = "multi" THEN "subscribe" ELSE a.kind
      \* the client's handlers are registered by the application inside OnConnect: a connection that authenticated
      \* but whose connect command failed afterwards (close pending) has none
      hh     == cfg.handlers /\ status = "connected"
      bad    == Eff(<<>>, <<BadRequest>>, sub, <<>>, FALSE)
      err(c) == Eff(<<ErrReply(i, c)>>, <<>>, sub, <<>>, FALSE)
      call   == <<CB(k, n, 0)>>
      \* the application callback: answers now or keeps the callback (s0: subscription state while it is kept)
      viaHandler(s0) ==
        IF a.mode = "async" THEN Eff(<<>>, <<>>, s0, call, TRUE)
        ELSE LET r == Result(k, i, a.mode) IN Eff(r.o, r.sp, r.sub, call \o r.cb, FALSE)
  IN CASE k \in {"empty", "pingfield"} -> bad
       [] k = "connect"     -> bad                                           \* already authenticated
       [] k = "send"        -> IF hh THEN Eff(<<>>, <<>>, sub, <<CB("send", n, 0)>>, FALSE)
                                               ELSE Eff(<<>>, <<NotAvail>>, sub, <<>>, FALSE)
       [] k = "unsubscribe" -> IF a.var = "emptych" THEN bad
                               ELSE Eff(<<Reply(i, "unsubscribe")>>, <<>>, "none",
                                        IF sub = "live" THEN <<CB("unsubscribe", 0, UnsubClient)>> ELSE <<>>, FALSE)
       [] k = "subscribe"   -> IF a.var = "emptych" THEN bad
                               ELSE IF ~hh THEN err(ENotAvail)
                               ELSE IF sub # "none" THEN err(EAlready)
                               ELSE viaHandler("pending")
       [] k = "rpc"         -> IF ~hh THEN err(ENotAvail) ELSE viaHandler(sub)
       [] k \in {"publish", "presence", "presence_stats", "history"} ->
                               IF ~hh THEN err(ENotAvail)
                               ELSE IF a.var = "emptych" THEN bad
                               ELSE viaHandler(sub)
       [] k = "refresh"     -> IF ~hh THEN err(ENotAvail)
                               ELSE IF a.var = "emptytok" THEN bad
                               ELSE IF ~cfg.csr THEN bad
                               ELSE viaHandler(sub)
       [] k = "sub_refresh" -> IF a.var = "emptych" THEN bad
                               ELSE IF sub # "live" THEN err(EPermission)
                               ELSE IF ~hh THEN err(ENotAvail)
                               ELSE IF ~cfg.csr THEN bad
                               ELSE IF a.var = "emptytok" THEN err(EBadRequest)
                               ELSE viaHandler(sub)

Cmd(a, im) ==
  /\ ncmd < MaxCmds /\ reading
  /\ AfterClose \/ status # "closed"
  /\ im \in IdModes(a) /\ Offered(a)
  /\ im = "dup" => lastid > 0
  \* an unsubscribe command blocks the reader on a pending subscribe of the same channel (SubLifecycle's business)
  /\ (a.kind = "unsubscribe" /\ a.var = "ok") => sub # "pending"
  /\ a.mode = "async" => Cardinality(pend) < MaxAsync
  /\ a.mode = "tagschange" => cfg.mapsub
  \* a map subscribe reserves the channel only after the application callback answered (the MapSub family's business)
  /\ (cfg.mapsub /\ a.kind \in {"subscribe", "multi"}) => a.mode # "async"
  /\ LET n == ncmd + 1
         i == CASE im = "zero" -> 0 [] im = "none" -> 0 [] im = "fresh" -> lastid + 1 [] im = "dup" -> lastid
         framed == a.kind \in {"malformed", "emptyframe"}
     IN /\ ncmd' = IF Reduced /\ ~Changing(a) THEN MaxCmds ELSE n
        /\ lastid' = IF im = "fresh" THEN lastid + 1 ELSE lastid
        /\ cmds' = Append(cmds, [kind |-> a.kind, id |-> i, var |-> a.var, mode |-> a.mode, seen |-> Len(out)])
        /\ step' = [act |-> "Cmd", kind |-> a.kind, mode |-> a.mode, var |-> a.var, id |-> i, n |-> n]
        /\ IF framed THEN
             \* HandleReadFrame: undecodable / empty frame => Client.Disconnect(bad request), whatever the state
             /\ closing' = Append(closing, BadRequest) /\ reading' = ~cfg.strict
             /\ UNCHANGED <<status, auth, unusable, lp, tmr, sub, pend, cwait, out, cb>>
           ELSE IF status = "closed" THEN
             /\ reading' = ~cfg.strict
             /\ UNCHANGED <<status, auth, unusable, lp, tmr, sub, pend, closing, cwait, out, cb>>
           ELSE IF unusable \/ (~auth /\ a.kind # "connect") THEN
             /\ closing' = Append(closing, BadRequest) /\ reading' = ~cfg.strict
             /\ UNCHANGED <<status, auth, unusable, lp, tmr, sub, pend, cwait, out, cb>>
           ELSE IF i = 0 /\ a.kind # "send" THEN
             \* isPong: unnecessary unless a ping is outstanding (lastPing > 0); a valid one flips the sign
             /\ IF lp = "pos" THEN lp' = "neg" /\ UNCHANGED <<closing, reading>>
                              ELSE closing' = Append(closing, BadRequest) /\ reading' = ~cfg.strict /\ UNCHANGED lp
             /\ UNCHANGED <<status, auth, unusable, tmr, sub, pend, cwait, out, cb>>
           ELSE IF ~auth THEN
             \* connect command on a fresh connection: OnConnecting decides
             /\ UNCHANGED <<lp, sub, pend, cwait>>
             /\ CASE a.mode = "ok" ->
                       /\ auth' = TRUE /\ status' = "connected" /\ tmr' = "ping"
                       /\ out' = Append(out, Reply(i, "connect"))
                       /\ cb' = cb \o <<CB("connecting", n, 0), CB("connect", 0, 0)>>
                       /\ UNCHANGED <<unusable, closing, reading>>
                  [] a.mode = "err" ->
                       \* error reply, connection stays open but unusable; only the stale timer ends it
                       /\ unusable' = TRUE /\ reading' = ~cfg.strict
                       /\ out' = Append(out, ErrReply(i, EUnauth))
                       /\ cb' = Append(cb, CB("connecting", n, 0))
                       /\ UNCHANGED <<auth, status, tmr, closing>>
                  [] a.mode = "sserr" ->
                       \* error reply with the connection already authenticated: unusable all the same (every later
                       \* command is refused, the stale timer still ends it), no connect callback, no timers
                       /\ auth' = TRUE /\ unusable' = TRUE /\ reading' = ~cfg.strict
                       /\ out' = Append(out, ErrReply(i, EExpired))
                       /\ cb' = Append(cb, CB("connecting", n, 0))
                       /\ UNCHANGED <<status, tmr, closing>>
                  [] a.mode = "ssdisc" ->
                       /\ auth' = TRUE /\ closing' = Append(closing, ServerError)
                       /\ reading' = ~cfg.strict
                       /\ cb' = Append(cb, CB("connecting", n, 0))
                       /\ UNCHANGED <<status, tmr, unusable, out>>
                  [] a.mode \in {"disc", "nocred"} ->
                       /\ closing' = Append(closing, IF a.mode = "disc" THEN HandlerDisc ELSE BadRequest)
                       /\ reading' = ~cfg.strict
                       /\ cb' = Append(cb, CB("connecting", n, 0))
                       /\ UNCHANGED <<auth, status, tmr, unusable, out>>
           ELSE
             LET e == Handle(a, n, i) IN
             \* a disconnect RETURNED by the handler function stops the reader; one passed to the callback does not
             /\ reading' = (~cfg.strict \/ ~(e.sp # <<>> /\ e.cb = <<>>))
             /\ Apply(e)
             /\ cb' = cb \o e.cb
             /\ pend' = IF e.async THEN pend \cup {[n |-> n, kind |-> IF a.kind = "multi" THEN "subscribe" ELSE a.kind, id |-> i]} ELSE pend
             /\ UNCHANGED <<status, auth, unusable, lp, tmr, cwait>>
  \* every close somebody asked for with a reason of its own (handler disconnects, no message handler, ...)
  /\ causes' = causes \cup ({closing'[x] : x \in (Len(closing) + 1)..Len(closing')} \ {BadRequest})
  /\ UNCHANGED <<cfg, nfire, nenv>>

Results(kind) == {"ok", "err", "disc"} \cup (IF kind = "refresh" THEN {"expired"} ELSE {})
                                       \cup (IF kind \in {"refresh", "sub_refresh"} THEN {"past"} ELSE {})
                                       \cup (IF kind = "sub_refresh" /\ cfg.mapsub THEN {"tagschange"} ELSE {})

(* the application calls a callback it kept *)
Complete(p, res) ==
  /\ p \in pend /\ res \in Results(p.kind)
  /\ pend' = pend \ {p}
  /\ step' = [act |-> "Complete", n |-> p.n, kind |-> p.kind, id |-> p.id, res |-> res]
  /\ IF status = "closed"
       THEN \* nothing can be written any more; a close() waiting for this subscribe goes on to its disconnect callback
            /\ sub' = IF p.kind = "subscribe" THEN "none" ELSE sub
            /\ IF p.kind = "subscribe" /\ cwait # 0
                 THEN cb' = Append(cb, CB("disconnect", 0, cwait)) /\ cwait' = 0
                 ELSE UNCHANGED <<cb, cwait>>
            /\ UNCHANGED <<out, closing>>
       ELSE LET e == Result(p.kind, p.id, res) IN
            /\ Apply(e) /\ cb' = cb \o e.cb /\ UNCHANGED cwait
  /\ causes' = causes \cup ({closing'[x] : x \in (Len(closing) + 1)..Len(closing')} \ {BadRequest})
  /\ UNCHANGED <<cfg, status, auth, unusable, lp, tmr, reading, lastid, ncmd, nfire, nenv, cmds>>

(* the scheduler fires the connection's single timer *)
TimerFire ==
  /\ nfire < MaxFires /\ tmr # "none" /\ status # "closed"
  /\ nfire' = nfire + 1
  /\ step' = [act |-> "TimerFire", op |-> tmr]
  /\ CASE tmr = "stale" ->
            /\ tmr' = "none"
            /\ IF ~auth \/ unusable THEN closing' = Append(closing, Stale) /\ causes' = causes \cup {Stale}
                                    ELSE UNCHANGED <<closing, causes>>
            /\ UNCHANGED <<lp, out>>
       [] tmr = "ping" ->
            /\ lp' = "pos" /\ out' = Append(out, PingFrame)
            /\ tmr' = IF cfg.pong THEN "pong" ELSE "ping"
            /\ UNCHANGED <<closing, causes>>
       [] tmr = "pong" ->
            /\ IF lp = "neg" THEN tmr' = "ping" /\ UNCHANGED <<closing, causes>>
                             ELSE tmr' = "none" /\ closing' = Append(closing, NoPong) /\ causes' = causes \cup {NoPong}
            /\ UNCHANGED <<lp, out>>
  /\ UNCHANGED <<cfg, status, auth, unusable, sub, pend, cwait, reading, lastid, ncmd, nenv, cmds, cb>>

ServerDisconnect ==
  /\ nenv < MaxEnv /\ status # "closed"
  /\ nenv' = nenv + 1
  /\ closing' = Append(closing, ForceNoRec) /\ causes' = causes \cup {ForceNoRec}
  /\ step' = [act |-> "ServerDisconnect"]
  /\ UNCHANGED <<cfg, status, auth, unusable, lp, tmr, sub, pend, cwait, reading, lastid, ncmd, nfire, cmds, out, cb>>

(* the transport handler's ClientCloseFunc: close(connection closed), synchronous *)
TransportClose ==
  /\ nenv < MaxEnv /\ status # "closed"
  /\ nenv' = nenv + 1 /\ causes' = causes \cup {ConnClosed}
  /\ CloseEffects(ConnClosed)
  /\ step' = [act |-> "TransportClose"]
  /\ reading' = ~cfg.strict
  /\ UNCHANGED <<cfg, auth, unusable, lp, pend, closing, lastid, ncmd, nfire, cmds>>

CloseRun(j) ==
  /\ j \in 1..Len(closing)
  /\ closing' = [x \in 1..(Len(closing) - 1) |-> IF x < j THEN closing[x] ELSE closing[x + 1]]
  /\ CloseEffects(closing[j])
  /\ step' = [act |-> "CloseRun", code |-> closing[j]]
  /\ UNCHANGED <<cfg, auth, unusable, lp, pend, causes, reading, lastid, ncmd, nfire, nenv, cmds>>

Act ==
  IF UrgentClose /\ closing # <<>> THEN CloseRun(1) ELSE
  \/ \E a \in Alphabet, im \in {"zero", "fresh", "dup", "none"} : Cmd(a, im)
  \/ \E p \in pend, r \in {"ok", "err", "disc", "expired", "tagschange", "past"} : Complete(p, r)
  \/ TimerFire \/ ServerDisconnect \/ TransportClose
  \/ \E j \in 1..Len(closing) : CloseRun(j)

Next == Act /\ hist' = IF WithHist THEN Append(hist, step') ELSE hist

Spec == Init /\ [][Next]_vars

---------------------------------------------------------------------------
(* Observable-only monitors: over `cmds` (what the client sent and how many frames it had received by then),
   `pend` (callbacks the application still holds), `causes` (closes the environment asked for itself), `out`, `cb`. *)
Count(s, P(_)) == Cardinality({x \in 1..Len(s) : P(s[x])})
ConnectedBy(m) == \E x \in 1..m : out[x].t = "reply" /\ out[x].k = "connect"
ClosedBy(m)    == \E x \in 1..m : out[x].t = "disc"
IsClosed       == ClosedBy(Len(out))
CloseCode      == out[CHOOSE x \in 1..Len(out) : out[x].t = "disc"].code
Quiescent      == closing = <<>>
Framed(c)      == c.kind \in {"malformed", "emptyframe"}
PongLike(c)    == ~Framed(c) /\ c.id = 0 /\ c.kind # "send"

\* C09a: before a successful connect every other command => bad-request close and no handler call
C09_Gate ==
  \A n \in 1..Len(cmds) :
    LET c == cmds[n] IN
    (~Framed(c) /\ c.kind # "connect" /\ ~ConnectedBy(c.seen) /\ ~ClosedBy(c.seen)) =>
       /\ \A x \in 1..Len(cb) : cb[x].n # n
       /\ Quiescent => /\ IsClosed
                       /\ CloseCode = BadRequest \/ CloseCode \in causes

\* C09a': once a connect command has been answered with an error reply the connection is finished: EVERY later
\* command (another connect included) is refused the same way, whether or not the failed connect had already
\* authenticated the connection (a connect-time server-side subscription failing after addClient)
FailedConnectBy(m) ==
  \E q \in 1..Len(cmds) : cmds[q].kind = "connect" /\ cmds[q].id > 0
     /\ \E x \in 1..m : out[x].t = "reply" /\ out[x].k = "error" /\ out[x].id = cmds[q].id /\ cmds[q].seen < x
C09_FailedConnect ==
  \A n \in 1..Len(cmds) :
    LET c == cmds[n] IN
    (~Framed(c) /\ FailedConnectBy(c.seen) /\ ~ConnectedBy(c.seen) /\ ~ClosedBy(c.seen)) =>
       /\ \A x \in 1..Len(cb) : cb[x].n # n
       /\ Quiescent => /\ IsClosed
                       /\ CloseCode = BadRequest \/ CloseCode \in causes

\* C09b: exactly one reply per command with an id (send excepted) unless the connection closed
NeedsReply(c) == ~Framed(c) /\ c.id > 0 /\ c.kind # "send"
C09_Once ==
  LET ids == {cmds[n].id : n \in {m \in 1..Len(cmds) : NeedsReply(cmds[m])}} IN
  /\ \A x \in 1..Len(out) : out[x].t = "reply" => out[x].id \in ids
  /\ \A i \in ids :
       LET sent    == Cardinality({n \in 1..Len(cmds) : NeedsReply(cmds[n]) /\ cmds[n].id = i})
           waiting == Cardinality({p \in pend : p.id = i})
           got     == Count(out, LAMBDA f : f.t = "reply" /\ f.id = i)
       IN /\ got <= sent - waiting
          /\ (Quiescent /\ ~IsClosed) => got = sent - waiting

\* C09c: a pong with no ping written since the previous pong (or since the connect reply) closes the connection
C09_Pong ==
  \A n \in 1..Len(cmds) :
    LET c == cmds[n]
        prev == {m \in 1..(n - 1) : PongLike(cmds[m])}
        from == IF prev = {} THEN 0 ELSE cmds[CHOOSE m \in prev : \A q \in prev : q <= m].seen
        pings == Cardinality({x \in (from + 1)..c.seen : out[x].t = "ping"})
    IN (PongLike(c) /\ ConnectedBy(c.seen) /\ ~ClosedBy(c.seen) /\ pings = 0 /\ Quiescent) =>
          /\ IsClosed
          /\ CloseCode = BadRequest \/ CloseCode \in causes

\* at most one handler invocation per command, none for commands that have no handler
C09_Handlers ==
  \A n \in 1..Len(cmds) : Cardinality({x \in 1..Len(cb) : cb[x].n = n}) <= 1

C09 == C09_Gate /\ C09_FailedConnect /\ C09_Once /\ C09_Pong /\ C09_Handlers

\* witness (negated scenario, its counterexample is replayed on every run): ping, pong, the pong check passes, one
\* more pong before the next ping - refused
WitPongAfterCheck ==
  ~(status = "closed" /\ nfire = 2 /\ lp = "neg" /\ Len(cmds) = 3 /\ PongLike(cmds[2]) /\ PongLike(cmds[3])
    /\ cmds[2].kind = "empty" /\ cmds[3].kind = "empty" /\ Len(out) = 3)

TypeOK ==
  /\ status \in {"connecting", "connected", "closed"}
  /\ (status = "connected") => auth
  /\ Cardinality(pend) <= MaxAsync
  /\ Len(closing) <= MaxCmds + MaxFires + MaxEnv

\* the connection's end is reported once
OneClose == Count(out, LAMBDA f : f.t = "disc") <= 1
NothingAfterClose == \A x \in 1..Len(out) : out[x].t = "disc" => x = Len(out)

View == <<cfg, status, auth, unusable, lp, tmr, sub, pend, closing, cwait, causes, reading, lastid, ncmd, nfire, nenv, cmds, out, cb>>
=============================================================================
