SPECIFICATION FairSpec
CONSTANTS
  Conns = {"c1"}
  Keys = {"k1"}
  MaxChg = 1
  MaxFlips = 0
  MaxOps = 4
  Versioned = TRUE
  Timer = TRUE
  AllowRevoke = FALSE
  AllowPublish = TRUE
  SplitTrack = TRUE
  AsCoded = {}
  Replay = FALSE
VIEW View
INVARIANTS TypeOK VersionConsistent C25_Epoch 
PROPERTIES C25_Frames C25_Live
CHECK_DEADLOCK FALSE
