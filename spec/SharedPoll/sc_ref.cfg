SPECIFICATION Spec
CONSTANTS
  ClosedCheck = TRUE
  PresenceRecheck = TRUE
VIEW View
INVARIANTS C05_KeyedSub
CHECK_DEADLOCK FALSE
