package main

// C34: replay of the spec/RedisKeys table into the real key / channel builders, slots by an
// independent implementation of the Redis Cluster rule (hash tag + CRC16-XMODEM).

import (
	"encoding/json"
	"fmt"
	"sort"
	"strconv"
	"strings"

	"github.com/centrifugal/centrifuge"

	"verifharness/vh"
)

// crc16 is CRC16-XMODEM (poly 0x1021, init 0, no reflection, no xorout) written as plain polynomial
// long division over GF(2): the message followed by 16 zero bits is shifted through a 17-bit register,
// most significant bit first. Deliberately not the byte-wise / table-driven form used by /repo.
func crc16(data []byte) uint16 {
	var reg uint32
	feed := func(bit uint32) {
		reg = (reg << 1) | bit
		if reg&0x10000 != 0 {
			reg ^= 0x11021
		}
	}
	for _, b := range data {
		for i := 7; i >= 0; i-- {
			feed(uint32(b>>uint(i)) & 1)
		}
	}
	for i := 0; i < 16; i++ {
		feed(0)
	}
	return uint16(reg)
}

// hashTag: Redis cluster spec, "Hash tags": first '{', first '}' to its right, at least one character between.
func hashTag(key string) string {
	o := strings.IndexByte(key, '{')
	if o < 0 {
		return key
	}
	c := strings.IndexByte(key[o+1:], '}')
	if c <= 0 {
		return key
	}
	return key[o+1 : o+1+c]
}

func slotOf(key string) int { return int(crc16([]byte(hashTag(key))) % 16384) }

// selfTest checks the independent slot function against the published vectors (Redis cluster
// specification: CRC16("123456789") = 0x31C3; hash tag examples of the spec; CLUSTER KEYSLOT values).
func selfTest() error {
	if c := crc16([]byte("123456789")); c != 0x31C3 {
		return fmt.Errorf("crc16 self test: %#x", c)
	}
	for k, s := range map[string]int{"": 0, "foo": 12182, "bar": 5061, "123": 5970, "123456789": 12739} {
		if slotOf(k) != s {
			return fmt.Errorf("slot self test %q: %d want %d", k, slotOf(k), s)
		}
	}
	for k, t := range map[string]string{"{user1000}.following": "user1000", "foo{}{bar}": "foo{}{bar}", "foo{{bar}}zap": "{bar", "foo{bar}{zap}": "bar", "a}b{c": "a}b{c", "{}": "{}"} {
		if hashTag(k) != t {
			return fmt.Errorf("hash tag self test %q: %q want %q", k, hashTag(k), t)
		}
	}
	return nil
}

type keysIn struct {
	Partitions int     `json:"partitions"`
	Ops        [][]any `json:"ops"`  // ["ops", mode, lists, [[op, [names]]...]]
	Rows       [][]any `json:"rows"` // [mode, prefix, lists, ch, class, [bad ops], [bad trips], [[name, shape]...]]
	Capture    bool    `json:"capture"`
}

type opDef struct {
	name  string
	names []string
}

func modeCfg(mode, prefix string, lists bool, parts int) centrifuge.VerifKeyConfig {
	c := centrifuge.VerifKeyConfig{Prefix: prefix, UseLists: lists}
	switch mode {
	case "cluster":
		c.Cluster = true
	case "sharded":
		c.Cluster, c.Partitions = true, parts
	case "precomp":
		c.Cluster, c.Partitions, c.Precomputed = true, parts, true
	}
	return c
}

func contains(l []string, s string) bool {
	for _, x := range l {
		if x == s {
			return true
		}
	}
	return false
}

func keysMode(in json.RawMessage, res *vh.Result) error {
	if err := selfTest(); err != nil {
		return err
	}
	var inp keysIn
	if err := json.Unmarshal(in, &inp); err != nil {
		return err
	}
	ops := map[string][]opDef{}
	for _, o := range inp.Ops {
		key := vh.Str(o[1]) + "|" + fmt.Sprint(vh.Bool(o[2]))
		for _, d := range vh.List(o[3]) {
			dd := vh.List(d)
			var names []string
			for _, n := range vh.List(dd[1]) {
				names = append(names, vh.Str(n))
			}
			ops[key] = append(ops[key], opDef{vh.Str(dd[0]), names})
		}
	}
	builders := map[string]*centrifuge.VerifKeys{}
	scanKeys := map[string][]string{}
	specBadRealEqual := 0
	for _, r := range inp.Rows {
		mode, prefix, lists, ch, class := vh.Str(r[0]), vh.Str(r[1]), vh.Bool(r[2]), vh.Str(r[3]), vh.Str(r[4])
		var specBad, specTrips []string
		for _, b := range vh.List(r[5]) {
			specBad = append(specBad, vh.Str(b))
		}
		for _, b := range vh.List(r[6]) {
			specTrips = append(specTrips, vh.Str(b))
		}
		ck := fmt.Sprintf("%s|%s|%v", mode, prefix, lists)
		kb := builders[ck]
		if kb == nil {
			var err error
			kb, err = centrifuge.VerifNewKeys(modeCfg(mode, prefix, lists, inp.Partitions))
			if err != nil {
				return fmt.Errorf("building engines for %s: %w", ck, err)
			}
			builders[ck] = kb
			scanKeys[ck] = kb.CleanupScanKeys()
		}
		input := map[string]any{"mode": mode, "prefix": prefix, "lists": lists, "channel": ch, "class": class}
		desc := fmt.Sprintf("mode=%s prefix=%q channel=%q", mode, prefix, ch)
		var real map[string]string
		var pan any
		func() {
			defer func() { pan = recover() }()
			real = kb.Keys(ch, "i")
		}()
		res.Done(1, 1)
		if pan != nil {
			res.Drift("C34", fmt.Sprintf("key builders panicked for %s: %v", desc, pan), input)
			continue
		}
		tag, idx := real["broker.partitionTag"], real["broker.partitionIndex"]
		if mt, ok := real["map.partitionTag"]; ok && (mt != tag || real["map.partitionIndex"] != idx) {
			res.Violate("C34", mode+":partition-tag:broker-vs-map", fmt.Sprintf("%s: stream broker uses partition %s tag %q, map broker partition %s tag %q", desc, idx, tag, real["map.partitionIndex"], mt), input)
		}
		if strings.ContainsAny(tag, "{}.") {
			res.Violate("C34", mode+":partition-tag:charset", fmt.Sprintf("%s: partition tag %q contains a brace or a dot", desc, tag), input)
		}
		subst := func(shape string) string {
			return strings.ReplaceAll(strings.ReplaceAll(shape, "T", tag), "N", idx)
		}

		// the cleanup worker's scan key of this channel's partition, from the real worker
		if reg, ok := real["map.cleanupRegistrationKey"]; ok {
			sk := scanKeys[ck]
			switch {
			case contains(sk, reg):
				real["map.cleanupScanKey"] = reg
			case idx != "" && contains(sk, kb.DefaultPrefix()+":cleanup:channels:{"+idx+"}"):
				real["map.cleanupScanKey"] = kb.DefaultPrefix() + ":cleanup:channels:{" + idx + "}"
			case len(sk) > 0:
				real["map.cleanupScanKey"] = sk[0]
			}
			if !contains(sk, reg) {
				res.Violate("C34", mode+":map.cleanup:registration-key-not-scanned",
					fmt.Sprintf("%s: the channel registers for expiry cleanup in %q (slot %d) but the cleanup worker scans %v - the partition's scan key %q is in slot %d; the batch-remove script would receive it as KEYS[5] next to keys of slot %d, and the registered channel is never cleaned",
						desc, reg, slotOf(reg), sample(sk, 3), real["map.cleanupScanKey"], slotOf(real["map.cleanupScanKey"]), slotOf(real["map.stateHashKey"])), input)
			}
		}

		// 1. key strings as the spec's shapes (drift: the builders changed shape, the spec must follow)
		shapes := map[string]string{}
		for _, b := range vh.List(r[7]) {
			bb := vh.List(b)
			name, shape := vh.Str(bb[0]), subst(vh.Str(bb[1]))
			shapes[name] = shape
			got, ok := real[name]
			if !ok {
				res.Drift("C34", fmt.Sprintf("%s: builder %s missing in the code (map broker: %s)", desc, name, kb.MapErr), input)
				continue
			}
			if got != shape && name != "map.cleanupScanKey" {
				res.Drift("C34", fmt.Sprintf("%s: %s = %q, spec shape %q", desc, name, got, shape), input)
			}
		}
		// the KEYS lists of the presence scripts, as the real functions return them
		for op, want := range map[string][]string{
			"presence.add":    {"presence.setKey", "presence.hashKey", "presence.userSetKey", "presence.userHashKey"},
			"presence.remove": {"presence.setKey", "presence.hashKey", "presence.userSetKey", "presence.userHashKey"},
			"presence.get":    {"presence.setKey", "presence.hashKey"},
			"presence.stats":  {"presence.setKey", "presence.hashKey", "presence.userSetKey", "presence.userHashKey"},
		} {
			for i, n := range want {
				if real[fmt.Sprintf("%s.%d", op, i)] != real[n] {
					res.Drift("C34", fmt.Sprintf("%s: KEYS[%d] of %s is %q, expected %s = %q", desc, i+1, op, real[fmt.Sprintf("%s.%d", op, i)], n, real[n]), input)
				}
			}
		}

		// 2. the package's own slot function agrees with the Redis rule
		for name, key := range real {
			if strings.HasSuffix(name, "Key") || strings.HasSuffix(name, "ChannelID") {
				if s := centrifuge.VerifRedisSlot(key); s != slotOf(key) {
					res.Violate("C34", "redisSlot:"+class, fmt.Sprintf("redisSlot(%q) = %d, Redis rule gives %d (tag %q)", key, s, slotOf(key), hashTag(key)), input)
				}
			}
		}

		// 3. per operation: all keys in one slot (cluster modes only)
		if mode != "plain" {
			for _, od := range ops[mode+"|"+fmt.Sprint(lists)] {
				slots := map[int][]string{}
				var parts []string
				for _, n := range od.names {
					k := real[n]
					slots[slotOf(k)] = append(slots[slotOf(k)], n)
					parts = append(parts, fmt.Sprintf("%s=%q->%d", strings.TrimPrefix(strings.TrimPrefix(strings.TrimPrefix(n, "broker."), "presence."), "map."), k, slotOf(k)))
				}
				sort.Strings(parts)
				inSpec := contains(specBad, od.name)
				if len(slots) > 1 {
					// signature = input class of the spec; an operation failing outside the spec's classes
					// carries its own name so that no known-finding pattern can swallow it
					sig := mode + ":" + class
					if !inSpec {
						sig = mode + ":" + od.name + ":UNEXPECTED(" + class + ")"
					}
					if od.name == "map.cleanup" && !inSpec && real["map.cleanupScanKey"] != real["map.cleanupRegistrationKey"] {
						continue // reported above as registration-key-not-scanned
					}
					res.Violate("C34", sig,
						fmt.Sprintf("%s (class %s): operation %s touches keys in %d different cluster slots: %s", desc, class, od.name, len(slots), strings.Join(parts, " ")), input)
				} else if inSpec {
					specBadRealEqual++
				}
			}
		}

		// 4. channel round trip
		for _, eng := range []string{"broker", "map"} {
			id, ok := real[eng+".messageChannelID"]
			if !ok {
				continue
			}
			back := real[eng+".extractChannel"]
			inSpec := contains(specTrips, eng+".extractChannel")
			if back != ch {
				sig := mode + ":" + class
				if !inSpec {
					sig = mode + ":" + eng + ".extractChannel:UNEXPECTED(" + class + ")"
				}
				res.Violate("C34", sig, fmt.Sprintf("%s: extractChannel(messageChannelID(ch) = %q) = %q", desc, id, back), input)
			} else if inSpec {
				res.Drift("C34", fmt.Sprintf("%s: spec says the channel round trip fails, the code returns %q", desc, back), input)
			}
		}

		// 5. the real operations against the recording client: their KEYS (+ the channel argument) are
		//    the op's key set of the spec, and rueidis' cluster builders do not panic on them
		if inp.Capture {
			captureRow(res, kb, mode, lists, ch, class, desc, real, ops[mode+"|"+fmt.Sprint(lists)], input)
		}

		if mode != "plain" && strings.ContainsAny(ch, "{}") {
			res.Distinct(ck + "|" + ch)
		}
		if len(res.Samples) < 3 && mode == "cluster" && strings.ContainsAny(ch, "{}") && class == "sound" {
			res.Sample(map[string]any{"input": input, "keys": real})
		}
	}
	res.Extra["spec_bad_but_real_slots_equal"] = specBadRealEqual
	return nil
}

func sample(l []string, n int) []string {
	if len(l) > n {
		return append(append([]string{}, l[:n]...), "...")
	}
	return l
}

// captured op name -> spec op name (the spec merges ops with identical key sets)
var capOp = map[string]string{
	"broker.publish.history": "broker.publish.history", "broker.publish.idempotent": "broker.publish.idempotent",
	"broker.history": "broker.history", "presence.add": "presence.add", "presence.remove": "presence.add",
	"presence.stats": "presence.add", "presence.get": "presence.get", "map.publish": "map.publish", "map.remove": "map.publish",
	"map.read.state": "map.read.ordered", "map.read.stream": "map.read.stream", "map.cleanup.batchRemove": "map.cleanup",
}

func captureRow(res *vh.Result, kb *centrifuge.VerifKeys, mode string, lists bool, ch, class, desc string, real map[string]string, ops []opDef, input any) {
	for _, clusterSlots := range []bool{false, true} {
		if clusterSlots && mode == "plain" {
			continue
		}
		scanMismatch := real["map.cleanupScanKey"] != real["map.cleanupRegistrationKey"]
		for _, c := range kb.CaptureOps(ch, "i", real["map.cleanupScanKey"], clusterSlots) {
			res.Count("captured_ops", 1)
			specName := capOp[c.Op]
			if specName == "map.cleanup" && scanMismatch {
				// already reported as registration-key-not-scanned; the worker's call would mix slots
				if c.Panic != "" {
					res.Count("rueidis_cross_slot_panics", 1)
				}
				continue
			}
			var od *opDef
			for i := range ops {
				if ops[i].name == specName {
					od = &ops[i]
				}
			}
			if od == nil {
				res.Drift("C34", fmt.Sprintf("%s: captured operation %s has no counterpart in the spec", desc, c.Op), input)
				continue
			}
			allowed := map[string]string{}
			for _, n := range od.names {
				allowed[real[n]] = n
			}
			if c.Panic != "" {
				if clusterSlots && strings.Contains(c.Panic, "different key slots") {
					// rueidis' own guard fired: consequence of keys in different slots (reported by step 3)
					res.Count("rueidis_cross_slot_panics", 1)
					res.Extra["rueidis_cross_slot_panic_example"] = fmt.Sprintf("%s: %s panics inside rueidis' cluster command builder: %s", desc, c.Op, c.Panic)
					if class == "sound" {
						res.Violate("C34", mode+":"+specName+":UNEXPECTED(rueidis-cross-slot-panic)", fmt.Sprintf("%s: %s panics in rueidis: %s", desc, c.Op, c.Panic), input)
					}
				} else {
					res.Drift("C34", fmt.Sprintf("%s: operation %s panicked against the recording client: %s", desc, c.Op, c.Panic), input)
				}
				continue
			}
			if clusterSlots {
				continue // the command lists are identical to the standalone pass; only the guard matters
			}
			seen := 0
			for _, cmd := range c.Cmds {
				if len(cmd) < 3 || (cmd[0] != "EVALSHA" && cmd[0] != "EVAL") {
					continue
				}
				nk, err := strconv.Atoi(cmd[2])
				if err != nil || len(cmd) < 3+nk {
					res.Drift("C34", fmt.Sprintf("%s: %s built an unparsable script call %v", desc, c.Op, cmd), input)
					continue
				}
				seen++
				keys := append([]string{}, cmd[3:3+nk]...)
				for _, a := range cmd[3+nk:] { // the PUB/SUB channel travels as an argument
					if a != "" && (a == real["broker.messageChannelID"] || a == real["map.messageChannelID"]) {
						keys = append(keys, a)
					}
				}
				for _, k := range keys {
					if k == "" && mode == "plain" {
						continue // unused KEYS stay empty without a cluster (the ":nil:" key replaces them only in cluster mode)
					}
					if _, ok := allowed[k]; !ok {
						res.Drift("C34", fmt.Sprintf("%s: %s passes key %q which is not in the spec's key set of %s %v", desc, c.Op, k, specName, od.names), input)
					}
				}
				slots := map[int]bool{}
				for _, k := range keys {
					slots[slotOf(k)] = true
				}
				if len(slots) > 1 && mode != "plain" {
					sig := mode + ":" + class
					if class == "sound" {
						sig = mode + ":" + specName + ":UNEXPECTED(sound)"
					}
					res.Violate("C34", sig, fmt.Sprintf("%s (class %s): the real %s call passes keys of %d different slots: %q", desc, class, c.Op, len(slots), keys), input)
				}
			}
			if seen == 0 {
				res.Drift("C34", fmt.Sprintf("%s: operation %s built no script call (commands: %v)", desc, c.Op, c.Cmds), input)
			}
		}
	}
}
