SPECIFICATION Spec
CONSTANTS Tier = "thorough"
INVARIANTS TypeOK ViolationsFail DeliveredAreReassemblies PingsAnswered LimitsEnforced CloseHandshake
CHECK_DEADLOCK FALSE
