SPECIFICATION Spec
CONSTANTS
  CleanupUsesConnCtx = FALSE
  MaxTicks = 2
INVARIANTS TypeOK C05M
CHECK_DEADLOCK FALSE
