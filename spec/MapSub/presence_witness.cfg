SPECIFICATION Spec
CONSTANTS
  CleanupUsesConnCtx = TRUE
  MaxTicks = 2
VIEW View
INVARIANTS TypeOK C05M
CHECK_DEADLOCK FALSE
