#!/bin/sh
# Runs the repository's pinned baseline suite (guard OFF) and compares with /root/.vp/BASELINE.json stable_pass.
# usage: lib/baseline.sh [repo_dir]
REPO=${1:-/repo}
OUT=$(mktemp /var/tmp/verif-baseline-XXXXXX.json)
(cd "$REPO" && GOFLAGS=-mod=mod GOPROXY=off go test -json -vet=off -count=1 -timeout 25m ./... > "$OUT" 2>&1)
python3 - "$OUT" <<'PY'
import json, sys
passed=set(); failed=set()
for line in open(sys.argv[1], errors='replace'):
    try: e=json.loads(line)
    except Exception: continue
    if e.get('Test') and e.get('Action') in ('pass','fail'):
        (passed if e['Action']=='pass' else failed).add(e['Package']+'::'+e['Test'])
b=json.load(open('/root/.vp/BASELINE.json'))
stable=set(b['stable_pass'])
missing=sorted(stable-passed)
print('baseline: %d stable tests, %d passed now, %d missing/failed' % (len(stable), len(stable&passed), len(missing)))
for m in missing[:30]: print('  NOT PASSING:', m, '(failed)' if m in failed else '(not run)')
sys.exit(1 if missing else 0)
PY
rc=$?
rm -f "$OUT"
exit $rc
