SPECIFICATION Spec
CONSTANTS
  Bs = {16, 130}
  WClasses = {"0", "B", "B+1", "L+1"}
  OClasses = {"0", "B+1", "L+1"}
  PClasses = {"0", "PB+1"}
  MaxOps = 4
  MaxWrites = 2
INVARIANTS TypeOK Monitor Dangling ControlLimit ErrorsEmitNothing
VIEW View
CHECK_DEADLOCK FALSE
