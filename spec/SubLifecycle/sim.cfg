SPECIFICATION Spec
CONSTANTS
  OpSets <- AllOps
  JoinRaceFixed = FALSE
  UrgentClose = TRUE
  JobsLast = TRUE
  NoPush = {FALSE, TRUE}
  AttrPairs <- AP_All
  Faults <- FaultCalls
  MaxFaults = 1

INVARIANTS TypeOK C04 C05 C06 C07_Count C08 C26_Safe C26_Exact
CHECK_DEADLOCK FALSE
