----------------------------- MODULE ConnTimers -----------------------------
(* C36  Liveness timers close exactly the connections they should.

   The timer layer of client.go for one connection: NewClient's stale timer,
   scheduleOnConnectTimers, the single multiplexed timer (scheduleNextTimer:
   the earliest of nextExpire / nextPresence / nextPing / nextPong, in that
   order of preference on ties, onTimerOp dispatching on the operation it was
   armed for), sendPing / checkPong with the lastPing sign, expire /
   checkExpired (client-side and server-side refresh), handleRefresh,
   Client.Refresh, the presence tick's subscription expiry check
   (checkSubscriptionExpiration, client-side and server-side sub refresh),
   handleSubRefresh, closeStale.

   Time is in tenths of a second; the wall clock moves in whole seconds
   (Tick = 10).  Connection and subscription expiry compare unix SECONDS, so
   the harness replays a Tick as one real second; ping / pong / presence /
   stale need no real time: the harness TimerScheduler fires the armed timer
   when the behaviour says (a timer may fire late, the expire timer never
   before it is due).  Configurations whose armed operation would depend on a
   tie between two deadlines are not continued (NoTie).

   A timer firing is two steps: TimerFire (the scheduler dequeues the armed
   timer: it can no longer be cancelled) and TimerRun (its callback gets
   Client.mu and executes the operation the connection's timerOp names AT THAT
   MOMENT).  Commands, Client.Refresh and ticks interleave between the two.

   The reference for the property is kept in history variables that only the
   environment's own actions update: `dl` (the instant from which the
   connection counts as expired), `sdl` (same for the subscription), `owed`
   (a pong is owed).  Monitors compare closes / unsubscribes in `out` with it. *)
EXTENDS Integers, Sequences, FiniteSets, TLC

CONSTANTS MaxNow,      \* last wall-clock second
          MaxActs,     \* actions other than Tick per behaviour
          CfgSet,
          ServerZeroRearms   \* FALSE: Client.Refresh(ExpireAt = 0) leaves nextExpire and the armed timer alone (the
                             \* code today); TRUE: it clears nextExpire and re-arms (the proposed repair)

P == 10          \* ping interval 1 s
T == 4           \* pong timeout 0.4 s
FAR == 360000    \* presence interval 10 h: never the earliest deadline, fired virtually
G == 10          \* ClientExpiredCloseDelay 1 s
D == 10          \* ClientExpiredSubCloseDelay 1 s
E2 == 20         \* a refresh extends by 2 s
Inf == 9999999

NoPong == 3012   Stale == 3502   Expired == 3005   BadRequest == 3501   SubExpired == 3006
HandlerDisc == 4242   UnsubExpired == 2501   ConnClosed == 3000

\* ping: server pings on; pong: pong timeout on; E: connection expires E seconds after connect (0 = never);
\* csr: client-side refresh of the connection; S: subscription expires S seconds after subscribe (0 = no
\* subscription expiry, -1 = no subscription at all); scsr: client-side refresh of the subscription
Cfg(pi, po, e, c, s, sc) == [ping |-> pi, pong |-> po, E |-> e, csr |-> c, S |-> s, scsr |-> sc]
CfgPP   == {Cfg(TRUE, po, 0, FALSE, -1, FALSE) : po \in BOOLEAN}
CfgExp  == {Cfg(FALSE, FALSE, e, c, -1, FALSE) : e \in {1, 2}, c \in BOOLEAN}
CfgMux  == {Cfg(TRUE, TRUE, 2, c, -1, FALSE) : c \in BOOLEAN}
CfgSub  == {Cfg(FALSE, FALSE, 0, FALSE, s, sc) : s \in {1, 2}, sc \in BOOLEAN}
CfgAllT == CfgPP \cup CfgExp \cup CfgMux \cup CfgSub

None == [op |-> "none", at |-> 0]

VARIABLES
  cfg, now,
  status,       \* "connecting" | "connected" | "closed"
  auth, unusable,
  exp,          \* c.exp (0 = none)
  nX, nR, nP, nO,   \* nextExpire, nextPresence, nextPing, nextPong (0 = unset)
  tmr,          \* the armed timer: [op, at] (None once the scheduler dequeued it)
  top,          \* c.timerOp: the operation the last arming chose (what a running callback dispatches on)
  run,          \* a dequeued callback has not run yet
  fop,          \* the operation it was armed for ("none" when nothing is dequeued)
  raced,        \* history: a refresh was applied between the firing of an expire timer and its callback
  lp,           \* "none" | "pos" | "neg"
  sub,          \* [st: "none" | "live", exp: expireAt (0 = none)]
  closing,      \* spawned close() calls
  dl, sdl, owed,
  nact, out, cb, step

vars == <<cfg, now, status, auth, unusable, exp, nX, nR, nP, nO, tmr, top, run, fop, raced, lp, sub, closing, dl, sdl, owed, nact, out, cb, step>>

F(t, c)  == [t |-> t, code |-> c]
CB(k)    == [k |-> k]

---------------------------------------------------------------------------
\* scheduleNextTimer
Arm(x, r, p, o) ==
  LET c1 == IF x > 0 THEN [op |-> "expire", at |-> x] ELSE None
      c2 == IF r > 0 /\ (c1 = None \/ r < c1.at) THEN [op |-> "presence", at |-> r] ELSE c1
      c3 == IF p > 0 /\ (c2 = None \/ p < c2.at) THEN [op |-> "ping", at |-> p] ELSE c2
      c4 == IF o > 0 /\ (c3 = None \/ o < c3.at) THEN [op |-> "pong", at |-> o] ELSE c3
  IN c4
\* two deadlines at the same instant: which one the code arms depends on sub-millisecond jitter
NoTie(x, r, p, o) ==
  LET s == <<x, r, p, o>> IN \A i, j \in 1..4 : (i < j /\ s[i] > 0 /\ s[j] > 0) => s[i] # s[j]

\* scheduleNextTimer: cancels the armed timer (a dequeued one is out of reach), arms the earliest deadline and
\* records its operation in timerOp (unchanged when there is nothing to arm)
ArmTo(a) == tmr' = a /\ top' = IF a = None THEN top ELSE a.op
Steady == UNCHANGED <<run, fop, raced>>

Init ==
  /\ cfg \in CfgSet
  /\ now = 0 /\ status = "connecting" /\ auth = FALSE /\ unusable = FALSE
  /\ exp = 0 /\ nX = 0 /\ nR = 0 /\ nP = 0 /\ nO = 0
  /\ tmr = [op |-> "stale", at |-> FAR] /\ top = "stale" /\ run = FALSE /\ fop = "none" /\ raced = FALSE
  /\ lp = "none" /\ sub = [st |-> "none", exp |-> 0]
  /\ closing = <<>> /\ dl = Inf /\ sdl = Inf /\ owed = FALSE
  /\ nact = 0 /\ out = <<>> /\ cb = <<>>
  /\ step = [act |-> "Init"]

\* (a dequeued callback runs within the second it was dequeued in: dispatch latency is not seconds)
Tick ==
  /\ now < MaxNow * 10 /\ closing = <<>> /\ ~run
  /\ now' = now + 10
  /\ step' = [act |-> "Tick"] /\ Steady
  /\ UNCHANGED <<cfg, status, auth, unusable, exp, nX, nR, nP, nO, tmr, top, lp, sub, closing, dl, sdl, owed, nact, out, cb>>

Acting == nact < MaxActs /\ nact' = nact + 1

(* connect command.  mode "err": OnConnecting returns a client error; mode "sserr": OnConnecting accepts, then a
   connect-time server-side subscription fails with a client error (after authenticated := TRUE and addClient).
   Either way: error reply, the connection stays open but unusable, the stale timer is still what ends it *)
Connect(mode) ==
  /\ Acting /\ status = "connecting" /\ ~auth /\ ~unusable /\ ~run
  /\ step' = [act |-> "Connect", mode |-> mode] /\ Steady
  /\ IF mode \in {"err", "sserr"}
       THEN /\ unusable' = TRUE /\ auth' = (mode = "sserr")
            /\ out' = Append(out, F("error", IF mode = "err" THEN 101 ELSE 110)) /\ cb' = Append(cb, CB("connecting"))
            /\ UNCHANGED <<status, exp, nX, nR, nP, nO, tmr, top, dl>>
       ELSE LET e  == IF cfg.E > 0 THEN now + cfg.E * 10 ELSE 0
                x  == IF e > 0 THEN (IF cfg.csr THEN e + G ELSE e) ELSE 0
                r  == now + FAR
                p  == IF cfg.ping THEN now + P - 1 ELSE 0          \* first ping: somewhere in [P/2, P)
            IN /\ auth' = TRUE /\ status' = "connected" /\ exp' = e
               /\ nX' = x /\ nR' = r /\ nP' = p /\ nO' = 0
               /\ ArmTo(Arm(x, r, p, 0))
               /\ out' = Append(out, F("connect", 0))
               /\ cb' = cb \o <<CB("connecting"), CB("connect")>>
               \* the connection counts as expired from its expiry (plus the grace delay under client-side refresh)
               /\ dl' = IF e > 0 THEN x ELSE Inf
               /\ UNCHANGED unusable
  /\ UNCHANGED <<cfg, now, lp, sub, closing, sdl, owed>>

(* subscribe command, the application grants ExpireAt = now + S *)
Subscribe ==
  /\ Acting /\ status = "connected" /\ cfg.S >= 0 /\ sub.st = "none" /\ closing = <<>>
  /\ LET e == IF cfg.S > 0 THEN now + cfg.S * 10 ELSE 0 IN
     /\ sub' = [st |-> "live", exp |-> e]
     /\ sdl' = IF e > 0 THEN e + D ELSE Inf
  /\ out' = Append(out, F("subscribe", 0)) /\ cb' = Append(cb, CB("subscribe"))
  /\ step' = [act |-> "Subscribe"] /\ Steady
  /\ UNCHANGED <<cfg, now, status, auth, unusable, exp, nX, nR, nP, nO, tmr, top, lp, closing, dl, owed>>

Spawn(c) == closing' = Append(closing, c)

(* the scheduler dequeues the armed timer (the expire timer is never due early); its callback runs later *)
TimerFire ==
  /\ Acting /\ tmr # None /\ ~run /\ status # "closed" /\ closing = <<>>
  /\ tmr.op = "expire" => now >= tmr.at
  /\ tmr' = None /\ run' = TRUE /\ fop' = tmr.op
  /\ step' = [act |-> "TimerFire", op |-> tmr.op]
  /\ UNCHANGED <<cfg, now, status, auth, unusable, exp, nX, nR, nP, nO, top, raced, lp, sub, closing, dl, sdl, owed, out, cb>>

(* onTimerOp: the dequeued callback gets Client.mu and executes the operation timerOp names now *)
TimerRun(mode) ==
  /\ run /\ closing = <<>>
  /\ run' = FALSE /\ fop' = "none"
  /\ step' = [act |-> "TimerRun", op |-> top, mode |-> mode, fired |-> fop]
  /\ IF status = "closed"
       THEN /\ mode = "-"
            /\ UNCHANGED <<exp, nX, nR, nP, nO, tmr, top, lp, sub, closing, dl, sdl, owed, out, cb>>
       ELSE
     CASE top = "stale" ->
            /\ mode = "-"
            /\ IF ~auth \/ unusable THEN Spawn(Stale) ELSE UNCHANGED closing
            /\ UNCHANGED <<exp, nX, nR, nP, nO, tmr, top, lp, sub, dl, sdl, owed, out, cb>>
       [] top = "ping" ->
            /\ mode = "-"
            /\ LET o == IF cfg.pong THEN now + T ELSE 0
                   p == now + P
               IN /\ NoTie(nX, nR, p, o)
                  /\ nO' = o /\ nP' = p /\ ArmTo(Arm(nX, nR, p, o))
            /\ lp' = "pos" /\ owed' = TRUE
            /\ out' = Append(out, F("ping", 0))
            /\ UNCHANGED <<exp, nX, nR, sub, closing, dl, sdl, cb>>
       [] top = "pong" ->
            /\ mode = "-"
            /\ IF lp = "neg"
                 THEN /\ NoTie(nX, nR, nP, 0)
                      /\ nO' = 0 /\ ArmTo(Arm(nX, nR, nP, 0)) /\ UNCHANGED closing
                 ELSE /\ Spawn(NoPong) /\ UNCHANGED <<nO, tmr, top>>
            /\ UNCHANGED <<exp, nX, nR, nP, lp, sub, dl, sdl, owed, out, cb>>
       [] top = "presence" ->
            \* re-arm first, alive callback, then the subscription expiry check
            /\ LET r == now + FAR IN nR' = r /\ NoTie(nX, r, nP, nO) /\ ArmTo(Arm(nX, r, nP, nO))
            /\ UNCHANGED <<exp, nX, nP, nO, lp, dl, owed>>
            /\ IF sub.st = "live" /\ sub.exp > 0 /\ now > sub.exp + D
                 THEN IF cfg.scsr
                        THEN \* only a sub_refresh command could have refreshed it: expired
                             /\ mode = "-"
                             /\ sub' = [st |-> "none", exp |-> 0]
                             /\ out' = Append(out, F("unsub", UnsubExpired))
                             /\ cb' = cb \o <<CB("alive"), CB("unsubscribe")>>
                             /\ UNCHANGED <<closing, sdl>>
                        ELSE \* the SubRefreshHandler gets a chance
                             /\ mode \in {"extend", "zero", "expired", "err"}
                             /\ CASE mode = "extend" -> /\ sub' = [sub EXCEPT !.exp = now + E2] /\ sdl' = now + E2 + D
                                                        /\ cb' = cb \o <<CB("alive"), CB("sub_refresh")>>
                                                        /\ UNCHANGED <<out, closing>>
                                  [] mode = "zero"   -> /\ sub' = [sub EXCEPT !.exp = 0] /\ sdl' = Inf
                                                        /\ cb' = cb \o <<CB("alive"), CB("sub_refresh")>>
                                                        /\ UNCHANGED <<out, closing>>
                                  [] OTHER           -> /\ sub' = [st |-> "none", exp |-> 0]
                                                        /\ out' = Append(out, F("unsub", UnsubExpired))
                                                        /\ cb' = cb \o <<CB("alive"), CB("sub_refresh"), CB("unsubscribe")>>
                                                        /\ UNCHANGED <<closing, sdl>>
                 ELSE /\ mode = "-" /\ cb' = Append(cb, CB("alive"))
                      /\ UNCHANGED <<sub, sdl, out, closing>>
       [] top = "expire" ->
            IF exp = 0 THEN
              \* Client.Refresh removed the expiry: expire() returns without re-arming anything (as coded)
              /\ mode = "-"
              /\ UNCHANGED <<exp, nX, nR, nP, nO, tmr, top, lp, sub, closing, dl, sdl, owed, out, cb>>
            ELSE IF cfg.csr THEN
              \* checkExpired
              /\ mode = "-"
              \* ttl > 0 (the callback of an older deadline, refreshed meanwhile): return, whatever is armed stays
              /\ IF exp > now THEN UNCHANGED closing ELSE Spawn(Expired)
              /\ UNCHANGED <<exp, nX, nR, nP, nO, tmr, top, lp, sub, dl, sdl, owed, out, cb>>
            ELSE
              \* server-side refresh: the RefreshHandler decides
              /\ mode \in {"extend", "zero", "expired", "disc"}
              /\ cb' = Append(cb, CB("refresh"))
              /\ CASE mode = "extend" -> /\ exp' = now + E2 /\ nX' = now + E2 /\ dl' = now + E2
                                         /\ NoTie(now + E2, nR, nP, nO)
                                         /\ ArmTo(Arm(now + E2, nR, nP, nO)) /\ UNCHANGED closing
                   \* "zero value means no expiration": the connection stays and never expires (the code closes it)
                   [] mode = "zero"   -> /\ exp' = 0 /\ nX' = 0 /\ dl' = Inf
                                         /\ ArmTo(Arm(0, nR, nP, nO)) /\ UNCHANGED closing
                   [] mode = "expired" -> /\ Spawn(Expired) /\ UNCHANGED <<exp, nX, dl, tmr, top>>
                   [] mode = "disc"   -> /\ Spawn(HandlerDisc) /\ UNCHANGED <<exp, nX, dl, tmr, top>>
              /\ UNCHANGED <<nR, nP, nO, lp, sub, sdl, owed, out>>
  /\ UNCHANGED <<cfg, now, status, auth, unusable, raced, nact>>

(* the client answers a ping (or sends an unnecessary pong) *)
Pong ==
  /\ Acting /\ status = "connected" /\ closing = <<>> /\ cfg.ping
  /\ step' = [act |-> "Pong"] /\ Steady
  /\ IF lp = "pos" THEN lp' = "neg" /\ owed' = FALSE /\ UNCHANGED closing
                   ELSE Spawn(BadRequest) /\ UNCHANGED <<lp, owed>>
  /\ UNCHANGED <<cfg, now, status, auth, unusable, exp, nX, nR, nP, nO, tmr, top, sub, dl, sdl, out, cb>>

(* refresh command (client-side refresh only; otherwise a bad request) *)
ClientRefresh(mode) ==
  /\ Acting /\ status = "connected" /\ closing = <<>> /\ cfg.E > 0
  /\ mode \in {"extend", "zero", "expired"}
  /\ step' = [act |-> "ClientRefresh", mode |-> mode]
  /\ UNCHANGED <<run, fop>> /\ raced' = (raced \/ (run /\ fop = "expire" /\ cfg.csr /\ mode = "extend"))
  /\ IF ~cfg.csr
       THEN /\ Spawn(BadRequest) /\ UNCHANGED <<exp, nX, tmr, top, dl, out, cb>>
       ELSE /\ cb' = Append(cb, CB("refresh"))
            /\ CASE mode = "extend" -> /\ exp' = now + E2 /\ nX' = now + E2 + G /\ dl' = now + E2 + G
                                       /\ NoTie(now + E2 + G, nR, nP, nO)
                                       /\ ArmTo(Arm(now + E2 + G, nR, nP, nO))
                                       /\ out' = Append(out, F("refresh", 0)) /\ UNCHANGED closing
                 \* no expiration any more (the code leaves c.exp as it was and closes the connection later)
                 [] mode = "zero"   -> /\ IF exp = 0 THEN UNCHANGED <<exp, nX, tmr, top>>     \* nothing to remove
                                                     ELSE exp' = 0 /\ nX' = 0 /\ ArmTo(Arm(0, nR, nP, nO))
                                       /\ dl' = Inf
                                       /\ out' = Append(out, F("refresh", 0)) /\ UNCHANGED closing
                 [] mode = "expired" -> /\ Spawn(Expired) /\ UNCHANGED <<exp, nX, tmr, top, dl, out>>
  /\ UNCHANGED <<cfg, now, status, auth, unusable, nR, nP, nO, lp, sub, sdl, owed>>

(* Client.Refresh from the server API *)
ServerRefresh(mode) ==
  /\ Acting /\ status = "connected" /\ closing = <<>> /\ cfg.E > 0
  /\ mode \in {"extend", "zero", "expired"}
  /\ step' = [act |-> "ServerRefresh", mode |-> mode]
  /\ UNCHANGED <<run, fop>> /\ raced' = (raced \/ (run /\ fop = "expire" /\ mode = "extend"))
  /\ CASE mode = "extend" -> /\ exp' = now + E2 /\ nX' = now + E2 + G /\ dl' = now + E2 + G
                             /\ NoTie(now + E2 + G, nR, nP, nO)
                             /\ ArmTo(Arm(now + E2 + G, nR, nP, nO))
                             /\ out' = Append(out, F("push_refresh", 0)) /\ UNCHANGED closing
       \* c.exp = 0; nextExpire and the armed timer stay as they are (as coded)
       [] mode = "zero"   -> /\ exp' = 0 /\ dl' = Inf
                             /\ IF ServerZeroRearms THEN nX' = 0 /\ ArmTo(Arm(0, nR, nP, nO)) ELSE UNCHANGED <<nX, tmr, top>>
                             /\ out' = Append(out, F("push_refresh", 0)) /\ UNCHANGED closing
       [] mode = "expired" -> /\ Spawn(Expired) /\ UNCHANGED <<exp, nX, tmr, top, dl, out>>
  /\ UNCHANGED <<cfg, now, status, auth, unusable, nR, nP, nO, lp, sub, sdl, owed, cb>>

(* sub_refresh command (client-side refresh of the subscription only) *)
SubRefresh(mode) ==
  /\ Acting /\ status = "connected" /\ closing = <<>> /\ sub.st = "live" /\ cfg.scsr /\ cfg.S > 0
  /\ mode \in {"extend", "zero", "past"}
  /\ step' = [act |-> "SubRefresh", mode |-> mode] /\ Steady
  /\ cb' = Append(cb, CB("sub_refresh"))
  /\ CASE mode = "extend" -> /\ sub' = [sub EXCEPT !.exp = now + E2] /\ sdl' = now + E2 + D
                             /\ out' = Append(out, F("sub_refresh", 0))
       [] mode = "zero"   -> /\ sub' = [sub EXCEPT !.exp = 0] /\ sdl' = Inf
                             /\ out' = Append(out, F("sub_refresh", 0))
       \* an expiry in the past: error reply "expired", the subscription keeps its old expiry
       [] mode = "past"   -> /\ out' = Append(out, F("error", 110)) /\ UNCHANGED <<sub, sdl>>
  /\ UNCHANGED <<cfg, now, status, auth, unusable, exp, nX, nR, nP, nO, tmr, top, lp, closing, dl, owed>>

CloseRun ==
  /\ closing # <<>>
  /\ closing' = Tail(closing)
  /\ step' = [act |-> "CloseRun", code |-> Head(closing)] /\ Steady /\ UNCHANGED top
  /\ IF status = "closed" THEN UNCHANGED <<status, tmr, out, cb, sub>>
     ELSE /\ status' = "closed" /\ tmr' = None
          /\ out' = Append(out, F("disc", Head(closing)))
          /\ cb' = cb \o (IF sub.st = "live" THEN <<CB("unsubscribe")>> ELSE <<>>)
                      \o (IF status = "connected" THEN <<CB("disconnect")>> ELSE <<>>)
          /\ sub' = [st |-> "none", exp |-> 0]
  /\ UNCHANGED <<cfg, now, auth, unusable, exp, nX, nR, nP, nO, lp, dl, sdl, owed, nact>>

Next ==
  IF closing # <<>> THEN CloseRun ELSE
  \/ Tick
  \/ \E m \in {"ok", "err", "sserr"} : Connect(m)
  \/ Subscribe \/ Pong
  \/ TimerFire
  \/ \E m \in {"-", "extend", "zero", "expired", "err", "disc"} : TimerRun(m)
  \/ \E m \in {"extend", "zero", "expired"} : ClientRefresh(m) \/ ServerRefresh(m)
  \/ \E m \in {"extend", "zero", "past"} : SubRefresh(m)

Spec == Init /\ [][Next]_vars

---------------------------------------------------------------------------
(* C36 as action properties over the step that fires a timer / runs the close it spawned, against the reference
   variables dl / sdl / owed which only environment actions set *)
Closes(c)  == closing' # <<>> /\ closing'[Len(closing')] = c /\ Len(closing') = Len(closing) + 1

\* pong timer: disconnect with no-pong exactly when the ping was not answered
C36_Pong == [][(step'.act = "TimerRun" /\ step'.op = "pong" /\ status # "closed") => (Closes(NoPong) <=> owed)]_vars
\* stale timer: closes exactly the connections that never authenticated (or failed to)
C36_Stale == [][(step'.act = "TimerRun" /\ step'.op = "stale" /\ status # "closed") => (Closes(Stale) <=> (~auth \/ unusable))]_vars
\* expire timer: the connection is closed as expired exactly when it is past its (refreshed) deadline; under
\* server-side refresh the handler's answer is the refresh
C36_Expire ==
  [][(step'.act = "TimerRun" /\ step'.op = "expire" /\ status # "closed") =>
       IF step'.mode \in {"-", "extend", "zero"} THEN (Closes(Expired) <=> (now >= dl /\ step'.mode = "-" /\ dl # Inf))
       ELSE closing' # <<>>]_vars
\* no other action closes a connection as expired, except an explicit "expired" answer
C36_OnlyTimers ==
  [][(Closes(Expired) /\ step'.act # "TimerRun") => (step'.act \in {"ClientRefresh", "ServerRefresh"} /\ step'.mode = "expired")]_vars
\* subscription: ended as expired at a presence tick exactly when past its (refreshed) deadline and not refreshed now
UnsubscribedNow == Len(out') = Len(out) + 1 /\ out'[Len(out')] = F("unsub", UnsubExpired)
C36_Sub ==
  [][(step'.act = "TimerRun" /\ step'.op = "presence" /\ status # "closed") =>
       (UnsubscribedNow <=> (sub.st = "live" /\ sdl # Inf /\ now > sdl /\ step'.mode \notin {"extend", "zero"}))]_vars
C36_SubOnlyTicks == [][UnsubscribedNow => (step'.act = "TimerRun" /\ step'.op = "presence")]_vars

\* a connected connection keeps an armed timer (NOT part of C36; false as coded after Client.Refresh removed the
\* expiry - documented in the family's report, not configured as an invariant)
ArmedWhileConnected == (status = "connected" /\ closing = <<>> /\ ~run) => tmr # None

\* witness predicates (negated scenarios; TLC's counterexample is a schedule replayed on every run, no VIEW there)
WitClientZero  == ~(step.act = "ClientRefresh" /\ step.mode = "zero" /\ cfg.csr /\ ~cfg.ping /\ status = "connected")
WitHandlerZero == ~(step.act = "TimerRun" /\ step.op = "expire" /\ step.mode = "zero")
\* an expire timer fired, a refresh was applied before its callback ran, and the connection is finally closed as
\* expired at its NEW deadline
WitLateRun     == ~(raced /\ cfg.csr /\ step.act = "TimerRun" /\ step.op = "expire" /\ step.mode = "-" /\ closing # <<>>)
\* a connect answered with an error reply (after authentication), closed by the stale timer
WitStaleAfterFailedConnect == ~(step.act = "TimerRun" /\ step.op = "stale" /\ auth /\ closing # <<>>)

TypeOK == now <= MaxNow * 10 /\ nact <= MaxActs
View == <<cfg, now, status, auth, unusable, exp, nX, nR, nP, nO, tmr, top, run, fop, raced, lp, sub, closing, dl, sdl, owed, nact, out, cb>>
=============================================================================
