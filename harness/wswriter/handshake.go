package main

// mode handshake (C31 a): every row of the upgrade decision table of spec/WsHandshake (request / configuration
// classes -> expected response) is rendered into a concrete HTTP request and driven
//   (1) into the real internal/websocket Upgrader.Upgrade with a hijackable in-memory ResponseWriter, and
//   (2) for the rows the centrifuge handler can be configured for, over a loopback TCP connection into a real
//       net/http server running centrifuge.NewWebsocketHandler.
// Compared: status, Sec-WebSocket-Accept (against an independent SHA-1/base64 computation), Sec-WebSocket-Protocol,
// Sec-WebSocket-Extensions, Sec-WebSocket-Version on rejections.

import (
	"bufio"
	"bytes"
	"context"
	"crypto/sha1"
	"encoding/base64"
	"encoding/json"
	"fmt"
	"io"
	"log"
	"math/rand"
	"net"
	"net/http"
	"net/http/httptest"
	"net/url"
	"strings"
	"time"

	"github.com/centrifugal/centrifuge"

	"verifharness/vh"
)

type hsRow struct {
	Proto     string `json:"proto"`
	Method    string `json:"method"`
	Conn      string `json:"conn"`
	Upg       string `json:"upg"`
	Ver       string `json:"ver"`
	Key       string `json:"key"`
	Origin    string `json:"origin"`
	Check     string `json:"check"`
	Offered   string `json:"offered"`
	Cfg       string `json:"cfg"`
	Ext       string `json:"ext"`
	Comp      bool   `json:"comp"`
	RespExt   bool   `json:"respExt"`
	RespProto string `json:"respProto"`
	H2proto   string `json:"h2proto"`
}

type hsRes struct {
	Status int    `json:"status"`
	Why    string `json:"why"`
	Accept string `json:"accept"`
	Proto  string `json:"proto"`
	Pmd    bool   `json:"pmd"`
	Verhdr bool   `json:"verhdr"`
}

type hsEntry struct {
	Row hsRow `json:"row"`
	Res hsRes `json:"res"`
}

const hsHost = "example.test"

const nullElementConn = "keep-alive,, Upgrade"

const wsGUID = "258EAFA5-E914-47DA-95CA-C5AB0DC85B11" // RFC 6455 1.3 / 4.2.2

func rfcAccept(key string) string {
	h := sha1.Sum([]byte(key + wsGUID))
	return base64.StdEncoding.EncodeToString(h[:])
}

type hdrLine struct{ k, v string }

// render: the header lines of a row; names maps the abstract subprotocols a/b/x to concrete names
func (r hsRow) render(rng *rand.Rand, names map[string]string) (lines []hdrLine, key string) {
	add := func(k, v string) { lines = append(lines, hdrLine{k, v}) }
	switch r.Conn {
	case "absent":
	case "two-lines":
		add("Connection", "keep-alive")
		add("Connection", "Upgrade")
	default:
		add("Connection", r.Conn)
	}
	if r.Upg != "absent" {
		add("Upgrade", r.Upg)
	}
	if r.Ver != "absent" {
		add("Sec-WebSocket-Version", r.Ver)
	}
	rb := func(n int) []byte { b := make([]byte, n); rng.Read(b); return b }
	hasKey := true
	switch r.Key {
	case "absent":
		hasKey = false
	case "random16":
		key = base64.StdEncoding.EncodeToString(rb(16))
	case "rfc-sample":
		key = "dGhlIHNhbXBsZSBub25jZQ==" // RFC 6455 1.3
	case "empty":
		key = ""
	case "b64-15bytes":
		key = base64.StdEncoding.EncodeToString(rb(15)) // 20 characters
	case "b64-17bytes":
		key = base64.StdEncoding.EncodeToString(rb(17)) // 24 characters, one '='
	case "b64-18bytes":
		key = base64.StdEncoding.EncodeToString(rb(18)) // 24 characters, no padding
	case "badchars24":
		key = "!!!*hlIHNhbXBsZSBub25jZQ=="[:24]
	case "raw16":
		key = "0123456789abcdef"
	default:
		panic("key class " + r.Key)
	}
	if hasKey {
		add("Sec-WebSocket-Key", key)
	}
	switch r.Origin {
	case "absent":
	case "same":
		add("Origin", "http://"+hsHost)
	case "same-upper":
		add("Origin", "HTTP://"+strings.ToUpper(hsHost))
	case "other":
		add("Origin", "http://evil.test")
	case "other-port":
		add("Origin", "http://"+hsHost+":8080")
	case "null":
		add("Origin", "null")
	case "unparsable":
		add("Origin", "http://%zz")
	default:
		panic("origin class " + r.Origin)
	}
	if r.Offered != "absent" {
		parts := strings.Split(r.Offered, ",")
		for i, p := range parts {
			t := strings.TrimSpace(p)
			parts[i] = strings.Replace(p, t, names[t], 1)
		}
		v := strings.Join(parts, ",")
		add("Sec-WebSocket-Protocol", v)
	}
	switch r.Ext {
	case "absent":
	case "two-lines":
		add("Sec-WebSocket-Extensions", "x-webkit-deflate-frame")
		add("Sec-WebSocket-Extensions", "permessage-deflate")
	default:
		add("Sec-WebSocket-Extensions", r.Ext)
	}
	return lines, key
}

func offeredList(cls string, names map[string]string) (out []string) {
	if cls == "absent" {
		return nil
	}
	for _, p := range strings.Split(cls, ",") {
		out = append(out, names[strings.TrimSpace(p)])
	}
	return out
}

// hijackWriter: an http.ResponseWriter + http.Hijacker (+ Flush / SetReadDeadline for the HTTP/2 path) in memory
type hijackWriter struct {
	hdr      http.Header
	status   int
	body     bytes.Buffer
	conn     *capConn
	hijacked bool
}

func (w *hijackWriter) Header() http.Header { return w.hdr }
func (w *hijackWriter) WriteHeader(s int) {
	if w.status == 0 {
		w.status = s
	}
}
func (w *hijackWriter) Write(p []byte) (int, error) {
	if w.status == 0 {
		w.status = 200
	}
	return w.body.Write(p)
}
func (w *hijackWriter) Hijack() (net.Conn, *bufio.ReadWriter, error) {
	w.hijacked = true
	return w.conn, bufio.NewReadWriter(bufio.NewReaderSize(w.conn, 4096), bufio.NewWriterSize(w.conn, 4096)), nil
}
func (w *hijackWriter) Flush()                             {}
func (w *hijackWriter) SetReadDeadline(_ time.Time) error  { return nil }
func (w *hijackWriter) SetWriteDeadline(_ time.Time) error { return nil }

type hsObserved struct {
	status   int
	hdr      http.Header
	noResp   string // why there is no response at all
	retProto string
	retComp  bool
	hasConn  bool
}

func subprotoNames(concrete bool) map[string]string {
	if concrete {
		return map[string]string{"a": "centrifuge-json", "b": "centrifuge-protobuf", "x": "mqtt"}
	}
	return map[string]string{"a": "a", "b": "b", "x": "x"}
}

// direct: Upgrader.Upgrade with the in-memory writer
func hsDirect(r hsRow, rng *rand.Rand) (obs hsObserved, key string) {
	names := subprotoNames(false)
	lines, key := r.render(rng, names)
	var req *http.Request
	if r.Proto == "h1" {
		var sb strings.Builder
		fmt.Fprintf(&sb, "%s /connection/websocket HTTP/1.1\r\nHost: %s\r\n", r.Method, hsHost)
		for _, l := range lines {
			fmt.Fprintf(&sb, "%s: %s\r\n", l.k, l.v)
		}
		sb.WriteString("\r\n")
		var err error
		req, err = http.ReadRequest(bufio.NewReader(strings.NewReader(sb.String())))
		if err != nil {
			obs.noResp = "net/http refuses the request: " + err.Error()
			return obs, key
		}
	} else {
		h := http.Header{}
		for _, l := range lines {
			h.Add(l.k, l.v)
		}
		if r.H2proto != "absent" {
			h[":protocol"] = []string{r.H2proto}
		}
		req = &http.Request{Method: r.Method, URL: &url.URL{Path: "/connection/websocket"}, Proto: "HTTP/2.0", ProtoMajor: 2,
			Header: h, Host: hsHost, Body: io.NopCloser(strings.NewReader(""))}
	}
	u := &centrifuge.VerifWsUpgrader{EnableCompression: r.Comp}
	switch r.Cfg {
	case "ab":
		u.Subprotocols = []string{"a", "b"}
	case "b":
		u.Subprotocols = []string{"b"}
	case "empty":
		u.Subprotocols = []string{}
	}
	switch r.Check {
	case "allow":
		u.CheckOrigin = func(*http.Request) bool { return true }
	case "deny":
		u.CheckOrigin = func(*http.Request) bool { return false }
	}
	var rh http.Header
	if r.RespExt || r.RespProto != "" {
		rh = http.Header{}
		if r.RespExt {
			rh["Sec-Websocket-Extensions"] = []string{"x-custom"}
		}
		if r.RespProto != "" {
			rh["Sec-Websocket-Protocol"] = []string{r.RespProto}
		}
	}
	w := &hijackWriter{hdr: http.Header{}, conn: &capConn{}}
	func() {
		defer func() {
			if p := recover(); p != nil {
				obs.noResp = fmt.Sprintf("Upgrade panicked: %v", p)
			}
		}()
		c, proto, err := u.Upgrade(w, req, rh)
		obs.retProto = proto
		if c != nil {
			obs.hasConn = true
			obs.retComp = c.IsCompressionNegotiated()
		}
		_ = err
	}()
	if obs.noResp != "" {
		return obs, key
	}
	if w.hijacked {
		resp, err := http.ReadResponse(bufio.NewReader(bytes.NewReader(w.conn.w.Bytes())), req)
		if err != nil {
			obs.noResp = "hijacked connection carries no parsable HTTP response: " + err.Error()
			return obs, key
		}
		obs.status, obs.hdr = resp.StatusCode, resp.Header
		return obs, key
	}
	obs.status, obs.hdr = w.status, w.hdr
	if obs.status == 0 {
		obs.noResp = "Upgrade returned without writing a response"
	}
	return obs, key
}

// over TCP into the real centrifuge handler
type hsServers struct {
	node *centrifuge.Node
	srv  map[string]*httptest.Server // by check/comp
}

func newHsServers() (*hsServers, error) {
	node, err := centrifuge.New(centrifuge.Config{LogLevel: centrifuge.LogLevelNone})
	if err != nil {
		return nil, err
	}
	node.OnConnecting(func(context.Context, centrifuge.ConnectEvent) (centrifuge.ConnectReply, error) {
		return centrifuge.ConnectReply{Credentials: &centrifuge.Credentials{UserID: "u"}}, nil
	})
	if err := node.Run(); err != nil {
		return nil, err
	}
	s := &hsServers{node: node, srv: map[string]*httptest.Server{}}
	for _, chk := range []string{"default", "allow", "deny"} {
		for _, comp := range []bool{false, true} {
			cfg := centrifuge.WebsocketConfig{Compression: comp}
			switch chk {
			case "allow":
				cfg.CheckOrigin = func(*http.Request) bool { return true }
			case "deny":
				cfg.CheckOrigin = func(*http.Request) bool { return false }
			}
			ts := httptest.NewUnstartedServer(centrifuge.NewWebsocketHandler(node, cfg))
			ts.Config.ErrorLog = log.New(io.Discard, "", 0)
			ts.Start()
			s.srv[fmt.Sprintf("%s/%v", chk, comp)] = ts
		}
	}
	return s, nil
}

func (s *hsServers) close() {
	for _, ts := range s.srv {
		ts.CloseClientConnections()
		ts.Close()
	}
	_ = s.node.Shutdown(context.Background())
}

func (s *hsServers) run(r hsRow, rng *rand.Rand) (obs hsObserved, key string) {
	names := subprotoNames(true)
	lines, key := r.render(rng, names)
	ts := s.srv[fmt.Sprintf("%s/%v", r.Check, r.Comp)]
	c, err := net.DialTimeout("tcp", ts.Listener.Addr().String(), 5*time.Second)
	if err != nil {
		obs.noResp = "dial: " + err.Error()
		return obs, key
	}
	defer c.Close()
	var sb strings.Builder
	fmt.Fprintf(&sb, "%s /connection/websocket HTTP/1.1\r\nHost: %s\r\n", r.Method, hsHost)
	for _, l := range lines {
		fmt.Fprintf(&sb, "%s: %s\r\n", l.k, l.v)
	}
	sb.WriteString("\r\n")
	_ = c.SetDeadline(time.Now().Add(10 * time.Second))
	if _, err := c.Write([]byte(sb.String())); err != nil {
		obs.noResp = "write: " + err.Error()
		return obs, key
	}
	resp, err := http.ReadResponse(bufio.NewReader(c), &http.Request{Method: r.Method})
	if err != nil {
		obs.noResp = "the server closed the connection without an HTTP response (" + err.Error() + ")"
		return obs, key
	}
	obs.status, obs.hdr = resp.StatusCode, resp.Header
	obs.retProto = resp.Header.Get("Sec-Websocket-Protocol")
	return obs, key
}

// deviating: the first request part that differs from the plain valid request (for signatures)
func (r hsRow) deviating() string {
	switch {
	case r.Proto == "h2":
		return fmt.Sprintf("h2:%s/%s/ver=%s", r.Method, r.H2proto, r.Ver)
	case r.Method != "GET":
		return "method=" + r.Method
	case r.Conn != "Upgrade" && r.Conn != "keep-alive, Upgrade":
		return "connection=" + r.Conn
	case r.Upg != "websocket":
		return "upgrade=" + r.Upg
	case r.Ver != "13":
		return "version=" + r.Ver
	case r.Key != "random16" && r.Key != "rfc-sample":
		return "key=" + r.Key
	case r.Origin != "absent":
		return "origin=" + r.Origin + "/" + r.Check
	}
	return "plain"
}

func judge(path string, e hsEntry, obs hsObserved, key string, concrete bool, res *vh.Result) {
	r, exp := e.Row, e.Res
	names := subprotoNames(concrete)
	okStatus := 101
	if r.Proto == "h2" {
		okStatus = 200
	}
	desc := fmt.Sprintf("%s: request %s; model: status %d %s", path, vh.J(r), exp.Status, exp.Why)
	viol := func(sig, what string) {
		res.Violate("C31", "handshake:"+sig, what+" ["+desc+"]", map[string]any{"mode": "handshake", "path": path, "row": e})
	}
	drift := func(what string) {
		res.Drift("C31", what+" ["+desc+"]", map[string]any{"mode": "handshake", "path": path, "row": e})
	}
	if r.RespExt {
		// application misuse (responseHeader with Sec-WebSocket-Extensions): not part of the property
		if obs.status != exp.Status {
			drift(fmt.Sprintf("status %d (%s)", obs.status, obs.noResp))
		}
		return
	}
	if obs.noResp != "" {
		cls := map[string]string{"connection": r.Conn, "upgrade": r.Upg, "method": r.Method, "version": r.Ver, "key": r.Key, "origin": r.Origin}[exp.Why]
		viol("no-response:"+exp.Why+":"+cls, "no HTTP response at all (RFC 6455 4.2.1/4.2.2: the server MUST answer a malformed handshake with an HTTP error response): "+obs.noResp)
		return
	}
	expAccept := exp.Status == okStatus
	gotAccept := obs.status == okStatus
	switch {
	case expAccept && !gotAccept:
		viol("reject-valid:"+r.deviating(), fmt.Sprintf("a valid upgrade request that passes the origin check was refused with status %d (RFC 6455 4.2.1, 4.2.2)", obs.status))
		return
	case !expAccept && gotAccept:
		viol("accept-invalid:"+exp.Why+":"+r.deviating(), fmt.Sprintf("an upgrade request that must be refused (%s) was accepted with status %d (RFC 6455 4.2.1 / 4.2.2 / 10.2)", exp.Why, obs.status))
		return
	}
	if !gotAccept {
		if r.Conn == nullElementConn && obs.status == 400 && exp.Why != "connection" && exp.Status != 400 {
			// the same deviation as on the otherwise valid request: the Connection header of this request does
			// contain the Upgrade token (null list elements are legal), yet the server answers "token not found"
			viol("reject-valid:connection="+r.Conn, fmt.Sprintf("refused with 400 ('upgrade' token not found in Connection) instead of %d: the Connection header has a null list element, which RFC 2616 2.1 / RFC 7230 7 require a recipient to ignore", exp.Status))
			return
		}
		if obs.status != 400 && obs.status != 403 && obs.status != 405 && obs.status != 426 {
			viol(fmt.Sprintf("reject-status:%d:%s", obs.status, exp.Why), fmt.Sprintf("refused with status %d, not an HTTP client-error code (RFC 6455 4.2.2)", obs.status))
			return
		}
		if exp.Why == "version" && !strings.Contains(strings.Join(obs.hdr.Values("Sec-Websocket-Version"), ","), "13") {
			viol("version-header-missing", "unsupported version refused without a Sec-WebSocket-Version header naming 13 (RFC 6455 4.2.2 /version/, 4.4)")
			return
		}
		if obs.status != exp.Status {
			drift(fmt.Sprintf("refused with status %d, the model of server.go says %d", obs.status, exp.Status))
		}
		return
	}
	// accepted
	if r.Proto == "h1" {
		if got, want := obs.hdr.Get("Sec-Websocket-Accept"), rfcAccept(key); got != want {
			viol("accept-key", fmt.Sprintf("Sec-WebSocket-Accept = %q, RFC 6455 4.2.2 5.4 requires base64(sha1(key+GUID)) = %q for key %q", got, want, key))
			return
		}
		if !strings.EqualFold(obs.hdr.Get("Upgrade"), "websocket") || !strings.EqualFold(obs.hdr.Get("Connection"), "upgrade") {
			viol("upgrade-headers", fmt.Sprintf("101 response without Upgrade: websocket / Connection: Upgrade (RFC 6455 4.2.2 5.2, 5.3): %v", obs.hdr))
			return
		}
	}
	gotProtoVals := obs.hdr.Values("Sec-Websocket-Protocol")
	gotProto := strings.Join(gotProtoVals, ",")
	if gotProto != "" && (r.Cfg != "nil") {
		ok := false
		for _, o := range offeredList(r.Offered, names) {
			if o == gotProto {
				ok = true
			}
		}
		if !ok {
			viol("subprotocol-not-offered", fmt.Sprintf("Sec-WebSocket-Protocol: %q is not one of the protocols the client offered (%v) (RFC 6455 4.2.2 5.5 /subprotocol/)", gotProto, offeredList(r.Offered, names)))
			return
		}
	}
	gotExt := strings.Join(obs.hdr.Values("Sec-Websocket-Extensions"), ",")
	gotPmd := strings.Contains(gotExt, "permessage-deflate")
	offersPmd := exp.Pmd || (r.Ext != "absent" && r.Ext != "x-webkit-deflate-frame" && r.Ext != "permessage-deflate junk")
	if gotExt != "" && (!gotPmd || !offersPmd || !r.Comp) {
		viol("extension-not-offered", fmt.Sprintf("Sec-WebSocket-Extensions: %q although the client offered %q and compression enabled = %v (RFC 6455 9.1 / 4.2.2 5.6: only extensions the client offered)", gotExt, r.Ext, r.Comp))
		return
	}
	if path == "upgrader" && obs.hasConn && obs.retComp != gotPmd {
		viol("compression-state", fmt.Sprintf("the connection has compression negotiated = %v but the response advertises permessage-deflate = %v", obs.retComp, gotPmd))
		return
	}
	wantProto := exp.Proto
	if wantProto != "" {
		if n, ok := names[wantProto]; ok {
			wantProto = n
		}
	}
	if gotProto != wantProto {
		drift(fmt.Sprintf("negotiated subprotocol %q, the model of selectSubprotocol says %q", gotProto, wantProto))
	}
	if gotPmd != exp.Pmd {
		drift(fmt.Sprintf("permessage-deflate negotiated = %v, model %v", gotPmd, exp.Pmd))
	}
}

func modeHandshake(in json.RawMessage, res *vh.Result) error {
	var rows []hsEntry
	if err := json.Unmarshal(in, &rows); err != nil {
		return err
	}
	rng := rand.New(rand.NewSource(vh.Seed()))
	servers, err := newHsServers()
	if err != nil {
		return err
	}
	defer servers.close()
	tcp := 0
	for i, e := range rows {
		obs, key := hsDirect(e.Row, rng)
		judge("upgrader", e, obs, key, false, res)
		completed := 1
		// the same row through net/http + centrifuge's WebsocketHandler where it can be configured that way
		if e.Row.Proto == "h1" && e.Row.Cfg == "ab" && !e.Row.RespExt && e.Row.RespProto == "" {
			obs2, key2 := servers.run(e.Row, rng)
			judge("handler", e, obs2, key2, true, res)
			tcp++
		}
		if e.Res.Status == 101 || e.Res.Status == 200 {
			res.Distinct(vh.J(e.Row))
		}
		if i%400 == 0 {
			res.Sample(map[string]any{"row": e.Row, "expected": e.Res, "observed_status": obs.status})
		}
		res.Done(1, completed)
	}
	res.Count("rows_through_handler_over_tcp", tcp)
	return nil
}
