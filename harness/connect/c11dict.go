// C11, dictionary compression: every scenario of spec/Connect/ConnDict.tla is run on a real node behind the real
// WebsocketHandler with a raw WebSocket client (hand-rolled: handshake + frame reader/writer) and a recording
// DictionaryCompression engine (public interfaces Config.DictionaryCompression / DictionaryConnection). Checked on
// what the client received and what the engine recorded: the first frame is the raw connect reply, every later
// frame is an Encode output, Close exactly once, after the last Encode, never overlapping one.
package main

import (
	"bufio"
	"context"
	"crypto/rand"
	"encoding/binary"
	"encoding/json"
	"fmt"
	"io"
	"net"
	"net/http"
	"net/http/httptest"
	"strings"
	"sync"
	"time"

	"github.com/centrifugal/centrifuge"
	"github.com/centrifugal/protocol"

	"verifharness/cl"
	"verifharness/vh"
)

const encMarker = 0xFE

// ------------------------------------------------------------------ recording engine

type recEvent struct {
	Kind  string `json:"kind"` // encode-begin, encode-end, close
	Frame string `json:"frame,omitempty"`
}

type recConn struct {
	mu       sync.Mutex
	events   []recEvent
	inflight int
	closes   int
	overlap  bool
	afterCl  bool // an Encode began after Close
}

func (r *recConn) Dictionary() *protocol.Dictionary {
	return &protocol.Dictionary{Id: "verif-dict-1", DataB64: "dmVyaWYgZGljdGlvbmFyeSBieXRlcw=="} // JSON connection: base64
}

func (r *recConn) Encode(frame []byte) ([]byte, bool) {
	r.mu.Lock()
	r.inflight++
	if r.closes > 0 {
		r.afterCl = true
	}
	r.events = append(r.events, recEvent{"encode-begin", string(frame)})
	r.mu.Unlock()
	time.Sleep(200 * time.Microsecond) // widen the window in which a concurrent Close would show
	out := append([]byte{encMarker}, frame...)
	r.mu.Lock()
	r.inflight--
	r.events = append(r.events, recEvent{Kind: "encode-end"})
	r.mu.Unlock()
	return out, true
}

func (r *recConn) Close() {
	r.mu.Lock()
	if r.inflight > 0 {
		r.overlap = true
	}
	r.closes++
	r.events = append(r.events, recEvent{Kind: "close"})
	r.mu.Unlock()
}

type recEngine struct {
	mu    sync.Mutex
	conns []*recConn
}

func (e *recEngine) NewDictionaryConnection(centrifuge.DictionaryConnectionParams) centrifuge.DictionaryConnection {
	c := &recConn{}
	e.mu.Lock()
	e.conns = append(e.conns, c)
	e.mu.Unlock()
	return c
}

// ------------------------------------------------------------------ raw WebSocket client

type wsFrame struct {
	Op      byte
	Payload []byte
}

type wsClient struct {
	c      net.Conn
	br     *bufio.Reader
	mu     sync.Mutex
	wmu    sync.Mutex
	frames []wsFrame
	closed bool
	echoed bool
}

func wsDial(url string) (*wsClient, error) {
	addr := strings.TrimPrefix(url, "http://")
	c, err := net.DialTimeout("tcp", addr, 3*time.Second)
	if err != nil {
		return nil, err
	}
	req := "GET /connection/websocket HTTP/1.1\r\nHost: " + addr + "\r\nUpgrade: websocket\r\nConnection: Upgrade\r\n" +
		"Sec-WebSocket-Key: dGhlIHNhbXBsZSBub25jZQ==\r\nSec-WebSocket-Version: 13\r\nOrigin: http://" + addr + "\r\n\r\n"
	if _, err := c.Write([]byte(req)); err != nil {
		return nil, err
	}
	br := bufio.NewReader(c)
	status, err := br.ReadString('\n')
	if err != nil {
		return nil, err
	}
	if !strings.Contains(status, "101") {
		return nil, fmt.Errorf("websocket handshake refused: %s", strings.TrimSpace(status))
	}
	for {
		l, err := br.ReadString('\n')
		if err != nil {
			return nil, err
		}
		if l == "\r\n" {
			break
		}
	}
	w := &wsClient{c: c, br: br}
	go w.readLoop()
	return w, nil
}

func (w *wsClient) readLoop() {
	defer func() {
		w.mu.Lock()
		w.closed = true
		w.mu.Unlock()
	}()
	for {
		var h [2]byte
		if _, err := io.ReadFull(w.br, h[:]); err != nil {
			return
		}
		n := uint64(h[1] & 0x7f)
		switch n {
		case 126:
			var b [2]byte
			if _, err := io.ReadFull(w.br, b[:]); err != nil {
				return
			}
			n = uint64(binary.BigEndian.Uint16(b[:]))
		case 127:
			var b [8]byte
			if _, err := io.ReadFull(w.br, b[:]); err != nil {
				return
			}
			n = binary.BigEndian.Uint64(b[:])
		}
		p := make([]byte, n)
		if _, err := io.ReadFull(w.br, p); err != nil {
			return
		}
		w.mu.Lock()
		w.frames = append(w.frames, wsFrame{h[0] & 0x0f, p})
		echo := h[0]&0x0f == 8 && !w.echoed
		if echo {
			w.echoed = true
		}
		w.mu.Unlock()
		if echo {
			// closing handshake: answer the server's close frame (the server waits for it before it drops the connection)
			code := p
			if len(code) > 2 {
				code = code[:2]
			}
			_ = w.send(8, code)
		}
	}
}

// gone tells whether the server closed the connection (close frame received or end of stream).
func (w *wsClient) gone() bool {
	w.mu.Lock()
	defer w.mu.Unlock()
	if w.closed {
		return true
	}
	for _, f := range w.frames {
		if f.Op == 8 {
			return true
		}
	}
	return false
}

func (w *wsClient) send(op byte, payload []byte) error {
	var hdr []byte
	hdr = append(hdr, 0x80|op)
	switch {
	case len(payload) < 126:
		hdr = append(hdr, 0x80|byte(len(payload)))
	default:
		hdr = append(hdr, 0x80|126, byte(len(payload)>>8), byte(len(payload)))
	}
	var mask [4]byte
	_, _ = rand.Read(mask[:])
	hdr = append(hdr, mask[:]...)
	body := make([]byte, len(payload))
	for i := range payload {
		body[i] = payload[i] ^ mask[i%4]
	}
	w.wmu.Lock()
	defer w.wmu.Unlock()
	_, err := w.c.Write(append(hdr, body...))
	return err
}

// data returns the text / binary messages received so far.
func (w *wsClient) data() []wsFrame {
	w.mu.Lock()
	defer w.mu.Unlock()
	var out []wsFrame
	for _, f := range w.frames {
		if f.Op == 1 || f.Op == 2 {
			out = append(out, f)
		}
	}
	return out
}

func (w *wsClient) waitData(n int, d time.Duration) bool {
	for deadline := time.Now().Add(d); time.Now().Before(deadline); time.Sleep(200 * time.Microsecond) {
		if len(w.data()) >= n {
			return true
		}
	}
	return false
}

// ------------------------------------------------------------------ scenarios

type in11d struct {
	Rows []map[string]any `json:"rows"`
}

// dictRow executes one scenario; retry = the set-up did not produce the frame shape the scenario is about (the connect
// reply was to leave in a batched frame and did not, last = false): nothing is recorded, the caller runs it again.
func dictRow(idx int, row map[string]any, last bool, res *vh.Result) (retry bool) {
	sc := vh.Map(row["sc"])
	var ops []string
	for _, x := range vh.List(sc["ops"]) {
		ops = append(ops, vh.Str(x))
	}
	closer, slow, burst := vh.Str(sc["closer"]), vh.Bool(sc["slow"]), vh.Bool(sc["burst"])
	// delay: ConnectReply.WriteDelay > 0 and a Client.Send from OnConnect, so that the connect reply leaves in a batched
	// frame (Transport.WriteMany) together with that push
	delay := false
	if d, ok := sc["delay"]; ok {
		delay = vh.Bool(d)
	}
	const writeDelay = 60 * time.Millisecond
	replay := map[string]any{"scenario": sc}
	fail := func(what string) {
		res.Drift("C11", fmt.Sprintf("%s (scenario %s)", what, vh.J(sc)), replay)
		res.Done(1, 0)
	}
	eng := &recEngine{}
	sch := &sched{}
	env, err := cl.NewEnv(centrifuge.Config{
		LogLevel:                     centrifuge.LogLevelNone,
		DictionaryCompression:        eng,
		ClientTimerScheduler:         sch,
		ClientPresenceUpdateInterval: 10 * time.Hour,
		ClientStaleCloseDelay:        10 * time.Hour,
	})
	if err != nil {
		fail("node: " + err.Error())
		return
	}
	gate := cl.NewGate()
	env.OnConnecting = func(context.Context, centrifuge.ConnectEvent) (centrifuge.ConnectReply, error) {
		if slow {
			gate.Arrive(gateHold)
		}
		rep := centrifuge.ConnectReply{Credentials: &centrifuge.Credentials{UserID: "u"}}
		if delay {
			rep.WriteDelay = writeDelay
		}
		return rep, nil
	}
	if delay {
		env.Setup = func(c *centrifuge.Client) { _ = c.Send([]byte(`{"n":1}`)) }
	}
	if err := env.Run(); err != nil {
		fail("run: " + err.Error())
		return
	}
	shutdownDone := false
	defer func() {
		gate.Release()
		if !shutdownDone {
			env.Close()
		}
	}()
	srv := httptest.NewServer(centrifuge.NewWebsocketHandler(env.Node, centrifuge.WebsocketConfig{
		CheckOrigin:    func(*http.Request) bool { return true },
		PingPongConfig: centrifuge.PingPongConfig{PingInterval: -1},
	}))
	defer srv.Close()
	sch.setOwner("c")
	ws, err := wsDial(srv.URL)
	if err != nil {
		fail("dial: " + err.Error())
		return
	}
	defer ws.c.Close()
	if err := ws.send(1, []byte(`{"id":1,"connect":{"flag":1}}`)); err != nil {
		fail("send connect: " + err.Error())
		return
	}
	want := 0
	if slow {
		if !gate.WaitArrived(gateWait) {
			fail("the connect command did not reach OnConnecting")
			return
		}
		// the stale timer closes the connection while OnConnecting is still running
		if _, n, ok := sch.fire("c"); !ok {
			fail(fmt.Sprintf("expected the stale timer to be armed, found %d timers", n))
			return
		}
		for deadline := time.Now().Add(gateWait); time.Now().Before(deadline) && !ws.gone(); time.Sleep(200 * time.Microsecond) {
		}
		gate.Release()
	} else {
		want = 1
		if !ws.waitData(want, gateWait) {
			ws.mu.Lock()
			replay["raw_frames"] = fmt.Sprintf("%q closed=%v", ws.frames, ws.closed)
			ws.mu.Unlock()
			fail("no connect reply")
			return
		}
		for i, op := range ops {
			switch op {
			case "rpc":
				if err := ws.send(1, []byte(fmt.Sprintf(`{"id":%d,"rpc":{"method":"m","data":{"n":%d}}}`, i+2, i+2))); err != nil {
					fail("send rpc: " + err.Error())
					return
				}
			case "send":
				for _, c := range env.Node.Hub().Connections() {
					_ = c.Send([]byte(fmt.Sprintf(`{"n":%d}`, i+2)))
				}
			}
			want++
			if !burst && !ws.waitData(want, gateWait) {
				fail(fmt.Sprintf("frame %d (%s) did not arrive", want, op))
				return
			}
		}
		if burst && delay && !ws.waitData(2, gateWait) {
			// issued within one write delay: the pushes leave together in the frame after the connect reply
			fail("the frame with the pushes did not arrive")
			return
		}
		switch closer {
		case "client":
			_ = ws.c.Close()
		case "server":
			for _, c := range env.Node.Hub().Connections() {
				c.Disconnect(centrifuge.DisconnectForceNoReconnect)
			}
		case "shutdown":
			ctx, cancel := context.WithTimeout(context.Background(), 5*time.Second)
			_ = env.Node.Shutdown(ctx)
			cancel()
			shutdownDone = true
		}
	}
	// wait for the engine's connection to be created and closed
	var rc *recConn
	for deadline := time.Now().Add(gateWait); time.Now().Before(deadline); time.Sleep(200 * time.Microsecond) {
		eng.mu.Lock()
		if len(eng.conns) > 0 {
			rc = eng.conns[0]
		}
		eng.mu.Unlock()
		if rc != nil {
			rc.mu.Lock()
			n := rc.closes
			rc.mu.Unlock()
			if n > 0 {
				break
			}
		}
	}
	if burst && !delay {
		// a graceful close flushes what is queued (several pushes may share one frame)
		for deadline := time.Now().Add(gateWait); time.Now().Before(deadline); time.Sleep(200 * time.Microsecond) {
			all := ""
			for _, f := range ws.data() {
				all += string(f.Payload)
			}
			if strings.Contains(all, fmt.Sprintf(`{"n":%d}`, len(ops)+1)) {
				break
			}
		}
	}
	time.Sleep(2 * time.Millisecond) // a second Close / a late Encode would come now
	eng.mu.Lock()
	nconns := len(eng.conns)
	eng.mu.Unlock()
	data := ws.data()
	var wire []map[string]any
	for _, f := range data {
		enc := f.Op == 2 && len(f.Payload) > 0 && f.Payload[0] == encMarker
		p := f.Payload
		if enc {
			p = p[1:]
		}
		wire = append(wire, map[string]any{"enc": enc, "payload": string(p)})
	}
	replay["wire"] = wire
	bad := false
	violate := func(sig, what string) {
		res.Violate("C11", "dict:"+sig, fmt.Sprintf("%s (scenario %s)", what, vh.J(sc)), replay)
		bad = true
	}
	if slow && nconns == 0 {
		// closed before the engine was asked: nothing to encode, nothing to close
		if len(data) > 0 {
			violate("frames-after-close", fmt.Sprintf("%d data frames reached a connection closed during its connect handshake", len(data)))
			res.Done(1, 0)
			return
		}
		res.Distinct(vh.J(sc))
		res.Done(1, 1)
		return
	}
	if nconns != 1 || rc == nil {
		fail(fmt.Sprintf("the engine was asked for %d dictionary connections", nconns))
		return
	}
	rc.mu.Lock()
	events := append([]recEvent(nil), rc.events...)
	closes, overlap, afterCl := rc.closes, rc.overlap, rc.afterCl
	rc.mu.Unlock()
	replay["engine"] = events
	// ---- C11 on what the client received and the engine recorded
	rawSig := "later-frame-raw"
	if delay {
		// the scenario is about a connect reply that shares its frame with the push sent from OnConnect
		batched := len(data) > 0 && strings.Contains(wire[0]["payload"].(string), `"connect"`) && strings.Contains(wire[0]["payload"].(string), `{"n":1}`)
		replay["connect_reply_batched"] = batched
		if !batched {
			if !last {
				return true
			}
			fail("the connect reply did not leave in one frame with the push sent from OnConnect (write delay " + writeDelay.String() + ")")
			return
		}
		rawSig = "frame-not-encoded:after-batched-connect-reply"
	}
	if len(data) > 0 {
		first := wire[0]
		if first["enc"].(bool) {
			violate("connect-reply-encoded", "the first frame the client received went through the encoder")
		} else if !strings.Contains(first["payload"].(string), `"connect"`) {
			violate("first-frame-not-connect", "the first frame is not the connect reply: "+first["payload"].(string))
		} else if !strings.Contains(first["payload"].(string), "verif-dict-1") {
			violate("no-dictionary-in-reply", "the connect reply does not carry the dictionary: "+first["payload"].(string))
		}
	}
	for i := 1; i < len(wire); i++ {
		if !wire[i]["enc"].(bool) {
			violate(rawSig, fmt.Sprintf("frame %d reached the client without going through the encoder: %s", i+1, wire[i]["payload"]))
		}
	}
	var encoded []string
	lastEncode, closeAt := -1, -1
	for i, e := range events {
		switch e.Kind {
		case "encode-begin":
			encoded = append(encoded, e.Frame)
			lastEncode = i
		case "encode-end":
			lastEncode = i
		case "close":
			if closeAt < 0 {
				closeAt = i
			}
		}
	}
	for i := 1; i < len(wire); i++ {
		if wire[i]["enc"].(bool) && (i-1 >= len(encoded) || encoded[i-1] != wire[i]["payload"].(string)) {
			violate("encode-mismatch", fmt.Sprintf("frame %d on the wire is not the %d. Encode call of the engine", i+1, i))
		}
	}
	switch {
	case closes == 0:
		violate("never-closed", "the connection ended and the encoder was never closed")
	case closes > 1:
		violate("closed-twice", fmt.Sprintf("the encoder was closed %d times", closes))
	}
	if overlap {
		violate("close-overlaps-encode", "Close was called while an Encode was running")
	}
	if afterCl || (closeAt >= 0 && lastEncode > closeAt) {
		violate("encode-after-close", "Encode was called after Close")
	}
	if bad {
		res.Done(1, 0)
		return
	}
	// ---- the row: what ConnDict.tla says
	mw := vh.List(row["wire"])
	if burst && !delay {
		// queued pushes may share frames: only the content is determined
		all := ""
		for _, w := range wire {
			all += w["payload"].(string)
		}
		for i := range ops {
			if !strings.Contains(all, fmt.Sprintf(`{"n":%d}`, i+2)) {
				fail(fmt.Sprintf("push %d queued before a graceful close did not reach the client", i+2))
				return
			}
		}
		res.Distinct(vh.J(sc))
		res.Done(1, 1)
		return
	}
	if len(mw) != len(wire) && closer != "client" {
		fail(fmt.Sprintf("%d frames on the wire, the model says %d", len(wire), len(mw)))
		return
	}
	if vh.Int(row["enc"]) != len(encoded) {
		fail(fmt.Sprintf("%d Encode calls, the model says %d", len(encoded), vh.Int(row["enc"])))
		return
	}
	res.Distinct(vh.J(sc))
	if idx < 2 {
		res.Sample(replay)
	}
	res.Done(1, 1)
	return false
}

func c11dict(in json.RawMessage, res *vh.Result) error {
	var ri in11d
	if err := json.Unmarshal(in, &ri); err != nil {
		return err
	}
	sem := make(chan struct{}, 8)
	var wg sync.WaitGroup
	for i := range ri.Rows {
		sem <- struct{}{}
		wg.Add(1)
		go func(i int) {
			defer wg.Done()
			defer func() { <-sem }()
			for try := 0; try < 3; try++ {
				if !dictRow(i, ri.Rows[i], try == 2, res) {
					break
				}
				res.Count("re-executed", 1)
			}
		}(i)
	}
	wg.Wait()
	return nil
}
