SPECIFICATION Spec
CONSTANTS
  MaxSub = 3
  MaxUnsub = 3
INVARIANTS C08_Unsub
CHECK_DEADLOCK FALSE
