// C37: replays spec/Limits behaviours (TLC -simulate) on a real client through the public API: asynchronous
// subscribe callbacks (several reservations in flight), server-side subscribes at the limit, over-long channel
// names, and queue growth with the connection's writer parked inside Transport.Write.
package main

import (
	"context"
	"encoding/json"
	"fmt"
	"strconv"
	"sort"
	"strings"
	"sync"
	"sync/atomic"
	"time"

	"github.com/centrifugal/centrifuge"
	"github.com/centrifugal/protocol"

	"verifharness/cl"
	"verifharness/vh"
)

const payload = `{"v":"0123456789"}`

type in struct {
	L          int                `json:"l"`
	QMax       int                `json:"qmax"`
	Behaviours [][]map[string]any `json:"behaviours"`
}

type worker struct {
	env *cl.Env
	mu  sync.Mutex
	cbs map[string]centrifuge.SubscribeCallback // channel -> captured callback
}

func newEnv(limit, queueMax int) (*worker, error) {
	env, err := cl.NewEnv(centrifuge.Config{LogLevel: centrifuge.LogLevelNone, ClientChannelLimit: limit, ClientQueueMaxSize: queueMax})
	if err != nil {
		return nil, err
	}
	w := &worker{env: env, cbs: map[string]centrifuge.SubscribeCallback{}}
	env.OnSubscribe = func(_ *centrifuge.Client, e centrifuge.SubscribeEvent, cb centrifuge.SubscribeCallback) {
		w.mu.Lock()
		w.cbs[e.Channel] = cb
		w.mu.Unlock()
	}
	return w, env.Run()
}

// unit: encoded length of one publication push for our channel-name length and payload
func measureUnit() (int, error) {
	w, err := newEnv(10, 0)
	if err != nil {
		return 0, err
	}
	defer w.env.Close()
	conn, err := w.env.NewConn("u", centrifuge.ProtocolTypeJSON)
	if err != nil {
		return 0, err
	}
	conn.Connect()
	ch := "000000_a"
	if err := conn.Client.Subscribe(ch); err != nil {
		return 0, err
	}
	conn.Barrier(time.Second)
	n0 := len(conn.T.Raw())
	if _, err := w.env.Node.Publish(ch, []byte(payload)); err != nil {
		return 0, err
	}
	conn.Barrier(time.Second)
	raw := conn.T.Raw()
	if len(raw) <= n0 {
		return 0, fmt.Errorf("no publication frame")
	}
	return len(raw[n0]), nil
}

func (w *worker) run(bi int, beh []map[string]any, limit, qmax int, res *vh.Result) {
	t := cl.NewTransport(centrifuge.ProtocolTypeJSON)
	var block atomic.Bool
	gate := cl.NewGate()
	t.OnWrite = func(int) {
		if block.Load() {
			gate.Arrive(20 * time.Second)
		}
	}
	// one connection per node at a time: Hub.NumClients() tells whether close() has started (removeClient runs
	// before the writer is closed, and the writer close waits for the write parked in our gate)
	for i := 0; i < 400 && w.env.Node.Hub().NumClients() > 0; i++ {
		time.Sleep(5 * time.Millisecond)
	}
	conn, err := w.env.NewConnT("u", t)
	if err != nil {
		res.Drift("", err.Error(), nil)
		res.Done(1, 0)
		return
	}
	defer func() { gate.Release(); conn.Client.Disconnect(); conn.Cancel() }()
	conn.Connect()
	name := func(c string) string { return fmt.Sprintf("%06d_%s", bi%1000000, c) }
	subIDs := map[string]uint32{}
	var steps []any
	completed := 1
	clientSide := map[string]bool{}
	all := map[string]bool{}
	fail := func(sig, what string) {
		res.Violate("C37", sig, fmt.Sprintf("%s (behaviour %d steps %s)", what, bi, vh.J(steps)), map[string]any{"steps": steps, "limit": limit})
		completed = 0
	}
	errCode := func(id uint32) (uint32, bool) {
		rep := conn.WaitReply(id, 2*time.Second)
		if rep == nil {
			return 0, false
		}
		if rep.Error != nil {
			return rep.Error.Code, true
		}
		return 0, true
	}
	subscribedChan := func() string {
		var l []string
		for c := range all {
			l = append(l, c)
		}
		sort.Strings(l)
		if len(l) == 0 {
			return ""
		}
		return l[0]
	}
	for si := 1; si < len(beh) && completed == 1; si++ {
		step := vh.Map(beh[si]["step"])
		act, ch, want := vh.Str(step["act"]), vh.Str(step["ch"]), vh.Str(step["res"])
		steps = append(steps, step)
		switch act {
		case "CSub":
			id := conn.NextID()
			conn.Do(&protocol.Command{Id: id, Subscribe: &protocol.SubscribeRequest{Channel: name(ch)}})
			switch want {
			case "pending":
				subIDs[ch] = id
				w.mu.Lock()
				_, ok := w.cbs[name(ch)]
				w.mu.Unlock()
				if !ok {
					// the reference admits this subscribe; the real code answered it (error) or dropped it
					code, got := errCode(id)
					if got && code == centrifuge.ErrorLimitExceeded.Code {
						fail("limit-too-early", fmt.Sprintf("subscribe to %s rejected with limit-exceeded below the limit", ch))
					} else {
						res.Drift("C37", fmt.Sprintf("subscribe to %s: no callback (code %d)", ch, code), steps)
						completed = 0
					}
				}
			case "limit":
				code, got := errCode(id)
				w.mu.Lock()
				_, admitted := w.cbs[name(ch)]
				w.mu.Unlock()
				if admitted {
					fail("limit-not-enforced:client", fmt.Sprintf("subscribe to %s admitted although the connection already holds %d channels (limit %d)", ch, len(all)+pending(w, bi), limit))
				} else if !got || code != centrifuge.ErrorLimitExceeded.Code {
					fail("limit-wrong-answer", fmt.Sprintf("subscribe at the limit answered with code %d (got reply: %v), expected limit exceeded %d", code, got, centrifuge.ErrorLimitExceeded.Code))
				}
			case "already":
				code, got := errCode(id)
				if !got || code != centrifuge.ErrorAlreadySubscribed.Code {
					res.Drift("C37", fmt.Sprintf("duplicate subscribe answered with code %d", code), steps)
					completed = 0
				}
			}
		case "CbOk", "CbErr":
			w.mu.Lock()
			cb := w.cbs[name(ch)]
			delete(w.cbs, name(ch))
			w.mu.Unlock()
			if cb == nil {
				res.Drift("C37", "no captured callback for "+ch, steps)
				completed = 0
				break
			}
			if act == "CbOk" {
				cb(centrifuge.SubscribeReply{}, nil)
				if code, got := errCode(subIDs[ch]); !got || code != 0 {
					res.Drift("C37", fmt.Sprintf("subscribe %s completion: code %d", ch, code), steps)
					completed = 0
				}
				clientSide[ch], all[ch] = true, true
			} else {
				cb(centrifuge.SubscribeReply{}, centrifuge.ErrorPermissionDenied)
				errCode(subIDs[ch])
			}
		case "Unsub":
			id := conn.NextID()
			conn.Do(&protocol.Command{Id: id, Unsubscribe: &protocol.UnsubscribeRequest{Channel: name(ch)}})
			errCode(id)
			delete(clientSide, ch)
			delete(all, ch)
		case "SSub":
			err := conn.Client.Subscribe(name(ch))
			switch want {
			case "ok":
				if err != nil {
					fail("server-subscribe-refused", fmt.Sprintf("server-side subscribe below the limit failed: %v", err))
				} else {
					all[ch] = true
				}
			case "already":
				if err == nil {
					res.Drift("C37", "duplicate server-side subscribe accepted", steps)
					completed = 0
				}
			case "disconnect-limit":
				closed := conn.T.WaitFor(2*time.Second, func(_ []*protocol.Reply, c bool) bool { return c })
				_, d := conn.T.Closed()
				if !closed {
					if conn.Client.IsSubscribed(name(ch)) {
						fail("limit-not-enforced:server", fmt.Sprintf("server-side subscribe to %s succeeded at the channel limit %d", ch, limit))
					} else {
						fail("limit-no-disconnect:server", "server-side subscribe at the channel limit did not disconnect the connection")
					}
				} else if d.Code != centrifuge.DisconnectChannelLimit.Code {
					fail("limit-wrong-disconnect", fmt.Sprintf("disconnect code %d, expected channel limit %d", d.Code, centrifuge.DisconnectChannelLimit.Code))
				}
			}
		case "LongName":
			id := conn.NextID()
			conn.Do(&protocol.Command{Id: id, Subscribe: &protocol.SubscribeRequest{Channel: strings.Repeat("x", 300)}})
			code, got := errCode(id)
			w.mu.Lock()
			_, admitted := w.cbs[strings.Repeat("x", 300)]
			delete(w.cbs, strings.Repeat("x", 300))
			w.mu.Unlock()
			if admitted || !got || code == 0 {
				fail("long-channel-accepted", fmt.Sprintf("subscribe to a 300-byte channel name was not rejected (code %d, handler called %v)", code, admitted))
			}
		case "Block":
			conn.Barrier(time.Second)
			block.Store(true)
			if _, err := w.env.Node.Publish(name(subscribedChan()), []byte(payload)); err != nil {
				res.Drift("C37", err.Error(), steps)
				completed = 0
				break
			}
			if !gate.WaitArrived(2 * time.Second) {
				res.Drift("C37", "writer did not reach Transport.Write", steps)
				completed = 0
			}
		case "Push":
			if _, err := w.env.Node.Publish(name(subscribedChan()), []byte(payload)); err != nil {
				res.Drift("C37", err.Error(), steps)
				completed = 0
				break
			}
			if want == "slow" {
				closed := conn.T.WaitFor(1500*time.Millisecond, func(_ []*protocol.Reply, c bool) bool { return c })
				if !closed {
					gate.Release() // close() may wait for the in-flight write
					closed = conn.T.WaitFor(1500*time.Millisecond, func(_ []*protocol.Reply, c bool) bool { return c })
				}
				_, d := conn.T.Closed()
				if !closed {
					fail("queue-limit-not-enforced", fmt.Sprintf("pending bytes exceed ClientQueueMaxSize (%d queued pushes, limit %d) but the connection stays open", vh.Int(beh[si]["q"]), qmax))
				} else if d.Code != centrifuge.DisconnectSlow.Code {
					fail("queue-limit-wrong-disconnect", fmt.Sprintf("disconnect code %d, expected slow %d", d.Code, centrifuge.DisconnectSlow.Code))
				}
			} else {
				time.Sleep(5 * time.Millisecond)
				if closed, d := conn.T.Closed(); closed {
					fail("queue-limit-too-early", fmt.Sprintf("connection closed (code %d) with %d queued pushes, limit %d", d.Code, vh.Int(beh[si]["q"]), qmax))
				} else if w.env.Node.Hub().NumClients() == 0 {
					fail("queue-limit-too-early", fmt.Sprintf("connection is being closed with %d queued pushes, limit %d", vh.Int(beh[si]["q"]), qmax))
				}
			}
		}
		// invariant on the real connection: never more channels than the limit
		if n := len(conn.Client.Channels()); n > limit {
			fail("more-than-limit", fmt.Sprintf("connection holds %d subscriptions, limit %d", n, limit))
		}
	}
	if completed == 1 {
		res.Distinct(vh.J(steps))
	}
	if bi < 2 {
		res.Sample(steps)
	}
	res.Done(1, completed)
}

func pending(w *worker, bi int) int {
	w.mu.Lock()
	defer w.mu.Unlock()
	n := 0
	p := fmt.Sprintf("%06d_", bi%1000000)
	for k := range w.cbs {
		if strings.HasPrefix(k, p) {
			n++
		}
	}
	return n
}

func replay(raw json.RawMessage, res *vh.Result) error {
	var ri in
	if err := json.Unmarshal(raw, &ri); err != nil {
		return err
	}
	unit, err := measureUnit()
	if err != nil {
		return err
	}
	res.Extra["unit_bytes"] = unit
	const nw = 8
	var wg sync.WaitGroup
	jobs := make(chan int)
	for i := 0; i < nw; i++ {
		w, err := newEnv(ri.L, ri.QMax*unit)
		if err != nil {
			return err
		}
		wg.Add(1)
		go func() {
			defer wg.Done()
			defer w.env.Close()
			for bi := range jobs {
				w.run(bi, ri.Behaviours[bi], ri.L, ri.QMax, res)
			}
		}()
	}
	for bi := range ri.Behaviours {
		jobs <- bi
	}
	close(jobs)
	wg.Wait()
	return nil
}

// burst: the reservation that enforces the channel limit is check-and-reserve in ONE critical section (Limits.tla
// CSub is one action). The probe issues subscribe commands for different channels concurrently on one connection
// (as concurrent emulation/HTTP requests of one session do) and counts what the connection holds afterwards.
func burst(raw json.RawMessage, res *vh.Result) error {
	var cfg struct {
		Rounds int `json:"rounds"`
		L      int `json:"l"`
	}
	_ = json.Unmarshal(raw, &cfg)
	env, err := cl.NewEnv(centrifuge.Config{LogLevel: centrifuge.LogLevelNone, ClientChannelLimit: cfg.L})
	if err != nil {
		return err
	}
	if err := env.Run(); err != nil {
		return err
	}
	defer env.Close()
	const par = 16
	for r := 0; r < cfg.Rounds; r++ {
		conn, err := env.NewConn("u", centrifuge.ProtocolTypeJSON)
		if err != nil {
			return err
		}
		conn.Connect()
		var start atomic.Bool // spin start: all goroutines enter HandleCommand within the same microsecond
		var wg sync.WaitGroup
		ids := make([]uint32, par)
		for i := 0; i < par; i++ {
			ids[i] = conn.NextID()
			wg.Add(1)
			go func(i int) {
				defer wg.Done()
				for !start.Load() {
				}
				conn.Do(&protocol.Command{Id: ids[i], Subscribe: &protocol.SubscribeRequest{Channel: fmt.Sprintf("b%d_%d", r, i)}})
			}(i)
		}
		time.Sleep(200 * time.Microsecond)
		start.Store(true)
		wg.Wait()
		conn.Barrier(2 * time.Second)
		held := len(conn.Client.Channels())
		okReplies, limitReplies := 0, 0
		for _, rep := range conn.Frames() {
			if rep.Subscribe != nil {
				okReplies++
			}
			if rep.Error != nil && rep.Error.Code == centrifuge.ErrorLimitExceeded.Code {
				limitReplies++
			}
		}
		if held > cfg.L || okReplies > cfg.L {
			res.Violate("C37", "limit-not-enforced:concurrent-subscribes", fmt.Sprintf("%d concurrent client subscribes on one connection: it holds %d subscriptions (%d successful replies, %d limit-exceeded), ClientChannelLimit is %d", par, held, okReplies, limitReplies, cfg.L), map[string]any{"round": r, "held": held})
		} else if okReplies+limitReplies != par {
			res.Drift("C37", fmt.Sprintf("burst: %d ok + %d limit replies for %d subscribes", okReplies, limitReplies, par), nil)
		}
		res.Done(1, 1)
		conn.Client.Disconnect()
	}
	res.Distinct("burst-rounds")
	res.Distinct(fmt.Sprintf("burst-%d", cfg.Rounds))
	return nil
}

// timermode: the queue limit must also hold for connections whose writer runs in timer mode (ConnectReply
// WriteDelay + WriteWithTimer): pushes enqueued while a flush is already scheduled accumulate until the timer fires.
func timermode(raw json.RawMessage, res *vh.Result) error {
	var cfg struct {
		QMax int `json:"qmax"`
		N    int `json:"n"`
	}
	_ = json.Unmarshal(raw, &cfg)
	unit, err := measureUnit()
	if err != nil {
		return err
	}
	for i := 0; i < cfg.N; i++ {
		for _, over := range []bool{false, true} {
			env, err := cl.NewEnv(centrifuge.Config{LogLevel: centrifuge.LogLevelNone, ClientQueueMaxSize: cfg.QMax * unit})
			if err != nil {
				return err
			}
			env.OnConnecting = func(_ context.Context, _ centrifuge.ConnectEvent) (centrifuge.ConnectReply, error) {
				return centrifuge.ConnectReply{WriteDelay: 400 * time.Millisecond, WriteWithTimer: true}, nil
			}
			if err := env.Run(); err != nil {
				return err
			}
			conn, _ := env.NewConn("u", centrifuge.ProtocolTypeJSON)
			conn.Connect()
			ch := "000000_a"
			if err := conn.Client.Subscribe(ch); err != nil {
				env.Close()
				return err
			}
			// wait until the subscribe push was flushed by the timer: the queue is empty, no flush is scheduled
			conn.T.WaitFor(3*time.Second, func(rs []*protocol.Reply, _ bool) bool {
				for _, r := range rs {
					if r.Push != nil && r.Push.Subscribe != nil {
						return true
					}
				}
				return false
			})
			time.Sleep(20 * time.Millisecond)
			n := cfg.QMax
			if over {
				n = cfg.QMax + 1
			}
			t0 := time.Now()
			for k := 0; k < n; k++ {
				_, _ = env.Node.Publish(ch, []byte(payload))
			}
			burstTook := time.Since(t0)
			closed := conn.T.WaitFor(250*time.Millisecond, func(_ []*protocol.Reply, c bool) bool { return c })
			if !closed {
				closed = env.Node.Hub().NumClients() == 0
			}
			_, d := conn.T.Closed()
			if burstTook > 300*time.Millisecond {
				res.Count("timermode-discarded-slow-machine", 1) // pushes did not fit into one flush interval: not judged
			} else if over && !closed {
				res.Violate("C37", "queue-limit-not-enforced:timer-mode", fmt.Sprintf("timer-mode writer: %d pushes of %d bytes queued within one flush interval exceed ClientQueueMaxSize %d but the connection stays open", n, unit, cfg.QMax*unit), map[string]any{"pushes": n, "unit": unit})
			} else if over && closed && d.Code != 0 && d.Code != centrifuge.DisconnectSlow.Code {
				res.Violate("C37", "queue-limit-wrong-disconnect:timer-mode", fmt.Sprintf("disconnect code %d", d.Code), nil)
			} else if !over && closed {
				res.Violate("C37", "queue-limit-too-early:timer-mode", fmt.Sprintf("timer-mode writer: connection closed with %d pushes (%d bytes) queued, limit %d", n, n*unit, cfg.QMax*unit), nil)
			}
			res.Distinct(fmt.Sprintf("timer-%v", over))
			res.Done(1, 1)
			env.Close()
		}
	}
	return nil
}

// closeflush (C12): Writer.tla takes "drain a batch and write it" as one step of the writer under its mutex, so a
// close with flush waits for a write in flight and then writes the rest: the transport sees queue order. The probe
// parks the connection's writer inside Transport.Write with one publication in flight, queues more, disconnects
// with flush from another goroutine, then releases the write.
func closeflush(raw json.RawMessage, res *vh.Result) error {
	var cfg struct {
		N int `json:"n"`
	}
	_ = json.Unmarshal(raw, &cfg)
	if cfg.N == 0 {
		cfg.N = 3
	}
	env, err := cl.NewEnv(centrifuge.Config{LogLevel: centrifuge.LogLevelNone})
	if err != nil {
		return err
	}
	if err := env.Run(); err != nil {
		return err
	}
	defer env.Close()
	for i := 0; i < cfg.N; i++ {
		t := cl.NewTransport(centrifuge.ProtocolTypeJSON)
		var block atomic.Bool
		gate := cl.NewGate()
		t.OnWrite = func(int) {
			if block.CompareAndSwap(true, false) {
				gate.Arrive(10 * time.Second)
			}
		}
		conn, _ := env.NewConnT("u", t)
		conn.Connect()
		ch := fmt.Sprintf("cf%d_%d", vh.Seed(), i)
		if err := conn.Client.Subscribe(ch); err != nil {
			return err
		}
		conn.Barrier(2 * time.Second)
		block.Store(true)
		_, _ = env.Node.Publish(ch, []byte("0"))
		if !gate.WaitArrived(2 * time.Second) {
			res.Drift("C12", "closeflush: writer did not reach Transport.Write", nil)
			continue
		}
		for k := 1; k <= 3; k++ {
			_, _ = env.Node.Publish(ch, []byte(strconv.Itoa(k)))
		}
		conn.Client.Disconnect(centrifuge.DisconnectForceNoReconnect) // flushes what is queued
		time.Sleep(150 * time.Millisecond)
		gate.Release()
		conn.T.WaitFor(3*time.Second, func(_ []*protocol.Reply, c bool) bool { return c })
		var got []string
		for _, r := range conn.T.Replies() {
			if r.Push != nil && r.Push.Channel == ch && r.Push.Pub != nil {
				got = append(got, string(r.Push.Pub.Data))
			}
		}
		replay := map[string]any{"probe": "write of publication 0 parked in Transport.Write; publications 1-3 queued; Disconnect (flush); write released", "transport_received": got}
		want := []string{"0", "1", "2", "3"}
		ok := len(got) == len(want)
		for j := 0; ok && j < len(want); j++ {
			ok = got[j] == want[j]
		}
		if !ok {
			res.Violate("C12", "close-flush-order", fmt.Sprintf("close with flush while a write was in flight: the transport received publications %v, queued order is %v", got, want), replay)
		}
		res.Distinct("closeflush")
		res.Sample(replay)
		res.Done(1, 1)
	}
	return nil
}

func main() {
	vh.Main(map[string]vh.Mode{"replay": replay, "burst": burst, "timermode": timermode, "closeflush": closeflush})
}
