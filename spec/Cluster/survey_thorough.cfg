SPECIFICATION Spec
CONSTANTS
  Nodes = {"n2", "n3"}
  Extra = {"x"}
  MaxSurveys = 2
  MaxDeliver = 5
  LocalModes = {"sync", "async", "never"}
  DupOK = TRUE
  Causal = TRUE
  LocalSend = "nonblocking"
VIEW View
INVARIANTS TypeOK HeardAreReturned RegistryIsInFlight RegistryEmptyAfterAll ResultsAreOwnAnswers ReturnedIsCollected WaitsOnlyWhileIncomplete EndsForAReason ErrIffDeadline NoStuckSurvey NoBlockedCallback CanFinish
CHECK_DEADLOCK FALSE
