package main

import (
	"encoding/json"
	"fmt"
	"runtime"
	"sync/atomic"
	"time"

	"github.com/centrifugal/centrifuge"

	"verifharness/vh"
)

// ---- probe: jobs QUEUED at Close must never start (C40) -----------------------------------------------------------
//
// Class split of "a job started after Close() returned", computed from what the harness can observe:
//   * a worker had already REMOVED the job from the queue when Close took effect and called it afterwards: the known
//     behaviour of the code (at most one per worker, needs a preemption between queue.Wait() returning and the first
//     statement of the job)                                        -> dissolve:job-started-after-close-returned
//   * the job was still IN THE QUEUE when Close took effect (Close must discard the queue atomically, Dissolve.tla
//     QueuedAtCloseNeverStarts)                                    -> dissolve:queued-jobs-run-after-close
// The probe makes the second class deterministic and the first one (nearly) impossible: GOMAXPROCS(1), every worker
// parked in cond.Wait (settled), k = numWorkers Submits back-to-back and then Close with no blocking call in between.
// On one P the woken workers cannot run before this goroutine blocks, i.e. not before Close has emptied the queue:
// with the code as it is no job can start at all; a late start needs an asynchronous preemption inside the few
// microseconds of the sequence, >= 2 of them in one round and again in its immediate re-execution is not a coincidence.

type probeIn struct {
	Rounds  int `json:"rounds"`
	Workers int `json:"workers"`
}

type probeRound struct {
	Late     []int `json:"late"`      // jobs whose first statement ran after Close() had returned
	Early    []int `json:"early"`     // jobs that started before Close returned (preempted sequence)
	CloseSeq int64 `json:"close_seq"` // sequence number taken right after Close() returned
}

func probeOnce(k int) (r probeRound) {
	d := centrifuge.VerifWNewDissolver(k)
	_ = d.Run()
	// settle: on one P this goroutine sleeping lets every worker run until it parks in cond.Wait
	for i := 0; i < 3; i++ {
		time.Sleep(500 * time.Microsecond)
		runtime.Gosched()
	}
	var seq atomic.Int64
	starts := make([]atomic.Int64, k+1)
	jobs := make([]func() error, k+1)
	for j := 1; j <= k; j++ {
		j := j
		jobs[j] = func() error {
			starts[j].Store(seq.Add(1)) // first statement of the job
			return nil
		}
	}
	// ---- no blocking call from here ...
	for j := 1; j <= k; j++ {
		_ = centrifuge.VerifWSubmit(d, jobs[j])
	}
	_ = d.Close()
	closeSeq := seq.Add(1)
	// ---- ... to here
	for i := 0; i < 4; i++ {
		time.Sleep(500 * time.Microsecond)
		runtime.Gosched()
	}
	r.CloseSeq = closeSeq
	for j := 1; j <= k; j++ {
		s := starts[j].Load()
		if s == 0 {
			continue
		}
		if s > closeSeq {
			r.Late = append(r.Late, j)
		} else {
			r.Early = append(r.Early, j)
		}
	}
	return r
}

func dissolveProbe(in json.RawMessage, res *vh.Result) error {
	var a probeIn
	if err := json.Unmarshal(in, &a); err != nil {
		return err
	}
	if a.Workers <= 0 {
		a.Workers = 4
	}
	old := runtime.GOMAXPROCS(1)
	defer runtime.GOMAXPROCS(old)
	for round := 0; round < a.Rounds; round++ {
		r := probeOnce(a.Workers)
		res.Count("probe_rounds", 1)
		completed := 1
		if len(r.Early) > 0 {
			res.Count("probe_rounds_preempted", 1) // the sequence was preempted before Close: the round says nothing
		}
		if len(r.Late) >= 2 {
			again := probeOnce(a.Workers) // confirm by immediate re-execution
			replay := map[string]any{"workers": a.Workers, "round": round, "first": r, "re_execution": again}
			if len(again.Late) >= 2 {
				res.Violate("C40", "dissolve:queued-jobs-run-after-close",
					fmt.Sprintf("probe (GOMAXPROCS(1), %d workers parked, %d Submits then Close with no blocking call in between): jobs %v started after Close() had returned, "+
						"and again jobs %v in the immediate re-execution -- these jobs were still in the queue when Close took effect (the woken workers cannot run before Close returns on one P); "+
						"Close must discard the queue atomically", a.Workers, a.Workers, r.Late, again.Late), replay)
			} else {
				res.Violate("C40", "dissolve:job-started-after-close-returned",
					fmt.Sprintf("probe: jobs %v started after Close() had returned in one round, not confirmed by the re-execution (late there: %v)", r.Late, again.Late), replay)
			}
			completed = 0
		} else if len(r.Late) == 1 {
			res.Violate("C40", "dissolve:job-started-after-close-returned",
				fmt.Sprintf("probe: job %v started after Close() had returned (single late start in a round: a worker preempted between dequeue and call)", r.Late),
				map[string]any{"workers": a.Workers, "round": round, "first": r})
			completed = 0
		}
		res.Done(1, completed)
		if completed == 0 && len(res.Violations) >= 2 {
			break
		}
	}
	return nil
}

// ---- stress: a job submitted while the only worker goes idle must still be executed (C40) ----------------------------
//
// queue.Wait must check "queue empty" and park on the condition variable in one critical section (Dissolve.tla,
// AtomicWait / SomeoneWillLook).  If it does not, a Submit landing in between is signalled to nobody: the job sits in an
// open queue with the only worker asleep.  Several single-worker dissolvers; for each a submitter chains jobs, submitting
// the next one a swept number of spins after the previous job's last statement, i.e. around the moment the worker finds
// the queue empty and parks.  Watchdog: a job not started 3 s after its accepted Submit, nothing closed, no further
// Submit -> after 2 more seconds of silence one more job is submitted: if both then run at once the worker was parked.

type stressIn struct {
	Dissolvers int `json:"dissolvers"`
	Millis     int `json:"millis"`
}

type stressOut struct {
	attempts  int64
	stranded  bool
	job       int64
	sweep     int
	waitedMs  int64
	wokenByMs int64 // how fast the stranded job ran once another Submit signalled the worker (-1: it did not)
}

func stressOne(deadline time.Time, seed int) (out stressOut) {
	d := centrifuge.VerifWNewDissolver(1)
	_ = d.Run()
	defer func() { _ = d.Close() }()
	var started atomic.Int64 // id of the last job whose run has completed its last statement
	mk := func(id int64) func() error {
		return func() error {
			started.Store(id) // single worker: jobs run one at a time, in order
			return nil
		}
	}
	var id int64
	sink := 0
	sweep := seed
	for time.Now().Before(deadline) {
		for burst := 0; burst < 4096; burst++ {
			id++
			if err := centrifuge.VerifWSubmit(d, mk(id)); err != nil {
				return out
			}
			out.attempts++
			// wait for the job (spin: the point is to come back the instant the worker goes idle)
			spins := 0
			t0 := time.Time{}
			for started.Load() != id {
				spins++
				if spins&0xFFFF == 0 {
					if t0.IsZero() {
						t0 = time.Now()
					} else if time.Since(t0) > 3*time.Second {
						// stranded? stay silent for 2 more seconds, then let another Submit signal the worker
						time.Sleep(2 * time.Second)
						if started.Load() == id {
							break
						}
						out.stranded, out.job, out.sweep = true, id, sweep%256
						out.waitedMs = time.Since(t0).Milliseconds()
						t1 := time.Now()
						_ = centrifuge.VerifWSubmit(d, mk(id+1))
						out.wokenByMs = -1
						for time.Since(t1) < 2*time.Second {
							if started.Load() == id+1 {
								out.wokenByMs = time.Since(t1).Milliseconds()
								break
							}
							time.Sleep(50 * time.Microsecond)
						}
						return out
					}
					runtime.Gosched()
				}
			}
			// the worker is now returning from the job into queue.Wait(): sweep a tiny delay before the next Submit
			sweep++
			for i := 0; i < sweep%256; i++ {
				sink += i
			}
		}
	}
	_ = sink
	return out
}

func dissolveStress(in json.RawMessage, res *vh.Result) error {
	var a stressIn
	if err := json.Unmarshal(in, &a); err != nil {
		return err
	}
	if a.Dissolvers <= 0 {
		a.Dissolvers = 4
	}
	if p := runtime.GOMAXPROCS(0); a.Dissolvers*2 > p { // a spinning submitter and its worker need a P each
		a.Dissolvers = p / 2
		if a.Dissolvers < 1 {
			a.Dissolvers = 1
		}
	}
	deadline := time.Now().Add(time.Duration(a.Millis) * time.Millisecond)
	outs := make([]stressOut, a.Dissolvers)
	done := make(chan int)
	for i := range outs {
		go func(i int) {
			outs[i] = stressOne(deadline, i*61)
			done <- i
		}(i)
	}
	for range outs {
		<-done
	}
	for i, o := range outs {
		res.Count("stress_submits", int(o.attempts))
		completed := 1
		if o.stranded {
			woke := "and did not run even after a further Submit"
			if o.wokenByMs >= 0 {
				woke = fmt.Sprintf("and ran within %d ms of a further Submit signalling the worker (together with that job): the worker was parked on the condition variable with the job in the queue", o.wokenByMs)
			}
			res.Violate("C40", "dissolve:job-never-executed:worker-parked",
				fmt.Sprintf("single-worker dissolver %d, open, no further Submit: job %d (submitted ~%d spins after the previous job's last statement, i.e. while the worker went idle) was not executed for %d ms %s",
					i, o.job, o.sweep, o.waitedMs, woke),
				map[string]any{"dissolver": i, "job": o.job, "sweep_spins": o.sweep, "waited_ms": o.waitedMs, "woken_by_next_submit_ms": o.wokenByMs, "submits_before": o.attempts})
			completed = 0
		}
		res.Done(1, completed)
	}
	return nil
}
