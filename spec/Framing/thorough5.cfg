SPECIFICATION Spec
CONSTANTS Alphabet = {10, 13, 58, 32, 120}
          MaxMsgs = 2
          MaxLen1 = 4
          MaxLen2 = 4
          Table = FALSE
INVARIANTS SSEExact SSESem SplitExact SplitSem SplitSame NDExact NDSem PBExact PipeSSE PipeSplit PipeND SSEPlain
CHECK_DEADLOCK FALSE
