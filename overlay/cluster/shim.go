//go:build verif

package centrifuge

// Overlay-injected (never committed to /repo) for the `cluster` family (C27, C28, C41).
// Read-only accessors and a codec for control messages (internal/controlpb cannot be imported from the
// harness module). Nothing here changes the behaviour of the code under test.

import (
	"encoding/json"

	"github.com/centrifugal/centrifuge/internal/controlpb"
)

// VerifClusterChannelContext renders the ChannelContext a connection holds for a channel (read under c.mu).
func VerifClusterChannelContext(c *Client, ch string) (map[string]any, bool) {
	c.mu.RLock()
	defer c.mu.RUnlock()
	ctx, ok := c.channels[ch]
	if !ok {
		return nil, false
	}
	has := func(f uint16) bool { return ctx.flags&f != 0 }
	return map[string]any{
		"info":        string(ctx.info),
		"expire_at":   ctx.expireAt,
		"meta_ttl":    ctx.metaTTLSeconds,
		"source":      int(ctx.Source),
		"offset":      ctx.streamPosition.Offset,
		"has_epoch":   ctx.streamPosition.Epoch != "",
		"subscribed":  has(flagSubscribed),
		"presence":    has(flagEmitPresence),
		"join_leave":  has(flagEmitJoinLeave),
		"push_jl":     has(flagPushJoinLeave),
		"positioning": has(flagPositioning),
		"server_side": has(flagServerSide),
		"delta":       has(flagDeltaAllowed),
		"client_side_refresh": has(flagClientSideRefresh),
	}, true
}

// VerifClusterSession returns the (unexported) session id of a connection.
func VerifClusterSession(c *Client) string { return c.session }

// VerifClusterExp returns the connection expiration time (c.exp).
func VerifClusterExp(c *Client) int64 {
	c.mu.RLock()
	defer c.mu.RUnlock()
	return c.exp
}

// VerifClusterSurveyChan reports length and capacity of the response channel of an in-flight survey.
func VerifClusterSurveyChan(n *Node, id uint64) (int, int, bool) {
	n.surveyMu.RLock()
	defer n.surveyMu.RUnlock()
	ch, ok := n.surveyRegistry[id]
	if !ok {
		return 0, 0, false
	}
	return len(ch), cap(ch), true
}

// VerifClusterSurveyIDs lists the ids registered in the survey registry.
func VerifClusterSurveyIDs(n *Node) []uint64 {
	n.surveyMu.RLock()
	defer n.surveyMu.RUnlock()
	out := make([]uint64, 0, len(n.surveyRegistry))
	for id := range n.surveyRegistry {
		out = append(out, id)
	}
	return out
}

// VerifClusterNumNodes is the size of the node registry (what Survey uses as the number of expected answers).
func VerifClusterNumNodes(n *Node) int { return n.nodes.size() }

// VerifClusterEncodeSurveyResponse encodes the control command a node with the given uid would send as a survey answer.
func VerifClusterEncodeSurveyResponse(uid string, id uint64, code uint32, data []byte) ([]byte, error) {
	cmd := &controlpb.Command{Uid: uid, SurveyResponse: &controlpb.SurveyResponse{Id: id, Code: code, Data: data}}
	return cmd.MarshalVT()
}

// VerifClusterEncodeNode encodes the node-info control command of a (fake) node.
func VerifClusterEncodeNode(uid, name string) ([]byte, error) {
	cmd := &controlpb.Command{Uid: uid, Node: &controlpb.Node{Uid: uid, Name: name}}
	return cmd.MarshalVT()
}

// VerifClusterEncodeShutdown encodes the shutdown control command of a (fake) node (removes it from the registry).
func VerifClusterEncodeShutdown(uid string) ([]byte, error) {
	cmd := &controlpb.Command{Uid: uid, Shutdown: &controlpb.Shutdown{}}
	return cmd.MarshalVT()
}

func verifFilterJSON(f *controlpb.FilterNode) any {
	if f == nil {
		return nil
	}
	m := map[string]any{"op": f.Op, "key": f.Key, "cmp": f.Cmp, "val": f.Val}
	if len(f.Vals) > 0 {
		m["vals"] = f.Vals
	}
	var nodes []any
	for _, n := range f.Nodes {
		nodes = append(nodes, verifFilterJSON(n))
	}
	if nodes != nil {
		m["nodes"] = nodes
	}
	return m
}

// VerifClusterDecodeControl decodes a control message into a JSON-able map: {"uid":..,"kind":..,<fields as on the wire>}.
// Only fields with non-zero values are present (proto3 semantics: a zero value is not on the wire).
func VerifClusterDecodeControl(data []byte) (map[string]any, error) {
	var cmd controlpb.Command
	if err := cmd.UnmarshalVT(data); err != nil {
		return nil, err
	}
	out := map[string]any{"uid": cmd.Uid}
	f := map[string]any{}
	put := func(k string, v any) {
		switch x := v.(type) {
		case string:
			if x != "" {
				f[k] = x
			}
		case bool:
			if x {
				f[k] = x
			}
		case uint32:
			if x != 0 {
				f[k] = x
			}
		case uint64:
			if x != 0 {
				f[k] = x
			}
		case int64:
			if x != 0 {
				f[k] = x
			}
		case []byte:
			if len(x) > 0 {
				f[k] = string(x)
			}
		case []string:
			if len(x) > 0 {
				f[k] = x
			}
		default:
			if v != nil {
				f[k] = v
			}
		}
	}
	switch {
	case cmd.Node != nil:
		out["kind"] = "node"
		put("uid", cmd.Node.Uid)
	case cmd.Shutdown != nil:
		out["kind"] = "shutdown"
	case cmd.Subscribe != nil:
		s := cmd.Subscribe
		out["kind"] = "subscribe"
		put("user", s.User)
		put("channel", s.Channel)
		put("emit_presence", s.EmitPresence)
		put("emit_join_leave", s.EmitJoinLeave)
		put("expire_at", s.ExpireAt)
		put("position", s.Position)
		put("recover", s.Recover)
		put("channel_info", s.ChannelInfo)
		put("client", s.Client)
		put("data", s.Data)
		if s.RecoverSince != nil {
			f["recover_since"] = map[string]any{"offset": s.RecoverSince.Offset, "epoch": s.RecoverSince.Epoch}
		}
		put("session", s.Session)
		put("push_join_leave", s.PushJoinLeave)
		put("source", s.Source)
		if s.LabelFilter != nil {
			f["label_filter"] = verifFilterJSON(s.LabelFilter)
		}
		put("all_users", s.AllUsers)
	case cmd.Unsubscribe != nil:
		s := cmd.Unsubscribe
		out["kind"] = "unsubscribe"
		put("channel", s.Channel)
		put("user", s.User)
		put("client", s.Client)
		put("session", s.Session)
		put("code", s.Code)
		put("reason", s.Reason)
		if s.LabelFilter != nil {
			f["label_filter"] = verifFilterJSON(s.LabelFilter)
		}
		put("all_users", s.AllUsers)
	case cmd.Disconnect != nil:
		s := cmd.Disconnect
		out["kind"] = "disconnect"
		put("user", s.User)
		put("whitelist", s.Whitelist)
		put("code", s.Code)
		put("reason", s.Reason)
		put("reconnect", s.Reconnect)
		put("client", s.Client)
		put("session", s.Session)
		if s.LabelFilter != nil {
			f["label_filter"] = verifFilterJSON(s.LabelFilter)
		}
		put("all_users", s.AllUsers)
	case cmd.Refresh != nil:
		s := cmd.Refresh
		out["kind"] = "refresh"
		put("user", s.User)
		put("client", s.Client)
		put("expired", s.Expired)
		put("expire_at", s.ExpireAt)
		put("info", s.Info)
		put("session", s.Session)
		if s.LabelFilter != nil {
			f["label_filter"] = verifFilterJSON(s.LabelFilter)
		}
		put("all_users", s.AllUsers)
	case cmd.SurveyRequest != nil:
		out["kind"] = "survey_request"
		put("id", cmd.SurveyRequest.Id)
		put("op", cmd.SurveyRequest.Op)
		put("data", cmd.SurveyRequest.Data)
	case cmd.SurveyResponse != nil:
		out["kind"] = "survey_response"
		put("id", cmd.SurveyResponse.Id)
		put("code", cmd.SurveyResponse.Code)
		put("data", cmd.SurveyResponse.Data)
	case cmd.Notification != nil:
		out["kind"] = "notification"
		put("op", cmd.Notification.Op)
	default:
		out["kind"] = "unknown"
	}
	out["fields"] = f
	// make sure the result is JSON-able (defensive: callers marshal it)
	if _, err := json.Marshal(out); err != nil {
		return nil, err
	}
	return out, nil
}
