SPECIFICATION Spec
CONSTANTS MaxOff = 4
          MaxLen = 3
INVARIANT MergeProperty
CHECK_DEADLOCK FALSE
