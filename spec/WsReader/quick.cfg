SPECIFICATION Spec
CONSTANTS Tier = "quick"
INVARIANTS TypeOK ViolationsFail DeliveredAreReassemblies PingsAnswered LimitsEnforced CloseHandshake
CHECK_DEADLOCK FALSE
