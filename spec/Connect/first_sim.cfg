SPECIFICATION SimSpec
CONSTANTS
  Conns = {1, 2}
  MaxEnv = 5
  Urgent = TRUE
  Guard = TRUE
  SS = TRUE
  Exp = {}
  Pushes = TRUE
INVARIANTS TypeOK C08 C11_First
CHECK_DEADLOCK FALSE
