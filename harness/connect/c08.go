// C08 (and the bidirectional part of C11): gate replay of spec/Connect/ConnLife behaviours. One node per behaviour,
// up to two connections. The reader, tick and close threads of the real code are parked exactly where the model's
// pc says, inside calls through public interfaces the harness implements: the OnConnecting handler ("oc"),
// Transport.AcceptProtocol called by Node.addClient before the hub registration ("ac",
// Config.Metrics.ExposeTransportAcceptProtocol), Broker.Subscribe of a connect-time server-side subscription ("ss"),
// the OnConnect handler ("cn"), the OnAlive handler ("al"), Transport.Close ("tc"). The presence and expiry timers
// are fired through a harness TimerScheduler. Connection 2 of every other behaviour is unidirectional
// (Client.Connect instead of the connect command) when the behaviour sends it no further command.
// After every step the callback log and the frames of each connection are compared with the model and the C08
// monitors are evaluated on the REAL callback log. While a reader is parked inside OnConnect the model has no timer
// of the connection armed: a timer the connection armed since its connect began is fired there and the observable
// consequence (OnAlive / refresh handler running before OnConnect returned) is judged.
package main

import (
	"context"
	"encoding/json"
	"fmt"
	"strings"
	"sync"
	"time"

	"github.com/centrifugal/centrifuge"
	"github.com/centrifugal/protocol"

	"verifharness/cl"
	"verifharness/vh"
)

const gateWait = 3 * time.Second
const gateHold = 20 * time.Second

type conn8 struct {
	n           int
	conn        *cl.Conn
	t           *cl.Transport
	id          string
	ch          string
	mu          sync.Mutex
	log         []string
	gOC         *cl.Gate
	gAC         *cl.Gate
	gSS         *cl.Gate
	gCN         *cl.Gate
	gTC         *cl.Gate
	gAL         *cl.Gate // the current tick's gate
	reader      chan struct{}
	closer      chan struct{}
	aliveActive int
	overlap     bool
	pushKind    map[int]string
	windowPush  map[int]bool
	exp         bool // expiring credentials, server-side refresh
	uni         bool // unidirectional transport, Client.Connect
	seq0        int  // the scheduler's sequence number when the connect began
	earlyDone   bool
	twoClosers  bool // Shutdown's close() and an earlier close() both waited behind the reader: either may do the closing
}

// t8 is the recording transport plus the one natural gate cl.Transport does not offer: AcceptProtocol, which
// Node.addClient calls (Config.Metrics.ExposeTransportAcceptProtocol) after the connection was marked authenticated
// and BEFORE hub.add; Node.removeClient calls it again (the gate is open by then).
type t8 struct {
	*cl.Transport
	onAccept func()
}

func (t *t8) AcceptProtocol() string {
	if t.onAccept != nil {
		t.onAccept()
	}
	return ""
}

func (c *conn8) logCB(k string) {
	c.mu.Lock()
	c.log = append(c.log, k)
	c.mu.Unlock()
}

func (c *conn8) cbLog() []string {
	c.mu.Lock()
	defer c.mu.Unlock()
	return append([]string(nil), c.log...)
}

func (c *conn8) alGate() *cl.Gate {
	c.mu.Lock()
	defer c.mu.Unlock()
	return c.gAL
}

type run8 struct {
	env  *cl.Env
	gb   *cl.GateBroker
	sch  *sched
	ss   bool
	ssch string
	// pushes mode (C11): two more connect-time server-side subscriptions of connection 1, not gated: "b" (not
	// positioned) and "p" (positioned); ssch is the model's channel "a"
	pushes bool
	chB    string
	chP    string
	mu     sync.Mutex
	conns  map[int]*conn8
	byID   map[string]*conn8
	shut   chan struct{}
}

func (r *run8) byid(id string) *conn8 {
	r.mu.Lock()
	defer r.mu.Unlock()
	return r.byID[id]
}

func newRun8(ss, pushes bool, bi int) (*run8, error) {
	r := &run8{sch: &sched{}, ss: ss, pushes: pushes, conns: map[int]*conn8{}, byID: map[string]*conn8{}, ssch: fmt.Sprintf("ss8_%d_%d", vh.Seed(), bi)}
	r.chB, r.chP = r.ssch+"_b", r.ssch+"_p"
	env, err := cl.NewEnv(centrifuge.Config{
		LogLevel:                     centrifuge.LogLevelNone,
		ClientTimerScheduler:         r.sch,
		ClientPresenceUpdateInterval: 10 * time.Hour,
		ClientStaleCloseDelay:        10 * time.Hour,
		Metrics:                      centrifuge.MetricsConfig{ExposeTransportAcceptProtocol: true},
	})
	if err != nil {
		return nil, err
	}
	r.env = env
	gb, err := cl.NewGateBroker(env.Node)
	if err != nil {
		return nil, err
	}
	r.gb = gb
	gb.OnSubscribe = func(ch string) {
		if ch != r.ssch {
			return
		}
		r.mu.Lock()
		c := r.conns[1]
		r.mu.Unlock()
		if c != nil {
			c.gSS.Arrive(gateHold)
		}
	}
	env.Node.SetBroker(gb)
	env.OnConnecting = func(_ context.Context, ev centrifuge.ConnectEvent) (centrifuge.ConnectReply, error) {
		c := r.byid(ev.ClientID)
		rep := centrifuge.ConnectReply{Credentials: &centrifuge.Credentials{UserID: "u"}}
		if c == nil {
			return rep, nil
		}
		c.gOC.Arrive(gateHold)
		if c.exp {
			// the expiry timer (10 min) is armed before the first presence tick (5-10 h); the harness fires it
			rep.Credentials.ExpireAt = time.Now().Unix() + 600
		}
		if r.ss && c.n == 1 {
			rep.Subscriptions = map[string]centrifuge.SubscribeOptions{r.ssch: {}}
			if r.pushes {
				rep.Subscriptions[r.chB] = centrifuge.SubscribeOptions{}
				rep.Subscriptions[r.chP] = centrifuge.SubscribeOptions{EnablePositioning: true}
			}
		}
		return rep, nil
	}
	env.Setup = func(cc *centrifuge.Client) {
		c := r.byid(cc.ID())
		if c == nil {
			return
		}
		cc.OnAlive(func() {
			c.mu.Lock()
			c.log = append(c.log, "alive")
			c.aliveActive++
			c.mu.Unlock()
			if g := c.alGate(); g != nil {
				g.Arrive(gateHold)
			}
			c.mu.Lock()
			c.aliveActive--
			c.mu.Unlock()
		})
		cc.OnRefresh(func(_ centrifuge.RefreshEvent, cb centrifuge.RefreshCallback) {
			c.logCB("refresh")
			// the new deadline lies behind the presence tick (<= 10 h): the tick is what gets armed next
			cb(centrifuge.RefreshReply{ExpireAt: time.Now().Unix() + 100*3600}, nil)
		})
		cc.OnSubRefresh(func(_ centrifuge.SubRefreshEvent, cb centrifuge.SubRefreshCallback) {
			c.logCB("subrefresh")
			cb(centrifuge.SubRefreshReply{ExpireAt: time.Now().Unix() + 100*3600}, nil)
		})
		c.gCN.Arrive(gateHold)
		c.logCB("connect-ret") // the OnConnect handler returns right after this
	}
	env.Hook = func(ev cl.Event) {
		if c := r.byid(ev.Client); c != nil {
			switch ev.Kind {
			case "connecting", "connect", "subscribe", "unsubscribe", "disconnect":
				if ev.Ch != "" && (ev.Ch == r.chB || ev.Ch == r.chP) {
					return // the model has one connect-time subscription; the two extra ones only receive publications
				}
				c.mu.Lock()
				c.log = append(c.log, ev.Kind)
				if ev.Kind == "disconnect" && c.aliveActive > 0 {
					c.overlap = true
				}
				c.mu.Unlock()
			}
		}
	}
	if err := env.Run(); err != nil {
		return nil, err
	}
	return r, nil
}

func (c *conn8) frames() []f36 {
	var out []f36
	for _, rep := range c.t.Replies() {
		if isBarrierID(rep.Id) {
			continue
		}
		switch {
		case rep.Error != nil:
			out = append(out, f36{"error", int(rep.Error.Code)})
		case rep.Connect != nil:
			out = append(out, f36{"connect", 0})
		case rep.Subscribe != nil:
			out = append(out, f36{"subscribe", 0})
		case rep.Unsubscribe != nil:
			out = append(out, f36{"unsubscribe", 0})
		case rep.Push != nil && rep.Push.Disconnect != nil:
		case rep.Push != nil && rep.Push.Connect != nil:
			out = append(out, f36{"connect", 0}) // unidirectional: the connect push takes the place of the reply
		case rep.Push != nil && rep.Push.Message != nil:
			var n int
			_, _ = fmt.Sscanf(string(rep.Push.Message.Data), `{"n":%d}`, &n)
			out = append(out, f36{"push", n})
		case rep.Push != nil && rep.Push.Pub != nil:
			var n int
			_, _ = fmt.Sscanf(string(rep.Push.Pub.Data), `{"n":%d}`, &n)
			out = append(out, f36{"push", n})
		default:
			out = append(out, f36{"other:" + cl.Describe(rep), 0})
		}
	}
	if closed, d := c.t.Closed(); closed {
		out = append(out, f36{"disc", int(d.Code)})
	}
	return out
}

func isDone(ch chan struct{}) bool {
	select {
	case <-ch:
		return true
	default:
		return false
	}
}

func waitDone(ch chan struct{}, d time.Duration) bool {
	if ch == nil {
		return true
	}
	select {
	case <-ch:
		return true
	case <-time.After(d):
		return false
	}
}

// monitors8: C08 on the real callback log of one connection. established: subscriptions the client was told about.
func monitors8(k []string, established int, closedDone bool) []verdict {
	var vs []verdict
	count := func(x string) int {
		n := 0
		for _, e := range k {
			if e == x {
				n++
			}
		}
		return n
	}
	if count("connect") > 1 {
		vs = append(vs, verdict{"connect-twice", fmt.Sprintf("the connect callback ran %d times: %v", count("connect"), k)})
	}
	if count("disconnect") > 1 {
		vs = append(vs, verdict{"disconnect-twice", fmt.Sprintf("the disconnect callback ran %d times: %v", count("disconnect"), k)})
	}
	seenConnect, seenRet, seenDisc := false, false, false
	for _, e := range k {
		switch e {
		case "connect":
			if seenDisc {
				vs = append(vs, verdict{"connect-after-disconnect", fmt.Sprintf("connect callback after the disconnect callback: %v", k)})
			}
			seenConnect = true
		case "connect-ret":
			seenRet = true
		case "alive", "refresh", "subrefresh", "subscribe", "unsubscribe", "disconnect":
			timed := e == "alive" || e == "refresh" || e == "subrefresh"
			if !seenConnect {
				vs = append(vs, verdict{e + "-before-connect", fmt.Sprintf("the %s callback ran although the connect callback had not run: %v", e, k)})
			} else if timed && !seenRet {
				vs = append(vs, verdict{"order:" + e + "-before-connect-returned", fmt.Sprintf("the %s callback started while the connect callback was still running: %v", e, k)})
			}
			if timed && seenDisc {
				vs = append(vs, verdict{e + "-after-disconnect", fmt.Sprintf("%s callback after the disconnect callback: %v", e, k)})
			}
			if e == "disconnect" {
				seenDisc = true
			}
		}
	}
	if n := count("unsubscribe"); n > established {
		vs = append(vs, verdict{"unsubscribe-extra", fmt.Sprintf("%d unsubscribe callbacks for %d established subscriptions: %v", n, established, k)})
	} else if closedDone && seenConnect && n != established {
		vs = append(vs, verdict{"unsubscribe-missing", fmt.Sprintf("the connection ended with %d unsubscribe callbacks for %d established subscriptions: %v", n, established, k)})
	}
	return vs
}

func established(fr []f36, ssConn bool) int {
	n := 0
	for _, f := range fr {
		if f.T == "subscribe" || (f.T == "connect" && ssConn) {
			n++
		}
	}
	return n
}

func tlaSeq(v any, i int) any { return vh.List(v)[i-1] }

// run replays one behaviour; the returned key identifies a completed non-trivial behaviour ("" otherwise).
func (r *run8) run(bi int, beh []map[string]any, ss, pushes bool, res *vh.Result) (key string) {
	var steps []any
	completed := 1
	allConns := func() []*conn8 {
		var cs []*conn8
		for i := 1; i <= 2; i++ {
			if c := r.conns[i]; c != nil {
				cs = append(cs, c)
			}
		}
		return cs
	}
	replay := func() map[string]any {
		m := map[string]any{"ss": ss, "steps": steps}
		for _, c := range allConns() {
			m[fmt.Sprintf("conn%d", c.n)] = map[string]any{"callbacks": c.cbLog(), "frames": c.frames()}
		}
		return m
	}
	drift := func(prop, what string) {
		res.Drift(prop, fmt.Sprintf("%s (behaviour %d)", what, bi), replay())
		completed = 0
	}
	violate := func(prop, sig, what string) {
		res.Violate(prop, sig, fmt.Sprintf("%s (behaviour %d, steps %s)", what, bi, vh.J(steps)), replay())
		completed = 0
	}
	releaseAll := func() {
		for _, c := range allConns() {
			c.gOC.Release()
			c.gAC.Release()
			c.gSS.Release()
			c.gCN.Release()
			c.gTC.Release()
			if g := c.alGate(); g != nil {
				g.Release()
			}
		}
	}
	defer func() {
		releaseAll()
		for _, c := range allConns() {
			waitDone(c.reader, gateWait)
			c.conn.Cancel()
		}
		if r.shut == nil {
			r.env.Close()
		} else {
			waitDone(r.shut, 2*gateWait)
		}
	}()
	shutBegun, shutDone := false, false
	ended := false
	cbAtDone := map[int]int{}
	nontrivial := false
	// the real code did not refuse a connection although the node is shutting down / shut down: let everything run
	// to its end and look at what is connected then
	witnessShutdown := func(c *conn8, phase string) {
		releaseAll()
		waitDone(c.reader, gateWait)
		waitDone(r.shut, 2*gateWait)
		time.Sleep(20 * time.Millisecond)
		k := c.cbLog()
		connected, disc := false, false
		for _, e := range k {
			if e == "connect" {
				connected = true
			}
			if e == "disconnect" {
				disc = true
			}
		}
		closed, _ := c.t.Closed()
		steps = append(steps, map[string]any{"act": "witness: every gate released, Node.Shutdown returned"})
		if !connected || disc || closed {
			// refused by other means (the closed broker fails its server-side subscription, a close that was
			// already under way, ...): nothing is connected, which is all the property asks
			res.Count("refused_by_other_means", 1)
			return
		}
		if connected && !disc && !closed {
			violate("C08", "connected-after-shutdown:"+phase, fmt.Sprintf("connection %d completed its connect handshake %s (connect callback ran, transport open, Hub().NumClients() = %d) and nothing closes it", c.n, map[string]string{"during": "while Node.Shutdown was closing the connections it had found", "after": "after Node.Shutdown had returned"}[phase], r.env.Node.Hub().NumClients()))
		} else {
			drift("", fmt.Sprintf("connection %d was not refused as the model says, but it is not connected either: callbacks %v closed=%v", c.n, k, closed))
		}
	}
	// connection 2 of every other behaviour connects over a unidirectional transport (Client.Connect) unless the
	// behaviour sends it a command after the handshake
	uni2 := !pushes && bi%2 == 1
	for si := 1; si < len(beh) && uni2; si++ {
		step := vh.Map(beh[si]["step"])
		if v, ok := step["c"]; ok && vh.Int(v) == 2 {
			switch vh.Str(step["act"]) {
			case "Subscribe", "Unsubscribe", "DupConnect":
				uni2 = false
			}
		}
	}
	// The reader is parked inside the OnConnect handler. The model has no timer of the connection armed there; a timer
	// the connection armed since its connect began is not a reason to stop: a real scheduler may fire it at any
	// time, so it is fired and what the application then observes is judged by the monitors of this step.
	fireEarlyTimers := func(c *conn8) {
		if c.earlyDone {
			return
		}
		c.earlyDone = true
		var early []*vtimer
		for _, tm := range r.sch.active(c.id) {
			if tm.seq > c.seq0 {
				early = append(early, tm)
			}
		}
		if len(early) == 0 {
			return
		}
		res.Count("timer_armed_inside_onconnect", 1)
		steps = append(steps, map[string]any{"act": fmt.Sprintf("harness: %d timer(s) armed while the OnConnect handler of connection %d is still running: fired", len(early), c.n)})
		for _, tm := range early {
			r.sch.mu.Lock()
			tm.fired = true
			r.sch.mu.Unlock()
			tm.cb()
		}
		timedSeen := func() bool {
			for _, e := range c.cbLog() {
				if e == "alive" || e == "refresh" || e == "subrefresh" {
					return true
				}
			}
			return false
		}
		for dl := time.Now().Add(time.Second); !timedSeen() && time.Now().Before(dl); {
			time.Sleep(200 * time.Microsecond)
		}
		if !timedSeen() {
			res.Count("early_timer_without_consequence", 1)
		}
	}
	for si := 1; si < len(beh) && completed == 1; si++ {
		st := beh[si]
		step := vh.Map(st["step"])
		act := vh.Str(step["act"])
		steps = append(steps, step)
		var c *conn8
		cn := 0
		if v, ok := step["c"]; ok {
			cn = vh.Int(v)
			c = r.conns[cn]
		}
		mrd := func() string { return vh.Str(tlaSeq(st["rd"], cn)) }
		mcl := func() string { return vh.Str(tlaSeq(st["cl"], cn)) }
		if c != nil {
			r.sch.setOwner(c.id)
		}
		switch act {
		case "NewConn":
			t := cl.NewTransport(centrifuge.ProtocolTypeJSON)
			c = &conn8{n: cn, t: t, gOC: cl.NewGate(), gAC: cl.NewGate(), gSS: cl.NewGate(), gCN: cl.NewGate(), gTC: cl.NewGate(), ch: fmt.Sprintf("c8_%d_%d_%d", vh.Seed(), bi, cn)}
			if v, ok := step["exp"]; ok {
				c.exp = vh.Bool(v)
			}
			c.uni = cn == 2 && uni2
			t.SetUnidirectional(c.uni)
			t.OnClose = func(centrifuge.Disconnect) { c.gTC.Arrive(gateHold) }
			r.sch.setOwner(fmt.Sprintf("new%d", cn))
			ctx, cancel := context.WithCancel(context.Background())
			client, closeFn, err := centrifuge.NewClient(ctx, r.env.Node, &t8{Transport: t, onAccept: func() { c.gAC.Arrive(gateHold) }})
			if err != nil {
				cancel()
				drift("", "NewConn: "+err.Error())
				continue
			}
			conn := &cl.Conn{Env: r.env, Client: client, T: t, Cancel: cancel, CloseF: closeFn}
			c.conn, c.id = conn, conn.Client.ID()
			r.sch.rename(fmt.Sprintf("new%d", cn), c.id)
			r.mu.Lock()
			r.conns[cn], r.byID[c.id] = c, c
			r.mu.Unlock()
		case "ConnBegin":
			c.reader = make(chan struct{})
			c.seq0 = r.sch.lastSeq()
			go func(c *conn8) {
				defer close(c.reader)
				if c.uni {
					c.conn.Client.Connect(centrifuge.ConnectRequest{})
				} else {
					c.conn.Do(&protocol.Command{Id: 1, Connect: &protocol.ConnectRequest{}})
				}
			}(c)
			if mrd() == "oc" {
				if !c.gOC.WaitArrived(gateWait) {
					drift("", "the connect command did not reach the OnConnecting handler")
				}
			} else if !waitDone(c.reader, gateWait) {
				drift("", "the connect command on a closed connection did not return")
			}
		case "ConnAuth", "ConnReg", "ConnReply":
			refused := act == "ConnReg" && mrd() == "done" && len(vh.List(tlaSeq(st["spawned"], cn))) > 0 && (shutBegun || shutDone)
			switch act {
			case "ConnAuth":
				c.gOC.Release()
			case "ConnReg":
				c.gAC.Release()
			default:
				c.gSS.Release()
			}
			// where does the reader get to?
			at := ""
			deadline := time.Now().Add(gateWait)
			for at == "" && time.Now().Before(deadline) {
				switch {
				case act == "ConnAuth" && c.gAC.WaitArrived(50*time.Microsecond):
					at = "ac"
				case act == "ConnReg" && ss && cn == 1 && c.gSS.WaitArrived(50*time.Microsecond):
					at = "ss"
				case act != "ConnAuth" && c.gCN.WaitArrived(50*time.Microsecond):
					at = "cn"
				case isDone(c.reader):
					at = "done"
				}
			}
			if at == "ss" && pushes {
				// the two ungated connect-time subscriptions are in the hub once their Broker.Subscribe was called
				inHub := func() bool {
					b, p := false, false
					for _, x := range r.gb.CallLog() {
						b = b || x == "sub:"+r.chB
						p = p || x == "sub:"+r.chP
					}
					return b && p
				}
				for dl := time.Now().Add(gateWait); !inHub() && time.Now().Before(dl); {
					time.Sleep(100 * time.Microsecond)
				}
				if !inHub() {
					drift("", "the ungated connect-time subscriptions did not reach the broker")
				}
				time.Sleep(300 * time.Microsecond)
			}
			if at == "cn" {
				fireEarlyTimers(c)
			}
			if refused && at != "done" {
				phase := "during"
				if shutDone {
					phase = "after"
				}
				witnessShutdown(c, phase)
				ended = true
				break
			}
			if at == "done" && mrd() != "done" && (shutBegun || shutDone) {
				// a witness schedule of the unguarded model: the code under test refuses the connection instead
				c.gTC.Release()
				c.t.WaitFor(gateWait, func(_ []*protocol.Reply, closed bool) bool { return closed })
				if closed, d := c.t.Closed(); closed && d.Code == 3001 {
					res.Count("refused_on_shutdown", 1)
					ended = true
					break
				}
			}
			if at != mrd() {
				drift("", fmt.Sprintf("after %s the reader of connection %d is at %q, the model says %q", act, cn, at, mrd()))
			}
			nontrivial = true
		case "ConnDone":
			c.gCN.Release()
			// the reader is not parked anywhere after the handler: it arms the timers (the model's ConnArm) and returns
			if !waitDone(c.reader, gateWait) {
				drift("", "the connect command did not return after the OnConnect handler")
			}
		case "ConnArm":
			// scheduleOnConnectTimers ran before the reader returned (awaited by ConnDone); the timer steps check what is armed
		case "TimerExpire":
			seq := r.sch.lastSeq()
			if _, n, ok := r.sch.fire(c.id); !ok {
				drift("", fmt.Sprintf("expected one armed timer (expiry) for connection %d, found %d", cn, n))
				continue
			}
			// expire() runs on its own goroutine: refresh handler, its answer, the next timer armed
			if !r.sch.waitArmed(c.id, seq, gateWait) {
				drift("", fmt.Sprintf("no timer was armed after the refresh of connection %d", cn))
			}
			nontrivial = true
		case "Subscribe":
			id := c.conn.NextID() + 10
			c.conn.Do(&protocol.Command{Id: id, Subscribe: &protocol.SubscribeRequest{Channel: c.ch}})
			c.conn.WaitReply(id, gateWait)
		case "DupConnect":
			c.conn.Do(&protocol.Command{Id: 99, Connect: &protocol.ConnectRequest{}})
			nontrivial = true
		case "Unsubscribe":
			ch := c.ch
			if ss && cn == 1 {
				// whichever subscription is live: the connect-time one unless a client-side one was made
				if !c.conn.Client.IsSubscribed(c.ch) {
					ch = r.ssch
				}
			}
			id := c.conn.NextID() + 10
			c.conn.Do(&protocol.Command{Id: id, Unsubscribe: &protocol.UnsubscribeRequest{Channel: ch}})
			c.conn.WaitReply(id, gateWait)
		case "TickBegin":
			g := cl.NewGate()
			c.mu.Lock()
			c.gAL = g
			c.mu.Unlock()
			if _, n, ok := r.sch.fire(c.id); !ok {
				drift("", fmt.Sprintf("expected one armed timer for connection %d, found %d", cn, n))
				continue
			}
			arrived := false
			for try := 0; try < 3 && !arrived; try++ {
				if arrived = g.WaitArrived(time.Second); arrived {
					break
				}
				// a tick that finds the previous tick's goroutine still finishing only re-arms: fire again
				if _, _, ok := r.sch.fire(c.id); !ok {
					break
				}
			}
			if !arrived && !g.WaitArrived(gateWait) {
				drift("", "the presence tick did not reach the OnAlive handler")
			}
			nontrivial = true
		case "TickEnd":
			n0 := ticksDone(c.id)
			if g := c.alGate(); g != nil {
				g.Release()
			}
			waitTickDone(c.id, n0, gateWait)
		case "Disconnect":
			c.conn.Client.Disconnect()
		case "TransportClose":
			done := make(chan struct{})
			c.closer = done
			go func(c *conn8) { defer close(done); _ = c.conn.CloseF() }(c)
		case "CloseStart":
			if mcl() == "tc" && vh.Int(tlaSeq(st["who"], cn)) == vh.Int(step["code"]) && vh.Str(tlaSeq(beh[si-1]["cl"], cn)) == "none" {
				if !c.gTC.WaitArrived(gateWait) {
					if vh.Int(step["code"]) == 3001 {
						// Node.Shutdown did not start closing a connection that was registered when it began
						releaseAll()
						returned := waitDone(r.shut, gateWait)
						if closed, _ := c.t.Closed(); !closed {
							violate("C08", "still-connected-after-shutdown", fmt.Sprintf("connection %d was connected when Node.Shutdown began; Shutdown returned=%v and the connection is still open (Hub().NumClients() = %d)", cn, returned, r.env.Node.Hub().NumClients()))
							continue
						}
					}
					drift("", fmt.Sprintf("close(%d) of connection %d did not reach Transport.Close", vh.Int(step["code"]), cn))
				}
				nontrivial = true
			} else {
				time.Sleep(300 * time.Microsecond)
			}
		case "CloseXmit":
			c.gTC.Release()
			c.t.WaitFor(gateWait, func(_ []*protocol.Reply, closed bool) bool { return closed })
		case "ShutBegin":
			r.shut = make(chan struct{})
			go func() {
				defer close(r.shut)
				ctx, cancel := context.WithTimeout(context.Background(), gateHold)
				defer cancel()
				_ = r.env.Node.Shutdown(ctx)
			}()
			// the flag is set and the hub snapshot taken before any close can reach a gate
			select {
			case <-r.env.Node.NotifyShutdown():
			case <-time.After(gateWait):
				drift("", "Node.Shutdown did not set the shutdown flag")
			}
			// ... and the hub snapshot must be taken before the behaviour goes on: with an empty hub Shutdown returns,
			// otherwise the closers it spawned show up at their gates (the next steps wait for them) - unless they
			// are blocked behind a reader, for which there is nothing to observe but time
			empty := true
			for _, x := range vh.List(st["shc"]) {
				if vh.Str(x) != "none" {
					empty = false
				}
			}
			if empty {
				if !waitDone(r.shut, gateWait) {
					drift("", "Node.Shutdown did not return although no connection was registered")
				}
			} else {
				time.Sleep(30 * time.Millisecond)
			}
			shutBegun = true
			for _, cc := range allConns() {
				if vh.Str(tlaSeq(st["rd"], cc.n)) == "cn" && len(vh.List(tlaSeq(st["spawned"], cc.n))) > 1 {
					cc.twoClosers = true
					// Shutdown's close() of this connection has to wait behind the close() already blocked on connectMu:
					// Shutdown must not return (some time for a Shutdown that does)
					waitDone(r.shut, 300*time.Millisecond)
				}
			}
		case "ShutDone":
			if !waitDone(r.shut, gateWait) {
				drift("", "Node.Shutdown did not return although every connection it found is closed")
				continue
			}
			shutDone = true
			for _, cc := range allConns() {
				cbAtDone[cc.n] = len(cc.cbLog())
			}
			nontrivial = true
		case "Push":
			n := vh.Int(step["n"])
			kind := vh.Str(step["kind"])
			c.mu.Lock()
			if c.pushKind == nil {
				c.pushKind = map[int]string{}
				c.windowPush = map[int]bool{}
			}
			c.pushKind[n] = kind
			c.windowPush[n] = vh.Bool(step["window"])
			c.mu.Unlock()
			data := []byte(fmt.Sprintf(`{"n":%d}`, n))
			if kind == "send" {
				for _, cc := range r.env.Node.Hub().Connections() {
					if cc.ID() == c.id {
						_ = cc.Send(data)
					}
				}
			} else {
				ch := r.ssch
				var opts []centrifuge.PublishOption
				if kind == "hpub" {
					// a publication that carries an offset (channel with history)
					opts = append(opts, centrifuge.WithHistory(32, time.Minute))
					switch vh.Str(step["ch"]) {
					case "b":
						ch = r.chB
					case "p":
						ch = r.chP
					}
					c.mu.Lock()
					c.pushKind[n] = "pub-with-offset"
					c.mu.Unlock()
				}
				// A publication to the positioned subscription blocks inside the hub broadcast while the connect command
				// is under way (the subscription holds its publication/subscribe synchronisation lock until the connect
				// reply is out): publications of the window are handed over on their own goroutine. The broker keeps
				// the order per channel (offset and delivery under its publish lock).
				perr := make(chan error, 1)
				go func() { _, err := r.env.Node.Publish(ch, data, opts...); perr <- err }()
				wait := gateWait
				if vh.Bool(step["window"]) {
					wait = 2 * time.Millisecond
				}
				select {
				case err := <-perr:
					if err != nil {
						drift("", "publish: "+err.Error())
					}
				case <-time.After(wait):
					if !vh.Bool(step["window"]) {
						drift("", "Node.Publish did not return")
					}
				}
			}
			if vh.Bool(step["window"]) {
				time.Sleep(500 * time.Microsecond) // nothing to wait for: the push must NOT show up before the reply
			}
			nontrivial = true
		default:
			drift("", "unknown action "+act)
		}
		if completed == 0 || ended {
			break
		}
		// quiescence: every connection's callback log reaches the model's length
		for _, cc := range allConns() {
			want := len(vh.List(tlaSeq(st["cb"], cc.n)))
			deadline := time.Now().Add(gateWait)
			for len(cc.cbLog()) < want && time.Now().Before(deadline) {
				time.Sleep(100 * time.Microsecond)
			}
			wantOut := len(vh.List(tlaSeq(st["out"], cc.n)))
			for deadline := time.Now().Add(gateWait); time.Now().Before(deadline); time.Sleep(100 * time.Microsecond) {
				n := 0
				cc.mu.Lock()
				for _, f := range cc.frames() {
					if !(f.T == "push" && cc.windowPush[f.Code]) {
						n++
					}
				}
				cc.mu.Unlock()
				if n >= wantOut {
					break
				}
			}
		}
		// Node.Shutdown must not return while a connection it found registered is still open: its close() of a connection
		// waits for a close() of that connection that is already in flight
		if shutBegun && !shutDone && r.shut != nil && isDone(r.shut) {
			for _, cc := range allConns() {
				// judged only while the reader is still inside OnConnect: the connection is in the hub whenever Shutdown takes
				// its snapshot and no close() can have started, so a Shutdown that returned cannot have closed it
				if vh.Str(tlaSeq(st["shc"], cc.n)) != "spawned" || vh.Str(tlaSeq(st["rd"], cc.n)) != "cn" || isDone(cc.reader) {
					continue
				}
				if closed, _ := cc.t.Closed(); !closed {
					violate("C08", "shutdown-returned:connection-still-open", fmt.Sprintf("Node.Shutdown returned although connection %d, registered when it began, is not closed (its OnConnect handler is still running with a close() blocked behind it, transport open, Hub().NumClients() = %d, callbacks %v): Shutdown's close() did not wait for the close() in flight; the connection becomes connected after the shutdown", cc.n, r.env.Node.Hub().NumClients(), cc.cbLog()))
				}
			}
		}
		// monitors on the real logs
		for _, cc := range allConns() {
			k := cc.cbLog()
			fr := cc.frames()
			for _, v := range monitors8(k, established(fr, ss && cc.n == 1), vh.Str(tlaSeq(st["cl"], cc.n)) == "done") {
				path := "connect command"
				if cc.uni {
					path = "unidirectional Client.Connect"
					if strings.HasPrefix(v.sig, "order:") {
						v.sig += ":unidirectional"
					}
				}
				violate("C08", v.sig, fmt.Sprintf("connection %d (%s): %s", cc.n, path, v.what))
			}
			cc.mu.Lock()
			ov := cc.overlap
			cc.mu.Unlock()
			if ov {
				violate("C08", "alive-overlaps-disconnect", fmt.Sprintf("connection %d: the disconnect callback ran while the alive callback was still running: %v", cc.n, k))
			}
			if shutDone {
				hasConnect, hasDisc := false, false
				for _, e := range k {
					hasConnect = hasConnect || e == "connect"
					hasDisc = hasDisc || e == "disconnect"
				}
				mclose := vh.Str(tlaSeq(st["cl"], cc.n))
				if closed, _ := cc.t.Closed(); hasConnect && !hasDisc && !closed && mclose != "tc" && mclose != "pm" && len(vh.List(tlaSeq(st["spawned"], cc.n))) == 0 {
					violate("C08", "connected-after-shutdown:during", fmt.Sprintf("connection %d is connected (connect callback ran, transport open, no close under way) although Node.Shutdown has returned; Hub().NumClients() = %d", cc.n, r.env.Node.Hub().NumClients()))
				}
				for i := cbAtDone[cc.n]; i < len(k); i++ {
					if k[i] == "connect" {
						violate("C08", "connected-after-shutdown:after", fmt.Sprintf("connection %d: connect callback after Node.Shutdown returned: %v", cc.n, k))
					}
				}
			}
			// every frame written before the connect reply (a class of its own per kind of push: a known finding for
			// one kind must not hide another)
			for i, f := range fr {
				if f.T == "connect" || f.T == "disc" {
					break
				}
				what := f.T
				if what == "push" {
					cc.mu.Lock()
					what += "-" + cc.pushKind[f.Code]
					cc.mu.Unlock()
				}
				violate("C11", "first-frame:"+what, fmt.Sprintf("connection %d: frame %d is %v (%s), written before the connect reply: %v", cc.n, i+1, f, what, fr))
			}
			for i, f := range fr {
				if f.T == "connect" && i > 0 && fr[0].T == "connect" {
					violate("C11", "connect-reply-twice", fmt.Sprintf("connection %d: a second connect reply is frame %d: %v", cc.n, i+1, fr))
				}
			}
		}
		if shutDone && completed == 1 {
			pending := false
			for _, x := range vh.List(st["spawned"]) {
				if len(vh.List(x)) > 0 {
					pending = true
				}
			}
			for _, x := range vh.List(st["cl"]) {
				if s := vh.Str(x); s == "tc" || s == "pm" {
					pending = true
				}
			}
			if n := r.env.Node.Hub().NumClients(); n > 0 && !pending {
				violate("C08", "registered-after-shutdown", fmt.Sprintf("Node.Shutdown returned, every close() has run and %d connection(s) are still registered in the hub", n))
			}
		}
		if completed == 0 {
			break
		}
		// model agreement
		for _, cc := range allConns() {
			var mk []string
			for _, x := range vh.List(tlaSeq(st["cb"], cc.n)) {
				mk = append(mk, vh.Str(x))
			}
			if k := cc.cbLog(); vh.J(k) != vh.J(mk) && !(len(k) == 0 && len(mk) == 0) {
				drift("", fmt.Sprintf("callback log of connection %d differs after %s: real %v, model %v", cc.n, vh.J(step), k, mk))
				break
			}
			var mo []f36
			for _, x := range vh.List(tlaSeq(st["out"], cc.n)) {
				m := vh.Map(x)
				mo = append(mo, f36{vh.Str(m["t"]), vh.Int(m["code"])})
			}
			// what became of a push sent while the connect command was under way is not the model's claim
			var fr []f36
			cc.mu.Lock()
			for _, f := range cc.frames() {
				if !(f.T == "push" && cc.windowPush[f.Code]) {
					fr = append(fr, f)
				}
			}
			cc.mu.Unlock()
			if cc.twoClosers {
				// which of the two waiting close() calls got connectMu first is not controlled: the disconnect code is either's
				for i := range fr {
					if fr[i].T == "disc" {
						fr[i].Code = 0
					}
				}
				for i := range mo {
					if mo[i].T == "disc" {
						mo[i].Code = 0
					}
				}
			}
			if vh.J(fr) != vh.J(mo) && !(len(fr) == 0 && len(mo) == 0) {
				drift("", fmt.Sprintf("frames of connection %d differ after %s: real %s, model %s", cc.n, vh.J(step), vh.J(fr), vh.J(mo)))
				break
			}
		}
	}
	if completed == 1 && !ended {
		// timers a closed connection left armed: a real scheduler fires them; nothing of the connection's life
		// may follow its disconnect callback
		for _, cc := range allConns() {
			if closed, _ := cc.t.Closed(); !closed {
				continue
			}
			for _, tm := range r.sch.active(cc.id) {
				r.sch.mu.Lock()
				tm.fired = true
				r.sch.mu.Unlock()
				tm.cb()
			}
			time.Sleep(2 * time.Millisecond)
			for _, v := range monitors8(cc.cbLog(), 1<<30, false) {
				violate("C08", v.sig+":leftover-timer", fmt.Sprintf("connection %d, after firing a timer it left armed when it closed: %s", cc.n, v.what))
			}
		}
	}
	if completed == 1 && nontrivial {
		key = vh.J(steps)
	}
	if bi < 2 {
		res.Sample(replay())
	}
	res.Done(1, completed)
	return key
}

type in8 struct {
	SS         bool               `json:"ss"`
	Pushes     bool               `json:"pushes"`
	Behaviours [][]map[string]any `json:"behaviours"`
}

func c08(in json.RawMessage, res *vh.Result) error {
	var ri in8
	if err := json.Unmarshal(in, &ri); err != nil {
		return err
	}
	sem := make(chan struct{}, 8)
	var wg sync.WaitGroup
	for bi := range ri.Behaviours {
		sem <- struct{}{}
		wg.Add(1)
		go func(bi int) {
			defer wg.Done()
			defer func() { <-sem }()
			// a behaviour that drifted (a gate not reached in time on a loaded machine, ...) without a violation is
			// re-executed on a fresh node before the drift counts
			for attempt := 1; ; attempt++ {
				r, err := newRun8(ri.SS, ri.Pushes, bi)
				if err != nil {
					res.Drift("C08", "node: "+err.Error(), nil)
					res.Done(1, 0)
					return
				}
				local := vh.NewResult()
				key := r.run(bi, ri.Behaviours[bi], ri.SS, ri.Pushes, local)
				if len(local.Violations) == 0 && len(local.Drifts) > 0 && attempt < 3 {
					res.Count("re_executed_after_drift", 1)
					continue
				}
				for _, v := range local.Violations {
					res.Violate(v.Prop, v.Sig, v.What, v.Replay)
				}
				for _, d := range local.Drifts {
					res.Drift(d.Prop, d.What, d.Replay)
				}
				for k, n := range local.Counters {
					res.Count(k, n)
				}
				for _, sm := range local.Samples {
					res.Sample(sm)
				}
				if key != "" {
					res.Distinct(key)
				}
				res.Done(local.Executed, local.Completed)
				return
			}
		}(bi)
	}
	wg.Wait()
	return nil
}
