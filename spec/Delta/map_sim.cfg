SPECIFICATION Spec
CONSTANTS
  Keys = {1, 2, 3}
  MaxPub = 8
  MaxSubs = 4
  Filts = {FALSE, TRUE}
  Withhold = FALSE
  DeltaOpts = {TRUE, FALSE}
  AsCodedFilter = FALSE
INVARIANTS TypeOK C14Map
CHECK_DEADLOCK FALSE
