SPECIFICATION TraceSpec
CONSTANTS
  Workers = {w1, w2, w3}
  Jobs = {1, 2, 3, 4, 5, 6, 7, 8}
  MaxFail = 1000000
  AllowClose = TRUE
  AtomicWait = TRUE
VIEW TraceView
SYMMETRY Perms
CONSTRAINT HighWater
INVARIANTS TypeOK NothingLost OneCopy ClosedQuiet SomeoneWillLook
PROPERTIES NoRerun FailedRequeued NoDequeueAfterClose QueuedAtCloseNeverStarts SubmitAnswer
POSTCONDITION TraceAccepted
CHECK_DEADLOCK FALSE
