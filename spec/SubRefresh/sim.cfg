SPECIFICATION Spec
CONSTANTS
  Filters = {"a", "b"}
  MaxGen = 3
  MaxRefresh = 3
  MaxPub = 4
  GenMatch = TRUE

INVARIANTS TypeOK FilterIsConfigured
PROPERTIES C16_Refresh
CHECK_DEADLOCK FALSE
