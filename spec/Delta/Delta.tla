------------------------------- MODULE Delta -------------------------------
(* C14, stream paths: fossil delta negotiation and base tracking for one
   subscriber of one channel over several subscribe sessions.

   Payloads are identities 1, 2, ... (the n-th publication carries payload n).
   A delivered publication frame is  full(id)  or  delta(base, id); the client
   model keeps `cl.held`, the payload it holds for the channel (0 = none; kept
   across resubscribes exactly like the SDKs keep their previous value), and
   the position it would recover from.

   Server side as the code has it:
     hub.go      broadcastPublication: per publication the prepared data holds
                 fullData, brokerDeltaData (against the broker's prevPub, only
                 for publications with an offset) and localDeltaData (against
                 the channel medium's latestPublication); a publication that a
                 tags filter excludes still reaches writePublication.
     client.go   writePublication (offset-0 branch, no subscription state
                 check), SyncPublication buffering, writePublicationUpdate-
                 Position (non-positioned branch: localDelta; positioned
                 branch: offset checks, then brokerDelta), the first-full rule
                 (flagDeltaAllowed = sub.da), subscribeCmd: history read,
                 BufferedAfterRecovery, MergePublications (filtered markers
                 stripped), makeRecoveredPubsDeltaFossil (first full, then each
                 against the previous recovered one), commit (flags replaced).
     broker_memory.go  UseDelta: prevPub = newest publication in history.
     channel_medium.go KeepLatestPublication: localPrevPub = the publication
                 last broadcast by this medium; a medium lives from the first
                 subscriber to the dissolve of the channel (a new one per
                 session here).

   Two switches separate "what the code does" from "the reference design that
   satisfies C14" (rule 1 of FRAMEWORK.md: the property is not weakened, the
   code is compared with the reference on real frames):
     AsCoded   TRUE:  subscribeCmd sets flagDeltaAllowed whenever the subscribe
                      recovered (as coded).  TLC finds C14 counterexamples;
                      they are replayed on the real code as witnesses.
               FALSE: only when the reply's last publication is the publication
                      at the position the subscription starts from, i.e. the
                      client provably holds the broker's next prevPub.
     Withhold  FALSE: a publication excluded by the tags filter is still
                      pushed to a delta subscriber on the live paths (as coded:
                      `prep.wasFiltered && !prep.deltaSub`), only recovery and
                      the subscribe buffer strip it.
               TRUE:  it is withheld on every path and the next delivered
                      publication is sent in full (flagDeltaAllowed cleared).
   The family probes which filter policy the code under test has and replays
   behaviours of that policy; C14 does not decide the policy (C16 does).      *)
EXTENDS MergeOps, TLC

CONSTANTS
  MaxPub,        \* publishes per behaviour
  HistSize,      \* history size of the channel
  MaxFaults,     \* budget of wire faults (drop, duplicate, reorder)
  MaxSess,       \* subscribe sessions of the client
  Kinds,         \* subset of {"pos", "rec", "plain", "nohist"}
  Filts,         \* subset of BOOLEAN: subscriptions with a tags filter that excludes tag "drop"
  Meds,          \* subset of BOOLEAN: channel medium with KeepLatestPublication
  AllowClear,    \* history removal / expiry modelled
  PayKinds,      \* subset of {"sim", "unrel"}: payload class of a publication. "sim" payloads share long substrings with
                 \* each other (fossil gives a patch smaller than the payload); an "unrel" payload is short and unrelated:
                 \* neither a patch TO it nor a patch FROM it is smaller than the target, the code falls back to the full data
  DeltaOpts,     \* subset of BOOLEAN: the per-publication delta option (PublishOptions.UseDelta) offered to Publish
  AsCoded, Withhold

VARIABLES
  top, win,      \* broker stream: top offset, retained window <<[off, id, tag]>>
  wire,          \* publications handed over by the broker, not yet delivered: [id, off, prev, tag]
  npub, faults,
  pks,           \* payload class of publication id (sequence)
  cfg,           \* [kind, filt, med]
  sess,          \* current session number
  pc,            \* subscriber thread: "idle", "g1", "g2", "g3", "done", "failed"
  hub,           \* routing entry exists
  hres,          \* history result read at g2->g3
  buf,           \* pubSubSync buffer
  sub,           \* server side subscription [st, pos, da]; da = flagDeltaAllowed
  mlatest,       \* medium: latestPublication (payload id, 0 = none)
  cl,            \* client model [has, off, held]
  out,           \* frames written to the connection in this session
  step

vars == <<top, win, wire, npub, faults, pks, cfg, sess, pc, hub, hres, buf, sub, mlatest, cl, out, step>>

Positioned == cfg.kind \in {"pos", "rec"}
Recovering == cfg.kind = "rec" /\ cl.has          \* the SDK recovers whenever it knows a position
Buffering  == Positioned /\ pc \in {"g1", "g2", "g3"}
Filtered(tag) == cfg.filt /\ tag = "drop"

NoSub  == [st |-> "none", pos |-> 0, da |-> FALSE]
NoHres == [pubs |-> <<>>, top |-> 0]

Init ==
  /\ top = 0 /\ win = <<>> /\ wire = {} /\ npub = 0 /\ faults = 0 /\ pks = <<>>
  /\ cfg \in {[kind |-> k, filt |-> f, med |-> m] : k \in Kinds, f \in Filts, m \in Meds}
  /\ sess = 1 /\ pc = "idle" /\ hub = FALSE /\ hres = NoHres /\ buf = <<>>
  /\ sub = NoSub /\ mlatest = 0
  /\ cl = [has |-> FALSE, off |-> 0, held |-> 0]
  /\ out = <<>>
  /\ step = [act |-> "Init"]

---------------------------------------------------------------------------
(* broker side *)
\* ud = the publication is published with the delta option: only then the broker looks up prevPub and only then
\* the medium offers its latestPublication as local base; the medium REMEMBERS every publication it broadcasts
Publish(tag, ud, pk) ==
  /\ npub < MaxPub
  /\ npub' = npub + 1 /\ pks' = Append(pks, pk)
  /\ IF cfg.kind = "nohist"
       THEN /\ UNCHANGED <<top, win>>
            /\ wire' = wire \cup {[id |-> npub + 1, off |-> 0, prev |-> 0, tag |-> tag, ud |-> ud]}
       ELSE /\ top' = top + 1
            /\ LET w == Append(win, [off |-> top + 1, id |-> npub + 1, tag |-> tag])
               IN win' = IF Len(w) > HistSize THEN SubSeq(w, Len(w) - HistSize + 1, Len(w)) ELSE w
            \* historyHub.add with UseDelta: the newest publication still in history
            /\ wire' = wire \cup {[id |-> npub + 1, off |-> top + 1,
                                   prev |-> IF win = <<>> \/ ~ud THEN 0 ELSE win[Len(win)].id, tag |-> tag, ud |-> ud]}
  /\ UNCHANGED <<faults, cfg, sess, pc, hub, hres, buf, sub, mlatest, cl, out>>
  /\ step' = [act |-> "Publish", tag |-> tag, id |-> npub + 1, ud |-> ud, pk |-> pk]

ClearHistory ==
  /\ AllowClear /\ win # <<>> /\ cfg.kind # "nohist"
  /\ win' = <<>>
  /\ UNCHANGED <<top, wire, npub, pks, faults, cfg, sess, pc, hub, hres, buf, sub, mlatest, cl, out>>
  /\ step' = [act |-> "ClearHistory"]

(* a frame as the client sees it: hb = what the client held when it arrived *)
\* a patch travels only when it is smaller than the payload: both payloads of the similar class
\* (or the very same payload again: a duplicate delivery through the medium)
Comp(a, b) == a # 0 /\ (a = b \/ (pks[a] = "sim" /\ pks[b] = "sim"))
Frame(off, id, prev, hb) == [off |-> off, id |-> id, delta |-> Comp(prev, id), base |-> IF Comp(prev, id) THEN prev ELSE 0, hb |-> hb]

ClientTakes(f) == [cl EXCEPT !.held = f.id, !.off = IF f.off # 0 /\ cfg.kind = "rec" THEN f.off ELSE @]

\* one publication written for this subscriber under the first-full rule; prev = 0 means "no base available"
\* (the code then sends the full payload in the delta wire format, which is a full frame for the client)
Push(s, d, prev) ==
  LET f == Frame(d.off, d.id, IF s.da THEN prev ELSE 0, cl.held)
  IN /\ sub' = [s EXCEPT !.da = TRUE]
     /\ out' = Append(out, [t |-> "pub", p |-> f, ud |-> d.ud])
     /\ cl' = ClientTakes(f)

\* excluded by the tags filter: as coded a delta subscriber still gets it on the live paths
Skip(s) == /\ sub' = [s EXCEPT !.da = FALSE] /\ UNCHANGED <<out, cl>>
PushOrSkip(s, d, prev) == IF Withhold /\ Filtered(d.tag) THEN Skip(s) ELSE Push(s, d, prev)

(* node side: one delivery entering Node.HandlePublication *)
Receive(d) ==
  IF ~hub THEN UNCHANGED <<hub, buf, sub, mlatest, cl, out>>
  ELSE
    LET lp == IF cfg.med /\ d.ud THEN mlatest ELSE 0 IN
    /\ mlatest' = IF cfg.med THEN d.id ELSE mlatest
    /\ IF d.off = 0 THEN
            \* writePublication, Offset == 0: no subscription state consulted (only that the channel entry exists)
            /\ PushOrSkip(sub, d, lp) /\ UNCHANGED <<hub, buf>>
       ELSE IF Buffering THEN
            /\ buf' = Append(buf, [off |-> d.off, f |-> Filtered(d.tag), id |-> d.id])
            /\ UNCHANGED <<hub, sub, cl, out>>
       ELSE IF sub.st # "live" THEN UNCHANGED <<hub, buf, sub, cl, out>>
       ELSE IF ~Positioned THEN
            /\ PushOrSkip(sub, d, lp) /\ UNCHANGED <<hub, buf>>
       ELSE IF d.off > sub.pos + 1 THEN
            \* insufficient state: unsubscribe push (the goroutine is awaited by the harness before the next step)
            /\ sub' = [sub EXCEPT !.st = "ended"] /\ hub' = FALSE
            /\ out' = Append(out, [t |-> "unsub"])
            /\ UNCHANGED <<buf, cl>>
       ELSE IF d.off < sub.pos + 1 THEN UNCHANGED <<hub, buf, sub, cl, out>>
       ELSE /\ PushOrSkip([sub EXCEPT !.pos = d.off], d, d.prev) /\ UNCHANGED <<hub, buf>>

InOrder(d) == \A e \in wire : e.id >= d.id

\* A publication without offset delivered between addSubscription and the subscribe reply is pushed BEFORE the
\* reply (known finding C10 pub-before-reply:nohist): the client cannot even know yet that delta was negotiated.
\* That window is excluded here; it belongs to C10.
Deliver(d, keep) ==
  /\ d \in wire
  /\ ~(d.off = 0 /\ hub /\ pc = "g1")
  /\ LET nf == (IF keep THEN 1 ELSE 0) + (IF InOrder(d) THEN 0 ELSE 1)
     IN /\ faults + nf <= MaxFaults
        /\ faults' = faults + nf
  /\ wire' = IF keep THEN wire ELSE wire \ {d}
  /\ Receive(d)
  /\ UNCHANGED <<top, win, npub, pks, cfg, sess, pc, hres>>
  /\ step' = [act |-> "Deliver", id |-> d.id, keep |-> keep]

Drop(d) ==
  /\ d \in wire /\ faults < MaxFaults
  /\ faults' = faults + 1
  /\ wire' = wire \ {d}
  /\ UNCHANGED <<top, win, npub, pks, cfg, sess, pc, hub, hres, buf, sub, mlatest, cl, out>>
  /\ step' = [act |-> "Drop", id |-> d.id]

---------------------------------------------------------------------------
(* subscriber thread, gates as in SubStream *)
SubStart ==                                  \* reservation, StartBuffering, addSubscription (new medium) -> parked in Broker.Subscribe
  /\ pc = "idle"
  /\ pc' = "g1" /\ hub' = TRUE /\ mlatest' = 0
  /\ UNCHANGED <<top, win, wire, npub, pks, faults, cfg, sess, hres, buf, sub, cl, out>>
  /\ step' = [act |-> "SubStart", recover |-> Recovering, since |-> IF Recovering THEN cl.off ELSE 0]

SubToHistory ==
  /\ pc = "g1" /\ Positioned
  /\ pc' = "g2"
  /\ UNCHANGED <<top, win, wire, npub, pks, faults, cfg, sess, hub, hres, buf, sub, mlatest, cl, out>>
  /\ step' = [act |-> "SubToHistory"]

After(w, o) == SelectSeq(w, LAMBDA x : x.off > o)

SubHistRead ==
  /\ pc = "g2"
  /\ pc' = "g3"
  /\ hres' = [pubs |-> IF Recovering THEN After(win, cl.off) ELSE <<>>, top |-> top]
  /\ UNCHANGED <<top, win, wire, npub, pks, faults, cfg, sess, hub, buf, sub, mlatest, cl, out>>
  /\ step' = [act |-> "SubHistRead"]

\* isStreamRecovered (the client's epoch is always the stream's: it learnt it from the server)
Recovered ==
  /\ Recovering
  /\ IF hres.pubs = <<>> THEN hres.top = cl.off
     ELSE hres.pubs[1].off = cl.off + 1 /\ hres.pubs[Len(hres.pubs)].off = hres.top

RECURSIVE Chain(_, _, _)
\* makeRecoveredPubsDeltaFossil as the client sees it: first full, then each against the previous one
Chain(l, prev, held) ==
  IF l = <<>> THEN <<>>
  ELSE <<Frame(l[1].off, l[1].id, prev, held)>> \o Chain(Tail(l), l[1].id, l[1].id)

SubFinish ==
  /\ \/ pc = "g3"
     \/ pc = "g1" /\ ~Positioned
  /\ IF ~Positioned
       THEN /\ out' = Append(out, [t |-> "reply", off |-> 0, recovered |-> FALSE, pubs |-> <<>>, top |-> 0])
            /\ sub' = [st |-> "live", pos |-> 0, da |-> FALSE]
            /\ pc' = "done" /\ UNCHANGED <<hub, buf, cl>>
       ELSE
         LET recd   == Recovered
             recl   == IF recd THEN [i \in 1..Len(hres.pubs) |->
                                       [off |-> hres.pubs[i].off, f |-> Filtered(hres.pubs[i].tag), id |-> hres.pubs[i].id]]
                               ELSE <<>>
             bufl   == IF recd THEN SelectSeq(buf, LAMBDA x : x.off > cl.off) ELSE buf
             offs   == {recl[i].off : i \in 1..Len(recl)} \cup {bufl[i].off : i \in 1..Len(bufl)}
             hole   == recd /\ bufl # <<>> /\
                         \E o \in (cl.off + 1)..(CHOOSE x \in offs : \A y \in offs : y <= x) : o \notin offs
             m0     == MergeImpl(recl, bufl)
             m      == IF hole THEN [m0 EXCEPT !.ok = FALSE] ELSE m0
             last   == IF m.pubs = <<>> THEN 0 ELSE m.pubs[Len(m.pubs)]
             l1     == IF last > hres.top THEN last ELSE hres.top
             latest == IF m.max > l1 THEN m.max ELSE l1
             frames == IF recd THEN Chain(m.list, 0, cl.held) ELSE <<>>
             \* the client provably holds the publication at the position the live stream continues from
             seeded == frames # <<>> /\ frames[Len(frames)].off = latest
         IN IF ~m.ok
              THEN /\ out' = Append(out, [t |-> "disc"])
                   /\ pc' = "failed" /\ hub' = FALSE /\ buf' = <<>>
                   /\ sub' = [st |-> "ended", pos |-> 0, da |-> FALSE]
                   /\ UNCHANGED cl
              ELSE /\ out' = Append(out, [t |-> "reply", off |-> IF recd THEN cl.off ELSE latest,
                                         recovered |-> recd, pubs |-> frames, top |-> latest])
                   /\ sub' = [st |-> "live", pos |-> latest, da |-> recd /\ (AsCoded \/ seeded)]
                   /\ cl' = [has  |-> cfg.kind = "rec",
                             off  |-> IF cfg.kind # "rec" THEN 0
                                      ELSE IF frames # <<>> THEN frames[Len(frames)].off
                                      ELSE IF recd THEN cl.off ELSE latest,
                             held |-> IF frames # <<>> THEN frames[Len(frames)].id ELSE cl.held]
                   /\ pc' = "done" /\ buf' = <<>>
                   /\ UNCHANGED hub
  /\ UNCHANGED <<top, win, wire, npub, pks, faults, cfg, sess, hres, mlatest>>
  /\ step' = [act |-> "SubFinish"]

\* the client unsubscribes (or, after a disconnect, comes back on a new connection) and will subscribe again
EndSession ==
  /\ pc \in {"done", "failed"} /\ sess < MaxSess
  /\ sess' = sess + 1 /\ pc' = "idle" /\ hub' = FALSE /\ sub' = NoSub /\ buf' = <<>> /\ hres' = NoHres /\ out' = <<>>
  /\ UNCHANGED <<top, win, wire, npub, pks, faults, cfg, mlatest, cl>>
  /\ step' = [act |-> "EndSession"]

PubTags == IF cfg.filt THEN {"keep", "drop"} ELSE {"keep"}

Next ==
  \/ \E t \in PubTags, ud \in DeltaOpts, pk \in PayKinds : Publish(t, ud, pk)
  \/ ClearHistory
  \/ \E d \in wire : Drop(d)
  \/ \E d \in wire, k \in BOOLEAN : Deliver(d, k)
  \/ SubStart \/ SubToHistory \/ SubHistRead \/ SubFinish \/ EndSession

Spec == Init /\ [][Next]_vars

---------------------------------------------------------------------------
(* C14 as an observable-only monitor over the frames of the session: a delta is delivered only against the
   payload the client holds (the harness decides the same by applying the real delta bytes to the real bytes
   it holds and comparing with the published bytes). *)
Good(f) == f.delta => (f.hb # 0 /\ f.base = f.hb)

C14 == \A i \in 1..Len(out) :
         /\ out[i].t = "pub" => Good(out[i].p)
         /\ out[i].t = "reply" => \A j \in 1..Len(out[i].pubs) : Good(out[i].pubs[j])

\* after applying, the client holds the payload of the last publication frame
HeldIsLast ==
  \A i \in 1..Len(out) :
     (out[i].t = "pub" /\ \A j \in (i + 1)..Len(out) : out[j].t \notin {"pub", "reply"}) => cl.held = out[i].p.id

TypeOK == faults <= MaxFaults /\ npub <= MaxPub /\ sess <= MaxSess /\ cl.held <= npub

\* Scenarios (negated as invariants by the scn_*.cfg configurations: TLC's counterexample is a shortest behaviour that
\* reaches the scenario; it is replayed on the real code on every run, whatever the simulation seed visits)
\*  - a recovered reply whose last publication is NOT the position the subscription continues from (the tail was
\*    buffered inside the subscribe window and withheld by the tags filter), then a live publication
ScnWithheldTail == \E i \in 1..Len(out) : /\ out[i].t = "reply" /\ out[i].recovered /\ out[i].pubs # <<>>
                                           /\ out[i].pubs[Len(out[i].pubs)].off = hres.top   \* stream top when history was read
                                           /\ out[i].top > hres.top                          \* position moved on by a withheld buffered one
                                           /\ \E j \in (i + 1)..Len(out) : out[j].t = "pub" /\ out[j].ud
\*  - medium: a publication with the delta option, one without, one with it again, all delivered live
ScnMixedDeltaOption == cfg.med /\ \E i, j, k \in 1..Len(out) : /\ i < j /\ j < k
                                   /\ out[i].t = "pub" /\ out[j].t = "pub" /\ out[k].t = "pub"
                                   /\ out[i].ud /\ ~out[j].ud /\ out[k].ud /\ out[k].p.delta
\*  - a recovered chain of three or more publications with a full fallback in the middle (an unrelated payload between
\*    two similar ones): every later one is judged against the data of the previous RECOVERED publication
ScnFullInChain == \E i \in 1..Len(out) : /\ out[i].t = "reply" /\ Len(out[i].pubs) >= 3
                     /\ \E j \in 2..(Len(out[i].pubs) - 1) : /\ pks[out[i].pubs[j].id] = "unrel"
                                                             /\ pks[out[i].pubs[j - 1].id] = "sim" /\ pks[out[i].pubs[j + 1].id] = "sim"
NotScnFullInChain == ~ScnFullInChain
NotScnWithheldTail == ~ScnWithheldTail
NotScnMixedDeltaOption == ~ScnMixedDeltaOption

\* non-vacuity witnesses (used as negated invariants by witness configurations)
SomeLiveDelta == \E i \in 1..Len(out) : out[i].t = "pub" /\ out[i].p.delta
NoLiveDelta   == ~SomeLiveDelta

View == <<top, win, wire, npub, faults, pks, cfg, sess, pc, hub, hres, buf, sub, mlatest, cl, out>>
=============================================================================
