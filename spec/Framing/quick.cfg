SPECIFICATION Spec
CONSTANTS Alphabet = {10, 13, 58, 32, 100, 123, 34, 120}
          MaxMsgs = 2
          MaxLen1 = 4
          MaxLen2 = 2
          Table = TRUE
INVARIANTS SSEExact SSESem SplitExact SplitSem SplitSame NDExact NDSem PBExact PipeSSE PipeSplit PipeND SSEPlain
CHECK_DEADLOCK FALSE
