package main

import (
	"encoding/json"

	"verifharness/vh"
)

func dissolveRuns(in json.RawMessage, res *vh.Result) error { return nil }
func poolsReplay(in json.RawMessage, res *vh.Result) error  { return nil }
func classesTable(in json.RawMessage, res *vh.Result) error { return nil }
