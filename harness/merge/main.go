// C39: replays the (input, expected) table enumerated by TLC from spec/Merge/Merge.tla into the real
// recovery.MergePublications (function-table replay, DESIGN 4.4).
package main

import (
	"encoding/json"
	"fmt"

	"github.com/centrifugal/centrifuge"
	"github.com/centrifugal/protocol"

	"verifharness/vh"
)

type row struct {
	Rec []map[string]any `json:"rec"`
	Buf []map[string]any `json:"buf"`
	Res map[string]any   `json:"res"`
}

func mk(l []map[string]any, tag string) []*protocol.Publication {
	out := make([]*protocol.Publication, 0, len(l))
	for i, p := range l {
		pub := &protocol.Publication{Offset: uint64(vh.Int(p["off"])), Data: []byte(fmt.Sprintf("%s%d", tag, i))}
		if vh.Bool(p["f"]) {
			pub.Time = -1
		}
		out = append(out, pub)
	}
	return out
}

func table(in json.RawMessage, res *vh.Result) error {
	var rows []row
	if err := json.Unmarshal(in, &rows); err != nil {
		return err
	}
	for _, r := range rows {
		rec, buf := mk(r.Rec, "r"), mk(r.Buf, "b")
		inputs := map[*protocol.Publication]bool{}
		for _, p := range rec {
			inputs[p] = true
		}
		for _, p := range buf {
			inputs[p] = true
		}
		// the code appends to rec: give it spare capacity like the real caller may, and none (both occur)
		var got []*protocol.Publication
		var max uint64
		var ok bool
		func() {
			defer func() {
				if p := recover(); p != nil {
					res.Violate("C39", "panic", fmt.Sprintf("MergePublications panicked: %v on rec=%s buf=%s", p, vh.J(r.Rec), vh.J(r.Buf)), r)
				}
			}()
			got, max, ok = centrifuge.VerifMergePublications(rec, buf)
		}()
		expOk := vh.Bool(r.Res["ok"])
		expPubs := vh.List(r.Res["pubs"])
		bad := ""
		if ok != expOk {
			bad = fmt.Sprintf("ok=%v expected %v", ok, expOk)
		} else if ok {
			if len(got) != len(expPubs) {
				bad = fmt.Sprintf("merged %d pubs expected %d", len(got), len(expPubs))
			} else {
				for i, p := range got {
					if int(p.Offset) != vh.Int(expPubs[i]) {
						bad = fmt.Sprintf("merged[%d].offset=%d expected %d", i, p.Offset, vh.Int(expPubs[i]))
						break
					}
					if p.Time == -1 {
						bad = fmt.Sprintf("merged[%d] is a filtered placeholder", i)
						break
					}
					if !inputs[p] {
						bad = fmt.Sprintf("merged[%d] is not one of the input publications", i)
						break
					}
				}
			}
		} else if len(got) != 0 {
			bad = "failure reported with publications"
		}
		if bad != "" {
			res.Violate("C39", "table:"+bad, fmt.Sprintf("%s for rec=%s buf=%s", bad, vh.J(r.Rec), vh.J(r.Buf)), r)
		} else if ok && int(max) != vh.Int(r.Res["max"]) {
			res.Drift("C39", fmt.Sprintf("maxSeenOffset=%d model %d rec=%s buf=%s", max, vh.Int(r.Res["max"]), vh.J(r.Rec), vh.J(r.Buf)), r)
		}
		if len(r.Buf) > 0 && len(r.Rec)+len(r.Buf) > 1 {
			res.Distinct(vh.J(r.Rec) + "|" + vh.J(r.Buf))
		}
		res.Sample(r)
		res.Done(1, 1)
	}
	return nil
}

func main() { vh.Main(map[string]vh.Mode{"table": table}) }
