// C11, dictionary compression, connect command vs close(): replay of spec/Connect/ConnDictConn.tla. The behaviours in
// which close() runs as a whole while connectCmd is held in application code - the OnConnecting handler, the engine's
// NewDictionaryConnection, the codec's Dictionary() - or after the handshake are executed on a real node behind the
// real WebsocketHandler with a raw WebSocket client. The engine is a recording DictionaryCompression implementation
// whose calls are gates. Checked on the engine's own log: every codec it handed out is closed exactly once, after its
// last Encode, nothing is encoded after Close. Setup trouble (a gate never reached, a close() that does not return,
// a connect command whose end is never reported) is drift and the behaviour is re-executed first.
package main

import (
	"context"
	"encoding/json"
	"fmt"
	"net/http"
	"net/http/httptest"
	"strings"
	"sync"
	"time"

	"github.com/centrifugal/centrifuge"
	"github.com/centrifugal/protocol"

	"verifharness/cl"
	"verifharness/vh"
)

// gateEngine hands out gateConns; NewDictionaryConnection and Dictionary are natural gates (application code).
type gateEngine struct {
	mu       sync.Mutex
	asked    int
	conns    []*gateConn
	unknown  bool     // Dictionary() names a dictionary the client never presented
	gNew     *cl.Gate // parks inside NewDictionaryConnection (nil: pass)
	gDict    *cl.Gate // parks inside Dictionary (nil: pass)
	timedOut bool
}

type gateConn struct {
	*recConn
	eng *gateEngine
}

func (e *gateEngine) NewDictionaryConnection(centrifuge.DictionaryConnectionParams) centrifuge.DictionaryConnection {
	e.mu.Lock()
	e.asked++
	e.mu.Unlock()
	if e.gNew != nil && !e.gNew.Arrive(gateHold) {
		e.mu.Lock()
		e.timedOut = true
		e.mu.Unlock()
	}
	c := &gateConn{recConn: &recConn{}, eng: e}
	e.mu.Lock()
	e.conns = append(e.conns, c)
	e.mu.Unlock()
	return c
}

func (c *gateConn) Dictionary() *protocol.Dictionary {
	if c.eng.gDict != nil && !c.eng.gDict.Arrive(gateHold) {
		c.eng.mu.Lock()
		c.eng.timedOut = true
		c.eng.mu.Unlock()
	}
	if c.eng.unknown {
		return &protocol.Dictionary{Id: "verif-dict-the-client-never-had"}
	}
	return c.recConn.Dictionary()
}

type in11c struct {
	Rows []map[string]any `json:"rows"`
}

// dictConnRow executes one behaviour. trouble != "" asks for a re-execution.
func dictConnRow(idx int, row map[string]any, res *vh.Result) (trouble string) {
	sc := vh.Map(row["sc"])
	park := vh.Str(row["park"]) // connecting | negotiate | dictionary | up
	unknown, op := vh.Str(sc["dict"]) == "unknown", vh.Bool(sc["op"])
	replay := map[string]any{"scenario": sc, "close_at": park, "hist": row["hist"]}
	point := map[string]string{"connecting": "close-during-connecting", "negotiate": "close-during-negotiation", "dictionary": "close-during-dictionary", "up": "close-after-connect"}[park]
	if point == "" {
		return "unknown park point " + park
	}
	eng := &gateEngine{unknown: unknown}
	gate := cl.NewGate()
	switch park {
	case "negotiate":
		eng.gNew = gate
	case "dictionary":
		eng.gDict = gate
	}
	sch := &sched{}
	env, err := cl.NewEnv(centrifuge.Config{
		LogLevel:                     centrifuge.LogLevelNone,
		DictionaryCompression:        eng,
		ClientTimerScheduler:         sch,
		ClientPresenceUpdateInterval: 10 * time.Hour,
		ClientStaleCloseDelay:        10 * time.Hour,
	})
	if err != nil {
		return "node: " + err.Error()
	}
	env.OnConnecting = func(context.Context, centrifuge.ConnectEvent) (centrifuge.ConnectReply, error) {
		if park == "connecting" {
			gate.Arrive(gateHold)
		}
		return centrifuge.ConnectReply{Credentials: &centrifuge.Credentials{UserID: "u"}}, nil
	}
	// the library reports the end of every command: the connect command is over (reply written or disconnect returned)
	processed := make(chan struct{})
	var once sync.Once
	env.Node.OnCommandProcessed(func(_ *centrifuge.Client, ev centrifuge.CommandProcessedEvent) {
		if ev.Command != nil && ev.Command.Connect != nil {
			once.Do(func() { close(processed) })
		}
	})
	if err := env.Run(); err != nil {
		return "run: " + err.Error()
	}
	defer func() {
		gate.Release()
		env.Close()
	}()
	srv := httptest.NewServer(centrifuge.NewWebsocketHandler(env.Node, centrifuge.WebsocketConfig{
		CheckOrigin:    func(*http.Request) bool { return true },
		PingPongConfig: centrifuge.PingPongConfig{PingInterval: -1},
	}))
	defer srv.Close()
	sch.setOwner("c")
	ws, err := wsDial(srv.URL)
	if err != nil {
		return "dial: " + err.Error()
	}
	defer ws.c.Close()
	if err := ws.send(1, []byte(`{"id":1,"connect":{"flag":1}}`)); err != nil {
		return "send connect: " + err.Error()
	}
	closed := make(chan string, 1)
	if park != "up" {
		if !gate.WaitArrived(gateWait) {
			return "the connect command did not reach the " + park + " gate"
		}
		// the stale timer fires: close() runs while connectCmd is held in application code. It closes the codec slot of
		// the transport and then sits in Transport.Close (closing handshake: the read loop, held with the connect
		// command, cannot see the client's answer): the close frame reaching the client tells that the codec step is over.
		go func() {
			defer func() {
				if p := recover(); p != nil {
					closed <- fmt.Sprintf("panic in close(): %v", p)
				}
			}()
			if _, n, ok := sch.fire("c"); !ok {
				closed <- fmt.Sprintf("expected the stale timer to be armed, found %d timers", n)
				return
			}
			closed <- ""
		}()
		// (a close() that returned is through with the codec as well)
		returned := false
		for deadline := time.Now().Add(gateWait); time.Now().Before(deadline) && !ws.gone() && !returned; time.Sleep(200 * time.Microsecond) {
			select {
			case what := <-closed:
				if what != "" {
					return what
				}
				returned = true
				closed <- ""
			default:
			}
		}
		if !ws.gone() && !returned {
			return "close() did not get to Transport.Close while the connect command is held at " + park
		}
		gate.Release()
	} else {
		if !ws.waitData(1, gateWait) {
			return "no connect reply"
		}
		if op {
			if err := ws.send(1, []byte(`{"id":2,"rpc":{"method":"m","data":{"n":2}}}`)); err != nil {
				return "send rpc: " + err.Error()
			}
			if !ws.waitData(2, gateWait) {
				return "the rpc reply did not arrive"
			}
		}
		go func() {
			for _, c := range env.Node.Hub().Connections() {
				c.Disconnect(centrifuge.DisconnectForceNoReconnect)
			}
			closed <- ""
		}()
	}
	select {
	case <-processed:
	case <-time.After(gateWait):
		return "the end of the connect command was never reported (OnCommandProcessed)"
	}
	// both threads are through: close() returned (the closing handshake completes once the read loop is free again)
	select {
	case what := <-closed:
		if what != "" {
			return what
		}
	case <-time.After(gateWait):
		return "close() did not return"
	}
	eng.mu.Lock()
	timedOut := eng.timedOut
	eng.mu.Unlock()
	if timedOut {
		return "a gate ran into its safety timeout"
	}
	for deadline := time.Now().Add(gateWait); time.Now().Before(deadline) && !ws.gone(); time.Sleep(200 * time.Microsecond) {
	}
	if !ws.gone() {
		return "the WebSocket connection was not closed"
	}
	eng.mu.Lock()
	asked := eng.asked
	conns := append([]*gateConn(nil), eng.conns...)
	eng.mu.Unlock()
	// a Close that is still on its way gets its chance (the property does not say which thread closes)
	snapshot := func() (closes int, overlap, afterCl bool, events []recEvent) {
		for _, c := range conns {
			c.mu.Lock()
			closes += c.closes
			overlap = overlap || c.overlap
			afterCl = afterCl || c.afterCl
			events = append(events, c.events...)
			c.mu.Unlock()
		}
		return
	}
	if len(conns) > 0 {
		for deadline := time.Now().Add(time.Second); time.Now().Before(deadline); time.Sleep(500 * time.Microsecond) {
			if n, _, _, _ := snapshot(); n > 0 {
				break
			}
		}
	}
	time.Sleep(2 * time.Millisecond) // a second Close / a late Encode would come now
	closes, overlap, afterCl, events := snapshot()
	var wire []map[string]any
	for _, f := range ws.data() {
		enc := f.Op == 2 && len(f.Payload) > 0 && f.Payload[0] == encMarker
		p := f.Payload
		if enc {
			p = p[1:]
		}
		wire = append(wire, map[string]any{"enc": enc, "payload": string(p)})
	}
	replay["wire"], replay["engine"], replay["codecs_handed_out"] = wire, events, len(conns)
	bad := false
	violate := func(sig, what string) {
		res.Violate("C11", "dict:"+sig+":"+point, fmt.Sprintf("%s (close() %s; Dictionary() answers %s; engine log %s)", what,
			map[string]string{"connecting": "completed while the connect command was inside OnConnecting", "negotiate": "completed while the connect command was inside NewDictionaryConnection",
				"dictionary": "completed while the connect command was inside DictionaryConnection.Dictionary", "up": "after the connect reply"}[park], vh.Str(sc["dict"]), vh.J(events)), replay)
		bad = true
	}
	if len(conns) > 1 {
		return fmt.Sprintf("the engine was asked for %d dictionary connections", len(conns))
	}
	if len(conns) == 1 {
		switch {
		case closes == 0:
			violate("codec-never-closed", "the engine handed out a codec, the connection is gone and Close was never called on it")
		case closes > 1:
			violate("codec-closed-twice", fmt.Sprintf("Close was called %d times on the codec", closes))
		}
		if overlap {
			violate("close-overlaps-encode", "Close was called while an Encode was running")
		}
		lastEncode, closeAt := -1, -1
		for i, e := range events {
			switch e.Kind {
			case "encode-begin", "encode-end":
				lastEncode = i
			case "close":
				if closeAt < 0 {
					closeAt = i
				}
			}
		}
		if afterCl || (closeAt >= 0 && lastEncode > closeAt) {
			violate("encode-after-close", "Encode was called after Close")
		}
	}
	if len(wire) > 0 {
		first := wire[0]
		if first["enc"].(bool) {
			violate("connect-reply-encoded", "the first frame the client received went through the encoder")
		} else if !strings.Contains(first["payload"].(string), `"connect"`) {
			violate("first-frame-not-connect", "the first frame is not the connect reply: "+first["payload"].(string))
		}
	}
	if bad {
		res.Done(1, 0)
		return ""
	}
	// ---- the row: what ConnDictConn.tla says
	drift := func(what string) {
		res.Drift("C11", fmt.Sprintf("%s (scenario %s, close at %s)", what, vh.J(sc), park), replay)
		res.Done(1, 0)
	}
	handed := vh.Str(row["cc"]) != "none"
	if handed != (len(conns) == 1) || (asked > 0) != handed {
		drift(fmt.Sprintf("the engine was asked %d times and handed out %d codecs, the model says handed out = %v", asked, len(conns), handed))
		return ""
	}
	if vh.Int(row["closes"]) != closes {
		drift(fmt.Sprintf("%d Close calls, the model says %d", closes, vh.Int(row["closes"])))
		return ""
	}
	if park != "up" && len(wire) != 0 {
		drift(fmt.Sprintf("%d data frames reached a connection closed during its connect command", len(wire)))
		return ""
	}
	if park == "up" {
		mw := vh.List(row["wire"])
		if len(mw) != len(wire) {
			drift(fmt.Sprintf("%d frames on the wire, the model says %d", len(wire), len(mw)))
			return ""
		}
		for i := range mw {
			if vh.Bool(vh.Map(mw[i])["enc"]) != wire[i]["enc"].(bool) {
				drift(fmt.Sprintf("frame %d encoded = %v, the model says %v", i+1, wire[i]["enc"], vh.Map(mw[i])["enc"]))
				return ""
			}
		}
	}
	res.Distinct(vh.J(sc) + park)
	if idx < 2 {
		res.Sample(replay)
	}
	res.Done(1, 1)
	return ""
}

func c11dictconn(in json.RawMessage, res *vh.Result) error {
	var ri in11c
	if err := json.Unmarshal(in, &ri); err != nil {
		return err
	}
	sem := make(chan struct{}, 8)
	var wg sync.WaitGroup
	for i := range ri.Rows {
		sem <- struct{}{}
		wg.Add(1)
		go func(i int) {
			defer wg.Done()
			defer func() { <-sem }()
			var trouble string
			for try := 0; try < 3; try++ {
				if trouble = dictConnRow(i, ri.Rows[i], res); trouble == "" {
					return
				}
				res.Count("re-executed", 1)
				res.Count("trouble: "+trouble, 1)
			}
			res.Drift("C11", fmt.Sprintf("%s, 3 attempts (scenario %s, close at %s)", trouble, vh.J(ri.Rows[i]["sc"]), ri.Rows[i]["park"]), ri.Rows[i])
			res.Done(1, 0)
		}(i)
	}
	wg.Wait()
	return nil
}
