SPECIFICATION Spec
CONSTANTS
  Chans = {1, 2, 3, 4}
  Long = {4}
  L = 2
  MaxOps = 6
  Validate = "state0"
VIEW View
INVARIANTS TypeOK C37M
CHECK_DEADLOCK FALSE
