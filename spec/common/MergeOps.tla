---------------------------- MODULE MergeOps ----------------------------
(* Transcription of internal/recovery/helpers.go (MergePublications and
   uniqueNonFilteredPublications) as pure TLA+ operators.  A publication is a
   record with at least the fields off (offset) and f (TRUE = filtered
   placeholder, Time == -1 in the code).  Shared by Merge.tla (C39) and
   SubStream.tla (C01, C02, C10, C16). *)
EXTENDS Integers, Sequences, FiniteSets, SequencesExt

(* --- the code, step by step ------------------------------------------- *)

\* sort.Slice by offset.  The Go sort is not stable; only the multiset per
\* offset matters for what follows, so a stable sort is a faithful model
\* as long as the property does not depend on the order among equals
\* (checked: UniqueNonFiltered keeps "the first" of equal offsets, which by
\* offset-identity is observationally the same element).
SortByOff(s) == SortSeq(s, LAMBDA a, b : a.off < b.off)

RECURSIVE UNF(_, _, _, _, _)
\* uniqueNonFilteredPublications: (remaining, seenKeys, list, maxSeen, skipped)
UNF(s, keys, list, mx, sk) ==
  IF s = <<>> THEN [list |-> list, max |-> mx, skipped |-> sk]
  ELSE LET e   == Head(s)
           mx2 == IF e.off > mx THEN e.off ELSE mx
       IN IF e.f THEN UNF(Tail(s), keys, list, mx2, sk \cup {e.off})
          ELSE IF e.off \in keys THEN UNF(Tail(s), keys, list, mx2, sk)
          ELSE UNF(Tail(s), keys \cup {e.off}, Append(list, e), mx2, sk)

RECURSIVE GapFree(_, _, _)
\* the loop over recoveredPubs[1:] : TRUE iff no uncovered hole
GapFree(prev, rest, sk) ==
  IF rest = <<>> THEN TRUE
  ELSE LET p == Head(rest).off IN
       IF p # prev + 1
         THEN IF sk = {} THEN FALSE
              ELSE IF \E o \in (prev + 1)..(p - 1) : o \notin sk THEN FALSE
              ELSE GapFree(p, Tail(rest), sk)
         ELSE GapFree(p, Tail(rest), sk)

MergeImpl(r, b) ==
  LET all == SortByOff(r \o b)
      u   == UNF(all, {}, <<>>, 0, {})
      ok  == IF b # <<>> /\ Len(u.list) > 1
               THEN GapFree(u.list[1].off, Tail(u.list), u.skipped)
               ELSE TRUE
  IN IF ok THEN [pubs |-> [i \in 1..Len(u.list) |-> u.list[i].off], list |-> u.list, max |-> u.max, ok |-> TRUE]
           ELSE [pubs |-> <<>>, list |-> <<>>, max |-> 0, ok |-> FALSE]
=============================================================================
