----------------------------- MODULE UnsubPhase -----------------------------
(* C28, second part: "any set of subscriptions" includes subscriptions that are still being established when
   Node.Unsubscribe(user, "") / Client.Unsubscribe("") arrives.  (UnsubAll.tla covers established subscriptions
   under every targeting option; this module covers every PHASE of a subscription under simple targeting.)

   Reference = the per-channel semantics of Client.Unsubscribe(ch) (client.go unsubscribe): a channel whose
   subscribe is in flight (reservation in c.channels carrying subscribingCh, no flagSubscribed yet) is waited for
   and then torn down.  The unsubscribe-all is: snapshot of the connection's channels (c.channels and
   c.mapSubscribing, in every phase) + the per-channel unsubscribe of each, so the call returns only after every
   in-flight subscribe of the snapshot finished, and afterwards the connection has none of those channels.

   Phases of ph[c][x] (each one is a place where the harness holds the real code through a public interface):
     "none"   not subscribed
     "cb"     client-side subscribe command accepted (validateSubscribeRequest reserved the channel), the OnSubscribe
              callback has not been answered yet (the application answers asynchronously)
     "csbr"   client-side subscribe inside subscribeCmd, parked in Broker.Subscribe (node.addSubscription: the hub entry
              exists, the per-channel subscription lock is held, the connection's reader is busy)
     "ssbr"   server-side Client.Subscribe (reservation made), parked in Broker.Subscribe in the same way
     "cs"/"ss" established client-side / server-side subscription
   Broker.Subscribe is called only for the first subscriber of a channel on a node, hence FirstOnNode; while a
   subscribe is parked there nobody else on that node can subscribe to / unsubscribe from that channel (LockFree).

   Connections: c1 (user u, node A), c2 (user u, node B), c3 (user v, node A).  Channel "a" has presence and
   join/leave enabled, "b" has neither.                                                                        *)
EXTENDS Naturals, FiniteSets, TLC

CONSTANTS
  Chans,        \* {"a", "b"}
  MaxInProg,    \* subscribes in flight at the same time
  Phases,       \* in-flight phases offered: subset of {"cb", "csbr", "ssbr"}
  CustomArgs,   \* WithCustomUnsubscribe present? subset of BOOLEAN
  Free          \* <<connection, channel>> pairs that may be subscribed (bounds the state space)

Conns == {"c1", "c2", "c3"}
UserOf(c) == IF c = "c3" THEN "v" ELSE "u"
NodeOf(c) == IF c = "c2" THEN "B" ELSE "A"
PresCh == {"a"}
JLCh   == {"a"}
InFlight == {"cb", "csbr", "ssbr"}
Parked   == {"csbr", "ssbr"}
Live     == {"cs", "ss"}
KindOf(p) == IF p \in {"ssbr", "ss"} THEN "ss" ELSE "cs"
NoCall == [on |-> FALSE]
FreeQuick == ({"c1"} \X {"a", "b"}) \cup ({"c2", "c3"} \X {"a"})
FreeAll   == Conns \X Chans

VARIABLES
  ph,     \* ph[c][x]
  hub,    \* hub entries <<x, c>> (exist from addSubscription on, i.e. also in the parked phases)
  pres,   \* presence entries <<x, c>>
  call,   \* the unsubscribe-all in progress: NoCall or [on, origin, user, target, custom, sel, snap, pre, refused]
  step

vars == <<ph, hub, pres, call, step>>
View == <<ph, hub, pres, call>>

Init ==
  /\ ph = [c \in Conns |-> [x \in Chans |-> "none"]]
  /\ hub = {} /\ pres = {} /\ call = NoCall
  /\ step = [act |-> "Init"]

ReaderBusy(c)     == \E x \in Chans : ph[c][x] = "csbr"
NumInFlight       == Cardinality({p \in Conns \X Chans : ph[p[1]][p[2]] \in InFlight})
FirstOnNode(c, x) == ~\E p \in hub : p[1] = x /\ NodeOf(p[2]) = NodeOf(c)
LockFree(c, x)    == ~\E d \in Conns : NodeOf(d) = NodeOf(c) /\ ph[d][x] \in Parked

\* a subscribe that runs to completion in one step
Subscribe(c, x, k) ==
  /\ ~call.on /\ ph[c][x] = "none" /\ LockFree(c, x) /\ <<c, x>> \in Free
  /\ k = "cs" => ~ReaderBusy(c)
  /\ ph' = [ph EXCEPT ![c][x] = k]
  /\ hub' = hub \cup {<<x, c>>}
  /\ pres' = IF x \in PresCh THEN pres \cup {<<x, c>>} ELSE pres
  /\ UNCHANGED call
  /\ step' = [act |-> "Subscribe", c |-> c, ch |-> x, k |-> k, join |-> x \in JLCh]

\* a subscribe that is started and held in phase p
SubBegin(c, x, p) ==
  /\ ~call.on /\ ph[c][x] = "none" /\ p \in Phases /\ NumInFlight < MaxInProg /\ <<c, x>> \in Free
  /\ p \in {"cb", "csbr"} => ~ReaderBusy(c)
  /\ p \in Parked => FirstOnNode(c, x)
  /\ ph' = [ph EXCEPT ![c][x] = p]
  /\ hub' = IF p \in Parked THEN hub \cup {<<x, c>>} ELSE hub
  /\ UNCHANGED <<pres, call>>
  /\ step' = [act |-> "SubBegin", c |-> c, ch |-> x, p |-> p]

\* the held subscribe is let go and completes
Release(c, x) ==
  /\ ph[c][x] \in InFlight
  /\ ph[c][x] = "cb" => LockFree(c, x)
  /\ ph' = [ph EXCEPT ![c][x] = KindOf(ph[c][x])]
  /\ hub' = hub \cup {<<x, c>>}
  /\ pres' = IF x \in PresCh THEN pres \cup {<<x, c>>} ELSE pres
  /\ UNCHANGED call
  /\ step' = [act |-> "Release", c |-> c, ch |-> x, p |-> ph[c][x], join |-> x \in JLCh]

\* the application refuses the pending client-side subscribe (error in the OnSubscribe callback)
Refuse(c, x) ==
  /\ ph[c][x] = "cb" /\ LockFree(c, x)      \* onSubscribeErrorGen -> node.removeSubscription takes the channel's lock
  /\ ph' = [ph EXCEPT ![c][x] = "none"]
  /\ call' = IF call.on /\ <<x, c>> \in call.snap THEN [call EXCEPT !.refused = @ \cup {<<x, c>>}] ELSE call
  /\ UNCHANGED <<hub, pres>>
  /\ step' = [act |-> "Refuse", c |-> c, ch |-> x]

\* what finishing the unsubscribe-all does, given its snapshot
Finish(cl) ==
  LET gone == {p \in cl.snap : ph[p[2]][p[1]] \in Live} IN
  /\ ph' = [c \in Conns |-> [x \in Chans |-> IF <<x, c>> \in gone THEN "none" ELSE ph[c][x]]]
  /\ hub' = hub \ gone
  /\ pres' = pres \ gone
  /\ call' = NoCall
  /\ step' = [act |-> "UnsubAllDone", origin |-> cl.origin, user |-> cl.user, target |-> cl.target, custom |-> cl.custom,
              sel |-> cl.sel, snap |-> cl.snap, pre |-> cl.pre, refused |-> cl.refused,
              waited |-> \E p \in cl.snap : cl.pre[p[2]][p[1]] \in InFlight,
              cbs    |-> gone,
              cbss   |-> {p \in gone : ph[p[2]][p[1]] = "ss"},
              leaves |-> {p \in gone : p[1] \in JLCh},
              pushes |-> cl.snap]       \* Client.Unsubscribe(x) writes its push whatever became of x

\* Node.Unsubscribe(user, "") on node `origin`, or Client.Unsubscribe("") on connection `target` (origin = "direct")
UnsubAll(origin, user, target, custom) ==
  /\ ~call.on
  /\ LET sel  == IF origin = "direct" THEN {target} ELSE {c \in Conns : UserOf(c) = user}
         snap == {p \in Chans \X Conns : p[2] \in sel /\ ph[p[2]][p[1]] # "none"}
         cl   == [on |-> TRUE, origin |-> origin, user |-> user, target |-> target, custom |-> custom,
                  sel |-> sel, snap |-> snap, pre |-> ph, refused |-> {}]
     IN IF \E p \in snap : ph[p[2]][p[1]] \in InFlight
          THEN \* the call blocks in the per-channel wait of some connection
               /\ call' = cl
               /\ UNCHANGED <<ph, hub, pres>>
               /\ step' = [act |-> "UnsubAllStart", origin |-> origin, user |-> user, target |-> target, custom |-> custom, sel |-> sel]
          ELSE Finish(cl)

UnsubAllDone ==
  /\ call.on
  /\ \A p \in call.snap : ph[p[2]][p[1]] \notin InFlight
  /\ Finish(call)

Next ==
  \/ \E c \in Conns, x \in Chans : \/ \E k \in Live : Subscribe(c, x, k)
                                   \/ \E p \in InFlight : SubBegin(c, x, p)
                                   \/ Release(c, x)
                                   \/ Refuse(c, x)
  \/ \E o \in {"A", "B"}, u \in {"u", "v"}, cu \in CustomArgs : UnsubAll(o, u, "", cu)
  \/ \E c \in Conns, cu \in CustomArgs : UnsubAll("direct", "", c, cu)
  \/ UnsubAllDone

Spec == Init /\ [][Next]_vars

---------------------------------------------------------------------------
TypeOK ==
  /\ ph \in [Conns -> [Chans -> {"none"} \cup InFlight \cup Live]]
  /\ hub \subseteq Chans \X Conns /\ pres \subseteq Chans \X Conns
  /\ NumInFlight <= MaxInProg

Consistent ==
  /\ hub  = {p \in Chans \X Conns : ph[p[2]][p[1]] \in Live \cup Parked}
  /\ pres = {p \in Chans \X Conns : ph[p[2]][p[1]] \in Live /\ p[1] \in PresCh}
  /\ \A c \in Conns : Cardinality({x \in Chans : ph[c][x] = "csbr"}) <= 1

\* a blocked call can always be brought to its end by letting the held subscribes go
CanFinish == call.on => (ENABLED UnsubAllDone \/ \E c \in Conns, x \in Chans : ENABLED Release(c, x) \/ ENABLED Refuse(c, x))

(* The property (C28 for every phase), stated from the documentation and the per-channel reference: when the
   unsubscribe-all has returned, every addressed connection holds none of the channels it held - in whatever phase -
   when the call arrived; every one of them that was or became established got exactly its unsubscribe effects, the
   refused ones none; other connections are untouched.                                                        *)
Addressed(c, s) == IF s.origin = "direct" THEN c = s.target ELSE UserOf(c) = s.user
UnsubscribeAllCoversEveryPhase ==
  [][ step'.act = "UnsubAllDone" =>
        \A c \in Conns : \A x \in Chans :
          LET s   == step'
              was == s.pre[c][x]
              p   == <<x, c>>
              est == was # "none" /\ p \notin s.refused           \* was established or became so
          IN IF Addressed(c, s) /\ was # "none"
               THEN /\ ph'[c][x] = "none"
                    /\ p \notin hub' /\ p \notin pres'
                    /\ (p \in s.cbs) = est
                    /\ (p \in s.cbss) = (est /\ KindOf(was) = "ss")
                    /\ (p \in s.leaves) = (est /\ x \in JLCh)
                    /\ p \in s.pushes
               ELSE /\ p \notin (s.cbs \cup s.leaves \cup s.pushes)
                    /\ (p \in hub') = (p \in hub) /\ (p \in pres') = (p \in pres)
                    /\ ph'[c][x] = ph[c][x]
    ]_vars
=============================================================================
