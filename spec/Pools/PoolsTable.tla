----------------------------- MODULE PoolsTable -----------------------------
(* Function table of the size-class transcriptions (NextLog / PrevLog of Pools.tla) over every length of the
   abstraction up to twice the largest class: dumped by TLC, compared with the three real implementations. *)
EXTENDS Pools
VARIABLES tk, tv, tnext, tprev
Pow2s(k) == UNION {{2 ^ i - 1, 2 ^ i, 2 ^ i + 1} : i \in 0..(MaxLog(k) + 1)}
TInit ==
  /\ tk \in Kinds
  /\ tv \in {v \in Pow2s(tk) : v >= 1}
  /\ tnext = NextLog(tk, tv) /\ tprev = PrevLog(tk, tv)
  /\ kind = tk /\ pool = [k \in Kinds |-> {}] /\ held = [k \in Kinds |-> None] /\ panicked = FALSE /\ step = [act |-> "Init"]
TNext == UNCHANGED <<vars, tk, tv, tnext, tprev>>
TSpec == TInit /\ [][TNext]_<<vars, tk, tv, tnext, tprev>>
\* floor / ceiling of log2, stated without the bit tricks
TableOK == /\ 2 ^ tnext >= tv /\ (tnext = 0 \/ 2 ^ (tnext - 1) < tv)
           /\ 2 ^ tprev <= tv /\ tv < 2 ^ (tprev + 1)
=============================================================================
