SPECIFICATION Spec
CONSTANTS
  MaxPub = 3
  HistSize = 2
  MaxFaults = 1
  MaxSess = 2
  Kinds = {"plain", "nohist"}
  Filts = {FALSE, TRUE}
  Meds = {FALSE, TRUE}
  AllowClear = FALSE
  DeltaOpts = {TRUE, FALSE}
  PayKinds = {"sim"}
  AsCoded = FALSE
  Withhold = FALSE
VIEW View
INVARIANTS TypeOK C14 HeldIsLast
CHECK_DEADLOCK FALSE
