// C05 on the shared-poll subscribe path: replay of spec/SharedPoll/SubClose behaviours. The subscribe command runs on
// its own goroutine and is parked in the application callbacks the code calls: the OnSubscribe handler ("onsubscribe"),
// Config.SharedPoll.GetSharedPollChannelOptions called by the finalize right after the channel context was installed
// ("options") and Node.OnCommandProcessed for the subscribe reply ("processed", before presence and join are set up).
// close() (the transport's close function) runs on another goroutine; its wait on the reservation gate is the real 5 s
// wait of the code. Judged by observables after both returned: Node.Presence(channel) empty, Client.Channels() empty,
// every join has its leave, Node.Hub() has no client / subscriber.
package main

import (
	"context"
	"encoding/json"
	"fmt"
	"strings"
	"sync"
	"sync/atomic"
	"time"

	"github.com/centrifugal/centrifuge"
	"github.com/centrifugal/protocol"

	"verifharness/cl"
	"verifharness/vh"
)

type scRunner struct {
	env    *cl.Env
	ch     string
	mu     sync.Mutex
	armed  map[string]*cl.Gate
	subGid int64
	joins  atomic.Int64
	leaves atomic.Int64
	polls  atomic.Int64
	ended  atomic.Bool  // close() has returned
	late   atomic.Int64 // joins published after close() returned
}

func (r *scRunner) gate(name string) {
	r.mu.Lock()
	g := r.armed[name]
	mine := r.subGid == goid()
	if g != nil && mine {
		delete(r.armed, name)
	}
	r.mu.Unlock()
	if g != nil && mine {
		g.Arrive(20 * time.Second)
	}
}

func newSCRunner(bi int) (*scRunner, error) {
	r := &scRunner{ch: fmt.Sprintf("spsc%d_%d", vh.Seed(), bi), armed: map[string]*cl.Gate{}}
	opts := centrifuge.SharedPollChannelOptions{Mode: centrifuge.SharedPollModeVersioned, KeepLatestData: true, RefreshInterval: time.Hour, ChannelShutdownDelay: time.Hour}
	env, err := cl.NewEnv(centrifuge.Config{
		LogLevel: centrifuge.LogLevelNone,
		SharedPoll: centrifuge.SharedPollConfig{GetSharedPollChannelOptions: func(ch string) (centrifuge.SharedPollChannelOptions, bool) {
			if ch == r.ch {
				r.gate("options")
			}
			return opts, strings.HasPrefix(ch, "spsc")
		}},
	})
	if err != nil {
		return nil, err
	}
	r.env = env
	gb, err := cl.NewGateBroker(env.Node)
	if err != nil {
		return nil, err
	}
	gb.OnPublishJoin = func(ch string, _ *centrifuge.ClientInfo) {
		if ch == r.ch {
			r.joins.Add(1)
			if r.ended.Load() {
				r.late.Add(1)
			}
		}
	}
	gb.OnPublishLeave = func(ch string, _ *centrifuge.ClientInfo) {
		if ch == r.ch {
			r.leaves.Add(1)
		}
	}
	env.Node.SetBroker(gb)
	env.OnSubscribe = func(_ *centrifuge.Client, _ centrifuge.SubscribeEvent, cb centrifuge.SubscribeCallback) {
		r.gate("onsubscribe")
		cb(centrifuge.SubscribeReply{Options: centrifuge.SubscribeOptions{EmitPresence: true, EmitJoinLeave: true}, ClientSideRefresh: true}, nil)
	}
	env.Node.OnCommandProcessed(func(_ *centrifuge.Client, e centrifuge.CommandProcessedEvent) {
		if e.Command != nil && e.Command.Subscribe != nil && e.Error == nil && e.Reply != nil && e.Reply.Error == nil {
			r.gate("processed")
		}
	})
	env.Node.OnSharedPoll(func(_ context.Context, _ centrifuge.SharedPollEvent) (centrifuge.SharedPollResult, error) {
		r.polls.Add(1)
		return centrifuge.SharedPollResult{}, nil
	})
	if err := env.Run(); err != nil {
		return nil, err
	}
	return r, nil
}

func (r *scRunner) run(bi int, beh []map[string]any, res *vh.Result) {
	defer r.env.Close()
	var steps []any
	drift := func(what string) {
		res.Drift("C05", fmt.Sprintf("keyed subscribe/close: %s (behaviour %d)", what, bi), map[string]any{"steps": steps})
	}
	conn, err := newKConn(r.env, "u", centrifuge.ProtocolTypeJSON)
	if err != nil || conn.Connect() == nil {
		drift("connect failed")
		res.Done(1, 0)
		return
	}
	gOn, gOpt, gProc := cl.NewGate(), cl.NewGate(), cl.NewGate()
	var subDone, closeDone chan struct{}
	waitOr := func(g *cl.Gate, done chan struct{}, d time.Duration) string {
		arrived := make(chan bool, 1)
		go func() { arrived <- g.WaitArrived(d) }()
		select {
		case a := <-arrived:
			if a {
				return "gate"
			}
			return "timeout"
		case <-done:
			return "done"
		}
	}
	parkedAt, closedAt, timedOut := "", "", false
	ok := true
	for si := 1; si < len(beh) && ok; si++ {
		step := vh.Map(beh[si]["step"])
		act := vh.Str(step["act"])
		steps = append(steps, step)
		switch act {
		case "SReserve":
			subDone = make(chan struct{})
			started := make(chan struct{})
			go func() {
				defer close(subDone)
				r.mu.Lock()
				r.subGid = goid()
				r.armed["onsubscribe"] = gOn
				r.mu.Unlock()
				close(started)
				id := conn.NextID()
				conn.Do(&protocol.Command{Id: id, Subscribe: &protocol.SubscribeRequest{Channel: r.ch, Type: int32(centrifuge.SubscriptionTypeSharedPoll)}})
			}()
			<-started
			if !gOn.WaitArrived(4 * time.Second) {
				drift("subscribe did not reach the OnSubscribe handler")
				ok = false
			}
			parkedAt = "onsubscribe"
		case "SFinalize":
			r.mu.Lock()
			r.armed["options"], r.armed["processed"] = gOpt, gProc
			r.mu.Unlock()
			gOn.Release()
			switch waitOr(gOpt, subDone, 4*time.Second) {
			case "gate":
				parkedAt = "options"
			case "done":
				parkedAt = ""
			default:
				drift("finalize reached neither GetSharedPollChannelOptions nor the end of the command")
				ok = false
			}
		case "SOpts":
			gOpt.Release()
			switch waitOr(gProc, subDone, 4*time.Second) {
			case "gate":
				parkedAt = "processed"
			case "done":
				parkedAt = ""
			default:
				drift("subscribe reached neither OnCommandProcessed nor its end")
				ok = false
			}
		case "SReply":
		case "SPresence":
			gProc.Release()
			select {
			case <-subDone:
			case <-time.After(4 * time.Second):
				drift("subscribe command did not finish")
				ok = false
			}
			parkedAt = ""
		case "CloseA":
			closedAt = parkedAt
			if closedAt == "" {
				closedAt = "not-parked"
			}
			closeDone = make(chan struct{})
			go func() { defer close(closeDone); _ = conn.CloseF(); r.ended.Store(true) }()
			conn.T.WaitFor(4*time.Second, func(_ []*protocol.Reply, closed bool) bool { return closed })
			if vh.Str(beh[si]["cp"]) == "end" { // nothing to wait for: close() runs to its end
				select {
				case <-closeDone:
				case <-time.After(4 * time.Second):
					drift("close() did not finish although the model has nothing for it to wait for")
					ok = false
				}
			}
		case "CloseWake":
			select {
			case <-closeDone:
			case <-time.After(4 * time.Second):
				drift("close() did not wake up after the gate was released")
				ok = false
			}
		case "CloseWaitTimeout":
			timedOut = true
			select {
			case <-closeDone:
			case <-time.After(9 * time.Second):
				drift("close() did not give up waiting within 9 s")
				ok = false
			}
		case "CloseEnd":
		default:
			drift("unknown action " + act)
			ok = false
		}
	}
	// let everything finish
	r.mu.Lock()
	r.armed = map[string]*cl.Gate{}
	r.mu.Unlock()
	gOn.Release()
	gOpt.Release()
	gProc.Release()
	for _, ch := range []chan struct{}{subDone, closeDone} {
		if ch != nil {
			select {
			case <-ch:
			case <-time.After(9 * time.Second):
				drift("a command did not finish after release")
				ok = false
			}
		}
	}
	if !ok {
		res.Done(1, 0)
		return
	}
	if closeDone == nil {
		_ = conn.CloseF()
	}
	time.Sleep(20 * time.Millisecond)
	pres, _ := r.env.Node.Presence(r.ch)
	chans := conn.Client.Channels()
	where := closedAt
	if timedOut {
		where = "wait-timeout"
	}
	ev := map[string]any{"steps": steps, "closed_while_parked_at": closedAt, "wait_timed_out": timedOut, "presence_entries": len(pres.Presence),
		"client_channels": chans, "joins": r.joins.Load(), "leaves": r.leaves.Load(),
		"backend_calls": r.polls.Load(), "hub_clients": r.env.Node.Hub().NumClients(), "hub_subscribers": r.env.Node.Hub().NumSubscribers(r.ch)}
	var left []string
	if len(pres.Presence) > 0 {
		left = append(left, fmt.Sprintf("%d presence entr(y/ies) of the channel", len(pres.Presence)))
	}
	if len(chans) > 0 {
		left = append(left, fmt.Sprintf("Client.Channels() = %v", chans))
	}
	// (a leave without a join - close() tearing down a subscription whose join was not published yet - is tolerated:
	// the statement is about what REMAINS of the connection)
	if r.joins.Load() > r.leaves.Load() {
		left = append(left, fmt.Sprintf("%d join(s) but %d leave(s)", r.joins.Load(), r.leaves.Load()))
	}
	if r.late.Load() > 0 {
		left = append(left, fmt.Sprintf("%d join(s) published after close() had returned", r.late.Load()))
	}
	if n := r.env.Node.Hub().NumClients(); n > 0 {
		left = append(left, fmt.Sprintf("%d client(s) in Node.Hub()", n))
	}
	if closeDone != nil && len(left) > 0 {
		res.Violate("C05", "keyed-subscribe-finishes-after-close:"+where, fmt.Sprintf("close() completed and the shared-poll subscribe command returned, but the connection left behind: %s (subscribe was parked at %q when close started; close wait timed out: %v) (behaviour %d)", strings.Join(left, "; "), closedAt, timedOut, bi), ev)
	}
	conn.Cancel()
	res.Distinct(vh.J(steps))
	if bi < 1 {
		res.Sample(ev)
	}
	res.Done(1, 1)
}

type scIn struct {
	Behaviours [][]map[string]any `json:"behaviours"`
}

func subCloseMode(in json.RawMessage, res *vh.Result) error {
	var si scIn
	if err := json.Unmarshal(in, &si); err != nil {
		return err
	}
	var wg sync.WaitGroup
	sem := make(chan struct{}, 12) // behaviours that wait out the 5 s gate run side by side on their own nodes
	for bi := range si.Behaviours {
		wg.Add(1)
		sem <- struct{}{}
		go func(bi int) {
			defer wg.Done()
			defer func() { <-sem }()
			r, err := newSCRunner(bi)
			if err != nil {
				res.Drift("C05", "node setup: "+err.Error(), nil)
				res.Done(1, 0)
				return
			}
			r.run(bi, si.Behaviours[bi], res)
		}(bi)
	}
	wg.Wait()
	return nil
}
