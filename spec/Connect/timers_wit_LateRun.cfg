SPECIFICATION Spec
CONSTANTS
  MaxNow = 5
  MaxActs = 7
  CfgSet <- CfgExp
  ServerZeroRearms = FALSE
INVARIANTS WitLateRun
CHECK_DEADLOCK FALSE
