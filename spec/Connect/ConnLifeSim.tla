---------------------------- MODULE ConnLifeSim ----------------------------
(* Behaviour generator for replay (TLC -simulate) over ConnLife: slot weights so that the reader, tick and close
   threads make progress more often than the environment throws new closes at the connections. *)
EXTENDS ConnLife

VARIABLE w
simvars == <<vars, w>>

SimNext ==
  IF Urgent /\ \E c \in Conns : CloseStartEnabled(c)
    THEN (\E c \in Conns : CloseStart(c)) /\ w' = 0
  ELSE IF Urgent /\ \E c \in Conns : rd[c] = "tm"
    THEN (\E c \in Conns : ConnArm(c)) /\ w' = 0
    ELSE \/ \E c \in Conns, s \in 1..5 : (NewConn(c) \/ ConnBegin(c) \/ ConnAuth(c) \/ ConnReg(c) \/ ConnReply(c) \/ ConnDone(c) \/ ConnArm(c)) /\ w' = s
         \/ \E c \in Conns, s \in 1..3 : (TickBegin(c) \/ TickEnd(c) \/ TimerExpire(c) \/ CloseXmit(c)) /\ w' = s
         \/ \E c \in Conns, s \in 1..2 : (Subscribe(c) \/ Unsubscribe(c) \/ AnyPush(c)) /\ w' = s
         \/ \E c \in Conns : DupConnect(c) /\ w' = 0
         \/ \E c \in Conns : (Disconnect(c) \/ TransportClose(c)) /\ w' = 0
         \/ ShutBegin /\ w' = 0
         \/ \E s \in 1..3 : ShutDone /\ w' = s

SimSpec == Init /\ w = 0 /\ [][SimNext]_simvars
=============================================================================
