SPECIFICATION Spec
CONSTANTS
  Bs = {16, 130}
  WClasses = {"0", "1", "B", "B+1", "2B+1", "L+1"}
  OClasses = {"0", "B", "B+1", "L+1", "126"}
  PClasses = {"0", "126", "PB+1"}
  MaxOps = 4
  MaxWrites = 2
INVARIANTS TypeOK Monitor Dangling ControlLimit ErrorsEmitNothing
VIEW View
CHECK_DEADLOCK FALSE
