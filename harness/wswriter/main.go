// Family wswriter: C30 (writer/reader round trip, spec/WsWriter) and C31 (handshake, close codes,
// transport close, first-close-wins; spec/WsHandshake) bound to /repo/internal/websocket and
// /repo/handler_websocket.go.
//
// mode write (C30): replays TLC-generated API scripts (behaviours of WsWriterSim) into a REAL Conn over an
// in-memory net.Conn; the bytes that hit the wire are parsed by the independent parser of frames.go and
// compared step by step with the frames the model emits, validated against RFC 6455 by the independent
// stream validator, reassembled and compared byte for byte with what was written, and finally fed to a real
// Conn of the opposite role whose ReadMessage / ping / pong / close results must equal what was written.
package main

import (
	"bytes"
	"encoding/binary"
	"encoding/json"
	"fmt"
	"io"
	"math/rand"
	"strings"
	"sync"
	"time"

	"github.com/centrifugal/centrifuge"

	"verifharness/vh"
)

type mstep struct {
	Op     string   `json:"op"`
	T      int      `json:"t"`
	Z      bool     `json:"z"`
	N      int      `json:"n"`
	Via    string   `json:"via"`
	Res    string   `json:"res"`
	Out    []aframe `json:"out"`
	Claims []claim  `json:"claims"`
}

type aframe struct {
	Op     int  `json:"op"`
	Fin    bool `json:"fin"`
	Rsv1   bool `json:"rsv1"`
	Masked bool `json:"masked"`
	Len    int  `json:"len"`
}

type claim struct {
	T    int  `json:"t"`
	N    int  `json:"n"`
	Z    bool `json:"z"`
	Prev bool `json:"prev"`
}

type script struct {
	Side  string  `json:"side"`
	Neg   bool    `json:"neg"`
	B     int     `json:"B"`
	Steps []mstep `json:"steps"`
}

// --- normalisation shared by the model's and the real frame lists: the fragments of a COMPRESSED message
// (lengths and fragment count depend on DEFLATE) are collapsed into one record placed where the final
// fragment is; everything else is kept verbatim.
type normState struct {
	inMsg, comp bool
	typ         int
	masked      bool
}

func (st *normState) norm(fs []aframe) []aframe {
	var out []aframe
	for _, f := range fs {
		switch {
		case f.Op == 1 || f.Op == 2:
			st.inMsg, st.comp, st.typ, st.masked = !f.Fin, f.Rsv1, f.Op, f.Masked
			if !st.comp {
				out = append(out, f)
			} else if f.Fin {
				out = append(out, aframe{f.Op, true, true, f.Masked, -1})
			}
		case f.Op == 0 && st.inMsg && st.comp:
			if f.Rsv1 || f.Masked != st.masked {
				out = append(out, f) // anomaly, keep it visible
			}
			if f.Fin {
				st.inMsg = false
				out = append(out, aframe{st.typ, true, true, st.masked, -1})
			}
		case f.Op == 0:
			if f.Fin {
				st.inMsg = false
			}
			out = append(out, f)
		default:
			out = append(out, f)
		}
	}
	return out
}

func diffFrames(model, real []aframe) string {
	if len(model) != len(real) {
		return "count"
	}
	for i := range model {
		m, r := model[i], real[i]
		switch {
		case m.Op != r.Op:
			return "opcode"
		case m.Fin != r.Fin:
			return "fin"
		case m.Rsv1 != r.Rsv1:
			return "rsv1"
		case m.Masked != r.Masked:
			return "mask"
		case m.Len != r.Len:
			return "len"
		}
	}
	return ""
}

func fstr(fs []aframe) string {
	var sb strings.Builder
	for _, f := range fs {
		fmt.Fprintf(&sb, "[op=%d fin=%v rsv1=%v masked=%v len=%d]", f.Op, f.Fin, f.Rsv1, f.Masked, f.Len)
	}
	if sb.Len() == 0 {
		return "(nothing)"
	}
	return sb.String()
}

// --- prepared messages are shared by all connections of a run (that is what they are for: one
// PreparedMessage broadcast to connections of either role, with and without compression).
type pmKey struct{ t, n int }
type pmVal struct {
	pm   *centrifuge.VerifWsPreparedMessage
	data []byte
	err  error
}

var (
	pmMu    sync.Mutex
	pmCache = map[pmKey]*pmVal{}
)

func prepared(t, n int) *pmVal {
	pmMu.Lock()
	defer pmMu.Unlock()
	k := pmKey{t, n}
	if v, ok := pmCache[k]; ok {
		return v
	}
	rng := rand.New(rand.NewSource(vh.Seed()*1000003 + int64(t)*7919 + int64(n)))
	var data []byte
	if t == 8 || t == 9 || t == 10 {
		data = genControl(rng, t, n)
	} else {
		data = genPayload(rng, n)
	}
	orig := append([]byte(nil), data...)
	pm, err := centrifuge.VerifWsNewPreparedMessage(t, data)
	v := &pmVal{pm: pm, data: orig, err: err}
	pmCache[k] = v
	return v
}

type poolT struct{ p sync.Pool }

func (p *poolT) Get() interface{}  { return p.p.Get() }
func (p *poolT) Put(v interface{}) { p.p.Put(v) }

var sharedPools = map[int]*poolT{}

// srcReader: an io.Reader over data that is NOT an io.WriterTo. eofWithData: the Read that hands out the last
// bytes reports io.EOF together with them (allowed by the io.Reader contract); otherwise (0, io.EOF) comes
// separately. chunk > 0: at most chunk bytes per Read.
type srcReader struct {
	data        []byte
	off         int
	chunk       int
	eofWithData bool
}

func (r *srcReader) Read(p []byte) (int, error) {
	if r.off >= len(r.data) {
		return 0, io.EOF
	}
	k := len(r.data) - r.off
	if k > len(p) {
		k = len(p)
	}
	if r.chunk > 0 && k > r.chunk {
		k = r.chunk
	}
	copy(p, r.data[r.off:r.off+k])
	r.off += k
	if r.eofWithData && r.off == len(r.data) {
		return k, io.EOF
	}
	return k, nil
}

func isCtl(t int) bool { return t == 8 || t == 9 || t == 10 }

func runScript(idx int, sc script, res *vh.Result) (completed bool) {
	rng := rand.New(rand.NewSource(vh.Seed()*7919 + int64(idx)))
	isServer := sc.Side == "server"
	cc := &capConn{}
	var pool centrifuge.VerifWsBufferPool
	usePool := rng.Intn(3) == 0
	if usePool {
		p, ok := sharedPools[sc.B]
		if !ok {
			p = &poolT{}
			sharedPools[sc.B] = p
		}
		pool = p
	}
	conn := centrifuge.VerifWsNewConn(cc, isServer, 0, sc.B, pool, sc.Neg)
	if rng.Intn(2) == 0 {
		_ = conn.SetCompressionLevel([]int{-2, 1, 1, 6, 9}[rng.Intn(5)])
	}
	cfgs := fmt.Sprintf("%s/neg=%v/B=%d", sc.Side, sc.Neg, sc.B)
	replay := map[string]any{"script": sc, "seed": vh.Seed(), "index": idx}

	var (
		w            io.WriteCloser
		cur          []byte
		expected     []delivery
		wire         []byte
		ms, rs       normState
		val          = &streamValidator{fromClient: !isServer, negotiated: sc.Neg}
		ops          []string
		fragments    bool
		pendingDrift string
		interleav    bool
	)
	bad := func(sig, what string) {
		res.Violate("C30", sig, fmt.Sprintf("%s [%s, script #%d step ops: %s]", what, cfgs, idx, strings.Join(ops, " ")), replay)
	}
	for si, st := range sc.Steps {
		if st.Op == "Init" {
			continue
		}
		ops = append(ops, fmt.Sprintf("%s(t=%d,n=%d,z=%v%s)", st.Op, st.T, st.N, st.Z, map[bool]string{true: "," + st.Via, false: ""}[st.Op == "Write"]))
		var err error
		var data []byte
		panicked := func() (p any) {
			defer func() { p = recover() }()
			switch st.Op {
			case "NextWriter":
				conn.EnableWriteCompression(st.Z)
				var nw io.WriteCloser
				nw, err = conn.NextWriter(st.T)
				if err == nil {
					w = nw
				} else {
					w = nil
				}
			case "Write", "Close":
				if w == nil { // only after an earlier disagreement with the model
					err = fmt.Errorf("no writer")
					return nil
				}
				if st.Op == "Close" {
					err = w.Close()
					return nil
				}
				data = genPayload(rng, st.N)
				if isCtl(sc.currentType(si)) {
					data = genControlAt(rng, sc.currentType(si), st.N, len(cur), 1000)
				}
				var n int
				switch st.Via {
				case "s":
					n, err = io.WriteString(w, string(data)) // messageWriter.WriteString; Write on a flate-wrapped writer
				case "r", "re", "rc", "rce":
					// io.Copy: messageWriter.ReadFrom on a plain writer (the source is not an io.WriterTo), the generic
					// Read/Write loop on a flate-wrapped one
					src := &srcReader{data: data, eofWithData: st.Via == "re" || st.Via == "rce"}
					if st.Via == "rc" || st.Via == "rce" {
						src.chunk = 1 + rng.Intn(7)
					}
					var n64 int64
					n64, err = io.Copy(w, src)
					n = int(n64)
				default:
					n, err = w.Write(data)
				}
				if err == nil && n != len(data) {
					bad("write:short-count", fmt.Sprintf("streaming call (%s) of %d bytes returned n=%d with a nil error", st.Via, len(data), n))
				}
			case "WriteMessage":
				conn.EnableWriteCompression(st.Z)
				if isCtl(st.T) {
					data = genControl(rng, st.T, st.N)
				} else {
					data = genPayload(rng, st.N)
				}
				keep := append([]byte(nil), data...)
				err = conn.WriteMessage(st.T, data)
				if !bytes.Equal(keep, data) {
					bad("write:caller-buffer-modified", "WriteMessage modified the caller's data slice")
				}
				w = nil
			case "Prepared":
				conn.EnableWriteCompression(st.Z)
				pv := prepared(st.T, st.N)
				data = pv.data
				if pv.err != nil {
					err = pv.err
				} else {
					err = conn.WritePreparedMessage(pv.pm)
				}
			case "Control":
				data = genControl(rng, st.T, st.N)
				dl := time.Time{}
				if rng.Intn(2) == 0 {
					dl = time.Now().Add(time.Hour)
				}
				err = conn.WriteControl(st.T, data, dl)
			default:
				panic("unknown op " + st.Op)
			}
			return nil
		}()
		if panicked != nil {
			bad("panic:"+st.Op, fmt.Sprintf("%s panicked: %v", st.Op, panicked))
			return false
		}
		// --- wire of this step
		b := cc.take()
		wire = append(wire, b...)
		fr, rest, perr := parseFrames(b)
		if perr != nil || len(rest) > 0 {
			bad("wire:unparsable:"+st.Op, fmt.Sprintf("step %d %s: bytes on the wire are not whole frames (%v, %d bytes left over)", si, st.Op, perr, len(rest)))
			return false
		}
		realA := make([]aframe, len(fr))
		for i, f := range fr {
			realA[i] = aframe{f.Op, f.Fin, f.Rsv1, f.Masked, f.Len}
			if rule := val.feed(f); rule != "" {
				bad("wire:"+rule, fmt.Sprintf("step %d %s put an invalid frame sequence on the wire (RFC rule: %s): frame %s; frames of this step: %s", si, st.Op, rule, f, fstr(realA[:i+1])))
				return false
			}
			switch f.Len { // payload-length encoding boundaries actually put on the wire
			case 125, 126, 65535, 65536:
				res.Count(fmt.Sprintf("wire_frames_len_%d", f.Len), 1)
			}
			if f.Op == 0 || (!f.Fin && f.Op < 8) {
				fragments = true
			}
			if f.Op >= 8 && val.inMsg {
				interleav = true
			}
		}
		// disagreement with the model about HOW the message was cut into frames or about a result is not by
		// itself a violation of the property (any valid framing that round-trips is fine): it is reported as
		// drift unless the validator / the round trips below fail
		mN, rN := ms.norm(st.Out), rs.norm(realA)
		if d := diffFrames(mN, rN); d != "" && pendingDrift == "" {
			pendingDrift = fmt.Sprintf("step %d %s: frames on the wire %s, the model of the writer emits %s (difference: %s)", si, st.Op, fstr(realA), fstr(st.Out), d)
		}
		if st.Res != "any" && (err != nil) != (st.Res == "err") && pendingDrift == "" {
			pendingDrift = fmt.Sprintf("step %d %s returned err=%v, model result %s", si, st.Op, err, st.Res)
		}
		// --- what the peer must receive
		if st.Op == "Write" {
			if st.Res != "err" {
				cur = append(cur, data...)
			}
		}
		for _, c := range st.Claims {
			if c.Prev || st.Op == "Close" {
				expected = append(expected, delivery{Type: c.T, Data: cur, Compressed: c.Z})
				cur = nil
			} else {
				expected = append(expected, delivery{Type: c.T, Data: append([]byte(nil), data...), Compressed: c.Z})
			}
		}
		if st.Op == "NextWriter" || st.Op == "WriteMessage" {
			cur = nil
		}
	}
	// --- round trip 1: independent reassembly
	if sig, what := compareDeliveries(expected, val.out, false); sig != "" {
		bad("roundtrip-parser:"+sig, "independent decoder of the wire bytes: "+what)
		return false
	}
	// --- round trip 2: the real reader of the opposite role
	got, rerr := readAll(wire, !isServer, sc.Neg)
	if sig, what := compareDeliveries(expected, got, true); sig != "" {
		bad("roundtrip-reader:"+sig, fmt.Sprintf("real Conn reader (%s side): %s (final read error: %v)", map[bool]string{true: "client", false: "server"}[isServer], what, rerr))
		return false
	}
	if pendingDrift != "" {
		res.Drift("C30", fmt.Sprintf("%s [%s script #%d: %s]", pendingDrift, cfgs, idx, strings.Join(ops, " ")), replay)
		return false
	}
	if fragments || interleav {
		res.Distinct(strings.Join(ops, " ") + cfgs)
	}
	if fragments {
		res.Count("scripts_with_fragmented_messages", 1)
	}
	if interleav {
		res.Count("scripts_with_control_between_fragments", 1)
	}
	res.Count("frames_on_wire", len(val.out))
	res.Count("messages_expected", len(expected))
	if idx < 2 {
		res.Sample(map[string]any{"config": cfgs, "ops": ops, "wire_bytes": len(wire), "deliveries": len(expected)})
	}
	return true
}

// currentType / prevType: the message type of the writer that is open at step i (from the last NextWriter)
func (sc script) currentType(i int) int {
	for j := i - 1; j >= 0; j-- {
		if sc.Steps[j].Op == "NextWriter" {
			return sc.Steps[j].T
		}
	}
	return 1
}

func compareDeliveries(exp, got []delivery, viaReader bool) (string, string) {
	if viaReader {
		// a close message with a 1 byte payload is not a valid close payload (RFC 6455 5.5.1); what a reader
		// makes of it (1005 or a protocol error) is the reader's business (C29): nothing follows a close anyway
		for i, e := range exp {
			if e.Type == 8 && len(e.Data) == 1 {
				exp = exp[:i]
				if len(got) > i {
					got = got[:i]
				}
				break
			}
		}
	}
	for i := 0; i < len(exp) && i < len(got); i++ {
		e, g := exp[i], got[i]
		if e.Type != g.Type {
			return "type", fmt.Sprintf("message %d has type %d, written as type %d", i, g.Type, e.Type)
		}
		if e.Type == 8 && viaReader {
			// the reader reports (code, text); 0 bytes = 1005; a 1 byte payload is outside RFC 6455 (C29's business)
			want := []byte{0x03, 0xed} // 1005
			if len(e.Data) >= 2 {
				want = e.Data
			}
			if !bytes.Equal(want, g.Data) {
				return "close-payload", fmt.Sprintf("close message %d received as %x, written %x", i, g.Data, e.Data)
			}
			continue
		}
		if !bytes.Equal(e.Data, g.Data) {
			k := 0
			for k < len(e.Data) && k < len(g.Data) && e.Data[k] == g.Data[k] {
				k++
			}
			return "bytes", fmt.Sprintf("message %d (type %d): %d bytes received, %d written, first difference at offset %d", i, e.Type, len(g.Data), len(e.Data), k)
		}
	}
	if len(exp) != len(got) {
		return "count", fmt.Sprintf("%d messages received, %d written", len(got), len(exp))
	}
	return "", ""
}

// readAll feeds wire to a real Conn of the given role and collects what its application sees.
func readAll(wire []byte, readerIsServer, neg bool) (out []delivery, final error) {
	rc := centrifuge.VerifWsNewConn(&capConn{r: bytes.NewReader(wire)}, readerIsServer, 0, 0, nil, neg)
	rc.SetPingHandler(func(d []byte) error {
		out = append(out, delivery{Type: 9, Data: append([]byte(nil), d...)})
		return nil
	})
	rc.SetPongHandler(func(d []byte) error {
		out = append(out, delivery{Type: 10, Data: append([]byte(nil), d...)})
		return nil
	})
	defer func() {
		if p := recover(); p != nil {
			final = fmt.Errorf("reader panicked: %v", p)
		}
	}()
	for {
		t, p, err := rc.ReadMessage()
		if err != nil {
			if ce, ok := err.(*centrifuge.VerifWsCloseError); ok && ce.Code != 1006 {
				d := make([]byte, 2+len(ce.Text))
				binary.BigEndian.PutUint16(d, uint16(ce.Code))
				copy(d[2:], ce.Text)
				out = append(out, delivery{Type: 8, Data: d})
			}
			return out, err
		}
		out = append(out, delivery{Type: t, Data: p})
	}
}

func modeWrite(in json.RawMessage, res *vh.Result) error {
	var scripts []script
	if err := json.Unmarshal(in, &scripts); err != nil {
		return err
	}
	for i, sc := range scripts {
		ok := runScript(i, sc, res)
		c := 0
		if ok {
			c = 1
		}
		res.Done(1, c)
	}
	return nil
}

func main() {
	vh.Main(map[string]vh.Mode{
		"write":          modeWrite,
		"stall":          modeStall,
		"handshake":      modeHandshake,
		"closecodes":     modeCloseCodes,
		"transportclose": modeTransportClose,
		"closereg":       modeCloseReg,
	})
}
