//go:build verif

package centrifuge

// Overlay-injected (never committed to /repo): read-only accessors for the `redisfuncs` family of
// /verif (C33 push framing, C34 cluster key slots, C35 partition tags). Nothing here talks to Redis:
// the brokers are built around a RedisShard VALUE without a client.

import (
	"context"
	"fmt"
	"sync"
	"time"
	"unsafe"

	"github.com/redis/rueidis"

	"github.com/centrifugal/centrifuge/internal/redispartition"
)

// ---------------------------------------------------------------------------------------------- C33

// VerifPush is the decoded push tuple of extractPushData.
type VerifPush struct {
	Payload []byte
	Kind    int // 0 publication, 1 join, 2 leave
	Offset  uint64
	Epoch   string
	Delta   bool
	Prev    []byte
	OK      bool
}

// VerifExtractPushData calls the real decoder of Redis PUB/SUB payloads (no recover here: the
// harness decides what a panic means).
func VerifExtractPushData(data []byte) VerifPush {
	payload, kind, sp, delta, prev, ok := extractPushData(data)
	return VerifPush{Payload: payload, Kind: int(kind), Offset: sp.Offset, Epoch: sp.Epoch, Delta: delta, Prev: prev, OK: ok}
}

// VerifJoinFrame / VerifLeaveFrame build the PUB/SUB payload exactly as publishJoin / publishLeave do
// (broker_redis.go: `append(joinTypePrefix, byteMessage...)`).
func VerifJoinFrame(msg []byte) []byte  { return append(joinTypePrefix, msg...) }
func VerifLeaveFrame(msg []byte) []byte { return append(leaveTypePrefix, msg...) }

// VerifPrefixCaps reports len/cap of the package-level prefixes: append() onto them must allocate
// (cap == len), otherwise concurrent publishJoin calls would share a backing array.
func VerifPrefixCaps() [4]int {
	return [4]int{len(joinTypePrefix), cap(joinTypePrefix), len(leaveTypePrefix), cap(leaveTypePrefix)}
}

type verifNopHandler struct{}

func (verifNopHandler) HandlePublication(string, *Publication, StreamPosition, bool, *Publication) error {
	return nil
}
func (verifNopHandler) HandleJoin(string, *ClientInfo) error  { return nil }
func (verifNopHandler) HandleLeave(string, *ClientInfo) error { return nil }

// ---------------------------------------------------------------------------------------------- C34

// VerifKeyConfig selects the deployment mode of the key builders.
type VerifKeyConfig struct {
	Prefix      string // "" = the constructors' default
	Cluster     bool
	Partitions  int  // NumShardedPubSubPartitions (0 = not sharded)
	Precomputed bool // UsePrecomputedPartitionTags
	UseLists    bool
}

// VerifKeys holds the three Redis-backed engines built for one configuration.
type VerifKeys struct {
	cfg      VerifKeyConfig
	shard    *RedisShard
	broker   *RedisBroker
	mapb     *RedisMapBroker // nil when the constructor's rules reject the mode (cluster without sharding)
	presence *RedisPresenceManager
	node     *Node
	mapOpts  *verifMapOpts
	MapErr   string
}

// VerifNewKeys builds the engines. RedisBroker and RedisPresenceManager come from their real
// constructors (which do not touch the connection); RedisMapBroker's constructor starts cleanup
// goroutines that use the connection, so the value is assembled here from the same statements
// (prefix default, FindTags, shardChannel/messagePrefix, the cluster/sharding validation).
func VerifNewKeys(c VerifKeyConfig) (*VerifKeys, error) {
	mo := &verifMapOpts{}
	mo.opts, _ = verifMapChannelOptions("recoverable", false)
	n, err := New(Config{Map: MapConfig{GetMapChannelOptions: mo.get}})
	if err != nil {
		return nil, err
	}
	shard := &RedisShard{isCluster: c.Cluster}
	b, err := NewRedisBroker(n, RedisBrokerConfig{
		Prefix: c.Prefix, Shards: []*RedisShard{shard}, NumShardedPubSubPartitions: c.Partitions,
		UsePrecomputedPartitionTags: c.Precomputed, UseLists: c.UseLists,
	})
	if err != nil {
		return nil, fmt.Errorf("NewRedisBroker: %w", err)
	}
	pm, err := NewRedisPresenceManager(n, RedisPresenceManagerConfig{Prefix: c.Prefix, Shards: []*RedisShard{shard}})
	if err != nil {
		return nil, fmt.Errorf("NewRedisPresenceManager: %w", err)
	}
	k := &VerifKeys{cfg: c, shard: shard, broker: b, presence: pm, node: n, mapOpts: mo}

	// --- RedisMapBroker, mirroring NewRedisMapBroker (map_broker_redis.go) without the workers.
	conf := RedisMapBrokerConfig{
		Prefix: c.Prefix, Shards: []*RedisShard{shard}, NumShardedPubSubPartitions: c.Partitions,
		UsePrecomputedPartitionTags: c.Precomputed,
	}
	if conf.Prefix == "" {
		conf.Prefix = "centrifuge"
	}
	var tags []string
	if conf.UsePrecomputedPartitionTags {
		tags, err = redispartition.FindTags(conf.NumShardedPubSubPartitions)
		if err != nil {
			return nil, err
		}
	}
	switch {
	case !shard.isCluster && conf.NumShardedPubSubPartitions > 0:
		k.MapErr = "can use sharded PUB/SUB feature only with Redis Cluster"
	case shard.isCluster && conf.NumShardedPubSubPartitions == 0:
		k.MapErr = "redis cluster requires sharded PUB/SUB"
	default:
		e := &RedisMapBroker{node: n, conf: conf, shards: []*brokerShardWrapper{{shard: shard}}, partitionTags: tags,
			addScript:           rueidis.NewLuaScript(brokerStatePublishScriptSource),
			readOrderedScript:   rueidis.NewLuaScript(brokerStateReadOrderedScriptSource),
			readUnorderedScript: rueidis.NewLuaScript(brokerStateReadUnorderedScriptSource),
			readStreamScript:    rueidis.NewLuaScript(brokerStateReadStreamScriptSource),
			readMetaScript:      rueidis.NewLuaScript(brokerStateReadMetaScriptSource),
			presenceStatsScript: rueidis.NewLuaScript(brokerStateStatsScriptSource),
			findExpiredScript:   rueidis.NewLuaScript(brokerStateFindExpiredScriptSource),
			batchRemoveScript:   rueidis.NewLuaScript(brokerStateBatchRemoveScriptSource),
			closeCh:             make(chan struct{}),
		}
		e.conf.IdempotentResultTTL = 5 * time.Minute
		e.conf.CleanupBatchSize = 100
		e.shardChannel = conf.Prefix + redisPubSubShardChannelSuffix
		e.messagePrefix = conf.Prefix + redisClientChannelPrefix
		k.mapb = e
	}
	return k, nil
}

// Keys returns every key / channel builder's output for one channel, by builder name.
func (k *VerifKeys) Keys(ch, idem string) map[string]string {
	s, b := k.shard, k.broker
	out := map[string]string{}
	chID := b.messageChannelID(s, ch)
	out["broker.messageChannelID"] = string(chID)
	out["broker.extractChannel"] = b.extractChannel(s.isCluster, chID)
	out["broker.historyStreamKey"] = string(b.historyStreamKey(s, ch))
	out["broker.historyListKey"] = string(b.historyListKey(s, ch))
	out["broker.historyMetaKey"] = string(b.historyMetaKey(s, ch))
	out["broker.resultCacheKey"] = string(b.resultCacheKey(s, ch, idem))
	out["broker.resultCacheKeyNoIdem"] = string(b.resultCacheKey(s, ch, "")) // KEYS[3] of a history publish without idempotency key
	if b.useShardedPubSub(s) {
		idx := consistentIndex(ch, b.config.NumShardedPubSubPartitions)
		out["broker.partitionIndex"] = fmt.Sprint(idx)
		out["broker.partitionTag"] = b.pubSubPartitionHashTag(idx)
		out["broker.pubSubShardChannelID"] = string(b.pubSubShardChannelID(idx, 0, true))
	}

	m := k.presence
	// the real KEYS lists of the presence scripts
	addKeys, _, _ := m.addPresenceScriptKeysArgs(s, ch, "uid", &ClientInfo{ClientID: "uid", UserID: "u"})
	remKeys, _, _ := m.removePresenceScriptKeysArgs(s, ch, "uid", "u")
	getKeys, _, _ := m.presenceScriptKeysArgs(s, ch)
	statKeys, _, _ := m.presenceStatsScriptKeysArgs(s, ch)
	for i, key := range addKeys {
		out[fmt.Sprintf("presence.add.%d", i)] = key
	}
	for i, key := range remKeys {
		out[fmt.Sprintf("presence.remove.%d", i)] = key
	}
	for i, key := range getKeys {
		out[fmt.Sprintf("presence.get.%d", i)] = key
	}
	for i, key := range statKeys {
		out[fmt.Sprintf("presence.stats.%d", i)] = key
	}
	out["presence.setKey"] = string(m.presenceSetKey(s, ch))
	out["presence.hashKey"] = string(m.presenceHashKey(s, ch))
	out["presence.userSetKey"] = string(m.userSetKey(s, ch))
	out["presence.userHashKey"] = string(m.userHashKey(s, ch))

	if e := k.mapb; e != nil {
		mch := e.messageChannelID(s, ch)
		out["map.messageChannelID"] = mch
		out["map.extractChannel"] = e.extractChannel(mch)
		out["map.streamKey"] = e.streamKey(s, ch)
		out["map.metaKey"] = e.metaKey(s, ch)
		out["map.stateHashKey"] = e.stateHashKey(s, ch)
		out["map.stateOrderKey"] = e.stateOrderKey(s, ch)
		out["map.stateExpireKey"] = e.stateExpireKey(s, ch)
		out["map.stateMetaKey"] = e.stateMetaKey(s, ch)
		out["map.nilKey"] = e.buildKey(s, ch, ":nil:")
		out["map.resultCacheKey"] = e.resultCacheKey(s, ch, idem)
		out["map.cleanupRegistrationKey"] = e.cleanupRegistrationKeyForChannel(s, ch)
		if e.useShardedPubSub(s) {
			idx := consistentIndex(ch, e.conf.NumShardedPubSubPartitions)
			out["map.partitionIndex"] = fmt.Sprint(idx)
			out["map.partitionTag"] = e.pubSubPartitionHashTag(idx)
			out["map.pubSubShardChannelID"] = e.pubSubShardChannelID(idx, 0, true)
		}
	}
	return out
}

// DefaultPrefix is the effective key prefix after the constructors' defaulting.
func (k *VerifKeys) DefaultPrefix() string { return k.broker.config.Prefix }

// VerifRedisSlot is the package's own slot function (redis_cluster_slot.go).
func VerifRedisSlot(key string) int { return int(redisSlot(key)) }

// VerifHandleClientMessage feeds one raw PUB/SUB payload to the broker's message handler (used to
// show that a decoder panic is not contained by the caller).
func (k *VerifKeys) VerifHandleClientMessage(ch string, data []byte) error {
	return k.broker.handleRedisClientMessage(k.shard.isCluster, verifNopHandler{}, k.broker.messageChannelID(k.shard, ch), data)
}

// ---------------------------------------------------------------------------------------------- capture
// verifFakeClient is a rueidis.Client that records the commands the real operations build and answers
// nothing (the zero RedisResult: the operations then fail with a parse error after the command was
// built, which is all that is needed here). Builders carry rueidis' slot bookkeeping: `clusterSlots`
// selects the initial value the real cluster client uses (cmds.InitSlot = 1<<14: rueidis PANICS with
// "multi key command with different key slots are not allowed" when the KEYS of one EVALSHA hash to
// different slots) or the one of the standalone client (cmds.NoSlot = 1<<15: no check).
type verifFakeClient struct {
	mu           sync.Mutex
	cmds         [][]string
	clusterSlots bool
}

func (f *verifFakeClient) B() rueidis.Builder {
	var b rueidis.Builder // struct{ ks uint16 }
	ks := uint16(1 << 15)
	if f.clusterSlots {
		ks = 1 << 14
	}
	*(*uint16)(unsafe.Pointer(&b)) = ks
	return b
}
func (f *verifFakeClient) rec(cmd rueidis.Completed) {
	c := append([]string(nil), cmd.Commands()...)
	f.mu.Lock()
	f.cmds = append(f.cmds, c)
	f.mu.Unlock()
}
func (f *verifFakeClient) Do(_ context.Context, cmd rueidis.Completed) rueidis.RedisResult {
	f.rec(cmd)
	return rueidis.RedisResult{}
}
func (f *verifFakeClient) DoMulti(_ context.Context, multi ...rueidis.Completed) []rueidis.RedisResult {
	for _, c := range multi {
		f.rec(c)
	}
	return make([]rueidis.RedisResult, len(multi))
}
func (f *verifFakeClient) Receive(context.Context, rueidis.Completed, func(rueidis.PubSubMessage)) error {
	return nil
}
func (f *verifFakeClient) Close() {}
func (f *verifFakeClient) DoCache(context.Context, rueidis.Cacheable, time.Duration) rueidis.RedisResult {
	return rueidis.RedisResult{}
}
func (f *verifFakeClient) DoMultiCache(_ context.Context, multi ...rueidis.CacheableTTL) []rueidis.RedisResult {
	return make([]rueidis.RedisResult, len(multi))
}
func (f *verifFakeClient) DoStream(context.Context, rueidis.Completed) rueidis.RedisResultStream {
	return rueidis.RedisResultStream{}
}
func (f *verifFakeClient) DoMultiStream(context.Context, ...rueidis.Completed) rueidis.MultiRedisResultStream {
	return rueidis.MultiRedisResultStream{}
}
func (f *verifFakeClient) Dedicated(func(rueidis.DedicatedClient) error) error { return nil }
func (f *verifFakeClient) Dedicate() (rueidis.DedicatedClient, func())          { return nil, func() {} }
func (f *verifFakeClient) Nodes() map[string]rueidis.Client                    { return nil }
func (f *verifFakeClient) Mode() rueidis.ClientMode {
	if f.clusterSlots {
		return rueidis.ClientModeCluster
	}
	return rueidis.ClientModeStandalone
}

// VerifCaptured is one real operation run against the recording client.
type VerifCaptured struct {
	Op    string
	Cmds  [][]string // the commands it built, e.g. ["EVALSHA", sha, numkeys, KEYS..., ARGV...]
	Panic string     // non-empty: the operation panicked while building / sending the command
}

func (k *VerifKeys) capture(op string, clusterSlots bool, fn func()) VerifCaptured {
	f := &verifFakeClient{clusterSlots: clusterSlots}
	k.shard.client = f
	defer func() { k.shard.client = nil }()
	out := VerifCaptured{Op: op}
	func() {
		defer func() {
			if p := recover(); p != nil {
				out.Panic = fmt.Sprint(p)
			}
		}()
		fn()
	}()
	f.mu.Lock()
	out.Cmds = f.cmds
	f.mu.Unlock()
	return out
}

// verifMapOpts is what the node's GetMapChannelOptions returns for every channel; Invoke sets it
// according to the invocation's map mode before running a map broker operation.
type verifMapOpts struct {
	mu   sync.Mutex
	opts MapChannelOptions
}

func (o *verifMapOpts) get(string) MapChannelOptions {
	o.mu.Lock()
	defer o.mu.Unlock()
	return o.opts
}

func verifMapChannelOptions(mode string, ordered bool) (MapChannelOptions, error) {
	var o MapChannelOptions
	switch mode {
	case "ephemeral":
		o = MapChannelOptions{Mode: MapModeEphemeral, KeyTTL: time.Minute}
	case "recoverable":
		o = MapChannelOptions{Mode: MapModeRecoverable, KeyTTL: time.Minute, StreamSize: 10, StreamTTL: time.Minute}
	case "persistent":
		o = MapChannelOptions{Mode: MapModePersistent, StreamSize: 10, StreamTTL: time.Minute}
	default:
		return o, fmt.Errorf("unknown map mode %q", mode)
	}
	o.ordered = ordered
	return o, nil
}

// Invoke runs ONE real operation, selected by the invocation name of spec/RedisKeys
// ("<engine>.<Operation>" or "<engine>.<Operation>:<flag>,<flag>,..."), against the recording client
// and returns the commands it built. With clusterSlots the builders behave like those of rueidis'
// cluster client (cross-slot KEYS panic inside rueidis). cleanupScanKey is the key the cleanup worker
// scans for this channel's partition (see CleanupScanKeys). ok=false: the name is not executable here.
//
// flags: broker.Publish  history, delta, idem, version
//        map.*           ephemeral | recoverable | persistent, keyed, ordered, idem, key (ReadState by key)
func (k *VerifKeys) Invoke(name, ch, idem, cleanupScanKey string, clusterSlots bool) (VerifCaptured, bool) {
	ctx := context.Background()
	op, flagStr := name, ""
	for i := 0; i < len(name); i++ {
		if name[i] == ':' {
			op, flagStr = name[:i], name[i+1:]
			break
		}
	}
	flags := map[string]bool{}
	start := 0
	for i := 0; i <= len(flagStr); i++ {
		if i == len(flagStr) || flagStr[i] == ',' {
			if i > start {
				flags[flagStr[start:i]] = true
			}
			start = i + 1
		}
	}
	idemKey := ""
	if flags["idem"] {
		idemKey = idem
	}
	sw := k.broker.shards[0]
	info := &ClientInfo{ClientID: "uid", UserID: "u"}
	var fn func()
	switch op {
	case "broker.Publish":
		o := PublishOptions{IdempotencyKey: idemKey, UseDelta: flags["delta"]}
		if flags["history"] {
			o.HistorySize, o.HistoryTTL = 10, time.Minute
		}
		if flags["version"] {
			o.Version, o.VersionEpoch = 3, "ve"
		}
		fn = func() { _, _ = k.broker.publish(sw, ch, []byte("{}"), o) }
	case "broker.PublishJoin":
		fn = func() { _ = k.broker.publishJoin(sw, ch, info) }
	case "broker.PublishLeave":
		fn = func() { _ = k.broker.publishLeave(sw, ch, info) }
	case "broker.History":
		fn = func() { _, _, _ = k.broker.history(sw, ch, HistoryOptions{Filter: HistoryFilter{Limit: -1}}) }
	case "broker.RemoveHistory":
		fn = func() { _ = k.broker.removeHistory(sw, ch) }
	case "presence.Add":
		fn = func() { _ = k.presence.addPresence(k.shard, ch, "uid", info) }
	case "presence.Remove":
		fn = func() { _ = k.presence.removePresence(k.shard, ch, "uid", "u") }
	case "presence.Get":
		fn = func() { _, _ = k.presence.presence(k.shard, ch) }
	case "presence.Stats":
		fn = func() { _, _ = k.presence.presenceStats(k.shard, ch) }
	}
	if fn == nil && len(op) > 4 && op[:4] == "map." {
		e := k.mapb
		if e == nil {
			return VerifCaptured{}, false
		}
		mode := ""
		for _, m := range []string{"ephemeral", "recoverable", "persistent"} {
			if flags[m] {
				mode = m
			}
		}
		mo, err := verifMapChannelOptions(mode, flags["ordered"])
		if err != nil {
			return VerifCaptured{Op: name, Panic: err.Error()}, true
		}
		k.mapOpts.mu.Lock()
		k.mapOpts.opts = mo
		k.mapOpts.mu.Unlock()
		key := ""
		if flags["keyed"] {
			key = "key"
		}
		switch op {
		case "map.Publish":
			fn = func() { _, _ = e.Publish(ctx, ch, key, MapPublishOptions{Data: []byte("{}"), IdempotencyKey: idemKey}) }
		case "map.Remove":
			fn = func() { _, _ = e.Remove(ctx, ch, "key", MapRemoveOptions{IdempotencyKey: idemKey}) }
		case "map.ReadState":
			ro := MapReadStateOptions{Limit: 10}
			if flags["key"] {
				ro.Key = "key"
			}
			fn = func() { _, _ = e.ReadState(ctx, ch, ro) }
		case "map.ReadStream":
			fn = func() { _, _ = e.ReadStream(ctx, ch, MapReadStreamOptions{Filter: StreamFilter{Limit: 10}}) }
		case "map.Stats":
			fn = func() { _, _ = e.Stats(ctx, ch) }
		case "map.Clear":
			fn = func() { _ = e.Clear(ctx, ch, MapClearOptions{}) }
		case "map.cleanupFind":
			fn = func() { _, _ = e.findExpiredKeys(ctx, k.shard, ch, time.Now().UnixMilli()) }
		case "map.cleanupBatchRemove":
			fn = func() {
				chOpts, err := ResolveAndValidateMapChannelOptions(e.node.config.Map.GetMapChannelOptions, ch)
				if err != nil {
					panic(err)
				}
				// cleanupPartition(cleanupKey) -> cleanupChannel(.., cleanupKey, ..) -> batchRemoveExpired(.., cleanupKey, ..):
				// the key is the one the worker scanned (taken by the harness from the real cleanupShard pass)
				_ = e.batchRemoveExpired(ctx, k.shard, ch, cleanupScanKey, chOpts,
					[]cleanupRemovalEntry{{key: "key", payload: []byte("x"), expireScore: "1"}})
			}
		}
	}
	if fn == nil {
		return VerifCaptured{}, false
	}
	return k.capture(name, clusterSlots, fn), true
}

// CleanupScanKeys runs the real cleanup worker pass (cleanupShard) of the map broker against the
// recording client: the ZRANGEBYSCORE keys it scans, one per partition.
func (k *VerifKeys) CleanupScanKeys() []string {
	if k.mapb == nil {
		return nil
	}
	c := k.capture("map.cleanup.scan", false, func() { k.mapb.cleanupShard(context.Background(), k.shard, time.Now().UnixMilli()) })
	var keys []string
	for _, cmd := range c.Cmds {
		if len(cmd) >= 2 && cmd[0] == "ZRANGEBYSCORE" {
			keys = append(keys, cmd[1])
		}
	}
	return keys
}

// ---------------------------------------------------------------------------------------------- C35

func VerifPartitionSizes() []int                  { return redispartition.PrecomputedSizes() }
func VerifFindTags(n int) ([]string, error)       { return redispartition.FindTags(n) }
func VerifTagSlot(tag string) int                 { return redispartition.TagSlot(tag) }
func VerifSlotToNode(slot, numNodes int) int      { return redispartition.SlotToNode(slot, numNodes) }
