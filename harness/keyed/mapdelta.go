// C14, map paths: sequential replay of spec/Delta/DeltaMap behaviours on a real node with the memory map broker.
// The harness client runs the real map subscribe protocol (state pages -> stream -> live, or a recovery join from
// its position), keeps one payload per key like an SDK, and APPLIES every delta of the live join's recovered
// publications and of the live pushes with the fossil library; an Apply error, a delta for a key it holds nothing
// for, or bytes different from what was published for that key at that offset is a C14 violation.
package main

import (
	"context"
	"encoding/json"
	"fmt"
	"sort"
	"strconv"
	"sync"
	"time"

	"github.com/centrifugal/centrifuge"
	"github.com/centrifugal/protocol"

	"verifharness/cl"
	"verifharness/vh"
)

type mdFrame struct {
	K     int  `json:"k"`
	Off   int  `json:"off,omitempty"`
	ID    int  `json:"id,omitempty"`
	Delta bool `json:"delta,omitempty"`
	Rm    bool `json:"rm,omitempty"`
	Could bool `json:"-"`
}

type mdRunner struct {
	env   *cl.Env
	ch    string
	proto centrifuge.ProtocolType
	filt  bool
	pl    *payloads
	conn  *kConn

	held     map[int]*holder
	hasPos   bool
	off      uint64
	epoch    string
	consumed int
	logIDs   map[int]int // offset -> payload id (0 = removal)
	negDelta bool        // the live reply said delta is negotiated
	cmds     map[uint32]bool
}

func mdKey(k int) string { return "k" + strconv.Itoa(k) }
func mdKeyNum(s string) int {
	n, _ := strconv.Atoi(s[1:])
	return n
}

func (r *mdRunner) protoName() string {
	if r.proto == centrifuge.ProtocolTypeJSON {
		return "json"
	}
	return "protobuf"
}

type mdVerdict struct{ sig, what string }

// data decodes a publication's data: with JSON and requested delta the server sends JSON strings (state entries
// and stream pages included); a payload of this harness never starts with a quote.
func (r *mdRunner) wire(p *protocol.Publication) ([]byte, error) {
	if r.proto == centrifuge.ProtocolTypeJSON && len(p.Data) > 0 && p.Data[0] == '"' {
		var s string
		if err := json.Unmarshal(p.Data, &s); err != nil {
			return nil, err
		}
		return []byte(s), nil
	}
	return p.Data, nil
}

// take applies one entry / publication of key p.Key. expectOff = 0 for state entries (value checked against the
// payload ids published for that key).
func (r *mdRunner) take(p *protocol.Publication, where string, keyIDs map[int]map[int]bool) (mdFrame, *mdVerdict) {
	k := mdKeyNum(p.Key)
	f := mdFrame{K: k, Off: int(p.Offset), Delta: p.Delta, Rm: p.Removed}
	if p.Removed {
		delete(r.held, k)
		return f, nil
	}
	h := r.held[k]
	if h == nil {
		h = &holder{}
		r.held[k] = h
	}
	before, had := append([]byte(nil), h.held...), h.has
	desc := "nothing"
	if had {
		desc = fmt.Sprintf("payload #%d", r.pl.idOf(before))
	}
	data, err := r.wire(p)
	if err != nil {
		return f, &mdVerdict{"map:data-format:" + where, fmt.Sprintf("%s key %s: data is not decodable: %v", where, p.Key, err)}
	}
	var out []byte
	if p.Delta {
		a := h.apply(centrifuge.ProtocolTypeProtobuf, true, &protocol.Publication{Data: data, Delta: true})
		if a.Err != "" {
			return f, &mdVerdict{"map:" + where, fmt.Sprintf("%s key %s offset %d delta=true: %s; the client held %s for this key; wire data %.120q", where, p.Key, p.Offset, a.Err, desc, string(p.Data))}
		}
		out = a.Data
	} else {
		h.held, h.has = append([]byte(nil), data...), true
		out = h.held
		if had {
			f.Could = realDeltaPossible(before, out, r.proto == centrifuge.ProtocolTypeJSON)
		}
	}
	f.ID = r.pl.idOf(out)
	want, known := r.logIDs[int(p.Offset)]
	if f.ID == 0 || !keyIDs[k][f.ID] || (p.Offset != 0 && known && want != f.ID) {
		return f, &mdVerdict{"map:" + where, fmt.Sprintf("%s key %s offset %d delta=%v: reconstructed payload %.50q (#%d) is not what was published (#%d); the client held %s", where, p.Key, p.Offset, p.Delta, string(out), f.ID, want, desc)}
	}
	return f, nil
}

func (r *mdRunner) request(phase int32, cursor string, recover bool) *protocol.SubscribeRequest {
	req := &protocol.SubscribeRequest{Channel: r.ch, Type: int32(centrifuge.SubscriptionTypeMap), Phase: phase, Delta: "fossil", Limit: 2, Cursor: cursor}
	if r.filt {
		req.Tf = &protocol.FilterNode{Key: "t", Cmp: "eq", Val: "keep"}
	}
	if phase != centrifuge.MapPhaseState || cursor != "" {
		req.Offset, req.Epoch = r.off, r.epoch
	}
	req.Recover = recover
	return req
}

func (r *mdRunner) send(req *protocol.SubscribeRequest) *protocol.Reply {
	id := r.conn.NextID()
	r.cmds[id] = true
	r.conn.Do(&protocol.Command{Id: id, Subscribe: req})
	return r.conn.WaitReply(id, 3*time.Second)
}

// subscribe runs the protocol; returns the frames (state entries and recovered publications in order), verdicts, error text.
func (r *mdRunner) subscribe(fresh bool, keyIDs map[int]map[int]bool) ([]mdFrame, []mdVerdict, string) {
	var frames []mdFrame
	var vs []mdVerdict
	add := func(ps []*protocol.Publication, where string) {
		for _, p := range ps {
			f, v := r.take(p, where, keyIDs)
			frames = append(frames, f)
			if v != nil {
				vs = append(vs, *v)
			}
		}
	}
	phase, cursor := centrifuge.MapPhaseLive, ""
	if fresh {
		phase = centrifuge.MapPhaseState
		r.held = map[int]*holder{}
		r.hasPos = false
	}
	for i := 0; i < 50; i++ {
		rep := r.send(r.request(phase, cursor, !fresh && phase == centrifuge.MapPhaseLive))
		if rep == nil {
			return frames, vs, "no reply"
		}
		if rep.Error != nil {
			return frames, vs, fmt.Sprintf("error %d %s", rep.Error.Code, rep.Error.Message)
		}
		s := rep.Subscribe
		switch s.Phase {
		case centrifuge.MapPhaseState:
			add(s.State, "state")
			if !r.hasPos {
				r.hasPos, r.off, r.epoch = true, s.Offset, s.Epoch
			}
			cursor = s.Cursor
			if cursor == "" {
				phase = centrifuge.MapPhaseStream
			}
		case centrifuge.MapPhaseStream:
			add(s.Publications, "stream-page")
			r.off = s.Offset
			cursor = ""
		default:
			add(s.State, "state")
			add(s.Publications, "recovered-chain")
			r.hasPos, r.off, r.epoch = true, s.Offset, s.Epoch
			r.negDelta = s.Delta
			return frames, vs, ""
		}
	}
	return frames, vs, "protocol did not reach the live phase"
}

func mdModel(st map[string]any) []mdFrame {
	var out []mdFrame
	for _, x := range vh.List(st["out"]) {
		m := vh.Map(x)
		out = append(out, mdFrame{K: vh.Int(m["k"]), Off: vh.Int(m["off"]), ID: vh.Int(m["id"]), Delta: vh.Bool(m["delta"]), Rm: vh.Bool(m["rm"])})
	}
	return out
}

func sameMD(real, model []mdFrame, ignoreOff bool) bool {
	if len(real) != len(model) {
		return false
	}
	for i := range real {
		x, y := real[i], model[i]
		if y.Delta && !x.Delta && !x.Could {
			x.Delta = true
		}
		x.Could = false
		if ignoreOff {
			x.Off, y.Off = 0, 0
		}
		if x != y {
			return false
		}
	}
	return true
}

func (r *mdRunner) run(bi int, beh []map[string]any, compare bool, res *vh.Result) {
	var steps []any
	completed := 1
	keyIDs := map[int]map[int]bool{}
	replay := func(extra any) map[string]any {
		return map[string]any{"filt": r.filt, "proto": r.protoName(), "steps": steps, "frames": extra}
	}
	drift := func(what string, fr any) {
		res.Drift("C14", fmt.Sprintf("map: %s (behaviour %d %s filt=%v)", what, bi, r.protoName(), r.filt), replay(fr))
		completed = 0
	}
	conn, err := newKConn(r.env, "u", r.proto)
	if err != nil || conn.Connect() == nil {
		drift("connect failed", nil)
		res.Done(1, 0)
		return
	}
	r.conn = conn
	defer func() { conn.Client.Disconnect(); conn.Cancel() }()
	ctx := context.Background()
	deltas := 0
	for si := 1; si < len(beh) && completed == 1; si++ {
		st := beh[si]
		step := vh.Map(st["step"])
		act := vh.Str(step["act"])
		steps = append(steps, step)
		var real []mdFrame
		var vs []mdVerdict
		switch act {
		case "Publish":
			k, id, tag := vh.Int(step["k"]), vh.Int(step["id"]), vh.Str(step["tag"])
			if keyIDs[k] == nil {
				keyIDs[k] = map[int]bool{}
			}
			keyIDs[k][id] = true
			ud := true
			if v, ok := step["ud"]; ok {
				ud = vh.Bool(v)
			}
			ur, err := r.env.Node.MapPublish(ctx, r.ch, mdKey(k), centrifuge.MapPublishOptions{Data: r.pl.get(id), Tags: map[string]string{"t": tag}, UseDelta: ud})
			if err != nil {
				drift("publish: "+err.Error(), nil)
				break
			}
			r.logIDs[int(ur.Position.Offset)] = id
		case "Remove":
			ur, err := r.env.Node.MapRemove(ctx, r.ch, mdKey(vh.Int(step["k"])), centrifuge.MapRemoveOptions{})
			if err != nil {
				drift("remove: "+err.Error(), nil)
				break
			}
			r.logIDs[int(ur.Position.Offset)] = 0
		case "SubFresh", "SubRecover":
			if act == "SubRecover" && compare && !(r.filt && r.negDelta) && int(r.off) != vh.Int(step["since"]) {
				drift(fmt.Sprintf("client position %d, model %d", r.off, vh.Int(step["since"])), nil)
				break
			}
			var e string
			real, vs, e = r.subscribe(act == "SubFresh", keyIDs)
			if e != "" {
				drift("subscribe: "+e, real)
			}
		case "Unsub":
			id := conn.NextID()
			conn.Do(&protocol.Command{Id: id, Unsubscribe: &protocol.UnsubscribeRequest{Channel: r.ch}})
			if conn.WaitReply(id, 3*time.Second) == nil {
				drift("unsubscribe got no reply", nil)
			}
		default:
			drift("unknown action "+act, nil)
		}
		if completed == 0 {
			break
		}
		// live pushes
		conn.Barrier(2 * time.Second)
		frames := conn.Frames()
		for ; r.consumed < len(frames); r.consumed++ {
			rep := frames[r.consumed]
			if rep.Push != nil && rep.Push.Channel == r.ch && rep.Push.Pub != nil {
				f, v := r.take(rep.Push.Pub, "live", keyIDs)
				if rep.Push.Pub.Offset != 0 {
					r.off = rep.Push.Pub.Offset
				}
				real = append(real, f)
				if v != nil {
					vs = append(vs, *v)
				}
			} else if rep.Push != nil && rep.Push.Channel == r.ch && rep.Push.Unsubscribe != nil {
				drift(fmt.Sprintf("unexpected unsubscribe push %d", rep.Push.Unsubscribe.Code), real)
			}
		}
		for _, v := range vs {
			if r.filt {
				v.sig += ":filtered-subscription"
			}
			res.Violate("C14", v.sig+":"+r.protoName(), fmt.Sprintf("%s (behaviour %d %s filt=%v)", v.what, bi, r.protoName(), r.filt), replay(real))
			completed = 0
		}
		if completed == 0 {
			break
		}
		for _, f := range real {
			if f.Delta {
				deltas++
			}
		}
		// The reference negotiates no delta for a subscription with a tags filter. Code that does (as coded) is judged
		// by the monitors alone on filtered subscriptions: which publications it pushes there is the filter's business.
		if compare && !(r.filt && r.negDelta) {
			// state entries arrive in key order of the broker's pages: compare as sets for subscribe steps
			mo := mdModel(st)
			a, b := append([]mdFrame(nil), real...), append([]mdFrame(nil), mo...)
			if act == "SubFresh" {
				sort.Slice(a, func(i, j int) bool { return a[i].K < a[j].K })
				sort.Slice(b, func(i, j int) bool { return b[i].K < b[j].K })
			}
			if !sameMD(a, b, act == "SubFresh") {
				drift(fmt.Sprintf("frames differ after %s: real %s, model %s", act, vh.J(real), vh.J(mo)), real)
			}
		}
	}
	if completed == 1 {
		res.Distinct("map" + r.protoName() + vh.J(steps))
		res.Count("map_real_delta_frames", deltas)
	}
	if bi < 1 {
		res.Sample(replay(nil))
	}
	res.Done(1, completed)
}

type mdIn struct {
	Compare    bool               `json:"compare"`
	Behaviours [][]map[string]any `json:"behaviours"`
}

func mapDeltaMode(in json.RawMessage, res *vh.Result) error {
	var mi mdIn
	if err := json.Unmarshal(in, &mi); err != nil {
		return err
	}
	type job struct {
		bi    int
		proto centrifuge.ProtocolType
	}
	jobs := make(chan job)
	var wg sync.WaitGroup
	for i := 0; i < 6; i++ {
		env, err := cl.NewEnv(centrifuge.Config{
			LogLevel:                        centrifuge.LogLevelNone,
			ClientChannelPositionMaxTimeLag: time.Hour,
			ClientChannelPositionCheckDelay: time.Hour,
			Map: centrifuge.MapConfig{GetMapChannelOptions: func(ch string) centrifuge.MapChannelOptions {
				return centrifuge.MapChannelOptions{Mode: centrifuge.MapModePersistent, MinPageSize: 1, SubscribeCatchUpTimeout: -1}
			}},
		})
		if err != nil {
			return err
		}
		mb, err := centrifuge.NewMemoryMapBroker(env.Node, centrifuge.MemoryMapBrokerConfig{})
		if err != nil {
			return err
		}
		env.Node.SetMapBroker(mb)
		env.OnSubscribe = func(_ *centrifuge.Client, _ centrifuge.SubscribeEvent, cb centrifuge.SubscribeCallback) {
			cb(centrifuge.SubscribeReply{Options: centrifuge.SubscribeOptions{Type: centrifuge.SubscriptionTypeMap, AllowTagsFilter: true,
				AllowedDeltaTypes: []centrifuge.DeltaType{centrifuge.DeltaTypeFossil}}}, nil)
		}
		if err := env.Run(); err != nil {
			return err
		}
		wg.Add(1)
		go func() {
			defer wg.Done()
			defer env.Close()
			for j := range jobs {
				beh := mi.Behaviours[j.bi]
				r := &mdRunner{env: env, proto: j.proto, filt: vh.Bool(beh[0]["filt"]), held: map[int]*holder{}, logIDs: map[int]int{}, cmds: map[uint32]bool{}}
				r.ch = fmt.Sprintf("md%d_%d_%s", vh.Seed(), j.bi, r.protoName())
				r.pl = newPayloads(vh.Seed()*104729+int64(j.bi)*17+int64(len(r.protoName())), j.proto == centrifuge.ProtocolTypeProtobuf, j.bi%2 == 0)
				r.run(j.bi, beh, mi.Compare, res)
			}
		}()
	}
	for bi := range mi.Behaviours {
		for _, pt := range []centrifuge.ProtocolType{centrifuge.ProtocolTypeJSON, centrifuge.ProtocolTypeProtobuf} {
			jobs <- job{bi, pt}
		}
	}
	close(jobs)
	wg.Wait()
	return nil
}
