SPECIFICATION SpecR
CONSTANTS
  Producers = {1, 2}
  Configs <- ConfigsStd
  MaxItems = 3
  ManySizes = {2}
  ByteSizes = {1}
  MaxFails = 1
  MaxCloses = 1
VIEW View
CONSTRAINT NotFailed
INVARIANTS TypeOK Exact PrefixWise NoDup ProducerOrder FlushDelivers NoFlushDrops Someone WriterAlive
PROPERTIES ClosedRejects FrameLimit SlowIffOver ResultKinds
CHECK_DEADLOCK FALSE
