------------------------------ MODULE Framing ------------------------------
(* C32  SSE and HTTP-stream framing deliver each message intact.

   Bytes are naturals 0..255, a message / a wire stream is a sequence of bytes.

   Part 1  the CLIENT side, transcribed from the standards:
             ESParse   - WHATWG HTML "9.2.6 Interpreting an event stream" (EventSource)
             NDParse   - newline-delimited JSON records (ndjson: separator LF, empty lines skipped)
             PBParse   - varint length-delimited records (protobuf "delimited" framing)
   Part 2  the SERVER side, transcribed from the code:
             SSEFrame      handler_sse.go          "\r\n" once, then "data: " + msg + "\n\n" per message
             SSEFrameSplit the proposed repair     one "data: " line per CR / LF / CRLF separated segment
             NDFrame       handler_http_stream.go  msg + "\n"
             PBFrame       handler_http_stream.go  protocol.ProtobufDataEncoder: uvarint(len) + msg
             RawJSON       protocol.Raw.MarshalJSON: the reply encoder embeds application payloads
                           verbatim after deleting every LF (CR stays)
   Part 3  the property Parse(Frame(msgs)) = msgs, and for WHICH BYTE CLASSES it holds.  An invariant
           that fails is of no use as a registered check, therefore the invariants are EXACT
           characterisations (round trip <=> no unsafe byte) and the unsafe classes are ASSUMEd.
   Part 4  the enumeration (function table, DESIGN 4.4): variable res carries for every message list the
           wire bytes and the parse results, the Go harness replays the rows into its own parsers
           (which then judge the body written by the real handlers) and into the real
           protocol.ProtobufDataEncoder / protocol.Raw.                                           *)
EXTENDS Integers, Sequences, FiniteSets, SequencesExt, FiniteSetsExt, TLC

CONSTANTS Alphabet,     \* set of byte values messages are made of
          MaxMsgs,      \* message lists of length 0..MaxMsgs
          MaxLen1,      \* a single message: length 0..MaxLen1
          MaxLen2,      \* lists of two and more: every message of length 0..MaxLen2  (MaxLen2 <= MaxLen1)
          Table         \* TRUE: res carries wires and parse results (small bounds, dumped for replay)

LF == 10   CR == 13   COLON == 58   SP == 32   XX == 120   LBRACE == 123   RBRACE == 125
EOL == {LF, CR}

S_data  == <<100, 97, 116, 97>>            \* "data"
S_event == <<101, 118, 101, 110, 116>>     \* "event"
S_id    == <<105, 100>>                    \* "id"
S_retry == <<114, 101, 116, 114, 121>>     \* "retry"
S_dataColonSpace == S_data \o <<COLON, SP>>
S_message == <<109, 101, 115, 115, 97, 103, 101>>   \* "message"
BOM == <<239, 187, 191>>

Bytes(s)      == {s[i] : i \in 1..Len(s)}
Strip(s, set) == SelectSeq(s, LAMBDA b : b \notin set)
Drop(s, n)    == SubSeq(s, n + 1, Len(s))
HasPrefix(s, p) == Len(s) >= Len(p) /\ SubSeq(s, 1, Len(p)) = p

RECURSIVE Flat(_)
Flat(ss) == IF ss = <<>> THEN <<>> ELSE Head(ss) \o Flat(Tail(ss))
Map(ss, Op(_)) == [i \in 1..Len(ss) |-> Op(ss[i])]

---------------------------------------------------------------------------
(* Part 1a.  EventSource.   "The stream must then be parsed by reading everything line by line, with a
   CRLF pair, a single LF not preceded by CR, and a single CR not followed by LF being the ways in
   which a line can end."  Text after the last terminator is an incomplete line: "Once the end of the
   file is reached, any pending data must be discarded."                                          *)
\* index of the first byte of s at or after `from` that lies in `set`, 0 if there is none
RECURSIVE First(_, _, _)
First(s, from, set) == IF from > Len(s) THEN 0 ELSE IF s[from] \in set THEN from ELSE First(s, from + 1, set)

RECURSIVE LinesFrom(_, _)
LinesFrom(s, from) ==
  LET e == First(s, from, EOL) IN
  IF e = 0 THEN <<>>
  ELSE LET next == IF s[e] = CR /\ e < Len(s) /\ s[e + 1] = LF THEN e + 2 ELSE e + 1
       IN <<SubSeq(s, from, e - 1)>> \o LinesFrom(s, next)

ESLines(s) == LinesFrom(IF HasPrefix(s, BOM) THEN Drop(s, 3) ELSE s, 1)

\* parser state: data buffer, event type buffer, last event ID buffer, dispatched events
ES0 == [data |-> <<>>, type |-> <<>>, id |-> <<>>, events |-> <<>>]

ESDispatch(st) ==
  IF st.data = <<>> THEN [st EXCEPT !.type = <<>>]                      \* step 2: nothing to dispatch
  ELSE LET d == IF Last(st.data) = LF THEN Front(st.data) ELSE st.data  \* step 3
           e == [data |-> d, type |-> IF st.type = <<>> THEN S_message ELSE st.type, id |-> st.id]
       IN [st EXCEPT !.data = <<>>, !.type = <<>>, !.events = Append(@, e)]

ESField(st, name, value) ==
  CASE name = S_event -> [st EXCEPT !.type = value]
    [] name = S_data  -> [st EXCEPT !.data = @ \o value \o <<LF>>]
    [] name = S_id    -> IF 0 \in Bytes(value) THEN st ELSE [st EXCEPT !.id = value]
    [] OTHER          -> st                                             \* retry: no event content; unknown: ignored

ESLine(st, line) ==
  IF line = <<>> THEN ESDispatch(st)
  ELSE IF line[1] = COLON THEN st                                       \* comment
  ELSE LET c == First(line, 1, {COLON}) IN
       IF c = 0 THEN ESField(st, line, <<>>)
       ELSE LET v == Drop(line, c)
            IN ESField(st, SubSeq(line, 1, c - 1), IF v # <<>> /\ v[1] = SP THEN Tail(v) ELSE v)

RECURSIVE ESRun(_, _, _)
ESRun(lines, i, st) == IF i > Len(lines) THEN st ELSE ESRun(lines, i + 1, ESLine(st, lines[i]))

ESEvents(s) == ESRun(ESLines(s), 1, ES0).events        \* full events: data, type, lastEventId
ESParse(s)  == Map(ESEvents(s), LAMBDA e : e.data)     \* what the centrifuge client reads: event.data

(* Part 1b.  newline-delimited JSON: records are terminated by LF; the text after the last LF is an
   incomplete record; empty lines are skipped (ndjson-spec 3.1/3.2; centrifuge-js does the same).     *)
RECURSIVE NDFrom(_, _)
NDFrom(s, from) ==
  LET e == First(s, from, {LF}) IN
  IF e = 0 THEN <<>>
  ELSE LET r == SubSeq(s, from, e - 1)
       IN (IF r = <<>> THEN <<>> ELSE <<r>>) \o NDFrom(s, e + 1)
NDParse(s) == NDFrom(s, 1)

(* Part 1c.  uvarint length prefix (little-endian base 128, high bit = continuation), then that many
   bytes; an incomplete prefix or record at the end is pending.                                     *)
RECURSIVE UvarintVal(_, _, _)
UvarintVal(s, from, k) ==          \* value of the k prefix bytes starting at from
  IF k = 0 THEN 0 ELSE (s[from] % 128) + 128 * UvarintVal(s, from + 1, k - 1)

RECURSIVE PBFrom(_, _)
PBFrom(s, from) ==
  LET e == First(s, from, 0..127) IN
  IF e = 0 THEN <<>>
  ELSE LET n == UvarintVal(s, from, e - from + 1)
       IN IF e + n > Len(s) THEN <<>>
          ELSE <<SubSeq(s, e + 1, e + n)>> \o PBFrom(s, e + n + 1)
PBParse(s) == PBFrom(s, 1)

---------------------------------------------------------------------------
(* Part 2.  The server side.                                                                       *)
SSEPreamble == <<CR, LF>>                                    \* handler_sse.go:126
SSEFrame(msgs) == SSEPreamble \o Flat(Map(msgs, LAMBDA m : S_dataColonSpace \o m \o <<LF, LF>>))   \* :157

\* proposed repair: every CR, LF or CRLF inside a message ends the data line and starts a new one
RECURSIVE SplitData(_)
SplitData(m) ==
  LET e == First(m, 1, EOL) IN
  IF e = 0 THEN S_dataColonSpace \o m
  ELSE LET next == IF m[e] = CR /\ e < Len(m) /\ m[e + 1] = LF THEN e + 2 ELSE e + 1
       IN S_dataColonSpace \o SubSeq(m, 1, e - 1) \o <<LF>> \o SplitData(SubSeq(m, next, Len(m)))
SSEFrameSplit(msgs) == SSEPreamble \o Flat(Map(msgs, LAMBDA m : SplitData(m) \o <<LF, LF>>))

NDFrame(msgs) == Flat(Map(msgs, LAMBDA m : m \o <<LF>>))     \* handler_http_stream.go:163-173

RECURSIVE Uvarint(_)
Uvarint(n) == IF n < 128 THEN <<n>> ELSE <<128 + (n % 128)>> \o Uvarint(n \div 128)
PBFrame(msgs) == Flat(Map(msgs, LAMBDA m : Uvarint(Len(m)) \o m))   \* :151-156, ProtobufDataEncoder

\* the JSON reply encoder around an application payload p (protocol.Raw.MarshalJSON deletes LF only);
\* the envelope is abstracted to one opening and one closing brace
RawJSON(p)   == Strip(p, {LF})
JSONReply(p) == <<LBRACE>> \o RawJSON(p) \o <<RBRACE>>

---------------------------------------------------------------------------
(* Part 3.  Properties.                                                                            *)
MsgsUpTo(k) == UNION {[1..n -> Alphabet] : n \in 0..k}
Msgs  == MsgsUpTo(MaxLen1)
Msgs2 == MsgsUpTo(MaxLen2)

Exact(parsed, msgs) == parsed = msgs
\* equal up to line terminators: for JSON texts CR and LF occur raw only as insignificant whitespace
\* between tokens (inside strings they must be escaped), so this is "decodes to the same message"
SameModEOL(parsed, msgs) ==
  /\ Len(parsed) = Len(msgs)
  /\ \A i \in 1..Len(msgs) : Strip(parsed[i], EOL) = Strip(msgs[i], EOL)

Free(msgs, set) == \A i \in 1..Len(msgs) : Bytes(msgs[i]) \cap set = {}
NonEmpty(msgs)  == \A i \in 1..Len(msgs) : msgs[i] # <<>>
\* a byte of `set` that is followed, anywhere later in m, by a byte not in `set`
Interior(m, set) == \E i, j \in 1..Len(m) : i < j /\ m[i] \in set /\ m[j] \notin set
\* m holds exactly one non-empty LF-separated segment
OneRecord(m) == /\ \E i \in 1..Len(m) : m[i] # LF
                /\ ~\E i, j, k \in 1..Len(m) : i < j /\ j < k /\ m[i] # LF /\ m[j] = LF /\ m[k] # LF

\* byte classes b for which some message made of b and 'x' only does not survive Frame;Parse
ClassMsgs(b) == {m \in UNION {[1..n -> {b, XX}] : n \in 1..MaxLen1} : b \in Bytes(m)}
Unsafe(Frame(_), Parse(_), Eq(_, _)) ==
  {b \in Alphabet : \E m \in ClassMsgs(b) : ~Eq(Parse(Frame(<<m>>)), <<m>>)}
UnsafeSSE      == Unsafe(SSEFrame, ESParse, Exact)
UnsafeSSEsem   == Unsafe(SSEFrame, ESParse, SameModEOL)
UnsafeSplit    == Unsafe(SSEFrameSplit, ESParse, Exact)
UnsafeSplitSem == Unsafe(SSEFrameSplit, ESParse, SameModEOL)
UnsafeND       == Unsafe(NDFrame, NDParse, Exact)
UnsafeNDsem    == Unsafe(NDFrame, NDParse, SameModEOL)
UnsafePB       == Unsafe(PBFrame, PBParse, Exact)
\* unsafe classes that survive the JSON reply encoder, i.e. can reach the framing layer in a payload
ReachSSE   == {b \in UnsafeSSEsem   : \E p \in ClassMsgs(b) : b \in Bytes(JSONReply(p))}
ReachSplit == {b \in UnsafeSplitSem : \E p \in ClassMsgs(b) : b \in Bytes(JSONReply(p))}
ReachND    == {b \in UnsafeNDsem    : \E p \in ClassMsgs(b) : b \in Bytes(JSONReply(p))}

\* THE RECORDED CLASSES (what TLC established about the design)
ASSUME UnsafeSSE      = {LF, CR} \cap Alphabet     \* a raw LF or CR inside a message breaks "data: m\n\n"
ASSUME UnsafeSSEsem   = {LF, CR} \cap Alphabet     \* ... also when only JSON-level equality is asked
ASSUME UnsafeSplit    = {CR} \cap Alphabet         \* split framing: LF is carried exactly, CR arrives as LF
ASSUME UnsafeSplitSem = {}                         \* ... which is the same JSON text
ASSUME UnsafeND       = {LF} \cap Alphabet
ASSUME UnsafeNDsem    = {LF} \cap Alphabet
ASSUME UnsafePB       = {}
ASSUME ReachSSE       = {CR} \cap Alphabet         \* the encoder removes LF, not CR: the defect
ASSUME ReachSplit     = {}
ASSUME ReachND        = {}
\* the empty message: fine for SSE ("data: " alone dispatches an event with empty data) and varint,
\* lost by the newline-delimited decoder; the JSON envelope is never empty
ASSUME ESParse(SSEFrame(<< <<>> >>)) = << <<>> >>
ASSUME NDParse(NDFrame(<< <<>> >>)) = <<>>
ASSUME PBParse(PBFrame(<< <<>> >>)) = << <<>> >>
\* varint boundaries (the small alphabet only reaches one-byte prefixes)
ASSUME \A n \in {0, 1, 127, 128, 129, 300, 16383, 16384, 16385, 2097151, 2097152} :
         LET u == Uvarint(n) IN /\ UvarintVal(u, 1, Len(u)) = n
                                /\ \A i \in 1..(Len(u) - 1) : u[i] >= 128
                                /\ u[Len(u)] < 128
                                /\ Len(u) = (IF n < 128 THEN 1 ELSE IF n < 16384 THEN 2 ELSE IF n < 2097152 THEN 3 ELSE 4)
ASSUME \A n \in {127, 128, 300} : LET m == [i \in 1..n |-> IF i % 2 = 0 THEN LF ELSE 200] IN
         PBParse(PBFrame(<<m, <<>>, m>>)) = <<m, <<>>, m>>

VARIABLES msgs,   \* the message list (also read as a list of application payloads in the Pipe* invariants)
          vec,    \* a hand-written EventSource conformance vector (only in Table mode), else <<>>
          res
vars == <<msgs, vec, res>>

(* Exact characterisations, evaluated once per message list (Verdicts, stored in res.v; the arguments are
   the wires and parse results of ms, computed once in Eval) and checked as invariants on every message
   list within the bounds.
   (For the Sem variants on lists the "only if" direction can fail by accidental re-alignment of torn
   pieces, e.g. NDParse(NDFrame(<<"", "\r\n\r">>)) = <<"\r", "\r">>; it is exact for a single message.) *)
Verdicts(ms, sseW, sseE, sseP, splW, splP, ndP, pbP) ==
  LET reps    == Map(ms, JSONReply)                      \* ms read as application payloads
      noEOL   == Free(ms, EOL)
      noCR    == Free(ms, {CR})
      sseGood == \A i \in 1..Len(ms) : ~Interior(ms[i], EOL)
      sseSem  == SameModEOL(sseP, ms)
      ndGood  == \A i \in 1..Len(ms) : OneRecord(ms[i])
      ndSem   == SameModEOL(ndP, ms)
  IN [sseExact   |-> (Exact(sseP, ms) <=> noEOL),
      sseSem     |-> (sseGood => sseSem) /\ (Len(ms) = 1 /\ ~sseGood => ~sseSem),
      splitExact |-> (Exact(splP, ms) <=> noCR),
      splitSem   |-> SameModEOL(splP, ms),
      splitSame  |-> (noEOL => splW = sseW),             \* the repair changes no other wire byte
      ndExact    |-> (Exact(ndP, ms) <=> (Free(ms, {LF}) /\ NonEmpty(ms))),
      ndSem      |-> (ndGood => ndSem) /\ (Len(ms) = 1 /\ ~ndGood => ~ndSem),
      pbExact    |-> Exact(pbP, ms),
      \* the whole JSON path: payloads -> reply encoder -> framing -> client parser
      pipeSSE    |-> (SameModEOL(ESParse(SSEFrame(reps)), reps) <=> noCR),
      pipeSplit  |-> SameModEOL(ESParse(SSEFrameSplit(reps)), reps),
      pipeND     |-> Exact(NDParse(NDFrame(reps)), reps),
      \* events carry nothing but data: no type, no id, even when a message is torn into garbage field
      \* lines (the alphabet cannot spell "event" / "id")
      ssePlain   |-> \A i \in 1..Len(sseE) : sseE[i].type = S_message /\ sseE[i].id = <<>>]

SSEExact   == res.v.sseExact
SSESem     == res.v.sseSem
SplitExact == res.v.splitExact
SplitSem   == res.v.splitSem
SplitSame  == res.v.splitSame
NDExact    == res.v.ndExact
NDSem      == res.v.ndSem
PBExact    == res.v.pbExact
PipeSSE    == res.v.pipeSSE
PipeSplit  == res.v.pipeSplit
PipeND     == res.v.pipeND
SSEPlain   == res.v.ssePlain
---------------------------------------------------------------------------
(* Part 4.  Enumeration: the empty list, every single message, then lists.                           *)
\* EventSource conformance vectors (bytes); expected results are computed by ESEvents above and
\* replayed into the harness's Go parser together with the enumerated wires
Vectors == {
  <<100,97,116,97,58,32,120,10,10>>,                                 \* "data: x\n\n"
  <<100,97,116,97,58,120,10,10>>,                                    \* "data:x\n\n"        no space
  <<100,97,116,97,58,32,32,120,10,10>>,                              \* "data:  x\n\n"      only one space stripped
  <<100,97,116,97,10,10>>,                                           \* "data\n\n"          field without colon: empty data, dispatched
  <<100,97,116,97,10,100,97,116,97,10,10>>,                          \* "data\ndata\n\n"    data = "\n"
  <<100,97,116,97,58,32,120,10,100,97,116,97,58,32,121,10,10>>,      \* two data lines joined by LF
  <<100,97,116,97,58,32,120,13,100,97,116,97,58,32,121,13,13>>,      \* same with CR terminators
  <<100,97,116,97,58,32,120,13,10,100,97,116,97,58,32,121,13,10,13,10>>,  \* same with CRLF
  <<100,97,116,97,58,32,120,10,13,10>>,                              \* "data: x\n\r\n"     LF then CRLF = two line ends
  <<100,97,116,97,58,32,120,13,13,10>>,                              \* "data: x\r\r\n"     CR then CRLF
  <<58,120,10,100,97,116,97,58,32,120,10,10>>,                       \* comment line first
  <<100,97,116,97,58,32,120,10,58,10,10>>,                           \* comment inside an event
  <<101,118,101,110,116,58,32,120,10,100,97,116,97,58,32,121,10,10>>,\* "event: x\ndata: y\n\n"
  <<101,118,101,110,116,58,32,120,10,10,100,97,116,97,58,32,121,10,10>>, \* event type reset by empty dispatch
  <<105,100,58,32,120,10,100,97,116,97,58,32,121,10,10,100,97,116,97,58,32,120,10,10>>, \* id persists
  <<105,100,58,32,0,10,100,97,116,97,58,32,121,10,10>>,              \* id with NUL ignored
  <<114,101,116,114,121,58,32,49,10,100,97,116,97,58,32,121,10,10>>, \* retry ignored for content
  <<120,58,32,120,10,100,97,116,97,58,32,121,10,10>>,                \* unknown field ignored
  <<68,97,116,97,58,32,120,10,10>>,                                  \* "Data: x" field names are case sensitive
  <<32,100,97,116,97,58,32,120,10,10>>,                              \* " data: x" leading space belongs to the name
  <<100,97,116,97,32,58,32,120,10,10>>,                              \* "data : x" likewise
  <<100,97,116,97,58,32,120,58,32,121,10,10>>,                       \* only the first colon splits
  <<100,97,116,97,58,32,120,10>>,                                    \* no empty line: never dispatched
  <<100,97,116,97,58,32,120,10,10,100,97,116,97,58,32,121>>,         \* incomplete trailing line
  <<100,97,116,97,58,32,120,10,10,100,97,116,97,58,32,121,10>>,      \* complete line, incomplete event
  <<239,187,191,100,97,116,97,58,32,120,10,10>>,                     \* leading BOM is skipped
  <<100,97,116,97,58,32,239,187,191,10,10>>,                         \* BOM elsewhere is data
  <<13,10,100,97,116,97,58,32,120,10,10>>,                           \* the handler's "\r\n" preamble
  <<10,10,10,100,97,116,97,58,10,10,10>>,                            \* "data:" alone: empty data IS dispatched
  <<100,97,116,97,58,32,120,13>>,                                    \* stream ending in a bare CR: a line end
  <<100,97,116,97,58,32,123,34,120,34,58,49,44,13,34,100,34,58,50,125,10,10>>  \* the defect in small: data: {"x":1,\r"d":2}\n\n
}

Eval(ms, v) ==
  LET sseW == SSEFrame(ms)
      sseE == ESEvents(sseW)
      sseP == Map(sseE, LAMBDA e : e.data)
      splW == SSEFrameSplit(ms)
      splP == ESParse(splW)
      ndW  == NDFrame(ms)
      ndP  == NDParse(ndW)
      pbW  == PBFrame(ms)
      pbP  == PBParse(pbW)
      vd   == Verdicts(ms, sseW, sseE, sseP, splW, splP, ndP, pbP)
  IN IF ~Table THEN [v |-> vd]
     ELSE [v     |-> vd,
           sse   |-> [wire |-> sseW, parsed |-> sseP],
           split |-> [wire |-> splW, parsed |-> splP],
           nd    |-> [wire |-> ndW, parsed |-> ndP],
           pb    |-> [wire |-> pbW, parsed |-> pbP],
           raw   |-> Map(ms, RawJSON),
           \* wires fed to the other parsers: the harness parsers must agree on garbage too
           cross |-> [ndOfSse |-> NDParse(sseW), pbOfNd |-> PBParse(ndW), esOfNd |-> ESParse(ndW)],
           vec   |-> ESEvents(v),
           unsafe |-> IF ms # <<>> \/ v # <<>> THEN <<>> ELSE
                      [sse |-> UnsafeSSEsem, split |-> UnsafeSplitSem, nd |-> UnsafeNDsem, pb |-> UnsafePB,
                       reachSse |-> ReachSSE, reachSplit |-> ReachSplit, reachNd |-> ReachND]]

Init == msgs = <<>> /\ vec = <<>> /\ res = Eval(msgs, vec)

\* single messages grow byte by byte (a tree: all workers take part), up to MaxLen1
Start  == /\ msgs = <<>> /\ vec = <<>>
          /\ msgs' = << <<>> >>
          /\ vec' = vec
          /\ res' = Eval(msgs', vec')
Grow   == /\ vec = <<>>
          /\ Len(msgs) = 1
          /\ Len(msgs[1]) < MaxLen1
          /\ \E b \in Alphabet : msgs' = << Append(msgs[1], b) >>
          /\ vec' = vec
          /\ res' = Eval(msgs', vec')
More   == /\ vec = <<>>                                     \* further messages, all up to MaxLen2
          /\ Len(msgs) >= 1
          /\ Len(msgs) < MaxMsgs
          /\ \A i \in 1..Len(msgs) : Len(msgs[i]) <= MaxLen2
          /\ \E m \in Msgs2 : msgs' = Append(msgs, m)
          /\ vec' = vec
          /\ res' = Eval(msgs', vec')
Vector == /\ Table /\ msgs = <<>> /\ vec = <<>>
          /\ \E v \in Vectors : vec' = v
          /\ msgs' = msgs
          /\ res' = Eval(msgs', vec')
Next == Start \/ Grow \/ More \/ Vector

Spec == Init /\ [][Next]_vars
=============================================================================
