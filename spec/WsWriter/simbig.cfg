SPECIFICATION SimSpec
CONSTANTS
  Bs = {16, 125, 126, 130, 1024, 4096, 65535, 65536}
  WClasses = {"0", "1", "B-1", "B", "B+1", "2B", "2B+1", "L", "L+1", "125", "126", "127", "65535", "65536"}
  OClasses = {"0", "1", "B-1", "B", "B+1", "2B+1", "L", "L+1", "125", "126", "127", "PB", "PB+1", "65535", "65536", "65537"}
  PClasses = {"0", "1", "125", "126", "B", "B+1", "PB", "PB+1", "2PB+1", "65535", "65536", "65537"}
  MaxOps = 14
  MaxWrites = 5
INVARIANTS TypeOK Roundtrip Monitor Dangling ControlLimit ErrorsEmitNothing
CHECK_DEADLOCK FALSE
