SPECIFICATION Spec
CONSTANTS
  Kinds = {"items"}
  Lens = {0, 1, 2, 3, 4, 5, 8, 9, 16, 17, 4095, 4096, 4097, 262143, 262144, 262145}
  PoolBound = 2
  Reslice = TRUE
VIEW View
INVARIANTS PoolInv
PROPERTIES GetOK
CHECK_DEADLOCK FALSE
