SPECIFICATION Spec
CONSTANTS
  Keys = {"a", "b"}
  NonPub = {"join"}
  Sizes = {0, 2, 3}
  Delays = {TRUE, FALSE}
  Lates = {TRUE, FALSE}
  Threads = {1, 2}
  MaxAdds = 4
  MaxEnds = 2
  AtomicAdd = FALSE
  ClosedRefuses = TRUE
  SplitGet = FALSE
  RecheckOnStore = TRUE
  StaleTimers = FALSE
VIEW View
INVARIANTS TypeOK LatUnique PendingAgree TimerSane
PROPERTIES NoOrphanFlush OrderPreserved LatestCoalesced EndFlushesAll EndDiscards SizeExact
CHECK_DEADLOCK FALSE
