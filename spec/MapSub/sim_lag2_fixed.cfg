SPECIFICATION SimSpec
CONSTANTS
  WP = 8
  WD = 8
  WU = 3
  NK = 2
  MaxOps = 4
  MaxLag = 2
  MaxResub = 1
  LiveLimit = 3
  Modes = {"rec", "per"}
  Kinds = {"fresh"}
  Pages = {1, 2}
  SSizes = {1, 2}
  Filts = {"none"}
  Ops = {"pub", "rem"}
  MaxJumps = 0
  EpochCheck = TRUE
  Pres = {0, 1}
  N0s = {0, 1, 2}
  Contig = TRUE
  DropStale = FALSE
INVARIANTS TypeOK
CHECK_DEADLOCK FALSE
