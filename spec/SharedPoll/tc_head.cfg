SPECIFICATION Spec
CONSTANTS
  RecheckAtCommit = TRUE
  RecheckAtJoin = FALSE
  AllowResub = TRUE
  Replay = TRUE
VIEW View
INVARIANTS TypeOK C05_Keyed C05_Gen
CHECK_DEADLOCK FALSE
