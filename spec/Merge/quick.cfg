SPECIFICATION Spec
CONSTANTS MaxOff = 4
          MaxLen = 2
INVARIANT MergeProperty
CHECK_DEADLOCK FALSE
