\* payload-length encoding boundaries (RFC 6455 5.2: 7 bit <= 125, 16 bit 126..65535, 64 bit >= 65536): message sizes
\* 125/126/127/65535/65536/65537 in one call, prepared and streamed, and buffer sizes that make every full non-final
\* frame land exactly on 125 / 126 / 65536 bytes
SPECIFICATION SimSpec
CONSTANTS
  Bs = {125, 126, 4096, 65536}
  WClasses = {"0", "1", "B", "B+1", "2B+1", "126", "127", "65536", "65537"}
  OClasses = {"125", "126", "127", "65535", "65536", "65537", "B", "B+1", "2B+1"}
  PClasses = {"125", "126", "127", "65535", "65536", "65537"}
  MaxOps = 10
  MaxWrites = 4
INVARIANTS TypeOK Roundtrip Monitor Dangling ControlLimit ErrorsEmitNothing
CHECK_DEADLOCK FALSE
