------------------------------ MODULE PoolsSim ------------------------------
(* Script generator for the replay of spec/Pools/Pools.tla into the real pools
   (TLC -simulate): Get / Write / Append / Reslice / Foreign / Put sequences with
   concrete lengths and capacities.  Slot weights and hash-chosen arguments as in
   MemBrokerSim.tla.  The property is NOT checked here (with Reslice = TRUE the
   item-buffer model violates it, see reslice_items.cfg): the harness evaluates
   it on what the real Get functions return.                                   *)
EXTENDS Pools

VARIABLE w
simvars == <<vars, w>>

RECURSIVE S2Q(_)
S2Q(S) == IF S = {} THEN <<>> ELSE LET m == CHOOSE x \in S : \A y \in S : x <= y IN <<m>> \o S2Q(S \ {m})
\* constant-level, so TLC evaluates them once
LensQB == S2Q(LensOf("bytes"))
LensQS == S2Q(LensOf("slices"))
SmallQ == S2Q(Small)
LensQ == IF kind = "bytes" THEN LensQB ELSE LensQS

Hc == IF held[kind] = None THEN 0 ELSE (held[kind].len * 31 + held[kind].cap * 17 + held[kind].dhi) % 9973       \* (TLC integers are 32 bit)
H(s) == (s * 7919 + Hc * 10473 + Cardinality(pool[kind]) * 12983 + (IF step.act = "Get" THEN 13 ELSE 29) * 15485) % 1000003
Sel(q, h, d) == q[((h \div d) % Len(q)) + 1]

SimGet(s) == LET h == H(s) IN Get(kind, IF h % 3 = 0 THEN Sel(SmallQ, h, 7) ELSE Sel(LensQ, h, 5))
SimGrow(s) ==
  LET h == H(s + 40)  l == Sel(LensQ, h, 3)  c0 == Sel(LensQ, h, 47)
  IN held[kind] # None /\ Grow(kind, l, IF l <= held[kind].cap THEN held[kind].cap ELSE Max(l, c0))
SimResl(s) == LET h == H(s + 80) IN Resl(kind, Sel(LensQ, h, 3))
SimForeign(s) == LET h == H(s + 120)  l == Sel(LensQ, h, 3)  c0 == Sel(LensQ, h, 41) IN Foreign(kind, l, Max(l, c0))

SimNext ==
  /\ UNCHANGED kind
  /\ \/ \E s \in 1..5 : SimGet(s) /\ w' = s
     \/ \E s \in 1..4 : Write(kind) /\ w' = s
     \/ \E s \in 1..3 : SimGrow(s) /\ w' = s
     \/ \E s \in 1..3 : SimResl(s) /\ w' = s
     \/ \E s \in 1..2 : SimForeign(s) /\ w' = s
     \/ \E s \in 1..2 : Put(kind) /\ w' = s
     \/ Lose(kind) /\ w' = 0

SimSpec == Init /\ w = 0 /\ [][SimNext]_simvars
=============================================================================
