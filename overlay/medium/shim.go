//go:build verif

package centrifuge

// Overlay-injected (never committed to /repo) for the /verif family `medium` (C13, C38).
// perChannelWriter / channelWriter and three ChannelMediumOptions fields are unexported; the harness module
// cannot reach them. Nothing here changes behaviour: constructors are called the way client.go calls them,
// the two halves of perChannelWriter.Add are the very calls its body makes, accessors only read under the
// code's own locks.

import (
	"time"

	"github.com/centrifugal/centrifuge/internal/queue"
	"github.com/centrifugal/protocol"
)

// ---- C13: per-channel writer ----

type VerifMItem = queue.Item

const (
	VerifMFramePub   = protocol.FrameTypePushPublication
	VerifMFrameJoin  = protocol.FrameTypePushJoin
	VerifMFrameLeave = protocol.FrameTypePushLeave
	VerifMFrameOther = protocol.FrameTypePushMessage
)

type VerifMPCW struct{ p *perChannelWriter }

// VerifMNewPCW: newPerChannelWriter(flushFn) exactly as Client does with c.writeQueueItems.
func VerifMNewPCW(flushFn func([]VerifMItem) error) *VerifMPCW {
	return &VerifMPCW{p: newPerChannelWriter(flushFn)}
}

func (v *VerifMPCW) Add(item VerifMItem, ch string, cfg ChannelBatchConfig) { v.p.Add(item, ch, cfg) }
func (v *VerifMPCW) DelWriter(ch string, flush bool)                         { v.p.delWriter(ch, flush) }
func (v *VerifMPCW) Close(flush bool)                                        { v.p.Close(flush) }

// The two critical sections of perChannelWriter.Add, separately (its body is `w := pcw.getWriter(ch); w.Add(item, config)`).
type VerifMCW struct{ w *channelWriter }

func (v *VerifMPCW) GetWriter(ch string) *VerifMCW                   { return &VerifMCW{w: v.p.getWriter(ch)} }
func (c *VerifMCW) Add(item VerifMItem, cfg ChannelBatchConfig)      { c.w.Add(item, cfg) }

// VerifMState is a read-only snapshot of one channel's writer (taken under pcw.mu.RLock and w.mu).
type VerifMState struct {
	Exists bool
	Buf    []VerifMItem
	Lat    []VerifMItem
	Timer  bool
}

func (v *VerifMPCW) State(ch string) VerifMState {
	v.p.mu.RLock()
	w, ok := v.p.writers[ch]
	v.p.mu.RUnlock()
	if !ok {
		return VerifMState{}
	}
	w.mu.Lock()
	defer w.mu.Unlock()
	return VerifMState{
		Exists: true,
		Buf:    append([]VerifMItem(nil), w.buffer...),
		Lat:    append([]VerifMItem(nil), w.latestPubs...),
		Timer:  w.timer != nil,
	}
}

// ---- C38: channel medium options (enableQueue, queueMaxSize, broadcastDelay are unexported) ----

func VerifMMediumOptions(o ChannelMediumOptions, enableQueue bool, queueMaxSize int, broadcastDelay time.Duration) ChannelMediumOptions {
	o.enableQueue = enableQueue
	o.queueMaxSize = queueMaxSize
	o.broadcastDelay = broadcastDelay
	return o
}

// VerifMMediumInfo: read-only view of the medium of a channel (under the node's medium shard lock).
type VerifMMediumInfo struct {
	Exists   bool
	Queue    bool
	QueueLen int
	QueueSz  int
	Latest   uint64 // offset of latestPublication, 0 = none
}

func VerifMMedium(n *Node, ch string) VerifMMediumInfo {
	mu := n.mediumLock(ch)
	mu.Lock()
	m, ok := n.mediumShard(ch)[ch]
	mu.Unlock()
	if !ok {
		return VerifMMediumInfo{}
	}
	info := VerifMMediumInfo{Exists: true, Queue: m.messages != nil}
	if m.messages != nil {
		info.QueueLen = m.messages.Len()
		info.QueueSz = m.messages.Size()
	}
	m.broadcastMu.Lock()
	if m.latestPublication != nil {
		info.Latest = m.latestPublication.Offset
	}
	m.broadcastMu.Unlock()
	return info
}

// Clock injection (the code's own seams: Node.nowTimeGetter read by the periodic position check, channelMedium.nowFn
// read by CheckPosition / broadcastPublication). VerifMSetNodeClock must be called before Node.Run;
// VerifMSetMediumClock right after the first subscriber created the medium, before any publication or tick uses it.
func VerifMSetNodeClock(n *Node, fn func() time.Time) { n.nowTimeGetter = fn }

func VerifMSetMediumClock(n *Node, ch string, fn func() time.Time) bool {
	mu := n.mediumLock(ch)
	mu.Lock()
	defer mu.Unlock()
	m, ok := n.mediumShard(ch)[ch]
	if !ok {
		return false
	}
	m.mu.Lock()
	m.nowFn = fn
	m.mu.Unlock()
	return true
}
