------------------------------ MODULE Merge ------------------------------
(* C39  Recovery merge is sorted, deduplicated and detects gaps.

   Transcription of internal/recovery/helpers.go (MergePublications,
   uniqueNonFilteredPublications) as TLA+ operators, the property as an
   invariant over the whole bounded input space, and the (input, result)
   table that the Go harness replays into the real function.

   A publication is [off, f] : offset and "filtered placeholder" flag
   (Time == -1 in the code).  Payload identity is added by the harness.   *)
EXTENDS MergeOps, FiniteSetsExt

CONSTANTS MaxOff, MaxLen

Pub   == [off : 1..MaxOff, f : BOOLEAN]
Lists == UNION {[1..n -> Pub] : n \in 0..MaxLen}

VARIABLES rec, buf, res
vars == <<rec, buf, res>>

---------------------------------------------------------------------------
(* --- the code, step by step: see MergeOps.tla ------------------------- *)

---------------------------------------------------------------------------
(* --- the property, stated independently of the code's steps ------------ *)

Offs(s, flt)  == {s[i].off : i \in {j \in 1..Len(s) : s[j].f = flt}}
Union         == Offs(rec, FALSE) \cup Offs(buf, FALSE)       \* real publications
Placeholders  == Offs(rec, TRUE) \cup Offs(buf, TRUE)
SortedUnion   == SetToSortSeq(Union, <)

\* a hole: two consecutive merged offsets with an offset in between that no
\* filtered placeholder accounts for
Hole == \E i \in 1..(Len(SortedUnion) - 1) :
          \E o \in (SortedUnion[i] + 1)..(SortedUnion[i + 1] - 1) : o \notin Placeholders

ExpectedOk == ~(buf # <<>> /\ Hole)

MergeProperty ==
  /\ res.ok = ExpectedOk
  /\ res.ok => /\ res.pubs = SortedUnion          \* union, ordered, no duplicates, no placeholders
               /\ res.max = Max({0} \cup Union \cup Placeholders)
  /\ ~res.ok => res.pubs = <<>>

---------------------------------------------------------------------------
Init == /\ rec \in Lists
        /\ buf \in Lists
        /\ res = MergeImpl(rec, buf)
Next == UNCHANGED vars
Spec == Init /\ [][Next]_vars
=============================================================================
