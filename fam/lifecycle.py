"""C04 C05 C06 C07 C26 (and the unsubscribe/disconnect-callback clause of C08) -- spec/SubLifecycle: the subscription
lifecycle of one connection under concurrent client/server subscribe, unsubscribe, close, presence tick and the
dissolver job; exhaustive TLC on bounded operation sets, gate replay of TLC behaviours on real clients.

Routing attributes: each subscribe of a behaviour carries a tags filter (attr none / fA / fB; client Tf or server tags
filter); the settled-state probe publishes three marker publications (tags t=a, t=b, untagged) and requires exactly the
set admitted by the subscription the connection reports (read back through SubscribeOptions.Source).
Failing round trips: PublishJoin, PublishLeave, AddPresence, RemovePresence and the dissolver job's Broker.Unsubscribe
(with its retry) may fail, at most once per behaviour (quick_coded.cfg, sim.cfg, witnesses); harness/lifecycle wraps
cl.GateBroker / cl.GatePresence so that a gated call is released with an error.

Mutations caught by the fault / attribute extension (each exit 1, unchanged tree exit 0 for seeds 1-3):
  unsubscribe returns the PublishLeave error before removeSubscription (seed C04-3)        -> C04 subscribed=false,routing=true
  hub addSub keeps the existing entry and copies only subGen on a resubscribe (seed C04-4)  -> C04 markers:got=A,want=ABU / got=A,want=B
  unsubscribe returns the RemovePresence error before the leave / removeSubscription        -> C04 subscribed=false,routing=true
  Client.Subscribe skips onSubscribeErrorGen when subscribeCmd fails (AddPresence error)    -> C04 subscribed=false,routing=true
  dissolver job returns nil when Broker.Unsubscribe failed (no retry)                       -> C26 broker=true,local=false
  Dissolver.runWorker re-adds a failed job from a timer that reads the worker's reused job variable (seed C26-3)
                                                                                            -> C26 broker-sub-without-local-interest:after-failed-unsubscribe (jobretryprobe)
  subscribeCmd's deferred presence rollback runs only for disconnects, not for error replies (seed C06-3): positioned
  client-side subscribe whose Broker.History answers a client error after AddPresence     -> C06 subscribed=false,presence=true"""
from lib import vf


def _run(c, prop):
    quick = c.tier == 'quick'
    for cfg in (['quick_fixed.cfg', 'quick_coded.cfg'] if quick else ['thorough_fixed.cfg', 'thorough_coded.cfg']):
        r = c.tlc_exhaustive('SubLifecycle', 'SubLifecycle', cfg, workers=8, timeout=3000)
        c.log('TLC exhaustive %s: %d distinct / %d generated, depth %d' % (cfg, r['distinct'], r['states'], r['depth']))
    binp = c.go_build('lifecycle')
    n = 700 if quick else 10000
    s = c.tlc('SubLifecycle', 'SubLifecycle', 'sim.cfg', simulate=n, depth=40, timeout=900)
    if not s['ok'] and s['error'] and 'violated' not in s['error']:
        raise vf.Inconclusive('simulation failed: %s\n%s' % (s['error'], s['out'][-3000:]))
    behs = c.behaviours(s)
    c.log('TLC simulate: %d behaviours' % len(behs))
    # witness behaviours: shortest schedules reaching the windows the properties are about, replayed in every run
    wit = []
    from concurrent.futures import ThreadPoolExecutor
    with ThreadPoolExecutor(max_workers=5) as ex:   # independent TLC runs (own cfg file and metadir each)
        found = list(ex.map(lambda w: c.tlc_witness('SubLifecycle', 'SubLifecycle', 'sim.cfg', w[0], overrides=dict({'OpSets': w[1], 'AttrPairs': 'AP_None', 'Faults': 'NoFaults'}, **(w[2] if len(w) > 2 else {})), workers=2), WITNESSES))
    for w, b in zip(WITNESSES, found):
        inv = w[0]
        if b is None:
            c.notes.append('witness %s unreachable' % inv)
            c.cov['actions_never_taken'].append('witness:' + inv)
        else:
            wit.append(b)
    c.cov['witness_behaviours'] = len(wit)
    c.log('witness behaviours: %d of %d' % (len(wit), len(WITNESSES)))
    behs = wit + behs
    res = c.replay_retry(binp, 'replay', behs, wrap=lambda b: {'behaviours': b}, timeout=1500)
    c.absorb(res)
    c.cov['traces_validated_against_impl'] = res['completed']
    c.cov['evaluations'] = res['executed']
    c.cov['distinct_nontrivial'] = res['nontrivial']
    c.cov['samples'] += res['samples'][:2]
    if prop in ('C26', 'C04'):
        pr = c.harness(binp, 'jobprobe', {'n': 4 if quick else 16}, timeout=120)
        c.absorb(pr)
        c.cov['job_atomicity_probes'] = pr['completed']
        if prop == 'C26':
            pr2 = c.harness(binp, 'subfailprobe', {'n': 3 if quick else 10}, timeout=120)
            c.absorb(pr2)
            c.cov['subscribe_failure_probes'] = pr2['completed']
            c.cov['traces_validated_against_impl'] += pr2['completed']
            c.cov['evaluations'] += pr2['executed']
            # several channels, a backlog of deferred unsubscribes and failing Broker.Unsubscribe calls: Dissolver.tla
            rd = c.tlc_exhaustive('SubLifecycle', 'Dissolver', 'dissolver.cfg', workers=4, timeout=900)
            c.log('TLC exhaustive Dissolver dissolver.cfg: %d distinct / %d generated (incl. liveness: a failed job is retried)' % (rd['distinct'], rd['states']))
            pr3 = c.harness(binp, 'jobretryprobe', {'n': 1 if quick else 3}, timeout=300)
            c.absorb(pr3)
            c.cov['job_retry_probes'] = pr3['completed']
            c.cov['traces_validated_against_impl'] += pr3['completed']
            c.cov['evaluations'] += pr3['executed']
            c.cov['samples'] += pr3['samples'][:1]
        c.cov['traces_validated_against_impl'] += pr['completed']
        c.cov['evaluations'] += pr['executed']
        c.cov['samples'] += pr['samples'][:1]
    for want, mode in (('C04', 'pubunsubprobe'), ('C05', 'connectcloseprobe'), ('C07', 'connectcloseprobe')):
        if prop == want:
            pr = c.harness(binp, mode, {'n': 3 if quick else 10}, timeout=120)
            c.absorb(pr)
            c.cov[mode] = {'completed': pr['completed'], 'counters': pr['counters']}
            c.cov['traces_validated_against_impl'] += pr['completed']
            c.cov['evaluations'] += pr['executed']
    c.cov['rule'] = ('behaviours of SubLifecycle.tla from TLC -simulate (operation set and sync/async subscribe callback chosen in Init), each replayed on a real node+client: '
                     'one model step releases one real goroutine from the natural gate / hook it is parked at (with an error when the step says the round trip fails) and follows it to the next; state projection compared after every step; '
                     'non-trivial = complete behaviour ending quiescent with all monitors evaluated, distinct by (ops, step list)')
    c.assumptions += ['one connection, one channel, presence and join/leave enabled, non-positioned subscription',
                      'the 5 s unsubscribe wait-gate timeout and Broker.Subscribe failures are not modelled',
                      'a positioned client-side subscription (model variable positioned) is explored only together with the Broker.History fault: the failing stream-top read answers ErrorUnrecoverablePosition (error reply after AddPresence)',
                      'a failing AddPresence / PublishJoin / PublishLeave / Broker.Unsubscribe has no effect in the backend, a failing RemovePresence removed the entry and lost its reply; at most one failing round trip per behaviour',
                      'dissolver jobs are replayed only after all threads finished (1 s delay cannot be scheduled); arbitrary job timing is explored by TLC only',
                      'a close spawned by a failing subscribe is replayed as starting immediately']


def _presence_stats(c):
    quick = c.tier == 'quick'
    r = c.tlc_exhaustive('Presence', 'Presence', 'quick.cfg' if quick else 'thorough.cfg', workers=4, timeout=1200)
    c.log('TLC exhaustive Presence: %d distinct / %d generated' % (r['distinct'], r['states']))
    s = c.tlc('Presence', 'Presence', 'sim.cfg', simulate=500 if quick else 5000, depth=16, timeout=600)
    if not s['ok']:
        raise vf.Inconclusive('Presence simulation: %s' % s['out'][-2000:])
    res = c.harness(c.go_build('presence'), 'replay', c.behaviours(s), timeout=600)
    c.absorb(res)
    c.cov['presence_stats_behaviours'] = res['completed']
    c.cov['traces_validated_against_impl'] += res['completed']
    c.cov['evaluations'] += res['executed']
    c.cov['distinct_nontrivial'] += res['nontrivial']


WITNESSES = [('W_TickAfterResubscribe', 'WOps1'), ('W_LeaveBeforeJoin', 'WOps2'), ('W_CloseDuringSubscribe', 'WOps3'),
             ('W_UnsubscribeWaited', 'WOps4'), ('W_StaleTickPresence', 'WOps6'),
             ('W_ResubscribeBeforeJob', 'WOps7'),
             # quiescent witnesses (the settled-state monitors run on them):
             # a resubscribe's addSub overtakes the previous unsubscribe's removeSub, with different routing attributes
             ('W_OverwriteByCS', 'WOpsA', {'AttrPairs': 'AP_A'}), ('W_OverwriteBySS', 'WOpsB', {'AttrPairs': 'AP_B'}),
             # a failing round trip at each kind of call site
             ('W_LeaveFailsCU', 'WOpsC', {'Faults': 'F_Leave'}), ('W_LeaveFailsSU', 'WOpsD', {'Faults': 'F_Leave'}),
             ('W_LeaveFailsCL', 'WOpsE', {'Faults': 'F_Leave'}), ('W_RemPresFailsCU', 'WOpsC', {'Faults': 'F_RemP'}),
             ('W_AddPresFailsCS', 'WOpsF', {'Faults': 'F_AddP'}), ('W_AddPresFailsSS', 'WOpsG', {'Faults': 'F_AddP'}),
             ('W_JobFails', 'WOpsD', {'Faults': 'F_Unsub'}),
             # a positioned client-side subscribe answered with an error reply after its presence was added
             ('W_HistFailsCS', 'WOpsF', {'Faults': 'F_Hist'})]


def mk(prop):
    def f(c):
        _run(c, prop)
        if prop == 'C06':
            _presence_stats(c)
        if prop == 'C05':
            # the shared-poll track path has its own commit/cleanup protocol: spec/SharedPoll/TrackClose.tla
            from fam import keyed
            keyed.c05_keyed(c)
            # map client / user presence kept in map channels: spec/MapSub/MapPresence.tla
            from fam import mapsub
            mapsub.c05_map(c)
        if prop == 'C26':
            # node-level bookkeeping of map channels (first-subscriber MapBroker.Subscribe may fail): spec/MapSub/MapHubSub.tla
            from fam import mapsub
            mapsub.c26_map(c)
    return f


CHECKS = {p: mk(p) for p in ('C04', 'C05', 'C06', 'C07', 'C26')}

_note = ('Bounds: exhaustive over every set of <=3 (quick) / <=4 (thorough) of the 6 threads {client subscribe (sync/async callback), client unsubscribe, server subscribe, '
         'server unsubscribe, close, presence tick} plus dissolver jobs; failing round trips: at most one per behaviour, exhaustive in the quick tier only (quick_coded.cfg), in simulation and witnesses in both tiers; '
         'routing attributes: 2 (quick) / 3 (thorough) attribute pairs exhaustive, all 9 in simulation; replay: simulated behaviours over all thread sets. Trusted: TLC, lib/tlaparse.py, harness projection and monitor code, '
         'the 6 verif hook gates.')
_t = 'TLA+ spec + TLC exhaustive; gate replay of TLC behaviours on real goroutines (natural gates + verif hooks); observable-only monitors'
META = {
    'C04': dict(level='model_checking', text='SubLifecycle.tla models reservation/commit/rollback with generations, the unsubscribe wait gate and generation-matched delete, close, hub entries; invariant: once settled, subscribed <=> exactly one routing entry of that generation. Replayed on real clients thread by thread; every subscribe carries a routing attribute (tags filter) that the hub entry of its generation must carry; PublishJoin/PublishLeave/AddPresence/RemovePresence/Broker.Unsubscribe may fail once per behaviour (what each call site does with the error is modelled). At the end the connection is probed with three marker publications (tags t=a, t=b, untagged): it must receive, once each, exactly those admitted by the subscription it reports (none when it reports none), and Hub.NumSubscribers must agree.', note=_note, technique=_t),
    'C05': dict(level='model_checking', text='Same spec: after close in any interleaving with subscribe/unsubscribe/tick no channel entry, routing entry, registered connection or presence entry remains; checked on the real node after each complete behaviour that closes. Shared-poll track path: TrackClose.tla (track command as validate / callbacks / manager / commit / reply / keyed-hub join interleaved with close, unsubscribe, resubscribe), replayed with the command parked in the application callbacks; after the end the backend must no longer be polled for the keys of that connection.', note=_note + ' Track path: one key, 120 (quick) simulated behaviours + two witness schedules.', technique=_t),
    'C06': dict(level='model_checking', text='Same spec with the presence manager as a gate: after the operations settled and one presence tick ran, presence contains the connection iff it is subscribed.', note=_note + ' Statistics clause: spec/Presence (add/remove/read sequences over 3 clients x 2 users x 2 channels) replayed on the MemoryPresenceManager; Redis presence manager not observable here.', technique=_t),
    'C07': dict(level='model_checking', text='Same spec, join/leave observed where they reach the broker: per subscription one join before at most one leave; observably every prefix has at least as many joins as leaves and joins-leaves = 1 iff still subscribed.', note=_note, technique=_t),
    'C26': dict(level='model_checking', text='Same spec with Broker.Subscribe/Unsubscribe as gates and the dissolver job: local subscribers imply a broker subscription outside the addSubscription critical section; after jobs drain broker-subscribed <=> local subscribers.', note=_note + ' Broker.Subscribe failures are covered by subfailprobe only; a failing Broker.Unsubscribe of the dissolver job and its retry are modelled (at most one fault per behaviour); several channels with a backlog of jobs on the worker pool: spec/SubLifecycle/Dissolver.tla (3 channels, 2 workers, <=2 failing calls, 1 rejoin; safety + "a failed job is retried" liveness), bound by jobretryprobe (128 emptied channels for the 64 workers, the first 64 Broker.Unsubscribe calls fail, every call slow).', technique=_t),
}
