SPECIFICATION SubSpec
CONSTANTS
  Keys = {"a"}
  NonPub = {}
  Sizes = {2}
  Delays = {TRUE}
  Lates = {FALSE}
  Threads = {1}
  MaxAdds = 1
  MaxEnds = 100
  AtomicAdd = FALSE
  SplitGet = FALSE
  RecheckOnStore = TRUE
  StaleTimers = FALSE
  EarlyDel = TRUE
  MaxGen = 2
  BatchedKinds = {"pub", "join", "leave", "other"}
  SubSplit = TRUE
  CfgSwitch = "none"
VIEW SubView
INVARIANTS TypeOK
PROPERTIES GenBracket
CHECK_DEADLOCK FALSE
