SPECIFICATION FairSpec
CONSTANTS
  Conns = {"c1"}
  Keys = {"k1"}
  MaxChg = 2
  MaxFlips = 0
  MaxOps = 3
  Versioned = FALSE
  Timer = TRUE
  AllowRevoke = FALSE
  AllowPublish = FALSE
  SplitTrack = FALSE
  AsCoded = {}
  Replay = FALSE
INVARIANTS TypeOK VersionConsistent C25_Epoch
PROPERTIES C25_Frames C25_Live
CHECK_DEADLOCK FALSE
