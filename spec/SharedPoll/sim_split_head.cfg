SPECIFICATION SimSpec
CONSTANTS
  Conns = {"c1", "c2"}
  Keys = {"k1", "k2"}
  MaxChg = 5
  MaxFlips = 0
  MaxOps = 12
  Versioned = TRUE
  Timer = FALSE
  AllowRevoke = TRUE
  AllowPublish = TRUE
  SplitTrack = TRUE
  AsCoded = {"warm-class-only"}
  Replay = TRUE
INVARIANTS TypeOK VersionConsistent C25_Epoch
PROPERTIES C25_Frames
CHECK_DEADLOCK FALSE
