SPECIFICATION Spec
CONSTANTS
  NK = 2
  MaxOps = 4
  MaxLag = 1
  MaxResub = 1
  LiveLimit = 3
  Modes = {"eph"}
  Kinds = {"fresh"}
  Pages = {1, 2}
  SSizes = {1}
  Filts = {"none", "client", "server"}
  Ops = {"pub", "rem", "exp", "clear", "refresh"}
  MaxJumps = 0
  EpochCheck = TRUE
  Pres = {4}
  N0s = {0}
  Contig = FALSE
  DropStale = FALSE
VIEW View
INVARIANTS TypeOK C22Coded
PROPERTIES C22RCoded C16M
CHECK_DEADLOCK FALSE
