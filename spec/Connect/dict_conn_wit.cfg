SPECIFICATION Spec
CONSTANTS RecheckCloses = FALSE
INVARIANTS DictExactlyOnce
CHECK_DEADLOCK FALSE
