package main

// C13, concurrent first adds (spec/ChanWriter getw.cfg / getw_witness.cfg: Lookup, Lookup, Store, Store): many fresh
// channels on one REAL perChannelWriter; for each channel two goroutines, released together by a spin barrier, add the
// channel's first two pushes, then a third push fills MaxSize, then delWriter(ch, false).
// Observable-only judgement on the flush function's batches:
//   - the third add reaches MaxSize (all three adds returned): the size flush must carry all three pushes, the third last;
//   - nothing of a channel is flushed after its delWriter(false) returned (a push left in a writer the map no longer
//     reaches is flushed by that writer's own MaxDelay timer).

import (
	"encoding/json"
	"fmt"
	"runtime"
	"sync"
	"sync/atomic"
	"time"

	"github.com/centrifugal/centrifuge"

	"verifharness/vh"
)

type cwStressIn struct {
	Channels int `json:"channels"`
}

func cwStress(in json.RawMessage, res *vh.Result) error {
	var si cwStressIn
	if err := json.Unmarshal(in, &si); err != nil {
		return err
	}
	if runtime.GOMAXPROCS(0) < 2 {
		res.Drift("C13", "GOMAXPROCS < 2: concurrent first adds cannot overlap", nil)
		return nil
	}
	const d = 300 * time.Millisecond
	cfg := centrifuge.ChannelBatchConfig{MaxSize: 3, MaxDelay: d}
	type ev struct {
		ids []int
		at  time.Time
	}
	var mu sync.Mutex
	var flushes []ev
	pcw := centrifuge.VerifMNewPCW(func(items []centrifuge.VerifMItem) error {
		ids := cwRealIDs(items)
		mu.Lock()
		flushes = append(flushes, ev{ids, time.Now()})
		mu.Unlock()
		return nil
	})
	defer pcw.Close(false)
	n := si.Channels
	removedAt := make([]time.Time, n)
	item := func(id int) centrifuge.VerifMItem { return cwQueueItem(cwItem{ID: id, K: "pub", Key: ""}) }
	for c := 0; c < n; c++ {
		ch := fmt.Sprintf("s%d", c)
		var ready atomic.Int32
		var wg sync.WaitGroup
		for k := 1; k <= 2; k++ {
			wg.Add(1)
			go func(k int) {
				defer wg.Done()
				ready.Add(1)
				for ready.Load() < 2 { // spin barrier: both adders leave together
				}
				pcw.Add(item(c*3+k), ch, cfg)
			}(k)
		}
		wg.Wait()
		pcw.Add(item(c*3+3), ch, cfg)
		pcw.DelWriter(ch, false)
		removedAt[c] = time.Now()
	}
	time.Sleep(d + 200*time.Millisecond)
	mu.Lock()
	defer mu.Unlock()
	sizeFlushed := make([]bool, n)
	late, split := 0, 0
	var firstLate, firstSplit string
	for _, f := range flushes {
		if len(f.ids) == 0 {
			continue
		}
		c := (f.ids[0] - 1) / 3
		if c < 0 || c >= n {
			continue
		}
		if f.at.After(removedAt[c]) {
			late++
			if firstLate == "" {
				firstLate = fmt.Sprintf("channel %d: pushes %v flushed %v after delWriter(ch,false) returned", c, f.ids, f.at.Sub(removedAt[c]).Round(time.Millisecond))
			}
			continue
		}
		if len(f.ids) == 3 && f.ids[2] == c*3+3 {
			sizeFlushed[c] = true
		}
	}
	for c := 0; c < n; c++ {
		if !sizeFlushed[c] {
			split++
			if firstSplit == "" {
				firstSplit = fmt.Sprintf("channel %d: three pushes were added (MaxSize 3) and no flush carried all three", c)
			}
		}
	}
	res.Count("stress_channels", n)
	res.Count("stress_channels_with_late_flush", late)
	res.Count("stress_channels_without_full_size_flush", split)
	if late > 0 || split > 0 {
		what := fmt.Sprintf("two goroutines added the first pushes of a fresh channel at the same moment: %d of %d channels flushed a push after delWriter(ch,false), %d never size-flushed their three pushes together (a push sat in a channelWriter the writers map does not reach). %s %s",
			late, n, split, firstLate, firstSplit)
		res.Violate("C13", "cw:concurrent-first-add:orphan-writer", what, map[string]any{"channels": n, "max_size": 3, "max_delay_ms": d.Milliseconds(),
			"schedule": "per channel: goroutines A and B spin-released: A: Add(#1) | B: Add(#2); then Add(#3); delWriter(ch,false); wait MaxDelay"})
		res.Done(n, n-late-split)
		return nil
	}
	res.Distinct("stress")
	res.Done(n, n)
	return cwStressDel(si, res)
}

// cwStressDel: perChannelWriter.Add racing delWriter (spec/ChanWriter conc.cfg with NoOrphanFlush; the unrepaired variant
// is race.cfg / orphan_witness.cfg). Per channel one goroutine adds pushes (MaxDelay only) while another calls
// delWriter(ch,false) in a loop; when the adder is done a final delWriter(ch,false) is issued. Every push is either
// flushed before that final delWriter returned or dropped by it, never flushed after.
func cwStressDel(si cwStressIn, res *vh.Result) error {
	const d = 40 * time.Millisecond
	cfg := centrifuge.ChannelBatchConfig{MaxDelay: d}
	n := si.Channels / 25
	if n < 40 {
		n = 40
	}
	const adds = 300
	type ev struct {
		ids []int
		at  time.Time
	}
	var mu sync.Mutex
	var flushes []ev
	pcw := centrifuge.VerifMNewPCW(func(items []centrifuge.VerifMItem) error {
		ids := cwRealIDs(items)
		mu.Lock()
		flushes = append(flushes, ev{ids, time.Now()})
		mu.Unlock()
		return nil
	})
	defer pcw.Close(false)
	finalAt := make([]time.Time, n)
	var wg sync.WaitGroup
	sem := make(chan struct{}, 4)
	for c := 0; c < n; c++ {
		wg.Add(1)
		sem <- struct{}{}
		go func(c int) {
			defer wg.Done()
			defer func() { <-sem }()
			ch := fmt.Sprintf("d%d", c)
			var stop atomic.Bool
			done := make(chan struct{})
			go func() {
				defer close(done)
				for !stop.Load() {
					pcw.DelWriter(ch, false)
				}
			}()
			for k := 1; k <= adds; k++ {
				pcw.Add(cwQueueItem(cwItem{ID: c*adds + k, K: "pub"}), ch, cfg)
			}
			stop.Store(true)
			<-done
			pcw.DelWriter(ch, false)
			finalAt[c] = time.Now()
		}(c)
	}
	wg.Wait()
	time.Sleep(d + 300*time.Millisecond)
	mu.Lock()
	defer mu.Unlock()
	late := 0
	first := ""
	for _, f := range flushes {
		if len(f.ids) == 0 {
			continue
		}
		c := (f.ids[0] - 1) / adds
		if c >= 0 && c < n && f.at.After(finalAt[c]) {
			late++
			if first == "" {
				first = fmt.Sprintf("channel %d: pushes %v flushed %v after the final delWriter(ch,false) returned", c, f.ids, f.at.Sub(finalAt[c]).Round(time.Millisecond))
			}
		}
	}
	res.Count("stress_del_channels", n)
	res.Count("stress_del_late_flushes", late)
	if late > 0 {
		res.Violate("C13", "cw:add-into-closed-writer:orphan-flush",
			fmt.Sprintf("perChannelWriter.Add racing delWriter: %d flushes came after the channel's final delWriter(ch,false) (a push was added to a writer that was already closed and removed; its own timer flushed it). %s", late, first),
			map[string]any{"channels": n, "adds_per_channel": adds, "max_delay_ms": d.Milliseconds(),
				"schedule": "per channel: A: Add(#1..#300) | B: delWriter(ch,false) in a loop; then delWriter(ch,false); wait MaxDelay"})
		res.Done(n, n-late)
		return nil
	}
	res.Distinct("stress-del")
	res.Done(n, n)
	return nil
}
