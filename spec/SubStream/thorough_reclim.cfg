SPECIFICATION Spec
CONSTANTS
  MaxPub = 3
  HistSize = 3
  MaxFaults = 1
  Kinds = {"rec"}
  UrgentAsync = FALSE
  RecLimit = 2
  MaxChecks = 0
  Servers = {FALSE, TRUE}
VIEW View
INVARIANTS TypeOK C01 C02 C03 C10 C16 PosConsistent
CHECK_DEADLOCK FALSE
