SPECIFICATION Spec
CONSTANTS
  Chans = {"a", "b"}
  MaxInProg = 2
  Phases = {"cb", "csbr", "ssbr"}
  CustomArgs = {FALSE}
  Free <- FreeQuick
VIEW View
INVARIANTS TypeOK Consistent CanFinish
PROPERTIES UnsubscribeAllCoversEveryPhase
CHECK_DEADLOCK FALSE
