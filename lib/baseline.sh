#!/bin/sh
# Runs the repository's pinned baseline suite (guard OFF) and compares with /root/.vp/BASELINE.json stable_pass.
# Tests that fail in the full run are re-run alone (per package, up to 2 more times): the suite has wall-clock
# sensitive tests (TestRuntimeStability_*, queue shrink timers, ...) that only fail on a loaded machine.
# usage: lib/baseline.sh [repo_dir]
REPO=${1:-/repo}
OUT=$(mktemp /var/tmp/verif-baseline-XXXXXX.json)
(cd "$REPO" && GOFLAGS=-mod=mod GOPROXY=off go test -json -vet=off -count=1 -timeout 25m ./... > "$OUT" 2>&1)
python3 - "$OUT" "$REPO" <<'PY'
import json, os, subprocess, sys
def parse(lines):
    passed=set(); failed=set()
    for line in lines:
        try: e=json.loads(line)
        except Exception: continue
        if e.get('Test') and e.get('Action') in ('pass','fail'):
            (passed if e['Action']=='pass' else failed).add(e['Package']+'::'+e['Test'])
    return passed, failed
passed, failed = parse(open(sys.argv[1], errors='replace'))
b=json.load(open('/root/.vp/BASELINE.json'))
stable=set(b['stable_pass'])
missing=sorted(stable-passed)
rerun=[]
env=dict(os.environ, GOFLAGS='-mod=mod', GOPROXY='off')
for attempt in range(2):
    todo=[m for m in missing if m not in passed]
    if not todo: break
    bypkg={}
    for m in todo:
        pkg,t=m.split('::',1)
        bypkg.setdefault(pkg,set()).add(t.split('/')[0])
    for pkg,tests in bypkg.items():
        p=subprocess.run(['go','test','-json','-vet=off','-count=1','-timeout','20m','-run','^(%s)$' % '|'.join(sorted(tests)),pkg],
                         cwd=sys.argv[2], env=env, stdout=subprocess.PIPE, stderr=subprocess.STDOUT, text=True)
        p2,_=parse(p.stdout.splitlines())
        rerun += sorted(set(todo)&p2)
        passed |= p2
missing=sorted(stable-passed)
print('baseline: %d stable tests, %d passed now, %d missing/failed' % (len(stable), len(stable&passed), len(missing)))
if rerun: print('  passed only when re-run alone (timing-sensitive under load): %s' % ', '.join(sorted(set(rerun))[:20]))
for m in missing[:30]: print('  NOT PASSING:', m, '(failed)' if m in failed else '(not run)')
sys.exit(1 if missing else 0)
PY
rc=$?
rm -f "$OUT"
exit $rc
