"""Parser for TLA+ values as printed by TLC (state dumps, -simulate file=, error traces).

Mapping to Python/JSON:
  42, -3            -> int
  "abc"             -> str
  TRUE/FALSE        -> bool
  mv (model value)  -> str
  <<a, b>>          -> list
  {a, b}            -> {"#set": [..]} unless sets_as_lists (then sorted list)
  [f |-> v, ...]    -> dict
  (k :> v @@ ...)   -> dict with str(k) keys
  a..b              -> list(range(a, b+1))
"""
import re

_TOK = re.compile(r'''\s*(?:
    (?P<str>"(?:[^"\\]|\\.)*") |
    (?P<num>-?\d+) |
    (?P<id>[A-Za-z_][A-Za-z0-9_!]*) |
    (?P<sym><<|>>|\|->|:>|@@|\.\.|[\[\]{}(),])
)''', re.X)


class ParseError(Exception):
    pass


def tokenize(s):
    pos = 0
    out = []
    n = len(s)
    while pos < n:
        m = _TOK.match(s, pos)
        if not m:
            if s[pos:].strip() == '':
                break
            raise ParseError('bad token at %r' % s[pos:pos + 40])
        pos = m.end()
        if m.group('str') is not None:
            out.append(('str', _unescape(m.group('str')[1:-1])))
        elif m.group('num') is not None:
            out.append(('num', int(m.group('num'))))
        elif m.group('id') is not None:
            out.append(('id', m.group('id')))
        else:
            out.append(('sym', m.group('sym')))
    return out


def _unescape(s):
    out = []
    i = 0
    while i < len(s):
        c = s[i]
        if c == '\\' and i + 1 < len(s):
            d = s[i + 1]
            out.append({'n': '\n', 't': '\t', 'r': '\r', 'f': '\f'}.get(d, d))
            i += 2
        else:
            out.append(c)
            i += 1
    return ''.join(out)


class _P:
    def __init__(self, toks):
        self.t = toks
        self.i = 0

    def peek(self):
        return self.t[self.i] if self.i < len(self.t) else (None, None)

    def eat(self, kind=None, val=None):
        k, v = self.peek()
        if k is None or (kind and k != kind) or (val is not None and v != val):
            raise ParseError('expected %s %s got %s %s at %d' % (kind, val, k, v, self.i))
        self.i += 1
        return v

    def value(self):
        k, v = self.peek()
        if k == 'num':
            self.i += 1
            k2, v2 = self.peek()
            if k2 == 'sym' and v2 == '..':
                self.i += 1
                hi = self.eat('num')
                return {'#set': list(range(v, hi + 1))}
            return v
        if k == 'str':
            self.i += 1
            return v
        if k == 'id':
            self.i += 1
            if v == 'TRUE':
                return True
            if v == 'FALSE':
                return False
            return v
        if k == 'sym':
            if v == '<<':
                self.i += 1
                out = []
                while self.peek() != ('sym', '>>'):
                    out.append(self.value())
                    if self.peek() == ('sym', ','):
                        self.i += 1
                self.eat('sym', '>>')
                return out
            if v == '{':
                self.i += 1
                out = []
                while self.peek() != ('sym', '}'):
                    out.append(self.value())
                    if self.peek() == ('sym', ','):
                        self.i += 1
                self.eat('sym', '}')
                return {'#set': out}
            if v == '[':
                self.i += 1
                out = {}
                while self.peek() != ('sym', ']'):
                    name = self.eat('id')
                    self.eat('sym', '|->')
                    out[name] = self.value()
                    if self.peek() == ('sym', ','):
                        self.i += 1
                self.eat('sym', ']')
                return out
            if v == '(':
                self.i += 1
                out = {}
                while True:
                    key = self.value()
                    self.eat('sym', ':>')
                    out[_keystr(key)] = self.value()
                    if self.peek() == ('sym', '@@'):
                        self.i += 1
                        continue
                    break
                self.eat('sym', ')')
                return out
        raise ParseError('unexpected token %s %s at %d' % (k, v, self.i))


def _keystr(k):
    if isinstance(k, bool):
        return 'TRUE' if k else 'FALSE'
    if isinstance(k, (int, str)):
        return str(k)
    import json
    return json.dumps(k, sort_keys=True)


def desets(v):
    """Replace {"#set": [...]} by plain lists (sorted when possible)."""
    if isinstance(v, dict):
        if set(v.keys()) == {'#set'}:
            items = [desets(x) for x in v['#set']]
            try:
                items.sort()
            except TypeError:
                import json
                items.sort(key=lambda x: json.dumps(x, sort_keys=True))
            return items
        return {k: desets(x) for k, x in v.items()}
    if isinstance(v, list):
        return [desets(x) for x in v]
    return v


def parse_value(s, sets_as_lists=True):
    p = _P(tokenize(s))
    v = p.value()
    if p.i != len(p.t):
        raise ParseError('trailing tokens')
    return desets(v) if sets_as_lists else v


_VAR = re.compile(r'^(?:/\\ )?([A-Za-z_][A-Za-z0-9_]*) = ', re.M)


def parse_state(text, sets_as_lists=True):
    """text: the conjunct list of one state ('/\\ v = ...' lines, values may span lines)."""
    ms = list(_VAR.finditer(text))
    st = {}
    for i, m in enumerate(ms):
        end = ms[i + 1].start() if i + 1 < len(ms) else len(text)
        st[m.group(1)] = parse_value(text[m.end():end], sets_as_lists)
    return st


_STATE_HDR = re.compile(r'^(?:STATE_\d+ ==|State \d+:.*)\s*$', re.M)


def parse_states_file(text, sets_as_lists=True):
    """Parses a -simulate behaviour file or a -dump file into a list of state dicts."""
    parts = _STATE_HDR.split(text)
    out = []
    for part in parts[1:]:
        # cut trailing comment lines / module footer
        body = []
        for line in part.splitlines():
            if line.startswith('\\*') or line.startswith('====') or line.startswith('----'):
                continue
            body.append(line)
        body = '\n'.join(body).strip()
        if body:
            out.append(parse_state(body, sets_as_lists))
    return out


if __name__ == '__main__':
    import sys, json
    print(json.dumps(parse_states_file(open(sys.argv[1]).read()), indent=1))
