SPECIFICATION Spec
CONSTANTS
  MaxPub = 3
  HistSize = 3
  MaxFaults = 0
  MaxSess = 2
  Kinds = {"rec"}
  Filts = {FALSE}
  Meds = {FALSE}
  AllowClear = FALSE
  DeltaOpts = {TRUE}
  PayKinds = {"sim", "unrel"}
  AsCoded = FALSE
  Withhold = FALSE
VIEW View
INVARIANTS TypeOK C14 HeldIsLast
CHECK_DEADLOCK FALSE
