// Family `writer` (C12, C40, C42): binds spec/Writer, spec/Dissolve and spec/Pools to the real code.
//
//	ring     (C12, S) TLC-simulated operation sequences of spec/Writer/RingSim.tla replayed into the real
//	         internal/queue; after EVERY operation the returned items and Len/Size/Cap (and head/tail) are
//	         compared with the concrete ring model.
//	writer   (C12, T) the real per-connection writer (all modes) driven by 2 producer goroutines + a closer with
//	         seeded random schedules and a recording transport; the observable-only monitor is evaluated
//	         here, the recorded traces go to TLC (spec/Writer/WriterTrace.tla).
//	dissolve (C40, T) the real dissolve.Dissolver with self-logging jobs; monitor + traces for DissolveTrace.tla.
//	dissolve_probe  (C40) deterministic probe: jobs queued at Close never start (GOMAXPROCS(1), confirm by re-execution).
//	dissolve_stress (C40) single-worker dissolvers, Submit aimed at the moment the worker goes idle; lost wake-up watchdog.
//	pools    (C42, S) TLC-generated Get/Mutate/Put scripts replayed into internal/bpool and the writer's item
//	         buffer pool; classes: table of the size-class functions.
package main

import "verifharness/vh"

func main() {
	vh.Main(map[string]vh.Mode{
		"ring":            ringReplay,
		"writer":          writerRuns,
		"dissolve":        dissolveRuns,
		"dissolve_probe":  dissolveProbe,
		"dissolve_stress": dissolveStress,
		"pools":           poolsReplay,
		"classes":         classesTable,
	})
}
