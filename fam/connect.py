"""C09 C43 C36 C08 C11 -- spec/Connect: the connection state machine and command layer of client.go.

C09  Connect.tla (+ConnectSim): command layer of one connection. TLC exhaustive (closes delayed arbitrarily); every path of
     an exhaustive dump (all sequences of <= 3 commands over 56 symbols x id modes, 6 environment configurations) and
     simulated longer behaviours (timers, Client.Disconnect, transport close, async completions) replayed on real clients
     over JSON and Protobuf framing through centrifuge.HandleReadFrame; monitors evaluated on the real frames/handler log.
C43  ConnHistory.tla: function table of history / presence / presence_stats requests, replayed through the client command
     path and compared with the row and with Node.History(effective filter) / Node.Presence / Node.PresenceStats.
C36  ConnTimers.tla (+Sim): the multiplexed timer; harness TimerScheduler fires ping/pong/stale/presence virtually, one
     model Tick = one real second for connection / subscription expiry; action properties re-evaluated on the real run.
C08  ConnLife.tla (+Sim): connect handshake / presence tick / expiry timer / close / Node.Shutdown for two connections,
     replayed with every thread parked at natural gates (OnConnecting, Transport.AcceptProtocol inside Node.addClient
     before the hub registration, Broker.Subscribe, OnConnect, OnAlive, Transport.Close); connection 2 of every other
     behaviour connects through the unidirectional Client.Connect.
C11  ConnLife.tla with pushes in the connect window + ConnDict.tla (codec life cycle) replayed over a real WebSocket
     connection with a recording DictionaryCompression engine.

Genuine defects found on the unchanged tree (signatures as printed by the checks):
  C09  no-reply:sub_refresh:tagschange, no-reply:sub_refresh:async/tagschange   (DESIGN 10 item 12)
  C08  connected-after-shutdown:during, connected-after-shutdown:after          (DESIGN 10 item 8)
  C36  expire:closed-although-refreshed:client-zero, expire:closed-although-refreshed:handler-zero
       (a RefreshHandler answer with ExpireAt = 0, "no expiration", keeps the old deadline: the connection is closed as
       expired; handleRefresh and expire())
  C11  first-frame:push-send, first-frame:push-pub   (a push sent to a connection between addClient and its connect reply
       is written before the reply; DESIGN 10 item 1 root cause for the publication)
Not a property violation, reported: after Client.Refresh(ExpireAt=0) nextExpire stays armed; when that timer fires
expire() returns without re-arming anything, so pings / presence ticks stop (ConnTimers.tla ArmedWhileConnected).

Seeded changes (second round):
  C09-1 (connection not marked unusable when the failed connect had already authenticated): connect outcomes "sserr" /
        "ssdisc" (connect-time server-side subscription failing with a client error / a disconnect after addClient) in
        Connect.tla, monitor C09_FailedConnect, a design run with the reader that does not stop (quick_loose.cfg);
        caught as failed-connect:not-closed:<kind> / gate:not-closed:<kind>.
  C09-2 (per-connection scratch error reply): ConnConc.tla (error completions split at the "client command error" log
        call), replayed with goroutines parked in Config.LogHandler + stress mode; caught as
        reply:id-answered-twice:concurrent-async-errors / reply:id-never-answered:... / reply:wrong-answer:...
  C36-1 (stale timer stopped when a connect command starts): connect outcomes err / sserr in ConnTimers.tla; a missing
        timer is remembered, the observable consequence decides; caught as stale:not-closed:after-failed-connect.
  C36-2 (expire() drops the deadline before calling out): timer firing split into TimerFire (dequeue) and TimerRun
        (callback executes timerOp as it is then), refreshes interleave; witness WitLateRun; caught as
        expire:not-closed:refresh-between-fire-and-run.
  C43-2 (single-flight key built from non-default options only: limit 0 and NoLimit share a flight): ConnHistorySF.tla
        (two readers, in-flight set keyed by the full option tuple, property = the reply of the request executed alone),
        every ordered pair x arrival point replayed with the first reader parked in Broker.History (UseSingleFlight);
        caught as singleflight:merged-different-options:limit(-1|0):node|client (and the other origin pairs).
  C08-1 (shutdown check moved in front of authenticated := true / addClient): reader state "ac" (authenticated, not yet in
        the hub; gate Transport.AcceptProtocol with Config.Metrics.ExposeTransportAcceptProtocol), hub registration +
        shutdown check as its own action ConnReg, witnesses Wit3 / Wit4 (Shutdown begins / begins and returns inside that
        window); caught as connected-after-shutdown:during / :after.
  C08-2 (scheduleOnConnectTimers before triggerConnect): timer arming as its own step (ConnArm after ConnDone), expiry
        timer + refresh handler (TimerExpire), "connect-ret" in the callback log, monitor "no alive / refresh / sub-refresh
        callback before the connect callback returned" (C08_Order, C08_NoEarlyTimer); while a reader is parked inside
        OnConnect a timer armed since the connect began is fired and the consequence judged; caught as
        order:(alive|refresh)-before-connect-returned(:unidirectional)?.
  C11-1 (flagSubscribed dropped from writePublicationUpdatePosition): publications WITH an offset (kind "hpub") to three
        connect-time server-side subscriptions (gated in Broker.Subscribe / already in the hub / positioned) inside the
        connect window; every frame before the connect reply is reported with the kind of push; caught as
        first-frame:push-pub-with-offset (the positioned one stays buffered; not seen on the unchanged tree).
  C11-2 (closed re-check after dictionary negotiation folded into the later one that does not close the codec):
        ConnDictConn.tla (connect command x close() interleavings), close() run by the stale timer while the connect
        command is held inside the engine; caught as dict:codec-never-closed:close-during-negotiation / -dictionary.
  C11-4 (websocketTransport.writeData arms the pending encoder only on the single-message path): ConnDict.tla records the
        write path of every frame (single / batched) and has scenarios with ConnectReply.WriteDelay > 0 and a Client.Send
        from OnConnect, so that frame 1 = [connect reply, push] leaves through WriteMany; later frames (single, or batched
        pushes) must be Encode outputs; caught as dict:frame-not-encoded:after-batched-connect-reply.

  C09-3 (checkPong flips a consumed lastPing back to positive): witness schedule wit_pong.cfg (ping, pong, pong check
        passes, second pong before the next ping) replayed on every run; caught as pong:not-closed.
  C09-4 (handleRefresh writes the success reply after the "expired" error reply): handler outcome "past" (ExpireAt > 0
        not in the future) for refresh and sub_refresh, sync and async; caught as dup-reply:refresh:past.

Mutation testing (scratch worktrees /tmp/connect-*, each run through the harness mode of the property; caught = VIOLATION
with a signature other than the known ones above):
  C09  caught: authenticated gate dropped for presence (gate:not-closed:presence); history error reply written twice
       (dup-reply:history:err); pong check `lastPing <= 0` -> `< 0` (pong:not-closed); unsubscribe of a channel without
       subscription not answered (no-reply:unsubscribe:ok); sub_refresh without subscription returns nil
       (no-reply:sub_refresh:*).  A write attempted after the transport closed is reported as drift, not as a violation
       (the property allows anything once the connection is closed).
  C43  caught: clamp ignores negative limits (history:limit-exceeded:limit<0); clamp off by one `> max+1`
       (history:limit-exceeded:limit>0, needs limit 3 in the table: added); reverse+since 0 accepted
       (history:reverse-since-zero-accepted); since epoch dropped by handleHistory (history:differs-from-node:code);
       presence stats served from a cache (presence_stats:differs-from-node).
       Single flight: key without the reverse flag (singleflight:merged-different-options:reverse:*); a key without the
       meta TTL merges requests whose replies are equal: reported as drift (exit 2), not as a violation.
  C36  caught: never-ponged clients exempt from the pong check (no-pong:not-closed); stale close only for unusable
       connections (stale:not-closed); grace delay ignored when arming the expiry (expire:closed-before-deadline);
       refresh command does not re-arm (expire:closed-before-deadline:client-extend); subscription grace delay ignored
       (sub-expire:unsubscribed-although-valid); pong timeout never armed (no-pong:not-closed).  First attempt at the pong
       mutation (`lastSeen < lastPing - 1h`) was equivalent for never-ponged clients and was replaced.
  C08  caught: close() no longer takes presenceMu (alive-overlaps-disconnect); unsubscribe callback skipped for server-side
       subscriptions (unsubscribe-missing); hub shutdown does not close (still-connected-after-shutdown); close() forgets
       removeClient unless the transport closed (registered-after-shutdown).  `connect` processed again on a duplicate
       connect command shows as C11 connect-reply-twice + C08 drift: the connect callback itself is protected twice
       (authenticated check and the status check of triggerConnect), several other single mutations are equivalent.
  C11  caught: codec closed before the writer drained (dict:later-frame-raw / close-overlaps-encode / encode-after-close);
       codec active from SetDictionaryCompression on (dict:connect-reply-encoded); promoted codec never closed
       (dict:never-closed); promotion skipped for long frames (dict:later-frame-raw); duplicate connect command accepted
       (connect-reply-twice).  The push part is exercised by the unchanged tree itself (violations above; gone with the
       candidate repair that holds early pushes until the reply is queued).
       Codec installed only after the closed re-check (dict:codec-never-closed:close-during-negotiation / -dictionary).
"""
import json
import threading

from lib import vf

KEEP = ('step', 'out', 'cb', 'status', 'closing', 'cwait', 'tmr', 'pend', 'sub')


def _strip(beh):
    out = []
    for i, s in enumerate(beh):
        d = {k: s[k] for k in KEEP if k in s}
        if i == 0:
            d['cfg'] = s['cfg']
        out.append(d)
    return out


def _paths(states):
    """Every maximal path of a dump made WithHist = TRUE (one state per path): list of state lists."""
    def key(cfg, h):
        return json.dumps([cfg, h], sort_keys=True)
    by = {}
    prefixes = set()
    for s in states:
        by[key(s['cfg'], s['hist'])] = s
        if s['hist']:
            prefixes.add(key(s['cfg'], s['hist'][:-1]))
    behs = []
    for k, s in by.items():
        if k in prefixes or not s['hist']:
            continue
        h = s['hist']
        beh = [by.get(key(s['cfg'], h[:i])) for i in range(len(h) + 1)]
        if any(p is None for p in beh):
            raise vf.Inconclusive('dump is not prefix closed')
        behs.append(_strip(beh))
    return behs


def _trace(out):
    """The counterexample trace TLC printed to stdout, as a behaviour (list of state dicts)."""
    from lib import tlaparse
    lines = out.splitlines()
    try:
        i = next(k for k, l in enumerate(lines) if l.startswith('State 1:'))
    except StopIteration:
        return None
    keep = []
    for l in lines[i:]:
        if l.startswith('State ') or l.startswith('/\\') or l.startswith(' ') or not l.strip():
            keep.append(l)
        else:
            break
    return tlaparse.parse_states_file('\n'.join(keep))


def _par(*fns):
    """Runs the callables concurrently (TLC runs are dominated by JVM start-up on a loaded machine)."""
    res = [None] * len(fns)
    err = [None] * len(fns)

    def run(i):
        try:
            res[i] = fns[i]()
        except BaseException as e:  # noqa: BLE001
            err[i] = e
    ts = [threading.Thread(target=run, args=(i,)) for i in range(len(fns))]
    for t in ts:
        t.start()
    for t in ts:
        t.join()
    for e in err:
        if e is not None:
            raise e
    return res


def c09(c):
    quick = c.tier == 'quick'
    design_cfg = 'quick.cfg' if quick else 'thorough.cfg'
    dump_cfg = 'dump_quick.cfg' if quick else 'dump_thorough.cfg'
    nsim = 1200 if quick else 12000
    c._specdir('Connect')          # the scratch copy is created once, before the concurrent TLC runs share it
    loose_cfg = 'quick_loose.cfg' if quick else 'thorough_loose.cfg'
    r1, r1b, r2, s, binp = _par(
        lambda: c.tlc_exhaustive('Connect', 'Connect', design_cfg, workers=4, timeout=3000),
        # a reader that keeps feeding commands after HandleCommand returned false (emulation endpoint)
        lambda: c.tlc_exhaustive('Connect', 'Connect', loose_cfg, workers=2, timeout=3000),
        lambda: c.tlc_exhaustive('Connect', 'Connect', dump_cfg, workers=4, timeout=3000, dump=True),
        lambda: c.tlc('Connect', 'ConnectSim', 'sim.cfg', simulate=nsim, depth=18, timeout=1500),
        lambda: c.go_build('connect'))
    # witness schedule: ping, pong, the pong check passes, one more pong before the next ping
    wp = c.tlc('Connect', 'Connect', 'wit_pong.cfg', workers=2, timeout=600, expect_violation=True)
    wit = _trace(wp['out'])
    if not wit:
        raise vf.Inconclusive('the pong witness run produced no schedule:\n' + wp['out'][-1500:])
    c.log('TLC exhaustive %s (closes delayed arbitrarily): %d distinct / %d generated' % (design_cfg, r1['distinct'], r1['states']))
    c.log('TLC exhaustive %s (reader that does not stop): %d distinct / %d generated' % (loose_cfg, r1b['distinct'], r1b['states']))
    c.log('TLC exhaustive %s (one state per path): %d distinct / %d generated' % (dump_cfg, r2['distinct'], r2['states']))
    if not s['ok']:
        raise vf.Inconclusive('simulation failed: %s\n%s' % (s['error'], s['out'][-3000:]))
    behs = _paths(c.dump_states(r2))
    c.log('%d maximal command sequences from the dump' % len(behs))
    sims = [_strip(wit)] + [_strip(b) for b in c.behaviours(s)]
    c.log('%d simulated behaviours' % len(sims))
    total = {'executed': 0, 'completed': 0}
    for name, bs in (('dump', behs), ('sim', sims)):
        res = c.harness(binp, 'c09', {'protos': ['json', 'protobuf'], 'behaviours': bs}, timeout=1500)
        c.absorb(res)
        total['executed'] += res['executed']
        total['completed'] += res['completed']
        c.cov['distinct_nontrivial'] += res['nontrivial']
        c.cov['samples'] += res['samples'][:1]
        c.log('replay %s: %d executed, %d completed, %d non-trivial' % (name, res['executed'], res['completed'], res['nontrivial']))
    # concurrent completion of asynchronous callbacks: every path of ConnConc.tla with the completing goroutines
    # parked inside Config.LogHandler, plus a stress mode without gates
    rc = c.tlc_exhaustive('Connect', 'ConnConc', 'conc_quick.cfg' if quick else 'conc_thorough.cfg', workers=2, timeout=900, dump=True)
    ncmd = 3 if quick else 4
    paths = [st['hist'] for st in c.dump_states(rc) if not st['pend'] and not st['infl']]
    c.log('TLC ConnConc: %d distinct states, %d complete interleavings of %d asynchronous completions' % (rc['distinct'], len(paths), ncmd))
    res = c.harness(binp, 'c09conc', {'n': ncmd, 'protos': ['json', 'protobuf'], 'paths': paths}, timeout=1500)
    c.absorb(res)
    total['executed'] += res['executed']
    total['completed'] += res['completed']
    c.cov['distinct_nontrivial'] += res['nontrivial']
    c.log('replay concurrent completions: %d executed, %d completed, %d with overlapping error completions' % (res['executed'], res['completed'], res['nontrivial']))
    rounds = 400 if quick else 4000
    res = c.harness(binp, 'c09stress', {'n': 8, 'protos': ['json', 'protobuf'], 'rounds': rounds}, timeout=1500)
    c.absorb(res)
    total['executed'] += res['executed']
    total['completed'] += res['completed']
    c.log('stress: %d rounds of 8 simultaneous error completions, %d clean' % (res['executed'], res['completed']))
    c.cov['traces_validated_against_impl'] = total['completed']
    c.cov['evaluations'] = total['executed']
    c.cov['rule'] = ('behaviours of Connect.tla: (a) every maximal path of the exhaustive TLC dump (<= 3 commands over the whole alphabet incl. async completions, '
                     'all environment configurations), (b) TLC -simulate behaviours (<= 7 commands, timers, Client.Disconnect, transport close); each replayed twice '
                     '(JSON and Protobuf framing) through HandleReadFrame on a real client; non-trivial = completed behaviour with at least one command after/other than '
                     'connect, an async completion or a timer firing, distinct by (framing, cfg, step list); (c) every interleaving of ConnConc.tla (3-4 asynchronous completions, error completions split at '
                     'the library\'s "client command error" log call) replayed with goroutines parked in Config.LogHandler, and stress rounds of 8 simultaneous error completions')
    c.assumptions += ['one connection, one channel per behaviour; one command per frame',
                      'a spawned close() runs before the next command is fed (replay); arbitrary delays are covered on the model only',
                      'an unsubscribe command is never sent while a subscribe of the same channel is pending (SubLifecycle)',
                      'the connect handshake and close() are atomic here (their interleavings: C08/C11 checks)']


def _sf_rows(dump_file):
    """Terminal states (both readers done) of a ConnHistorySF dump, as harness rows. The dump is filtered as text first:
    parsing every intermediate state would take longer than the whole check."""
    import re
    from lib import tlaparse
    done = re.compile(r'pc = \[A \|-> "done", B \|-> "done"\]')
    keep, blk = [], []
    with open(dump_file) as fh:
        for line in fh:
            if line.startswith('State '):
                if blk and done.search(''.join(blk)):
                    keep += blk
                blk = [line]
            else:
                blk.append(line)
    if blk and done.search(''.join(blk)):
        keep += blk
    rows = []
    for s in tlaparse.parse_states_file(''.join(keep)):
        a = s['req']['A']
        if s['bstart'] != 'done' and a['reverse'] and a['since']['has'] and a['since']['off'] == 0:
            continue   # refused by Node.history before the broker is asked: nowhere to hold it (model only)
        rows.append({'max': s['cmax'], 'a': s['req']['A'], 'b': s['req']['B'], 'bstart': s['bstart'],
                     'merged': s['lead']['B'] == 'A', 'reply_a': s['reply']['A'], 'reply_b': s['reply']['B']})
    return rows


def c43(c):
    quick = c.tier == 'quick'
    cfg = 'hist_quick.cfg' if quick else 'hist_thorough.cfg'
    sf_cfg = 'hist_sf_quick.cfg' if quick else 'hist_sf_thorough.cfg'
    c._specdir('Connect')
    r, rsf, wit, binp = _par(lambda: c.tlc_exhaustive('Connect', 'ConnHistory', cfg, workers=2, timeout=1500, dump=True),
                             # concurrent readers with Config.UseSingleFlight: all ordered pairs of requests x where the second arrives
                             lambda: c.tlc_exhaustive('Connect', 'ConnHistorySF', sf_cfg, workers=4, timeout=1500, dump=True),
                             # the same model with a key that leaves default-valued options out must break the property (sharpness)
                             lambda: c.tlc('Connect', 'ConnHistorySF', 'hist_sf_wit.cfg', workers=2, timeout=600, expect_violation=True),
                             lambda: c.go_build('connect'))
    rows = c.dump_states(r)
    c.log('TLC: %d rows enumerated (%s), clamp transcription = reference, bound and filter invariants hold' % (len(rows), cfg))
    if wit['ok'] or 'FlightSequential is violated' not in wit['out']:
        raise vf.Inconclusive('ConnHistorySF with a single-flight key without default-valued options satisfies FlightSequential: the property is blunt\n' + wit['out'][-1500:])
    res = c.harness(binp, 'c43', {'protos': ['json', 'protobuf'], 'rows': rows}, timeout=1500)
    c.absorb(res)
    sf_rows = _sf_rows(rsf['dump_file'])
    import os
    import re
    top = int(re.search(r'MaxTop\s*=\s*(\d+)', open(os.path.join(c._specdir('Connect'), sf_cfg)).read()).group(1))
    c.log('TLC ConnHistorySF (%s): %d distinct / %d generated; %d terminal states = ordered request pairs x arrival point, %d of them merged; '
          'witness key "nondefault" violates FlightSequential' % (sf_cfg, rsf['distinct'], rsf['states'], len(sf_rows), sum(1 for x in sf_rows if x['merged'])))
    res2 = c.harness(binp, 'c43sf', {'top': top, 'protos': ['json', 'protobuf'], 'rows': sf_rows}, timeout=1500)
    c.absorb(res2)
    c.log('single-flight replay: %d executed, %d completed, %d merged, %d re-executed' % (res2['executed'], res2['completed'], res2['counters'].get('merged', 0), res2['counters'].get('re-executed', 0)))
    c.cov['traces_validated_against_impl'] = res['completed'] + res2['completed']
    c.cov['evaluations'] = res['executed'] + res2['executed']
    c.cov['distinct_nontrivial'] = res['nontrivial'] + res2['nontrivial']
    c.cov['singleflight_pairs'] = {'executed': res2['executed'], 'completed': res2['completed'], 'overlapping_distinct': res2['nontrivial'], 'counters': res2['counters']}
    c.cov['exhaustive'] = True
    c.cov['samples'] = res['samples'][:2] + res2['samples'][:1]
    c.cov['rule'] = ('(a) every row of ConnHistory.tla (%s): history requests (stream length x limit incl. -1/0 x since none / offset 0..top+1 x epoch empty/same/foreign x reverse x '
                     'HistoryMaxPublicationLimit) and presence / presence_stats rows (0..n subscribed connections of 1-2 users, asked again after one left), each executed over JSON and '
                     'Protobuf through the client command path of a real node and compared with Node.History(effective filter) / Node.Presence / Node.PresenceStats on that node and with the '
                     'row; non-trivial = history row that returns publications, an error or is clamped, presence row with at least one subscriber; '
                     '(b) every terminal state of ConnHistorySF.tla (%s): ordered pairs of readers of one channel on a node with UseSingleFlight (client history command, Node.History incl. meta '
                     'TTL, recovering subscribe, positioned subscribe x limit -1/0/1/cap/cap+1 x reverse x since x ttl), the second issued while the first is parked inside Broker.History, after it '
                     'but still in flight, or after it returned; both replies compared with the same request executed alone on the same stream, merging observed through the goroutine that '
                     'calls Broker.History; non-trivial = completed overlapping pair, distinct by (framing, arrival point, pair)' % (cfg, sf_cfg))
    c.assumptions += ['memory broker and memory presence manager, all publications retained (history size 32, no expiry during a row)',
                      'application handlers answer with an empty reply (the library computes the result); custom results are passed through unchanged by construction',
                      'reverse reads from beyond top+1 are compared with Node.History only (outside the reference, see MemBroker.tla)',
                      'single-flight part: two readers, static stream (no publication while a read is in flight: a merged reader then sees the stream as of the leader\'s read); a reader that has '
                      'not joined the flight 15 ms (150 / 300 ms on re-execution) after it was issued counts as reading for itself']


def c36(c):
    quick = c.tier == 'quick'
    c._specdir('Connect')
    wnames = ('ClientZero', 'HandlerZero', 'LateRun', 'StaleAfterFailedConnect')
    rs = _par(lambda: c.tlc_exhaustive('Connect', 'ConnTimers', 'timers_quick.cfg' if quick else 'timers_thorough.cfg', workers=4, timeout=3000),
              lambda: c.go_build('connect'),
              *[(lambda w=w: c.tlc('Connect', 'ConnTimers', 'timers_wit_%s.cfg' % w, workers=1, timeout=600, expect_violation=True)) for w in wnames])
    r, binp = rs[0], rs[1]
    c.log('TLC exhaustive: %d distinct / %d generated, depth %d' % (r['distinct'], r['states'], r['depth']))
    wits = [_trace(w['out']) for w in rs[2:]]
    if not all(wits):
        raise vf.Inconclusive('a witness run produced no schedule')
    probe = c.harness(binp, 'c36probe', {}, timeout=120)
    rearm = bool(probe['extra'].get('server_zero_rearms'))
    c.cov['server_zero_rearms'] = rearm
    nb = 400 if quick else 3000
    s = c.tlc('Connect', 'ConnTimersSim', 'timers_sim_rearm.cfg' if rearm else 'timers_sim.cfg', simulate=nb, depth=20, timeout=1500)
    if not s['ok']:
        raise vf.Inconclusive('simulation failed: %s\n%s' % (s['error'], s['out'][-3000:]))
    keep = ('step', 'out', 'cb', 'status', 'closing', 'tmr', 'now')
    behs = []
    for b in wits + c.behaviours(s):
        bb = [{k: x[k] for k in keep} for x in b]
        bb[0]['cfg'] = b[0]['cfg']
        behs.append(bb)
    c.log('%d behaviours incl. %d witness schedules (Client.Refresh(0) re-arms: %s)' % (len(behs), len(wits), rearm))
    res = c.harness(binp, 'c36', {'behaviours': behs}, timeout=2400)
    c.absorb(res)
    discarded = res['counters'].get('discarded_for_timing', 0)
    c.cov['traces_validated_against_impl'] = res['completed']
    c.cov['evaluations'] = res['executed']
    c.cov['distinct_nontrivial'] = res['nontrivial']
    c.cov['discarded_for_timing'] = discarded
    c.cov['samples'] = res['samples'][:2]
    c.log('replay: %d executed, %d completed, %d non-trivial, %d discarded for timing' % (res['executed'], res['completed'], res['nontrivial'], discarded))
    if discarded * 4 > len(behs):
        raise vf.Inconclusive('%d of %d behaviours could not be placed inside their wall-clock seconds (machine too loaded)' % (discarded, len(behs)))
    c.cov['rule'] = ('behaviours of ConnTimers.tla by TLC -simulate over 12 configurations (ping/pong, connection expiry with client- or server-side refresh, both multiplexed, '
                     'subscription expiry with client- or server-side refresh), each replayed on its own node: timers fired through a harness TimerScheduler, one model Tick = one real second; '
                     'non-trivial = completed behaviour with a timer firing or a refresh, distinct by (cfg, step list)')
    c.assumptions += ['JSON protocol, one connection and one channel per behaviour',
                      'a timer may fire late but the expire timer never early; behaviours in which two deadlines coincide are not continued (which one is armed depends on sub-millisecond jitter)',
                      'actions run within +-0.35 s of the middle of their wall-clock second, otherwise the behaviour is repeated (3 attempts) or discarded',
                      'Client.Refresh(ExpireAt=0) is modelled as the tree under test implements it (probed): it does or does not clear the armed expiry deadline']


LIFE_KEEP = ('step', 'st', 'rd', 'cl', 'who', 'spawned', 'shc', 'shut', 'out', 'cb')


def _life(c, prop, pushes):
    quick = c.tier == 'quick'
    c._specdir('Connect')
    design = ('life_quick.cfg' if quick else 'life_thorough.cfg') if not pushes else ('first_quick.cfg' if quick else 'first_thorough.cfg')
    sim_cfg = 'first_sim.cfg' if pushes else 'life_sim.cfg'
    runs = [lambda: c.tlc_exhaustive('Connect', 'ConnLife', design, workers=4, timeout=3000),
            lambda: c.go_build('connect')]
    if not pushes:
        # witness schedules: counterexamples of the model WITHOUT the shutdown guard (the code as it is), always replayed
        # (shutdown while the connect is in OnConnecting: wit, wit2; between authentication and hub registration: wit3, wit4)
        runs += [(lambda w=w: c.tlc('Connect', 'ConnLife', 'life_%s.cfg' % w, workers=1, timeout=600, expect_violation=True))
                 for w in ('wit', 'wit2', 'wit3', 'wit4', 'wit5')]
    else:
        # witness schedules: a push of each kind inside the connect window
        # (Hpub*: a publication carrying an offset to the gated / an ungated / the positioned connect-time subscription)
        runs += [(lambda w=w: c.tlc('Connect', 'ConnLife', 'first_wit_%s.cfg' % w, workers=1, timeout=600, expect_violation=True))
                 for w in ('Send', 'Pub', 'HpubA', 'HpubB', 'HpubP')]
    rs = _par(*runs)
    r, binp = rs[0], rs[1]
    c.log('TLC exhaustive %s: %d distinct / %d generated, depth %d' % (design, r['distinct'], r['states'], r['depth']))
    behs = []
    for w in rs[2:]:
        t = _trace(w['out'])
        if not t:
            raise vf.Inconclusive('witness run produced no schedule:\n' + w['out'][-1500:])
        behs.append(t)
    nb = 400 if quick else 2500
    s = c.tlc('Connect', 'ConnLifeSim', sim_cfg, simulate=nb, depth=40, timeout=1500)
    if not s['ok']:
        raise vf.Inconclusive('simulation failed: %s\n%s' % (s['error'], s['out'][-3000:]))
    behs += c.behaviours(s)
    behs = [[{k: x[k] for k in LIFE_KEEP} for x in b] for b in behs]
    c.log('%d behaviours (%d witness schedules)' % (len(behs), len(rs) - 2))
    res = c.harness(binp, 'c08', {'ss': True, 'pushes': pushes, 'behaviours': behs}, timeout=2400)
    c.absorb(res)
    c.cov['traces_validated_against_impl'] = res['completed']
    c.cov['evaluations'] = res['executed']
    c.cov['distinct_nontrivial'] = res['nontrivial']
    c.cov['replay_counters'] = res['counters']
    c.cov['samples'] = res['samples'][:2]
    c.log('replay: %d executed, %d completed, %d non-trivial, %s' % (res['executed'], res['completed'], res['nontrivial'], res['counters']))
    c._life_bin = binp
    c.assumptions += ['two connections on one node, JSON protocol, in-memory transport (the WebSocket handler\'s own shutdown check before NewClient is not exercised)',
                      'threads are held only where a public interface call exists: OnConnecting, Transport.AcceptProtocol (Node.addClient, before hub.add), Broker.Subscribe of a connect-time subscription, OnConnect, OnAlive, Transport.Close',
                      'a close() that is neither parked nor blocked runs at once; at most one close() waits on connectMu behind a reader (wake-up order of several is arbitrary); no close() is started on a connection whose reader is parked inside addClient (it would race the ungated rest of connectCmd); both are explored on the model only',
                      'timers fire only when the harness TimerScheduler fires them; the sub-refresh callback is part of the presence tick that delivers OnAlive (no separate schedule)',
                      'a window publication to the positioned subscription blocks its publisher until the connect reply is out (subscription lock): such publications are handed over asynchronously',
                      'Guard: the model refuses a connection once shutdown began; witness schedules come from the unguarded model']


def c08(c):
    _life(c, 'C08', False)
    # subscription kind "map": every schedule of ConnLifeMap.tla (subscribe parked in MapBroker.ReadState, Client.Unsubscribe
    # arriving in that window / on the live subscription, re-subscription, close) replayed on a real client
    rm = c.tlc_exhaustive('Connect', 'ConnLifeMap', 'life_map_quick.cfg' if c.tier == 'quick' else 'life_map_thorough.cfg', workers=1, timeout=600, dump=True)
    paths = [st['hist'] for st in c.dump_states(rm) if st['closed']]
    resm = c.harness(c._life_bin, 'c08map', {'paths': paths}, timeout=900)
    c.absorb(resm)
    c.cov['traces_validated_against_impl'] += resm['completed']
    c.cov['evaluations'] += resm['executed']
    c.cov['distinct_nontrivial'] += resm['nontrivial']
    c.log('map subscriptions: %d schedules of ConnLifeMap.tla, %d executed, %d completed, %s' % (len(paths), resm['executed'], resm['completed'], resm['counters']))
    c.cov['rule'] = ('behaviours of ConnLife.tla (TLC -simulate with slot weights, plus 4 witness schedules of the unguarded model: Shutdown during OnConnecting and between authentication and hub '
                     'registration), each replayed on its own node with the reader, tick and close threads parked at OnConnecting / Transport.AcceptProtocol (addClient) / Broker.Subscribe / OnConnect / '
                     'OnAlive / Transport.Close as the model says, connections with and without expiring credentials, bidirectional connect command and unidirectional Client.Connect; a timer armed while '
                     'OnConnect is still running is fired and judged by its observable consequence; a drifted behaviour is re-executed (3 attempts); non-trivial = completed behaviour in which a connect '
                     'handshake passed its authentication step, a tick or a close ran, distinct by step list'
                     + '; plus every schedule of ConnLifeMap.tla (client-side map subscription parked inside MapBroker.ReadState, Client.Unsubscribe in that window or on the live subscription, '
                     're-subscription, close) with the unsubscribe-count monitor; Shutdown is also called while a close() of a connection is blocked behind its reader inside OnConnect (witness Wit5)')


def _dictconn_rows(states):
    """Quiescent behaviours of ConnDictConn.tla that a real connection can be made to follow: close() runs its status,
    writer and codec steps in one piece right after connectCmd reached a point inside application code (OnConnecting,
    NewDictionaryConnection, Dictionary) or after the handshake, and its Transport.Close ends last (the closing handshake
    waits for the read loop). One row per (scenario, point)."""
    k3 = ['KMark', 'KFlush', 'KCodec']
    park = {'RConnecting': 'connecting', 'RChecked': 'negotiate', 'RNegotiate': 'dictionary', 'RReply': 'up', 'ROp': 'up'}
    rows, seen = [], set()
    for s in states:
        h = s['hist']
        if s['kpc'] != 'done' or s['cpc'] not in ('failed', 'up') or 'KMark' not in h:
            continue
        i = h.index('KMark')
        if h[i:i + 3] != k3 or h[-1] != 'KDone' or i == 0 or h[i - 1] not in park:
            continue
        key = json.dumps([s['sc'], park[h[i - 1]]], sort_keys=True)
        if key in seen:
            continue
        seen.add(key)
        rows.append({'sc': s['sc'], 'park': park[h[i - 1]], 'hist': h, 'cc': s['cc'], 'closes': s['closes'], 'wire': s['wire'], 'enc': s['enc']})
    return rows


def c11(c):
    _life(c, 'C11', True)
    n1, e1, d1 = c.cov['traces_validated_against_impl'], c.cov['evaluations'], c.cov['distinct_nontrivial']
    r, rc, wit = _par(lambda: c.tlc_exhaustive('Connect', 'ConnDict', 'dict_quick.cfg' if c.tier == 'quick' else 'dict_thorough.cfg', workers=2, timeout=900, dump=True),
                      # connect command and close() as two threads, every interleaving
                      lambda: c.tlc_exhaustive('Connect', 'ConnDictConn', 'dict_conn.cfg', workers=2, timeout=900, dump=True),
                      # the same model whose closed re-check does not close the codec must break "exactly once" (sharpness)
                      lambda: c.tlc('Connect', 'ConnDictConn', 'dict_conn_wit.cfg', workers=1, timeout=600, expect_violation=True))
    if wit['ok'] or 'DictExactlyOnce is violated' not in wit['out']:
        raise vf.Inconclusive('ConnDictConn without the codec close of the closed re-check satisfies DictExactlyOnce: the property is blunt\n' + wit['out'][-1500:])
    rows = [s for s in c.dump_states(r) if s['pc'] == 'done']
    c.log('TLC ConnDict: %d scenarios' % len(rows))
    res = c.harness(c._life_bin, 'c11dict', {'rows': rows}, timeout=1200)
    c.absorb(res)
    crows = _dictconn_rows(c.dump_states(rc))
    c.log('TLC ConnDictConn: %d distinct / %d generated (connect command x close() interleavings), %d replayable schedules; witness without the re-check close violates DictExactlyOnce'
          % (rc['distinct'], rc['states'], len(crows)))
    res2 = c.harness(c._life_bin, 'c11dictconn', {'rows': crows}, timeout=1200)
    c.absorb(res2)
    c.cov['traces_validated_against_impl'] = n1 + res['completed'] + res2['completed']
    c.cov['evaluations'] = e1 + res['executed'] + res2['executed']
    c.cov['distinct_nontrivial'] = d1 + res['nontrivial'] + res2['nontrivial']
    c.cov['samples'] += res['samples'][:1] + res2['samples'][:1]
    c.log('dictionary scenarios: %d executed, %d completed; connect x close schedules: %d executed, %d completed, %d re-executed'
          % (res['executed'], res['completed'], res2['executed'], res2['completed'], res2['counters'].get('re-executed', 0)))
    c.cov['rule'] = ('(a) behaviours of ConnLife.tla with pushes (Client.Send through Hub().Connections(), publications without history to the gated connect-time server-side subscription, publications '
                     'WITH history/offset to the gated, an ungated non-positioned and a positioned connect-time subscription; 5 witness schedules, one per kind) placed while '
                     'the connect command is parked after addClient (inside Broker.Subscribe) / in OnConnect / later, replayed by gates, every frame written before the connect reply reported by kind; (b) every scenario of ConnDict.tla (<= 2-3 frames of '
                     'kinds rpc reply / push after the connect reply, closed by the client, Client.Disconnect or Node.Shutdown, or closed by the stale timer during OnConnecting; also with a write delay and a Send from OnConnect, so that the connect reply leaves in a batched frame) on a real node '
                     'behind the real WebsocketHandler with a raw WebSocket client and a recording DictionaryCompression engine; (c) the behaviours of ConnDictConn.tla (connect command split into '
                     'OnConnecting / closed check / NewDictionaryConnection / Dictionary / install / closed re-check / registration / reply, close() split into status / writer / codec / transport) '
                     'in which close() runs while the connect command is held inside OnConnecting, NewDictionaryConnection or Dictionary (stale timer fired by the harness scheduler, the engine '
                     'parks) or after the handshake, for a full dictionary and for one named by an id the client never presented; verdict from the engine\'s log: every codec handed out closed '
                     'exactly once, after its last Encode; non-trivial = completed behaviour / scenario, distinct by steps')
    c.assumptions += ['dictionary part: JSON protocol over WebSocket text/binary messages, one connection per node; the engine marks encoded frames with a prefix byte',
                      'what becomes of a push sent before the connect reply (delivered after it or dropped) is not part of the model\'s claim',
                      'a real connection can be held only inside application code: the interleavings of close() with the steps between SetDictionaryCompression and the connect reply are checked on '
                      'the model only (ConnDictConn.tla, exhaustive)']


CHECKS = {'C09': c09, 'C43': c43, 'C36': c36, 'C08': c08, 'C11': c11}

_note9 = ('Bounds: exhaustive design check 2 commands (quick) / 3 (thorough) with arbitrarily delayed close goroutines, 1 async callback, 2 timer firings, 1 environment close; '
          'exhaustive replay: all sequences of <= 3 commands (alphabet of 56 symbols x id modes, 6 environment configurations) with <= 1 async callback; simulated replay: <= 7 commands, '
          '<= 2 async callbacks, <= 4 timer firings. Trusted: TLC, lib/tlaparse.py, harness projection/monitor code, harness TimerScheduler.')
_note43 = ('Bounds: streams of 0..3 (quick) / 0..6 (thorough) publications, limits {-1,0,1,2,3,5} / {-1,0,1,2,3,5,7}, since none or offset 0..top+1 with 3 epochs, both directions, '
           'HistoryMaxPublicationLimit {0,2} / {0,1,2,4}; presence with <= 3 / 4 subscribers. Exhaustive within the bounds. Trusted: TLC, lib/tlaparse.py, harness comparison code. Single flight: 2 readers of a static stream of 3 (5) publications, limits {-1,0,1,2,3}, cap 2 ({0,2}), since none / offset 1 ({0,2}), both directions, meta TTL 0 / 60 s for node-level readers, all ordered pairs x 3 arrival points.')
_note36 = ('Bounds: exhaustive 4 s / 5 actions (quick), 6 s / 7 actions (thorough) over 12 configurations; replay 400 / 3000 simulated behaviours of <= 5 s and <= 8 actions. '
           'Ping 1 s, pong timeout 0.4 s, grace delays 1 s, expiries 1-2 s, refresh extends by 2 s. Trusted: TLC, lib/tlaparse.py, harness TimerScheduler and monitor code, wall clock.')
_note8 = ('Bounds: 2 connections, one connect-time server-side subscription (three in the push part), expiring credentials on connection 2 (quick) / either (thorough, replay), <= 2 (quick) / 3 (thorough) environment actions exhaustively with arbitrarily delayed closers; replay 400 / 2500 simulated '
          'behaviours of <= 40 steps with <= 5 environment actions. Trusted: TLC, lib/tlaparse.py, harness gates and monitor code.')
_note11 = _note8 + ' Dictionary compression: all scenarios with <= 2 (quick) / 3 (thorough) frames after the connect reply x 3 closers + close during OnConnecting + connect reply in a batched frame (write delay 60 ms, Send from OnConnect) followed by <= 2 / 3 single frames or one batched frame; connect command x close(): every interleaving on the model, 16 schedules (4 hold points x dictionary full / unknown id x with / without a later frame) replayed.'
META = {
    'C11': dict(level='model_checking',
                text='ConnLife.tla (see C08) with pushes (Client.Send, publications without and with an offset to gated / ungated / positioned connect-time subscriptions) aimed at a connection whose connect command is still under way: the monitor "the first frame is the connect reply" is checked by TLC on the '
                     'model and evaluated on the frames real connections received, the pushes being placed by natural gates inside the window between hub registration and the reply. '
                     'ConnDict.tla models the codec life cycle (pending until the first write, promoted by it, Encode for every later write, closed once by close() after the writer stopped); '
                     'every scenario is replayed over a real WebSocket connection with a recording DictionaryCompression engine: first frame raw and carrying the dictionary, later frames equal '
                     'to the engine\'s Encode outputs in order, Close exactly once, after the last Encode and never overlapping one. ConnDictConn.tla splits the connect command (OnConnecting, closed check, engine negotiation, '
                     'Dictionary, install, closed re-check, registration, reply) and close() (status, writer, codec, transport) into steps and TLC checks "every codec handed out is closed '
                     'exactly once, nothing encoded after Close" over every interleaving; the schedules a real connection can follow (close() by the stale timer while the connect command is '
                     'held inside OnConnecting / NewDictionaryConnection / Dictionary, or after the handshake) are replayed with a parking engine.',
                note=_note11, technique='TLA+ specs + TLC exhaustive; gate replay (pushes in the connect window); scenario replay over a real WebSocket connection with a recording codec'),
    'C08': dict(level='model_checking',
                text='ConnLife.tla models the connect handshake (OnConnecting, authentication, hub registration followed by the shutdown check as a step of its own, connect-time server-side '
                     'subscription, reply, OnConnect under connectMu, status change, timer arming as a step of its own), the presence tick (presenceMu, OnAlive), the expiry timer (refresh handler), close() (connectMu for its whole duration, status flip, hub removal, Transport.Close, presenceMu, unsubscribe loop '
                     'waiting for an in-flight connect-time subscription, disconnect callback iff it was connected) started by Client.Disconnect / the transport / Node.Shutdown (flag, hub '
                     'snapshot, one close per connection, return) for two connections; TLC checks the callback-order (incl. no alive / refresh callback before the connect callback returned), unsubscribe-count and after-shutdown monitors exhaustively; simulated and '
                     'witness behaviours are replayed on real nodes with every thread parked where the model says (natural gates only) and the monitors are evaluated on the real callback logs.',
                note=_note8, technique='TLA+ spec + TLC exhaustive; gate replay on real clients through natural gates; witness schedules; observable-only monitors'),
    'C36': dict(level='model_checking',
                text='ConnTimers.tla transcribes the timer layer (stale timer, scheduleOnConnectTimers, the single multiplexed timer with its tie order, sendPing/checkPong with the lastPing sign, '
                     'expire/checkExpired, handleRefresh, Client.Refresh, the presence tick\'s subscription expiry with client- and server-side refresh, handleSubRefresh) and states C36 as action '
                     'properties against reference deadlines that only the environment updates; TLC checks them exhaustively; simulated behaviours are replayed on real clients with a harness '
                     'TimerScheduler (ping/pong/stale/presence in virtual time, expiry in real seconds) and the same properties are evaluated on what the real connection did.',
                note=_note36, technique='TLA+ spec + TLC exhaustive (action properties); behaviour replay with a virtual TimerScheduler and a 1 s tick clock; observable-only monitors'),
    'C43': dict(level='model_checking',
                text='ConnHistory.tla transcribes the limit clamp of handleHistory and the request checks of Node.history, states the property independently (entitled limit, bound, '
                     'filter and order of the returned offsets, bad request for reverse since offset 0) and TLC checks it on every request of the bounded argument space; every row is then '
                     'replayed through the client command path (history / presence / presence_stats commands on a real client, JSON and Protobuf) and the reply is compared with the row and '
                     'with the node-level result for the effective filter computed on the same node. ConnHistorySF.tla models two concurrent readers under Config.UseSingleFlight (in-flight set keyed as '
                     'historySingleFlight builds the key; client commands clamped first; recovery and stream-top reads of subscribers as leaders) and states that every reader receives what '
                     'its request returns alone; every ordered pair of requests x arrival point (first reader inside Broker.History, after it but still in flight, finished) is replayed with '
                     'the first reader parked by a gating Broker and both replies are compared with the same request executed alone on the same stream.',
                note=_note43, technique='TLA+ transcription + TLC exhaustive enumeration; function-table replay through the client command path vs node-level API'),
    'C09': dict(level='model_checking',
                text='Connect.tla transcribes HandleCommand/dispatchCommand and every command handler (authenticated gate, unusable connections, the pong rule with the lastPing sign, '
                     'request-field chain, per-handler validation order, sync/async/error/disconnect callbacks, reply and disconnect writes, the multiplexed stale/ping/pong timer, '
                     'close) for one connection; TLC checks the three C09 monitors (gate, exactly-one-reply, unnecessary pong) exhaustively; every path of the exhaustive dump and '
                     'thousands of simulated behaviours are replayed on real clients over JSON and Protobuf framing with scripted application handlers and a harness TimerScheduler, '
                     'the monitors being evaluated on the real frames and handler log at every quiescent point.',
                note=_note9, technique='TLA+ spec + TLC exhaustive; replay of all short command sequences and simulated behaviours on real clients; observable-only monitors'),
}
