SPECIFICATION Spec
CONSTANTS
  OpSets <- UpTo4
  JoinRaceFixed = FALSE
  UrgentClose = FALSE
  JobsLast = FALSE
  NoPush = {FALSE, TRUE}
  AttrPairs <- AP_Quick
  Faults = {}
  MaxFaults = 0
VIEW View
INVARIANTS TypeOK C04 C05 C06 C07_Count C08 C26_Safe C26_Exact
CHECK_DEADLOCK FALSE
