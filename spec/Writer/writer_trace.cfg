SPECIFICATION TraceSpec
CONSTANTS
  Producers = {1, 2}
  Configs <- ConfigsStd
  MaxItems = 1000000
  ManySizes = {}
  ByteSizes = {1}
  MaxFails = 1000000
  MaxCloses = 1000000
VIEW TraceView
CONSTRAINT HighWater
INVARIANTS TypeOK Exact PrefixWise NoDup ProducerOrder FlushDelivers NoFlushDrops WriterAlive
PROPERTIES ClosedRejects FrameLimit SlowIffOver ResultKinds
POSTCONDITION TraceAccepted
CHECK_DEADLOCK FALSE
