// C43, concurrent part: replay of spec/Connect/ConnHistorySF.tla. Every terminal state of the TLC table is an ordered
// pair of history readers (A: client command / Node.History / recovering subscribe / positioned subscribe; B: client
// command / Node.History) on a node with Config.UseSingleFlight and a point at which B arrives: while A is parked inside
// Broker.History ("flight", GateBroker.BeforeHistory), after the broker answered but before the single-flight group
// forgot the call ("post", AfterHistory), or after A returned ("done"). Checked on the real replies: B (and A) receive
// exactly what the same request returns when it is executed alone on the same stream; whether B was merged (it returned
// without a Broker.History call of its own goroutine) is observed and reported with the verdict.
// Setup trouble (a gate never reached, a reader that does not return, a merge the model expects and the run did not
// produce) is re-executed with longer waits and reported as drift when it persists, never as a violation.
package main

import (
	"encoding/json"
	"fmt"
	"sort"
	"strings"
	"sync"
	"sync/atomic"
	"time"

	"github.com/centrifugal/centrifuge"
	"github.com/centrifugal/protocol"

	"verifharness/cl"
	"verifharness/vh"
)

type sfSince struct {
	Has bool   `json:"has"`
	Off int    `json:"off"`
	Ep  string `json:"ep"`
}

type sfReq struct {
	Origin  string  `json:"origin"`
	Limit   int     `json:"limit"`
	Reverse bool    `json:"reverse"`
	Since   sfSince `json:"since"`
	TTL     int     `json:"ttl"`
}

type sfReply struct {
	Code int   `json:"code"`
	Pubs []int `json:"pubs"`
}

type sfRow struct {
	Max    int     `json:"max"`
	A      sfReq   `json:"a"`
	B      sfReq   `json:"b"`
	BStart string  `json:"bstart"` // flight | post | done
	Merged bool    `json:"merged"`
	ReplyA sfReply `json:"reply_a"`
	ReplyB sfReply `json:"reply_b"`
}

type inSF struct {
	Top    int      `json:"top"`
	Protos []string `json:"protos"`
	Rows   []sfRow  `json:"rows"`
}

// sfOut is what a reader received.
type sfOut struct {
	Code   int      `json:"code"`
	Pubs   []pubRec `json:"pubs"`
	Offset uint64   `json:"offset"`
	Epoch  string   `json:"-"`
	Note   string   `json:"note,omitempty"`
	failed string   // setup trouble (no reply in time, ...)
}

func (o sfOut) same(p sfOut) bool {
	return o.Code == p.Code && samePubs(o.Pubs, p.Pubs) && o.Offset == p.Offset && o.Epoch == p.Epoch
}

func (o sfOut) offs() []int {
	out := []int{}
	for _, p := range o.Pubs {
		out = append(out, int(p.Off))
	}
	return out
}

// sfPair is the state of the pair a worker is executing: the broker hooks read it.
type sfPair struct {
	park    string // "before" | "after" | ""
	gate    *cl.Gate
	parked  atomic.Bool
	bGo     atomic.Uint64
	bEnter  atomic.Int64 // unix nanos at which B's goroutine was about to issue its request
	bCalls  atomic.Int32 // Broker.History calls made by B's goroutine
	total   atomic.Int32
	timeout atomic.Bool // the parked reader ran into the safety timeout
}

type sfWorker struct {
	env   *cl.Env
	ch    string
	epoch string
	cur   atomic.Pointer[sfPair]
	conns map[string]*cl.Conn // "a/json", "b/json", ...
	solo  map[string]sfOut
	max   int
}

type sfEnv struct {
	env     *cl.Env
	gb      *cl.GateBroker
	mu      sync.RWMutex
	workers map[string]*sfWorker // by channel
}

func newSFEnv(max int) (*sfEnv, error) {
	env, err := cl.NewEnv(centrifuge.Config{LogLevel: centrifuge.LogLevelNone, HistoryMaxPublicationLimit: max, UseSingleFlight: true})
	if err != nil {
		return nil, err
	}
	se := &sfEnv{env: env, workers: map[string]*sfWorker{}}
	gb, err := cl.NewGateBroker(env.Node)
	if err != nil {
		return nil, err
	}
	se.gb = gb
	hook := func(point string) func(string) {
		return func(ch string) {
			se.mu.RLock()
			w := se.workers[ch]
			se.mu.RUnlock()
			if w == nil {
				return
			}
			p := w.cur.Load()
			if p == nil {
				return
			}
			gid := cl.GoID()
			if point == "before" {
				p.total.Add(1)
				if gid == p.bGo.Load() {
					p.bCalls.Add(1)
				}
			}
			// the first read of the pair is A's (B is started only once A is parked)
			if p.park == point && gid != p.bGo.Load() && p.parked.CompareAndSwap(false, true) {
				if !p.gate.Arrive(gateHold) {
					p.timeout.Store(true)
				}
			}
		}
	}
	before, after := hook("before"), hook("after")
	gb.BeforeHistory = func(ch string, _ centrifuge.HistoryOptions) { before(ch) }
	gb.AfterHistory = func(ch string, _ centrifuge.HistoryOptions, _ []*centrifuge.Publication, _ centrifuge.StreamPosition) {
		after(ch)
	}
	env.Node.SetBroker(gb)
	env.OnSubscribe = func(_ *centrifuge.Client, _ centrifuge.SubscribeEvent, cb centrifuge.SubscribeCallback) {
		cb(centrifuge.SubscribeReply{Options: centrifuge.SubscribeOptions{EnablePositioning: true, EnableRecovery: true}}, nil)
	}
	env.Setup = func(c *centrifuge.Client) {
		c.OnHistory(func(_ centrifuge.HistoryEvent, cb centrifuge.HistoryCallback) { cb(centrifuge.HistoryReply{}, nil) })
	}
	if err := env.Run(); err != nil {
		return nil, err
	}
	return se, nil
}

func (se *sfEnv) newWorker(n, top, max int, protos []string) (*sfWorker, error) {
	w := &sfWorker{env: se.env, ch: fmt.Sprintf("sf43_%d_%d_%d", vh.Seed(), max, n), conns: map[string]*cl.Conn{}, solo: map[string]sfOut{}, max: max}
	for i := 1; i <= top; i++ {
		if _, err := se.env.Node.Publish(w.ch, []byte(fmt.Sprintf(`{"n":%d}`, i)), centrifuge.WithHistory(32, time.Minute)); err != nil {
			return nil, err
		}
	}
	h0, err := se.env.Node.History(w.ch, centrifuge.WithHistoryFilter(centrifuge.HistoryFilter{Limit: 0}))
	if err != nil {
		return nil, err
	}
	if int(h0.Offset) != top {
		return nil, fmt.Errorf("stream top %d, expected %d", h0.Offset, top)
	}
	w.epoch = h0.Epoch
	for _, p := range protos {
		for _, role := range []string{"a", "b"} {
			c, err := se.env.NewConn("u", protoOf(p))
			if err != nil {
				return nil, err
			}
			if c.Connect() == nil {
				return nil, fmt.Errorf("connect failed")
			}
			w.conns[role+"/"+p] = c
		}
	}
	se.mu.Lock()
	se.workers[w.ch] = w
	se.mu.Unlock()
	return w, nil
}

func (w *sfWorker) close() {
	for _, c := range w.conns {
		c.Client.Disconnect()
		c.Cancel()
	}
}

func (w *sfWorker) since(s sfSince) (*centrifuge.StreamPosition, *protocol.StreamPosition) {
	if !s.Has {
		return nil, nil
	}
	ep := ""
	switch s.Ep {
	case "same":
		ep = w.epoch
	case "other":
		ep = "other-" + w.epoch
	}
	return &centrifuge.StreamPosition{Offset: uint64(s.Off), Epoch: ep}, &protocol.StreamPosition{Offset: uint64(s.Off), Epoch: ep}
}

// exec runs one request to completion on the calling goroutine.
func (w *sfWorker) exec(r sfReq, role, proto string, wait time.Duration) (out sfOut) {
	defer func() {
		if p := recover(); p != nil {
			out.failed = fmt.Sprintf("panic: %v", p)
		}
	}()
	sp, psp := w.since(r.Since)
	switch r.Origin {
	case "node":
		opts := []centrifuge.HistoryOption{centrifuge.WithHistoryFilter(centrifuge.HistoryFilter{Limit: r.Limit, Since: sp, Reverse: r.Reverse})}
		if r.TTL != 0 {
			opts = append(opts, centrifuge.WithHistoryMetaTTL(time.Duration(r.TTL)*time.Second))
		}
		res, err := w.env.Node.History(w.ch, opts...)
		out.Code = errCode(err)
		if err == nil {
			for _, p := range res.Publications {
				out.Pubs = append(out.Pubs, pubRec{p.Offset, string(p.Data)})
			}
			out.Offset, out.Epoch = res.Offset, res.Epoch
		}
	case "client":
		conn := w.conns[role+"/"+proto]
		id := conn.NextID()
		conn.Do(&protocol.Command{Id: id, History: &protocol.HistoryRequest{Channel: w.ch, Limit: int32(r.Limit), Since: psp, Reverse: r.Reverse}})
		rep := conn.WaitReply(id, wait)
		switch {
		case rep == nil:
			out.failed = "history command got no reply"
		case rep.Error != nil:
			out.Code = int(rep.Error.Code)
		case rep.History != nil:
			for _, p := range rep.History.Publications {
				out.Pubs = append(out.Pubs, pubRec{p.Offset, string(p.Data)})
			}
			out.Offset, out.Epoch = rep.History.Offset, rep.History.Epoch
		default:
			out.failed = "history command answered with " + cl.Describe(rep)
		}
	case "recover", "top":
		// a subscriber of its own connection: recovering from the position (recoverHistory) or positioned only (streamTop)
		conn, err := w.env.NewConn("u", protoOf(proto))
		if err != nil {
			out.failed = "NewConn: " + err.Error()
			return
		}
		defer func() { conn.Client.Disconnect(); conn.Cancel() }()
		if conn.Connect() == nil {
			out.failed = "subscriber connect failed"
			return
		}
		id := conn.NextID()
		req := &protocol.SubscribeRequest{Channel: w.ch}
		if r.Origin == "recover" {
			req.Recover, req.Offset, req.Epoch = true, psp.Offset, psp.Epoch
		}
		conn.Do(&protocol.Command{Id: id, Subscribe: req})
		rep := conn.WaitReply(id, wait)
		switch {
		case rep == nil:
			out.failed = "subscribe command got no reply"
		case rep.Error != nil:
			out.Code = int(rep.Error.Code)
		case rep.Subscribe != nil:
			for _, p := range rep.Subscribe.Publications {
				out.Pubs = append(out.Pubs, pubRec{p.Offset, string(p.Data)})
			}
			out.Offset, out.Epoch = rep.Subscribe.Offset, rep.Subscribe.Epoch
			out.Note = fmt.Sprintf("recovered=%v", rep.Subscribe.Recovered)
		default:
			out.failed = "subscribe command answered with " + cl.Describe(rep)
		}
	default:
		out.failed = "unknown origin " + r.Origin
	}
	return out
}

// alone: the request executed with nothing else in flight on the worker's channel (cached: the stream is static).
func (w *sfWorker) alone(r sfReq, proto string) sfOut {
	k := proto + vh.J(r)
	if o, ok := w.solo[k]; ok {
		return o
	}
	w.cur.Store(nil)
	o := w.exec(r, "b", proto, gateWait)
	if o.failed == "" {
		w.solo[k] = o
	}
	return o
}

func sfEffLimit(r sfReq, max int) int {
	if r.Origin == "client" {
		return refLimit(r.Limit, max)
	}
	return r.Limit
}

func sfOpts(r sfReq, max int) string {
	dir, since := "fwd", "nosince"
	if r.Reverse {
		dir = "rev"
	}
	if r.Since.Has {
		since = fmt.Sprintf("since%d", r.Since.Off)
	}
	s := fmt.Sprintf("%s(limit%d", r.Origin, r.Limit)
	if e := sfEffLimit(r, max); e != r.Limit {
		s += fmt.Sprintf("->%d", e)
	}
	return fmt.Sprintf("%s,%s,%s,ttl%d)", s, dir, since, r.TTL)
}

// sfDiff names the options in which the two effective requests differ (the class of a wrongly shared flight).
func sfDiff(a, b sfReq, max int) string {
	var d []string
	if la, lb := sfEffLimit(a, max), sfEffLimit(b, max); la != lb {
		d = append(d, fmt.Sprintf("limit(%d|%d)", la, lb))
	}
	if a.Reverse != b.Reverse {
		d = append(d, "reverse")
	}
	if a.Since != b.Since {
		d = append(d, "since")
	}
	if a.TTL != b.TTL {
		d = append(d, "meta_ttl")
	}
	return strings.Join(d, "+")
}

// pair executes one row. trouble != "" asks for a re-execution.
func (w *sfWorker) pair(idx int, row sfRow, proto string, grace time.Duration, res *vh.Result) (trouble string) {
	replay := map[string]any{"row": row, "proto": proto, "channel": w.ch, "schedule": "A=" + sfOpts(row.A, row.Max) + " parked at Broker.History(" + row.BStart + "); B=" + sfOpts(row.B, row.Max) + " issued; A released"}
	wantB := w.alone(row.B, proto)
	if wantB.failed != "" {
		return "reference run of B: " + wantB.failed
	}
	var wantA sfOut
	if row.A.Origin == "client" || row.A.Origin == "node" {
		wantA = w.alone(row.A, proto)
		if wantA.failed != "" {
			return "reference run of A: " + wantA.failed
		}
	}
	p := &sfPair{gate: cl.NewGate()}
	switch row.BStart {
	case "flight":
		p.park = "before"
	case "post":
		p.park = "after"
	}
	w.cur.Store(p)
	defer w.cur.Store(nil)
	var gotA, gotB sfOut
	doneA, doneB := make(chan struct{}), make(chan struct{})
	go func() {
		defer close(doneA)
		gotA = w.exec(row.A, "a", proto, gateHold+gateWait)
	}()
	release := func() { p.gate.Release() }
	if p.park != "" {
		if !p.gate.WaitArrived(gateWait) {
			release()
			<-doneA
			return "A did not reach Broker.History (" + p.park + ")"
		}
	} else {
		select {
		case <-doneA:
		case <-time.After(gateWait):
			return "A did not return"
		}
	}
	go func() {
		defer close(doneB)
		p.bGo.Store(cl.GoID())
		p.bEnter.Store(time.Now().UnixNano())
		gotB = w.exec(row.B, "b", proto, gateHold+gateWait)
	}()
	// B either reads for itself (its goroutine shows up in Broker.History), returns, or sits in the single-flight group
	for deadline := time.Now().Add(gateWait); time.Now().Before(deadline); time.Sleep(100 * time.Microsecond) {
		stop := false
		select {
		case <-doneB:
			stop = true
		default:
		}
		if stop || p.bCalls.Load() > 0 {
			break
		}
		if t := p.bEnter.Load(); t != 0 && time.Since(time.Unix(0, t)) > grace {
			break
		}
	}
	release()
	for _, d := range []chan struct{}{doneA, doneB} {
		select {
		case <-d:
		case <-time.After(gateWait):
			return "a reader did not return after the release"
		}
	}
	if p.timeout.Load() {
		return "the parked reader ran into the safety timeout"
	}
	if gotA.failed != "" {
		return "A: " + gotA.failed
	}
	if gotB.failed != "" {
		return "B: " + gotB.failed
	}
	// (a reverse read since offset 0 is refused by Node.history before the broker is asked: no call either way)
	refusedB := row.B.Reverse && row.B.Since.Has && row.B.Since.Off == 0
	merged := p.bCalls.Load() == 0 && p.park != "" && !(refusedB && gotB.Code == 107)
	replay["merged"] = merged
	replay["reply_a"], replay["reply_b"], replay["b_alone"] = gotA, gotB, wantB
	diff := sfDiff(row.A, row.B, row.Max)
	if row.Merged && !merged && p.park != "" {
		// the model merges equal requests; B arriving late (after the grace) reads for itself: place it again
		return "B was expected to join A's flight and read for itself"
	}
	class := row.A.Origin + "|" + row.B.Origin
	if !gotB.same(wantB) {
		what := fmt.Sprintf("reply %s differs from the same request executed alone %s", vh.J(gotB), vh.J(wantB))
		if row.B.Origin == "client" && row.Max > 0 && len(gotB.Pubs) > row.Max {
			what = fmt.Sprintf("history reply carries %d publications, HistoryMaxPublicationLimit is %d; ", len(gotB.Pubs), row.Max) + what
		}
		sig := "singleflight:reply-differs-from-sequential:" + diff + ":" + class
		if merged {
			sig = "singleflight:merged-different-options:" + diff + ":" + class
			what = "B was answered from A's Broker.History call (no read of its own): " + what
		}
		res.Violate("C43", sig, fmt.Sprintf("%s (%s, %s)", what, replay["schedule"], proto), replay)
		res.Done(1, 0)
		return ""
	}
	if (row.A.Origin == "client" || row.A.Origin == "node") && !gotA.same(wantA) {
		res.Violate("C43", "singleflight:leader-reply-differs:"+diff+":"+class,
			fmt.Sprintf("A's reply %s differs from the same request executed alone %s (%s, %s)", vh.J(gotA), vh.J(wantA), replay["schedule"], proto), replay)
		res.Done(1, 0)
		return ""
	}
	// ---- the row (model agreement)
	drift := func(what string) {
		res.Drift("C43", fmt.Sprintf("%s (%s, %s)", what, replay["schedule"], proto), replay)
		res.Done(1, 0)
	}
	if merged && !row.Merged {
		drift("B was merged into A's flight although the options differ in " + diff + " (the replies happen to be equal)")
		return ""
	}
	if gotB.Code != row.ReplyB.Code || fmt.Sprint(gotB.offs()) != fmt.Sprint(append([]int{}, row.ReplyB.Pubs...)) {
		drift(fmt.Sprintf("B received code %d offsets %v, the table says %d %v", gotB.Code, gotB.offs(), row.ReplyB.Code, row.ReplyB.Pubs))
		return ""
	}
	if gotA.Code != row.ReplyA.Code || fmt.Sprint(gotA.offs()) != fmt.Sprint(append([]int{}, row.ReplyA.Pubs...)) {
		drift(fmt.Sprintf("A (%s) received code %d offsets %v %s, the table says %d %v", row.A.Origin, gotA.Code, gotA.offs(), gotA.Note, row.ReplyA.Code, row.ReplyA.Pubs))
		return ""
	}
	if row.A.Origin == "recover" && gotA.Note != "recovered=true" {
		drift("the recovering subscriber was not recovered")
		return ""
	}
	if p.park != "" {
		res.Distinct(proto + row.BStart + vh.J(row.A) + vh.J(row.B) + fmt.Sprint(row.Max))
	}
	if merged {
		res.Count("merged", 1)
	}
	if idx < 2 {
		res.Sample(replay)
	}
	res.Done(1, 1)
	return ""
}

func c43sf(in json.RawMessage, res *vh.Result) error {
	var ri inSF
	if err := json.Unmarshal(in, &ri); err != nil {
		return err
	}
	if len(ri.Protos) == 0 {
		ri.Protos = []string{"json"}
	}
	byMax := map[int][]int{}
	for i, r := range ri.Rows {
		byMax[r.Max] = append(byMax[r.Max], i)
	}
	var ms []int
	for m := range byMax {
		ms = append(ms, m)
	}
	sort.Ints(ms)
	const nworkers = 8
	for _, m := range ms {
		se, err := newSFEnv(m)
		if err != nil {
			return err
		}
		type job struct {
			idx   int
			tries int
		}
		idxs := byMax[m]
		jobs := make(chan job, len(idxs)*3)
		var pending sync.WaitGroup
		for _, i := range idxs {
			pending.Add(1)
			jobs <- job{i, 0}
		}
		var wg sync.WaitGroup
		for n := 0; n < nworkers; n++ {
			w, err := se.newWorker(n, ri.Top, m, ri.Protos)
			if err != nil {
				se.env.Close()
				return err
			}
			wg.Add(1)
			go func(w *sfWorker) {
				defer wg.Done()
				defer w.close()
				for j := range jobs {
					row := ri.Rows[j.idx]
					proto := ri.Protos[j.idx%len(ri.Protos)]
					grace := 15 * time.Millisecond
					if j.tries > 0 {
						grace = time.Duration(150*j.tries) * time.Millisecond
					}
					trouble := w.pair(j.idx, row, proto, grace, res)
					switch {
					case trouble == "":
					case j.tries < 2:
						res.Count("re-executed", 1)
						pending.Add(1)
						jobs <- job{j.idx, j.tries + 1}
					default:
						res.Drift("C43", fmt.Sprintf("%s, 3 attempts (A=%s, B=%s, B arrives at %q, %s)", trouble, sfOpts(row.A, row.Max), sfOpts(row.B, row.Max), row.BStart, proto), map[string]any{"row": row})
						res.Done(1, 0)
					}
					pending.Done()
				}
			}(w)
		}
		pending.Wait()
		close(jobs)
		wg.Wait()
		se.env.Close()
	}
	return nil
}
