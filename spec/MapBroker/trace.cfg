SPECIFICATION TraceSpec
CONSTANTS
  KeySeq <- KeySeq3
  Configs <- ConfigsSim
  KeyModes = {"", "if_new", "if_new_refresh", "if_exists"}
  CasOffs = {0, 1, 2, 3, 4}
  CasEps = {0, 1, 2}
  Versions = {0, 1, 2, 3}
  VerEpochs = {"", "va", "vb"}
  IdemKeys = {"", "k1", "k2"}
  IdemTTLs = {1, 2, 3}
  Scores <- ScoresSim
  Limits <- LimitsBig
  PageSizes = {1, 2}
  MaxNow = 1000
  MaxPubs = 1000
  MaxOps = 100000
  Deterministic = FALSE
  Manual = FALSE
  SweepSlack <- SlackOne
VIEW TraceView
CONSTRAINT HighWater
INVARIANTS TypeOK SweeperArmed SubscriberConverges ReadStreamIsRetainedSuffix ReadStateIsRefPage PageAfterCursor OrderedFlagFollowsOptions
PROPERTIES T_CheckOrder T_SuppressedChangesNothing T_AppliedAppendsAndBroadcastsOnce T_NeverLostNeverTwice T_IdemExact T_EpochStable
POSTCONDITION TraceAccepted
CHECK_DEADLOCK FALSE
