"""C01, C02, C10, C16 (stream paths) -- spec/SubStream: client-side subscribe racing with publications and PUB/SUB
faults, checked exhaustively by TLC and replayed step by step (natural gates) on real clients."""
from lib import vf

HIST = {'quick_cache.cfg': 2, 'thorough_cache.cfg': 2, 'quick_rec.cfg': 1, 'quick_pos.cfg': 2, 'quick_np.cfg': 2, 'thorough_rec.cfg': 2, 'thorough_reclim.cfg': 3,
        'thorough_pos.cfg': 2, 'thorough_np.cfg': 2, 'sim.cfg': 2, 'sim_lim.cfg': 3, 'sim_async.cfg': 2}


def _run(c, cfgs_quick, cfgs_thorough, kinds):
    quick = c.tier == 'quick'
    for cfg in (cfgs_quick if quick else cfgs_thorough):
        r = c.tlc_exhaustive('SubStream', 'SubStream', cfg, workers=8, timeout=3000)
        c.log('TLC exhaustive %s: %d distinct / %d generated, depth %d' % (cfg, r['distinct'], r['states'], r['depth']))
    binp = c.go_build('substream', overlays=['medium'])     # overlay/medium: node clock setter for the position check
    total = {'executed': 0, 'completed': 0}
    # sim_async.cfg: the insufficient-state goroutine may be delayed arbitrarily (parked at the insufficient:enter hook)
    for cfg, rec_limit, n in (('sim.cfg', 0, 1500 if quick else 12000), ('sim_lim.cfg', 2, 300 if quick else 3000),
                              ('sim_async.cfg', 0, 600 if quick else 6000)):
        if cfg == 'sim_lim.cfg' and not ({'rec', 'cache'} & kinds):
            continue
        if cfg == 'sim_async.cfg' and c.prop not in ('C01', 'C10'):
            continue
        s = c.tlc('SubStream', 'SubStream', cfg, simulate=n, depth=22, timeout=900)
        if not s['ok']:
            raise vf.Inconclusive('simulation found a model-level counterexample or failed: %s\n%s' % (s['error'], s['out'][-3000:]))
        behs = [b for b in c.behaviours(s) if b[0]['cfg']['kind'] in kinds]
        c.log('TLC simulate %s: %d behaviours of kinds %s' % (cfg, len(behs), sorted(kinds)))
        if cfg == 'sim.cfg' and 'pos' in kinds:
            # witness: a delivery advances the position during a valid periodic position check and is delivered again after it
            wit = c.tlc_witness('SubStream', 'SubStream', 'wit_chk.cfg', 'W_RedeliveryAfterCheck', workers=1, timeout=600)
            if wit is None:
                c.cov['actions_never_taken'].append('witness:W_RedeliveryAfterCheck')
            else:
                # replayed on its own (three copies, nothing else running in the harness process), then once more in the bulk
                wres = c.replay_retry(binp, 'replay', [wit, wit, wit], wrap=lambda b, cfg=cfg: {'hist_size': HIST[cfg], 'rec_limit': 0, 'behaviours': b}, timeout=300)
                c.absorb(wres)
                total['executed'] += wres['executed']
                total['completed'] += wres['completed']
                behs = [wit] + behs
                c.cov['witness_behaviours'] = c.cov.get('witness_behaviours', 0) + 1
        if cfg == 'sim.cfg' and 'cache' in kinds:
            # witness: the cache-empty handler populates the channel with a publication the subscription's filter excludes
            wit = c.tlc_witness('SubStream', 'SubStream', 'wit_pop.cfg', 'W_PopulatedFiltered', workers=1, timeout=600)
            if wit is None:
                c.cov['actions_never_taken'].append('witness:W_PopulatedFiltered')
            else:
                wres = c.replay_retry(binp, 'replay', [wit, wit], wrap=lambda b, cfg=cfg: {'hist_size': HIST[cfg], 'rec_limit': 0, 'behaviours': b}, timeout=300)
                c.absorb(wres)
                total['executed'] += wres['executed']
                total['completed'] += wres['completed']
                c.cov['witness_behaviours'] = c.cov.get('witness_behaviours', 0) + 1
        res = c.replay_retry(binp, 'replay', behs, wrap=lambda b, cfg=cfg, rec_limit=rec_limit: {'hist_size': HIST[cfg], 'rec_limit': rec_limit, 'behaviours': b}, timeout=900)
        c.absorb(res)
        total['executed'] += res['executed']
        total['completed'] += res['completed']
        c.cov['distinct_nontrivial'] += res['nontrivial']
        c.cov['samples'] += res['samples'][:1]
        for k, v in (res.get('counters') or {}).items():
            c.cov[k] = c.cov.get(k, 0) + v
    if c.prop in ('C02', 'C03'):
        pr = c.harness(binp, 'sfprobes', {'n': 2 if quick else 8}, timeout=300)
        c.absorb(pr)
        total['executed'] += pr['executed']
        total['completed'] += pr['completed']
        c.cov['single_flight_probes'] = pr['completed']
    if c.prop == 'C01':
        pr = c.harness(binp, 'ssrecover', {}, timeout=120)
        c.absorb(pr)
        total['executed'] += pr['executed']
        total['completed'] += pr['completed']
        c.cov['server_side_recover_probes'] = pr['completed']
    if c.prop == 'C10':
        pr = c.harness(binp, 'probes', {'n': 3 if quick else 12}, timeout=300)
        c.absorb(pr)
        total['executed'] += pr['executed']
        total['completed'] += pr['completed']
        c.cov['blocking_assumption_probes'] = pr['completed']
        c.cov['probe_counters'] = pr['counters']
        c.cov['samples'] += pr['samples'][:1]
    c.cov['traces_validated_against_impl'] = total['completed']
    c.cov['evaluations'] = total['executed']
    c.cov['rule'] = ('behaviours of SubStream.tla generated by TLC -simulate (subscription kind/filter/recovery position chosen in Init), each replayed on a real '
                     'node+client with the subscriber parked at Broker.Subscribe / before / after Broker.History and deliveries injected at Node.HandlePublication; '
                     'non-trivial = completed behaviour containing a finished subscribe or a faulty delivery, distinct by (cfg, step list)')
    c.assumptions += ['JSON protocol, one subscriber connection, one channel per behaviour',
                      'the window between LockBufferAndReadBuffered and StopBuffering is atomic (a delivery there blocks on pubBufferMu)',
                      'server-side subscriptions and channel medium are covered by other specs']


def c01(c):
    _run(c, ['quick_pos.cfg', 'quick_rec.cfg'], ['thorough_pos.cfg', 'thorough_rec.cfg', 'thorough_reclim.cfg'], {'pos', 'rec'})


def c02(c):
    _run(c, ['quick_rec.cfg'], ['thorough_rec.cfg', 'thorough_reclim.cfg'], {'rec'})


def c03(c):
    _run(c, ['quick_cache.cfg'], ['thorough_cache.cfg'], {'cache'})


def c10(c):
    _run(c, ['quick_np.cfg', 'quick_pos.cfg'], ['thorough_np.cfg', 'thorough_pos.cfg', 'thorough_rec.cfg'], {'plain', 'nohist', 'pos', 'rec', 'cache'})


def _refresh(c):
    """C16 on the sub-refresh path: SubRefresh.tla (asynchronous refresh answer vs unsubscribe/resubscribe with another
    server tags filter); TLC exhaustive on the as-coded (generation-matched) model, the counterexample of the unmatched
    variant as a witness, simulated behaviours; all replayed on a real client with the SubRefreshHandler answer parked."""
    quick = c.tier == 'quick'
    r = c.tlc_exhaustive('SubRefresh', 'SubRefresh', 'quick.cfg' if quick else 'thorough.cfg', workers=4, timeout=1200)
    c.log('TLC exhaustive SubRefresh: %d distinct / %d generated' % (r['distinct'], r['states']))
    wit = c.tlc_witness('SubRefresh', 'SubRefresh', 'ascoded_nomatch.cfg', 'W_StaleRefreshApplied')
    if wit is None:
        raise vf.Inconclusive('SubRefresh: the unmatched variant has no counterexample (the model lost its sensitivity)')
    # continue the witness with one publication per filter so that the wrong filter becomes observable
    last = wit[-1]
    n = last['npub']
    tail = []
    for i, t in enumerate(('a', 'b')):
        s = dict(last)
        s['step'] = {'act': 'Publish', 'tag': t, 'id': n + i + 1}
        s['out'] = None
        tail.append(s)
    s = c.tlc('SubRefresh', 'SubRefresh', 'sim.cfg', simulate=150 if quick else 1500, depth=14, timeout=600)
    if not s['ok']:
        raise vf.Inconclusive('SubRefresh simulation: %s' % s['out'][-2000:])
    behs = [wit + tail] + c.behaviours(s)
    res = c.harness(c.go_build('substream', overlays=['medium']), 'refresh', behs, timeout=600)
    c.absorb(res)
    c.cov['traces_validated_against_impl'] += res['completed']
    c.cov['evaluations'] += res['executed']
    c.cov['distinct_nontrivial'] += res['nontrivial']
    c.cov['sub_refresh_behaviours'] = res['completed']
    # independence of a subscription from the other subscribers of its channel (shared prepared payloads / filter markers)
    pr = c.harness(c.go_build('substream', overlays=['medium']), 'peersprobe', {'n': 3 if quick else 12}, timeout=300)
    c.absorb(pr)
    c.cov['peers_independence_probes'] = pr['completed']
    c.cov['traces_validated_against_impl'] += pr['completed']
    c.cov['evaluations'] += pr['executed']


def c16(c):
    """C16 = stream paths (this family) + sub-refresh path (SubRefresh.tla) + map paths (fam/mapsub.py c16_map); evidence counters are summed."""
    _run(c, ['quick_np.cfg', 'quick_rec.cfg', 'quick_cache.cfg'], ['thorough_np.cfg', 'thorough_pos.cfg', 'thorough_rec.cfg', 'thorough_cache.cfg'], {'plain', 'nohist', 'pos', 'rec', 'cache'})
    _refresh(c)
    keep = {k: c.cov[k] for k in ('traces_validated_against_impl', 'evaluations', 'distinct_nontrivial')}
    samples, rule = list(c.cov['samples']), c.cov['rule']
    from fam import mapsub
    mapsub.c16_map(c)
    for k, v in keep.items():
        c.cov[k] = (c.cov.get(k) or 0) + v
    c.cov['samples'] = samples[:2] + [x for x in c.cov['samples'] if x not in samples][:2]
    c.cov['rule'] = 'stream paths: ' + rule + ' || map paths: ' + str(c.cov.get('rule'))


CHECKS = {'C01': c01, 'C02': c02, 'C03': c03, 'C10': c10}
# C16 is registered by fam/mapsub.py once the map paths exist; until then the stream paths are checked here
CHECKS['C16'] = c16

_note = ('Bounds: exhaustive <=3 publications (2 for recovery in quick), history size 1-3, <=1-2 wire faults (drop, duplicate, reorder, foreign epoch, lag), '
         'all recovery positions x 3 epochs x filter on/off; replay: 1500+ simulated behaviours with <=4 publications, <=2 faults. Trusted: TLC, lib/tlaparse.py, harness projection/monitor code.')
META = {
    'C01': dict(level='model_checking', text='SubStream.tla models the subscribe window (buffering, history read, merge, reply, commit), the live delivery decision and the wire with faults; TLC checks the gap-free/ordered/duplicate-free monitor exhaustively; every simulated behaviour is replayed on a real client with the subscriber goroutine parked exactly where the model says and deliveries injected where PUB/SUB messages enter the node; the monitor is evaluated on the real frames.', note=_note,
                technique='TLA+ spec + TLC exhaustive; gate replay of TLC behaviours on real clients; observable-only monitor'),
    'C02': dict(level='model_checking', text='Same specification, recovery kinds: recovered=true must deliver exactly the publications after the requested offset up to the top read (minus filtered), recovered=false delivers nothing, wrong epoch / trimmed history / limit truncation never report recovered; decided on the real subscribe reply for all recovery positions and epochs under concurrent publications.', note=_note,
                technique='TLA+ spec + TLC exhaustive; gate replay; observable-only monitor on subscribe replies'),
    'C03': dict(level='model_checking', text='Same specification, cache recovery kind (client-requested and server-forced AutoCacheRecover, client or server tags filter, recovery limit): the reply carries at most the newest visible publication, never an older one, and recovered is true exactly when the newest publication is present in history or the client holds the current position; decided on real subscribe replies with publications delivered inside the subscribe window.', note=_note + ' OnCacheEmpty repopulation is not modelled.',
                technique='TLA+ spec + TLC exhaustive; gate replay; observable-only monitor on subscribe replies'),
    'C10': dict(level='model_checking', text='Same specification, all subscription kinds including publications without history (offset 0): no publication push before the subscribe reply or after the insufficient-state end; replayed with deliveries placed in the window between the routing entry and the reply.', note=_note + ' Server-side subscribe push and join/leave bracketing are checked by the SubLifecycle spec.',
                technique='TLA+ spec + TLC exhaustive; gate replay; observable-only monitor'),
    'C16': dict(level='model_checking', text='Same specification with the client tags filter: no filtered publication is delivered live or in recovered publications, while offsets of filtered publications still count for continuity.', note=_note + ' Map paths (state pages, stream pages, live transition, streamless buffered, server filter change invalidates): spec/MapSub via fam/mapsub.py c16_map.',
                technique='TLA+ spec + TLC exhaustive; gate replay; observable-only monitor'),
}
