SPECIFICATION Spec
CONSTANTS
  Tier = "quick"
INVARIANTS RemoteIsLocalMinusLost AgreeUnlessLost CulpritsAreLost
CHECK_DEADLOCK FALSE
