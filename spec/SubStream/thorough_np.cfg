SPECIFICATION Spec
CONSTANTS
  MaxPub = 4
  HistSize = 2
  MaxFaults = 2
  Kinds = {"plain", "nohist"}
  UrgentAsync = FALSE
  RecLimit = 0
  MaxChecks = 0
  Servers = {FALSE, TRUE}
VIEW View
INVARIANTS TypeOK C01 C02 C03 C10 C16 PosConsistent
CHECK_DEADLOCK FALSE
