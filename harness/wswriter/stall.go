package main

// mode stall (C30): the blocking assumption of the write path.  A net.Conn may take arbitrarily long inside Write
// and may look at its argument at any moment until it returns (a full socket buffer, a TLS record layer, an
// HTTP/2 stream); likewise a frame may wait for the connection's write mutex behind a control frame.  During
// that time the frame handed to the network must stay THIS connection's frame -- also when the write buffer comes
// from a WriteBufferPool shared with other connections (Upgrader.WriteBufferPool, centrifuge UseWriteBufferPool).
//
// Probe: two real Conns A and B share one BufferPool implemented here (a LIFO stack, so reuse is deterministic).
//   netwrite: A's net.Conn parks on entry of the Write that carries A's FINAL frame, before looking at its argument;
//             B writes a different message of the same length through the same pool; A is released.
//   mutex:    A's net.Conn parks inside a WriteControl(ping) (which holds the connection write mutex), a second
//             goroutine writes A's message (its final frame queues behind the mutex); as soon as the pool sees a Put
//             (or after a grace period: nothing was released early) B writes its message; the ping is released.
// Both wires are decoded by the harness's parser/validator and by a real Conn of the opposite role: each peer must
// read exactly its own connection's message.  Setup trouble (a park that never happens, a writer that never
// returns) is drift, never a violation.

import (
	"bytes"
	"encoding/json"
	"fmt"
	"math/rand"
	"sync"
	"time"

	"github.com/centrifugal/centrifuge"

	"verifharness/vh"
)

// lifoPool: a BufferPool whose Get returns the most recently Put value (nil when empty)
type lifoPool struct {
	mu    sync.Mutex
	stack []interface{}
	gets  int
	hits  int
	puts  int
	putCh chan struct{}
}

func newLifoPool() *lifoPool { return &lifoPool{putCh: make(chan struct{}, 64)} }

func (p *lifoPool) Get() interface{} {
	p.mu.Lock()
	defer p.mu.Unlock()
	p.gets++
	if len(p.stack) == 0 {
		return nil
	}
	v := p.stack[len(p.stack)-1]
	p.stack = p.stack[:len(p.stack)-1]
	p.hits++
	return v
}

func (p *lifoPool) Put(v interface{}) {
	p.mu.Lock()
	p.stack = append(p.stack, v)
	p.puts++
	p.mu.Unlock()
	select {
	case p.putCh <- struct{}{}:
	default:
	}
}

// parkConn: capConn whose next Write (when armed) parks on entry, before it looks at its argument
type parkConn struct {
	capConn
	mu      sync.Mutex
	armed   bool
	entered chan struct{}
	release chan struct{}
}

func newParkConn() *parkConn {
	return &parkConn{entered: make(chan struct{}, 1), release: make(chan struct{})}
}

func (c *parkConn) arm() { c.mu.Lock(); c.armed = true; c.mu.Unlock() }

func (c *parkConn) Write(p []byte) (int, error) {
	c.mu.Lock()
	park := c.armed
	c.armed = false
	c.mu.Unlock()
	if park {
		c.entered <- struct{}{}
		<-c.release
	}
	c.mu.Lock()
	defer c.mu.Unlock()
	return c.capConn.Write(p) // only now are the bytes of p consumed
}

func (c *parkConn) wire() []byte {
	c.mu.Lock()
	defer c.mu.Unlock()
	return append([]byte(nil), c.w.Bytes()...)
}

type stallCase struct {
	Scenario string `json:"scenario"`
	Side     string `json:"side"`
	API      string `json:"api"`
	B        int    `json:"B"`
	N        int    `json:"n"`
}

// writeWhole writes msg as one message of type t through api; beforeFinal is called right before the call that
// emits the final frame (Close / WriteMessage)
func writeWhole(conn *centrifuge.VerifWsConn, api string, t int, msg []byte, beforeFinal func()) error {
	if api == "WriteMessage" {
		beforeFinal()
		return conn.WriteMessage(t, msg)
	}
	w, err := conn.NextWriter(t)
	if err != nil {
		return err
	}
	if _, err := w.Write(msg); err != nil {
		return err
	}
	beforeFinal()
	return w.Close()
}

func checkPeer(name string, wire []byte, writerIsServer bool, want []delivery) string {
	fr, rest, perr := parseFrames(wire)
	if perr != nil || len(rest) > 0 {
		return fmt.Sprintf("%s's wire is not a sequence of whole frames (%v, %d bytes left over)", name, perr, len(rest))
	}
	val := &streamValidator{fromClient: !writerIsServer}
	for _, f := range fr {
		if rule := val.feed(f); rule != "" {
			return fmt.Sprintf("%s's wire breaks RFC 6455 (%s) at frame %s", name, rule, f)
		}
	}
	if sig, what := compareDeliveries(want, val.out, false); sig != "" {
		return fmt.Sprintf("%s's peer (independent decoder): %s", name, what)
	}
	got, rerr := readAll(wire, !writerIsServer, false)
	if sig, what := compareDeliveries(want, got, true); sig != "" {
		return fmt.Sprintf("%s's peer (real Conn reader): %s (final read error %v)", name, what, rerr)
	}
	return ""
}

func runStall(sc stallCase, rng *rand.Rand, res *vh.Result) {
	replay := map[string]any{"mode": "stall", "case": sc, "seed": vh.Seed()}
	desc := fmt.Sprintf("%s %s %s B=%d n=%d", sc.Scenario, sc.Side, sc.API, sc.B, sc.N)
	drift := func(what string) { res.Drift("C30", "stall probe "+desc+": "+what, replay) }
	isServer := sc.Side == "server"
	pool := newLifoPool()
	a, b := newParkConn(), newParkConn()
	connA := centrifuge.VerifWsNewConn(a, isServer, 0, sc.B, pool, false)
	connB := centrifuge.VerifWsNewConn(b, isServer, 0, sc.B, pool, false)
	msgA, msgB := make([]byte, sc.N), make([]byte, sc.N)
	rng.Read(msgA)
	rng.Read(msgB)
	for i := range msgB { // different in every byte
		if msgB[i] == msgA[i] {
			msgB[i] ^= 0x5a
		}
	}
	wantA := []delivery{{Type: 1, Data: msgA}}
	wantB := []delivery{{Type: 2, Data: msgB}}
	var errA, errB, errPing error
	doneA := make(chan struct{})
	wait := func(ch <-chan struct{}, what string) bool {
		select {
		case <-ch:
			return true
		case <-time.After(10 * time.Second):
			drift("timeout waiting for " + what)
			return false
		}
	}
	released := false
	releaseA := func() {
		if !released {
			released = true
			close(a.release)
		}
	}
	defer releaseA()
	var panicked any
	guard := func(f func()) {
		defer func() {
			if p := recover(); p != nil {
				panicked = p
			}
		}()
		f()
	}
	earlyPut := false
	switch sc.Scenario {
	case "netwrite":
		go func() {
			defer close(doneA)
			guard(func() { errA = writeWhole(connA, sc.API, 1, msgA, a.arm) })
		}()
		if !wait(a.entered, "A's final-frame Write to be entered") {
			return
		}
	case "mutex":
		donePing := make(chan struct{})
		a.arm()
		go func() {
			defer close(donePing)
			guard(func() { errPing = connA.WriteControl(9, []byte("p"), time.Now().Add(time.Hour)) })
		}()
		if !wait(a.entered, "the ping's Write to be entered") {
			return
		}
		for len(pool.putCh) > 0 {
			<-pool.putCh
		}
		go func() {
			defer close(doneA)
			guard(func() { errA = writeWhole(connA, sc.API, 1, msgA, func() {}) })
			<-donePing
		}()
		// A's final frame now queues behind the write mutex held by the parked ping.  Either the pool sees A's
		// buffer come back while that write is still pending, or nothing happens (grace period).
		select {
		case <-pool.putCh:
			earlyPut = true
		case <-time.After(120 * time.Millisecond):
		}
		wantA = []delivery{{Type: 9, Data: []byte("p")}, {Type: 1, Data: msgA}}
	default:
		drift("unknown scenario")
		return
	}
	guard(func() { errB = writeWhole(connB, sc.API, 2, msgB, func() {}) })
	releaseA()
	if !wait(doneA, "A's writer to return") {
		return
	}
	if panicked != nil {
		drift(fmt.Sprintf("panic: %v", panicked))
		return
	}
	if errA != nil || errB != nil || errPing != nil {
		drift(fmt.Sprintf("write errors A=%v B=%v ping=%v", errA, errB, errPing))
		return
	}
	sig := "pool:stalled-write-mixed"
	how := "A's net.Conn Write of the final frame was parked before consuming its argument"
	if sc.Scenario == "mutex" {
		sig = "pool:queued-write-mixed"
		how = fmt.Sprintf("A's final frame was queued behind the connection write mutex held by a stalled ping (buffer returned to the pool before the write: %v)", earlyPut)
	}
	for _, p := range []string{checkPeer("A", a.wire(), isServer, wantA), checkPeer("B", b.wire(), isServer, wantB)} {
		if p != "" {
			res.Violate("C30", sig, fmt.Sprintf("two connections sharing one WriteBufferPool, %s while B wrote a %d byte message through the same pool (pool: %d gets, %d reused buffers): %s [%s]", how, sc.N, pool.gets, pool.hits, p, desc), replay)
			res.Done(1, 0)
			return
		}
	}
	if bytes.Equal(msgA, msgB) && sc.N > 0 {
		drift("identical payloads")
	}
	// the pool really is in use: the next message of either connection takes a buffer released above
	guard(func() { _ = connB.WriteMessage(2, msgB) })
	if pool.hits == 0 || pool.puts < 2 {
		drift(fmt.Sprintf("the shared pool was not used as expected (gets %d, reused %d, puts %d)", pool.gets, pool.hits, pool.puts))
		return
	}
	res.Distinct(desc)
	res.Count("pool_buffers_reused", pool.hits)
	res.Done(1, 1)
}

func modeStall(in json.RawMessage, res *vh.Result) error {
	var cfg struct {
		Rounds int `json:"rounds"`
	}
	if err := json.Unmarshal(in, &cfg); err != nil {
		return err
	}
	rng := rand.New(rand.NewSource(vh.Seed()*104729 + 17))
	for r := 0; r < cfg.Rounds; r++ {
		B := []int{64, 32, 200, 1024}[r%4]
		var cases []stallCase
		for _, side := range []string{"server", "client"} {
			for _, n := range []int{1, B / 2, B - 1, B} {
				cases = append(cases, stallCase{"netwrite", side, "WriteMessage", B, n})
			}
			// NextWriter ... Close: only the final frame is parked (earlier fragments went out unparked)
			for _, n := range []int{1, B, B + 7, 2*B + 3} {
				cases = append(cases, stallCase{"netwrite", side, "NextWriter", B, n})
			}
			cases = append(cases, stallCase{"mutex", side, "WriteMessage", B, 1 + rng.Intn(B)})
			cases = append(cases, stallCase{"mutex", side, "NextWriter", B, 1 + rng.Intn(B)})
		}
		// the server fast path hands the part of the message that does not fit as a second slice
		cases = append(cases, stallCase{"netwrite", "server", "WriteMessage", B, B + 1 + rng.Intn(B)})
		for _, sc := range cases {
			runStall(sc, rng, res)
		}
	}
	res.Sample(map[string]any{"rounds": cfg.Rounds, "pool": "LIFO stack shared by two Conns", "scenarios": []string{"netwrite", "mutex"}})
	return nil
}
