SPECIFICATION Spec
CONSTANTS
  Alphabet = {"_", "p", "d", "j", "l", "0", "1", "2", ":", "-", "x"}
  MaxAll = 3
  MaxTail = 4
  TailChars = {"0", "1", "2", ":", "-", "x", "_"}
  MaxPTail = 4
  MaxDTail = 4
  MaxD2Tail = 4
  MaxD3Tail = 4
  PayChars = {":", "_", "1", "x"}
  MaxPay = 2
  MaxDeltaPay = 2
  EpochChars = {"x", "2", "-"}
  MaxEpoch = 1
  Offs = {0, 1, 2, 10, 12}
  MaxBasePay = 1
  BaseOffs = {12}
  SubstChars = {"_", ":", "0", "2", "-", "x"}
INVARIANTS Total RoundTrip Canonical
CHECK_DEADLOCK FALSE
