----------------------------- MODULE UnsubScale -----------------------------
(* C28 (and the fan-out of the other node-level operations): the number of matching connections as a parameter.

   hub.connShard.unsubscribe / unsubscribeAcrossUsers (and subscribe / refresh / disconnect alike) walk the
   connections of the user - all of one user's connections live in ONE of the 64 connection shards
   (hub.connShards[index(userID)]) - or, with AllUsers, every connection of every shard, apply the narrowers and
   perform the per-connection operation once for EVERY connection that passes them (one goroutine per connection,
   wg.Wait).  Whatever the count n of matching connections, the set of connections worked on is all of them:

       Worked(n) = Matching(n)          for every n                     (EveryMatchingConnectionIsTouched)

   and for the unsubscribe with an empty channel each of them ends with no subscription and its per-channel
   effects (UnsubAll.tla / UnsubPhase.tla state those per connection).  The harness creates n connections of one
   user on node A, each subscribed to two channels, and issues the call per user and with AllUsers, on A and on
   B, for the named channel and for "".  Counts are chosen around the powers of two a batching fan-out would use. *)
EXTENDS Naturals, FiniteSets, TLC

CONSTANTS Counts      \* numbers of matching connections

Ops   == {"subscribe", "unsubscribe", "refresh", "disconnect"}
Paths == {"user", "allusers"}

Matching(n) == 1..n
\* the per-connection work of one call: connection i of the matching ones gets its own goroutine
Worked(n) == UNION {{i} : i \in 1..n}

Rows == {[op |-> o, path |-> p, emptych |-> e, n |-> n, touched |-> Worked(n)] :
           o \in Ops, p \in Paths, e \in BOOLEAN, n \in Counts}

VARIABLE row
Init == row \in {r \in Rows : r.emptych => r.op = "unsubscribe"}
Next == UNCHANGED row
Spec == Init /\ [][Next]_row

EveryMatchingConnectionIsTouched == row.touched = Matching(row.n)
=============================================================================
