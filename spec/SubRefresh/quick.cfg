SPECIFICATION Spec
CONSTANTS
  Filters = {"a", "b"}
  MaxGen = 3
  MaxRefresh = 2
  MaxPub = 2
  GenMatch = TRUE
VIEW View
INVARIANTS TypeOK FilterIsConfigured
PROPERTIES C16_Refresh
CHECK_DEADLOCK FALSE
