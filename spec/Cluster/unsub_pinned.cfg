SPECIFICATION Spec
CONSTANTS
  Chans = {"a", "b"}
  PresCh = {"a"}
  JLCh = {"a", "b"}
  Free <- FreeTiny
  EmptyMeans = "literal"
  ClientArgs = {"", "c1"}
  SessionArgs = {"", "s1"}
  LabelArgs = {"", "pro"}
  NamedArgs = {"a"}
  CustomArgs = {FALSE}
VIEW View
INVARIANTS TypeOK Consistent
PROPERTIES EmptyChannelUnsubscribesAll NamedChannelUnsubscribesOne
CHECK_DEADLOCK FALSE
