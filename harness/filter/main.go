// C15: replays the (tree, tags, expected) table enumerated by TLC from spec/Filter/Filter.tla into the real
// internal/filter Validate / Match / Hash (function-table replay, DESIGN 4.4). The spec is the reference
// definition of the filter language; every disagreement of the real functions is a violation.
package main

import (
	"encoding/json"
	"fmt"
	"sort"
	"strings"

	"github.com/centrifugal/centrifuge"
	"github.com/centrifugal/protocol"

	"verifharness/vh"
)

type node struct {
	Op    string   `json:"op"`
	Key   string   `json:"key"`
	Cmp   string   `json:"cmp"`
	Val   string   `json:"val"`
	Vals  []string `json:"vals"`
	Nodes []*node  `json:"nodes"`
}

type tag struct {
	K string `json:"k"`
	V string `json:"v"`
}

type expect struct {
	Valid bool   `json:"valid"`
	Match bool   `json:"match"`
	Cls   string `json:"cls"`
}

type row struct {
	Tree *node  `json:"tree"`
	Tags []tag  `json:"tags"`
	Res  expect `json:"res"`
}

// fresh returns a copy of s that does not share memory with s.
func fresh(s string) string { return string(append([]byte(nil), s...)) }

// build constructs the protocol tree. variant 0: the natural way (nil for empty lists, children first to last).
// variant 1: structurally equal, built differently: every string freshly allocated, empty lists as non-nil empty
// slices, children allocated last to first, slices with spare capacity.
func build(n *node, variant int) *protocol.FilterNode {
	if variant == 0 {
		f := &protocol.FilterNode{Op: n.Op, Key: n.Key, Cmp: n.Cmp, Val: n.Val}
		if len(n.Vals) > 0 {
			f.Vals = append([]string(nil), n.Vals...)
		}
		for _, c := range n.Nodes {
			f.Nodes = append(f.Nodes, build(c, variant))
		}
		return f
	}
	f := new(protocol.FilterNode)
	f.Nodes = make([]*protocol.FilterNode, len(n.Nodes), len(n.Nodes)+3)
	for i := len(n.Nodes) - 1; i >= 0; i-- {
		f.Nodes[i] = build(n.Nodes[i], variant)
	}
	f.Vals = make([]string, 0, len(n.Vals)+2)
	for _, v := range n.Vals {
		f.Vals = append(f.Vals, fresh(v))
	}
	f.Val, f.Cmp, f.Key, f.Op = fresh(n.Val), fresh(n.Cmp), fresh(n.Key), fresh(n.Op)
	return f
}

func tagMap(t []tag, variant int) map[string]string {
	if len(t) == 0 && variant == 0 {
		return nil
	}
	m := make(map[string]string, len(t))
	for _, kv := range t {
		m[fresh(kv.K)] = fresh(kv.V)
	}
	return m
}

// name of the node for signatures: the comparison of a leaf, the operator of a logical node
func name(n *node) string {
	if n.Op != "" {
		return n.Op
	}
	if n.Cmp == "" {
		return "nocmp"
	}
	return n.Cmp
}

func leaves(n *node, out *[]*node) {
	if n.Op == "" {
		*out = append(*out, n)
		return
	}
	for _, c := range n.Nodes {
		leaves(c, out)
	}
}

func safeValidate(f *protocol.FilterNode) (err error, pan any) {
	defer func() { pan = recover() }()
	return centrifuge.VerifFilterValidate(f), nil
}

func safeMatch(f *protocol.FilterNode, tags map[string]string) (m bool, err error, pan any) {
	defer func() { pan = recover() }()
	m, err = centrifuge.VerifFilterMatch(f, tags)
	return
}

func safeHash(f *protocol.FilterNode) (h [32]byte, pan any) {
	defer func() { pan = recover() }()
	return centrifuge.VerifFilterHash(f), nil
}

// pollute leaves a pooled marshal buffer of the size class Hash would use for a tree of `size` bytes filled with
// `pad`, so that a hash depending on stale buffer contents differs between two calls (Hash takes its buffer from
// internal/bpool, classes are powers of two).
func pollute(size int, pad string) {
	if size == 0 {
		return
	}
	c := 1
	for c < size {
		c <<= 1
	}
	p := &protocol.FilterNode{Key: strings.Repeat(pad, c)}
	for p.SizeVT() > c && len(p.Key) > 0 {
		p.Key = p.Key[1:]
	}
	safeHash(p)
}

func table(in json.RawMessage, res *vh.Result) error {
	var rows []row
	if err := json.Unmarshal(in, &rows); err != nil {
		return err
	}
	// leaf rows first: a mismatch of a logical node is then attributed to the mismatching leaf it contains
	order := make([]int, 0, len(rows))
	for i, r := range rows {
		if r.Tree.Op == "" {
			order = append(order, i)
		}
	}
	for i, r := range rows {
		if r.Tree.Op != "" {
			order = append(order, i)
		}
	}
	leafBad := map[string]string{} // J(leaf)|J(tags) -> sig of the leaf-level mismatch
	hashes := map[[32]byte]string{}
	collided := map[string]bool{}
	var collisionSample []string
	classes := map[string]int{}

	for _, idx := range order {
		r := rows[idx]
		nm, tkey, tagsKey := name(r.Tree), vh.J(r.Tree), vh.J(r.Tags)
		classes[r.Res.Cls]++
		a, b := build(r.Tree, 0), build(r.Tree, 1)
		desc := fmt.Sprintf("tree=%s tags=%s", tkey, tagsKey)

		// ---- Hash: equal for structurally equal trees, stable across calls and across Validate/Match
		size := a.SizeVT()
		pollute(size, "x")
		h0, p0 := safeHash(a)
		if p0 != nil {
			res.Violate("C15", "hash:panic:"+nm, fmt.Sprintf("Hash panicked: %v on %s", p0, desc), r)
		}

		// ---- Validate
		for variant, f := range []*protocol.FilterNode{a, b} {
			err, pan := safeValidate(f)
			switch {
			case pan != nil:
				res.Violate("C15", "validate:"+nm+":panic", fmt.Sprintf("Validate panicked: %v on %s", pan, desc), r)
			case err == nil && !r.Res.Valid:
				res.Violate("C15", "validate:"+nm+":accepts-malformed", fmt.Sprintf("Validate accepted a malformed tree (build %d): %s", variant, desc), r)
			case err != nil && r.Res.Valid:
				res.Violate("C15", "validate:"+nm+":rejects-wellformed", fmt.Sprintf("Validate rejected a well-formed tree (build %d) with %q: %s", variant, err, desc), r)
			}
		}

		// ---- Match
		for variant, f := range []*protocol.FilterNode{a, b} {
			got, err, pan := safeMatch(f, tagMap(r.Tags, variant))
			if !r.Res.Valid {
				// the language gives no value to a malformed tree; only a crash is worth a remark
				if pan != nil {
					res.Drift("C15", fmt.Sprintf("Match panicked on a malformed tree: %v on %s", pan, desc), r)
				}
				continue
			}
			sig, what := "", ""
			switch {
			case pan != nil:
				sig, what = "match:"+nm+":"+r.Res.Cls+":panic", fmt.Sprintf("Match panicked on a validated tree: %v", pan)
			case err != nil:
				sig, what = "match:"+nm+":"+r.Res.Cls+":error", fmt.Sprintf("Match returned an error on a validated tree: %v", err)
			case got != r.Res.Match:
				sig, what = "match:"+nm+":"+r.Res.Cls, fmt.Sprintf("Match=%v, the language defines %v (%s)", got, r.Res.Match, r.Res.Cls)
			}
			if sig == "" {
				continue
			}
			if r.Tree.Op == "" {
				leafBad[tkey+"|"+tagsKey] = sig
			} else {
				var ls []*node
				leaves(r.Tree, &ls)
				var via []string
				for _, l := range ls {
					if s, ok := leafBad[vh.J(l)+"|"+tagsKey]; ok {
						via = append(via, s)
					}
				}
				if len(via) > 0 {
					sort.Strings(via)
					sig += ":via:" + via[0]
					what += "; the tree contains a leaf that is itself evaluated wrongly (" + via[0] + ")"
				}
			}
			res.Violate("C15", sig, what+": "+desc, r)
		}

		// ---- Hash again (after the calls), on both builds
		pollute(size, "y")
		h1, p1 := safeHash(a)
		pollute(size, "z")
		h2, p2 := safeHash(b)
		if p1 != nil || p2 != nil {
			res.Violate("C15", "hash:panic:"+nm, fmt.Sprintf("Hash panicked on %s", desc), r)
		} else if p0 == nil {
			if h0 != h1 {
				res.Violate("C15", "hash:unstable:"+nm, fmt.Sprintf("Hash of the same tree differs between two calls: %x vs %x, %s", h0[:6], h1[:6], desc), r)
			}
			if h0 != h2 {
				res.Violate("C15", "hash:unequal:"+nm, fmt.Sprintf("Hash differs for two structurally equal trees (built in different ways): %x vs %x, %s", h0[:6], h2[:6], desc), r)
			}
			// remark only (the property does not ask for it): different trees with one hash
			if prev, ok := hashes[h0]; ok && prev != tkey {
				if !collided[tkey] && len(collisionSample) < 3 {
					collisionSample = append(collisionSample, prev+"  ~  "+tkey)
				}
				collided[tkey] = true
			} else if !ok {
				hashes[h0] = tkey
			}
		}

		if r.Res.Valid {
			res.Distinct(tkey + "|" + tagsKey)
			if len(r.Tags) > 0 && r.Tree.Op != "" {
				res.Sample(r)
			}
		}
		res.Done(1, 1)
	}
	res.Extra["classes"] = classes
	res.Extra["distinct_trees"] = len(hashes)
	res.Extra["hash_collisions_between_different_trees"] = len(collided)
	if len(collisionSample) > 0 {
		res.Extra["hash_collision_samples"] = collisionSample
	}
	return nil
}

// probe: observations outside what the property quantifies over. Nothing here is a verdict.
func probe(in json.RawMessage, res *vh.Result) error {
	obs := map[string]any{}
	ex := &protocol.FilterNode{Key: "k", Cmp: "ex"}

	// a child list with a nil element (reachable from JSON: {"op":"and","nodes":[null]})
	for _, op := range []string{"and", "or", "not"} {
		f := &protocol.FilterNode{Op: op, Nodes: []*protocol.FilterNode{nil}}
		err, pan := safeValidate(f)
		obs["validate_nil_child_"+op] = fmt.Sprintf("err=%v panic=%v", err, pan)
	}
	_, pan := safeValidate(nil)
	obs["validate_nil_root"] = fmt.Sprintf("panic=%v", pan)

	// fields that do not belong to the node kind
	err, _ := safeValidate(&protocol.FilterNode{Key: "k", Cmp: "eq", Val: "a", Nodes: []*protocol.FilterNode{ex}})
	obs["validate_leaf_with_children"] = fmt.Sprintf("err=%v", err)
	err, _ = safeValidate(&protocol.FilterNode{Op: "and", Key: "k", Cmp: "zzz", Val: "a", Vals: []string{"b"}, Nodes: []*protocol.FilterNode{ex}})
	obs["validate_and_with_key_cmp_val_vals"] = fmt.Sprintf("err=%v", err)

	// udecimal big.Int path (inputs longer than 41 bytes) takes a second sign: "-+<digits>"
	odd := "-+" + strings.Repeat("9", 45)
	m, err, _ := safeMatch(&protocol.FilterNode{Key: "k", Cmp: "lt", Val: "0"}, map[string]string{"k": odd})
	obs["match_lt_0_on_minus_plus_45_nines"] = fmt.Sprintf("match=%v err=%v", m, err)
	res.Extra["observations"] = obs
	return nil
}

func main() { vh.Main(map[string]vh.Mode{"table": table, "probe": probe}) }
