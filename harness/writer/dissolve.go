package main

import (
	"encoding/json"
	"errors"
	"fmt"
	"math/rand"
	"runtime"
	"strconv"
	"strings"
	"sync"
	"sync/atomic"
	"time"

	"github.com/centrifugal/centrifuge"

	"verifharness/vh"
)

// dev is one logged event of a dissolver run (see spec/Dissolve/DissolveTrace.tla).
type dev struct {
	Seq     int    `json:"-"`
	Ev      string `json:"ev"`
	J       int    `json:"j,omitempty"`
	Ok      *bool  `json:"ok,omitempty"`
	Workers int    `json:"workers,omitempty"`
	G       int    `json:"g,omitempty"` // Start/End: id of the goroutine (= worker) that runs the job; not read by the trace spec
}

// goid returns the id of the calling goroutine (from the first line of its stack trace).
func goid() int {
	var buf [64]byte
	n := runtime.Stack(buf[:], false)
	f := strings.Fields(string(buf[:n]))
	if len(f) < 2 {
		return 0
	}
	id, _ := strconv.Atoi(f[1])
	return id
}

type drec struct {
	mu     sync.Mutex
	evs    []*dev
	frozen bool
}

func (r *drec) log(e *dev) {
	r.mu.Lock()
	if !r.frozen {
		e.Seq = len(r.evs) + 1
		r.evs = append(r.evs, e)
	}
	r.mu.Unlock()
}

type djob struct {
	ID     int  `json:"id"`
	Fails  int  `json:"fails"`  // fails this many times, then succeeds
	RunUs  int  `json:"run_us"` // duration of one run
	Jitter int  `json:"jitter"` // before Submit
	Early  bool `json:"early"`  // submitted before Run()
}

type dscenario struct {
	Workers    int    `json:"workers"`
	Jobs       []djob `json:"jobs"`
	CloseEarly bool   `json:"close_early"`
	CloseUs    int    `json:"close_us"`
	PostSubmit bool   `json:"post_submit"`  // one more Submit after Close returned
	CloseOnJob int    `json:"close_on_job"` // directed close race: Close is called the moment this job's first run starts (0 = off)
}

func genDScenario(r *rand.Rand) dscenario {
	s := dscenario{Workers: 1 + r.Intn(3)}
	n := 1 + r.Intn(6)
	for i := 1; i <= n; i++ {
		s.Jobs = append(s.Jobs, djob{ID: i, Fails: []int{0, 0, 1, 2, 3}[r.Intn(5)], RunUs: []int{0, 0, 30, 300}[r.Intn(4)],
			Jitter: []int{0, 0, 1, 40, 300}[r.Intn(5)], Early: r.Intn(5) == 0})
	}
	if r.Intn(3) == 0 {
		s.CloseEarly = true
		s.CloseUs = []int{0, 20, 150, 600, 2000}[r.Intn(5)]
	}
	s.PostSubmit = r.Intn(2) == 0
	if r.Intn(4) == 0 {
		// directed at the window between a worker's dequeue and the first statement of the job: many instant jobs
		// keep every worker cycling through dequeue -> run while Close() is called from another goroutine. The window
		// has no harness-controllable step inside (runWorker calls job() right after queue.Wait() returns), so this
		// only makes the schedule likely, it cannot force it.
		s.Workers = 2 + r.Intn(2)
		s.Jobs = nil
		for i := 1; i <= 7; i++ {
			s.Jobs = append(s.Jobs, djob{ID: i, Fails: r.Intn(2), Early: i <= 5})
		}
		s.CloseEarly = true
		s.CloseUs = 0
		s.CloseOnJob = 1 + r.Intn(4)
	}
	return s
}

var errJob = errors.New("verif: job failed")

type dresult struct {
	evs      []*dev
	stuck    bool
	panicked any
	okJobs   int
}

func runDScenario(sc dscenario) (out dresult) {
	rec := &drec{}
	rec.log(&dev{Ev: "Cfg", Workers: sc.Workers})
	d := centrifuge.VerifWNewDissolver(sc.Workers)
	attempts := make([]atomic.Int64, len(sc.Jobs)+2)
	var succeeded atomic.Int64
	closeNow := make(chan struct{})
	var closeOnce sync.Once
	mk := func(j djob) func() error {
		return func() error {
			e := &dev{Ev: "Start", J: j.ID}
			rec.log(e) // first statement of the job: its sequence number is the moment the run started
			g := goid()
			rec.mu.Lock()
			e.G = g
			rec.mu.Unlock()
			if j.ID == sc.CloseOnJob {
				closeOnce.Do(func() { close(closeNow) })
			}
			if j.RunUs > 0 {
				time.Sleep(time.Duration(j.RunUs) * time.Microsecond)
			}
			n := attempts[j.ID].Add(1)
			ok := int(n) > j.Fails
			rec.log(&dev{Ev: "End", J: j.ID, Ok: bp(ok)})
			if ok {
				succeeded.Add(1)
				return nil
			}
			return errJob
		}
	}
	var accepted atomic.Int64
	submit := func(j djob) {
		rec.log(&dev{Ev: "SubB", J: j.ID})
		err := centrifuge.VerifWSubmit(d, mk(j))
		rec.log(&dev{Ev: "SubE", J: j.ID, Ok: bp(err == nil)})
		if err == nil {
			accepted.Add(1)
		}
	}
	defer func() {
		if p := recover(); p != nil {
			out.panicked = p
		}
	}()
	for _, j := range sc.Jobs {
		if j.Early {
			submit(j)
		}
	}
	_ = d.Run()
	doClose := func() {
		rec.log(&dev{Ev: "CloseB"})
		_ = d.Close()
		rec.log(&dev{Ev: "CloseE"})
	}
	var cwg sync.WaitGroup
	if sc.CloseEarly {
		cwg.Add(1)
		go func() {
			defer cwg.Done()
			if sc.CloseOnJob > 0 {
				select {
				case <-closeNow:
				case <-time.After(50 * time.Millisecond):
				}
			} else {
				time.Sleep(time.Duration(sc.CloseUs) * time.Microsecond)
			}
			doClose()
		}()
	}
	for _, j := range sc.Jobs {
		if !j.Early {
			jitter(j.Jitter)
			submit(j)
		}
	}
	if !sc.CloseEarly {
		// liveness clause, bounded: the dissolver stays open, failures are finite -> every accepted job succeeds
		deadline := time.Now().Add(5 * time.Second)
		for time.Now().Before(deadline) && succeeded.Load() < accepted.Load() {
			time.Sleep(100 * time.Microsecond)
		}
		if succeeded.Load() < accepted.Load() {
			out.stuck = true
		}
		doClose()
	}
	cwg.Wait()
	if sc.PostSubmit {
		submit(djob{ID: len(sc.Jobs) + 1})
	}
	// let runs that were in flight when Close returned finish, and give anything that (wrongly) still runs a chance to show
	time.Sleep(1500 * time.Microsecond)
	rec.mu.Lock()
	rec.frozen = true
	out.evs = append(out.evs, rec.evs...)
	rec.mu.Unlock()
	out.okJobs = int(succeeded.Load())
	return out
}

func dmonitor(sc dscenario, evs []*dev) (viol []wviol) {
	add := func(sig, f string, a ...any) { viol = append(viol, wviol{sig, fmt.Sprintf(f, a...)}) }
	offered := map[int]bool{}
	running := map[int]bool{}
	success := map[int]bool{}
	failedAfterClose := map[int]bool{}
	closeB, closeE := 0, 0
	lateStarts := 0
	subB := map[int]int{}
	for _, e := range evs {
		switch e.Ev {
		case "SubB":
			offered[e.J] = true
			subB[e.J] = e.Seq
		case "SubE":
			if !*e.Ok && (closeB == 0) {
				add("dissolve:submit-refused", "Submit of job %d refused although Close had not begun", e.J)
			}
			if *e.Ok && closeE != 0 && subB[e.J] > closeE {
				add("dissolve:submit-after-close", "Submit of job %d accepted although Close had returned", e.J)
			}
		case "Start":
			if !offered[e.J] {
				add("dissolve:phantom", "job %d ran without having been submitted", e.J)
			}
			if running[e.J] {
				add("dissolve:concurrent", "job %d started while a run of it was in progress", e.J)
			}
			if success[e.J] {
				add("dissolve:rerun-after-success", "job %d was run again after it had returned success", e.J)
			}
			if closeE != 0 {
				// the clause "no job is executed after the queue is closed", as stated: Close() had RETURNED (its
				// return was numbered before this job's first statement)
				add("dissolve:job-started-after-close-returned",
					"job %d started at event %d on worker goroutine %d, after Close() had returned at event %d: that worker had dequeued the job before Close took effect "+
						"(Close empties the queue, so nothing can be dequeued afterwards) and called it after Close returned; events around: %s",
					e.J, e.Seq, e.G, closeE, around(evs, closeE, e.Seq))
				lateStarts++
				if failedAfterClose[e.J] {
					add("dissolve:run-after-close", "job %d failed after Close had returned and was run again (re-queued on a closed dissolver)", e.J)
				}
			}
			running[e.J] = true
		case "End":
			running[e.J] = false
			if *e.Ok {
				success[e.J] = true
			} else if closeE != 0 {
				failedAfterClose[e.J] = true
			}
		case "CloseB":
			closeB = e.Seq
		case "CloseE":
			closeE = e.Seq
		}
	}
	if lateStarts > sc.Workers {
		add("dissolve:run-after-close", "%d runs started after Close had returned; %d workers can hold at most %d dequeued jobs", lateStarts, sc.Workers, sc.Workers)
	}
	return viol
}

// around renders the events from just before Close returned up to the late start.
func around(evs []*dev, from, to int) string {
	lo := from - 4
	if lo < 1 {
		lo = 1
	}
	out := ""
	for _, e := range evs {
		if e.Seq < lo || e.Seq > to {
			continue
		}
		out += fmt.Sprintf("[%d %s", e.Seq, e.Ev)
		if e.J != 0 {
			out += fmt.Sprintf(" j%d", e.J)
		}
		if e.Ok != nil {
			out += fmt.Sprintf(" ok=%v", *e.Ok)
		}
		if e.G != 0 {
			out += fmt.Sprintf(" g%d", e.G)
		}
		out += "] "
	}
	return out
}

type dissolveIn struct {
	N         int         `json:"n"`
	Traces    int         `json:"traces"`
	Scenarios []dscenario `json:"scenarios"`
}

func dissolveRuns(in json.RawMessage, res *vh.Result) error {
	var a dissolveIn
	if err := json.Unmarshal(in, &a); err != nil {
		return err
	}
	scs := a.Scenarios
	if len(scs) == 0 {
		r := rand.New(rand.NewSource(vh.Seed()*104729 + 40))
		for i := 0; i < a.N; i++ {
			scs = append(scs, genDScenario(r))
		}
	}
	results := make([]dresult, len(scs))
	var wg sync.WaitGroup
	ch := make(chan int)
	for k := 0; k < 8; k++ {
		wg.Add(1)
		go func() {
			defer wg.Done()
			for i := range ch {
				results[i] = runDScenario(scs[i])
			}
		}()
	}
	for i := range scs {
		ch <- i
	}
	close(ch)
	wg.Wait()
	var traces [][]*dev
	var traceScen []dscenario
	for i, out := range results {
		sc := scs[i]
		replay := map[string]any{"scenario": sc, "trace": out.evs}
		completed := 1
		if out.panicked != nil {
			res.Drift("C40", fmt.Sprintf("dissolver panicked: %v -- %s", out.panicked, vh.J(sc)), replay)
			res.Done(1, 0)
			continue
		}
		for _, v := range dmonitor(sc, out.evs) {
			res.Violate("C40", v.sig, v.what+" -- "+vh.J(sc), replay)
			completed = 0
		}
		if out.stuck {
			res.Violate("C40", "dissolve:stuck", fmt.Sprintf("dissolver open, failures finite, but only %d of the accepted jobs had succeeded after 5 s -- %s", out.okJobs, vh.J(sc)), replay)
			completed = 0
		}
		retried, late := false, false
		ce := 0
		for _, e := range out.evs {
			if e.Ev == "End" && !*e.Ok {
				retried = true
			}
			if e.Ev == "CloseE" {
				ce = e.Seq
			}
			if e.Ev == "Start" && ce != 0 {
				late = true
			}
		}
		if retried {
			res.Count("runs_with_retry", 1)
		}
		if late {
			res.Count("runs_with_start_after_close", 1)
		}
		if sc.CloseOnJob > 0 {
			res.Count("directed_close_race_runs", 1)
		}
		if !sc.CloseEarly && !out.stuck {
			res.Count("quiescence_checked", 1)
		}
		if retried && sc.Workers > 1 && len(sc.Jobs) > 1 {
			res.Distinct(vh.J(out.evs))
		}
		if len(traces) < a.Traces {
			traces = append(traces, out.evs)
			traceScen = append(traceScen, sc)
		}
		if i < 2 {
			res.Sample(replay)
		}
		res.Done(1, completed)
	}
	res.Extra["traces"] = traces
	res.Extra["trace_scenarios"] = traceScen
	return nil
}
