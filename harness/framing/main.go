// C32: SSE and HTTP-stream framing deliver each message intact.
//
// Mode "table":  rows enumerated by TLC from spec/Framing/Framing.tla (wire bytes and the result of the
//
//	WHATWG EventSource / newline-delimited / varint parsers of the spec) are replayed into the harness's own
//	Go parsers (which must agree byte for byte, for every chunking of the wire) and into the real
//	protocol.ProtobufDataEncoder and protocol.Raw.MarshalJSON.
//
// Mode "replay": a real Node with the real SSEHandler / HTTPStreamHandler / EmulationHandler behind
//
//	net/http/httptest; payloads of every byte class are published, the response body is read with the
//	parsers validated above, and compared with the messages the server handed to the transport
//	(OnTransportWrite) and with the payloads that were published.
package main

import (
	"bytes"
	"context"
	"encoding/binary"
	"encoding/json"
	"errors"
	"fmt"
	"io"
	"math/rand"
	"net/http"
	"net/http/httptest"
	"net/url"
	"reflect"
	"runtime"
	"sort"
	"strings"
	"sync"
	"time"

	"github.com/centrifugal/centrifuge"
	"github.com/centrifugal/protocol"

	"verifharness/vh"
)

// ---------------------------------------------------------------------------------------------------------
// Client-side parsers (streaming). Transcriptions of the same standards as spec/Framing (Part 1); the table
// mode checks them against the TLA+ operators.

type esEvent struct {
	Data, Type, ID []byte
}

// esParser implements https://html.spec.whatwg.org/multipage/server-sent-events.html#event-stream-interpretation
type esParser struct {
	head    []byte // first bytes of the stream, held back until a leading BOM can be decided
	headOK  bool
	line    []byte
	afterCR bool // previous byte was CR: the line is already ended, a directly following LF belongs to it
	data    []byte
	typ     []byte
	id      []byte
	Events  []esEvent
}

var bom = []byte{0xEF, 0xBB, 0xBF}

func (p *esParser) Write(b []byte) {
	if !p.headOK {
		p.head = append(p.head, b...)
		n := len(p.head)
		if n > 3 {
			n = 3
		}
		if !bytes.Equal(p.head[:n], bom[:n]) {
			p.headOK = true
			h := p.head
			p.head = nil
			p.feed(h)
		} else if n == 3 {
			p.headOK = true
			h := p.head[3:]
			p.head = nil
			p.feed(h)
		}
		return
	}
	p.feed(b)
}

// Close: end of stream. Pending data (incomplete line, undispatched event) is discarded. A stream that is a
// strict prefix of the BOM never got decided: it is plain (incomplete) text.
func (p *esParser) Close() {
	if !p.headOK {
		p.headOK = true
		h := p.head
		p.head = nil
		p.feed(h)
	}
}

func (p *esParser) feed(b []byte) {
	for _, c := range b {
		if p.afterCR {
			p.afterCR = false
			if c == '\n' {
				continue
			}
		}
		switch c {
		case '\r':
			p.endLine()
			p.afterCR = true
		case '\n':
			p.endLine()
		default:
			p.line = append(p.line, c)
		}
	}
}

func (p *esParser) endLine() {
	line := p.line
	p.line = nil
	if len(line) == 0 {
		p.dispatch()
		return
	}
	if line[0] == ':' {
		return
	}
	var name, value []byte
	if i := bytes.IndexByte(line, ':'); i >= 0 {
		name, value = line[:i], line[i+1:]
		if len(value) > 0 && value[0] == ' ' {
			value = value[1:]
		}
	} else {
		name = line
	}
	switch string(name) {
	case "event":
		p.typ = append([]byte{}, value...)
	case "data":
		p.data = append(p.data, value...)
		p.data = append(p.data, '\n')
	case "id":
		if bytes.IndexByte(value, 0) < 0 {
			p.id = append([]byte{}, value...)
		}
	case "retry": // reconnection time only
	}
}

func (p *esParser) dispatch() {
	if len(p.data) == 0 {
		p.typ = nil
		return
	}
	d := p.data
	if d[len(d)-1] == '\n' {
		d = d[:len(d)-1]
	}
	t := p.typ
	if len(t) == 0 {
		t = []byte("message")
	}
	p.Events = append(p.Events, esEvent{Data: append([]byte{}, d...), Type: append([]byte{}, t...), ID: append([]byte{}, p.id...)})
	p.data = nil
	p.typ = nil
}

func (p *esParser) Records() [][]byte {
	out := make([][]byte, 0, len(p.Events))
	for _, e := range p.Events {
		out = append(out, e.Data)
	}
	return out
}

// ndParser: newline-delimited JSON, LF terminated records, empty lines skipped.
type ndParser struct {
	pend []byte
	Recs [][]byte
}

func (p *ndParser) Write(b []byte) {
	for _, c := range b {
		if c == '\n' {
			if len(p.pend) > 0 {
				p.Recs = append(p.Recs, p.pend)
			}
			p.pend = nil
			continue
		}
		p.pend = append(p.pend, c)
	}
}
func (p *ndParser) Close()            {}
func (p *ndParser) Records() [][]byte { return p.Recs }

// pbParser: uvarint length prefix + that many bytes.
type pbParser struct {
	buf  []byte
	Recs [][]byte
	Err  error
}

func (p *pbParser) Write(b []byte) {
	p.buf = append(p.buf, b...)
	for p.Err == nil {
		n, k := binary.Uvarint(p.buf)
		if k == 0 {
			return // incomplete prefix
		}
		if k < 0 {
			p.Err = errors.New("uvarint overflow")
			return
		}
		if uint64(len(p.buf)-k) < n {
			return // incomplete record
		}
		p.Recs = append(p.Recs, append([]byte{}, p.buf[k:k+int(n)]...))
		p.buf = p.buf[k+int(n):]
	}
}
func (p *pbParser) Close()            {}
func (p *pbParser) Records() [][]byte { return p.Recs }

type parser interface {
	Write([]byte)
	Close()
	Records() [][]byte
}

func newParser(kind string) parser {
	switch kind {
	case "es":
		return &esParser{}
	case "nd":
		return &ndParser{}
	case "pb":
		return &pbParser{}
	}
	panic(kind)
}

func parseAll(kind string, wire []byte) [][]byte {
	p := newParser(kind)
	p.Write(wire)
	p.Close()
	return p.Records()
}

// ---------------------------------------------------------------------------------------------------------
// table mode

func toBytes(v any) []byte {
	l := vh.List(v)
	out := make([]byte, 0, len(l))
	for _, x := range l {
		out = append(out, byte(vh.Int(x)))
	}
	return out
}

func toMsgs(v any) [][]byte {
	l := vh.List(v)
	out := make([][]byte, 0, len(l))
	for _, x := range l {
		out = append(out, toBytes(x))
	}
	return out
}

func sameRecs(a, b [][]byte) bool {
	if len(a) != len(b) {
		return false
	}
	for i := range a {
		if !bytes.Equal(a[i], b[i]) {
			return false
		}
	}
	return true
}

func show(recs [][]byte) string {
	s := make([]string, 0, len(recs))
	for _, r := range recs {
		s = append(s, fmt.Sprintf("%q", r))
	}
	return "[" + strings.Join(s, " ") + "]"
}

// every way of cutting the wire into two chunks, and byte by byte: a streaming parser must not care
func chunkings(kind string, wire []byte, want [][]byte) string {
	for cut := 0; cut <= len(wire); cut++ {
		p := newParser(kind)
		p.Write(wire[:cut])
		p.Write(wire[cut:])
		p.Close()
		if !sameRecs(p.Records(), want) {
			return fmt.Sprintf("cut at %d: %s", cut, show(p.Records()))
		}
	}
	p := newParser(kind)
	for i := range wire {
		p.Write(wire[i : i+1])
	}
	p.Close()
	if !sameRecs(p.Records(), want) {
		return "byte by byte: " + show(p.Records())
	}
	return ""
}

func table(in json.RawMessage, res *vh.Result) error {
	var rows []map[string]any
	if err := json.Unmarshal(in, &rows); err != nil {
		return err
	}
	checkParse := func(kind string, wire []byte, want [][]byte, what string, row any) {
		res.Count("parser_evals", 1)
		if bad := chunkings(kind, wire, want); bad != "" {
			res.Drift("C32", fmt.Sprintf("harness %s parser disagrees with the spec parser on %s wire %q: spec %s, harness %s", kind, what, wire, show(want), bad), row)
		}
	}
	for _, row := range rows {
		msgs := toMsgs(row["msgs"])
		r := vh.Map(row["res"])
		if vec := toBytes(row["vec"]); len(vec) > 0 {
			// EventSource conformance vector: full events
			p := &esParser{}
			p.Write(vec)
			p.Close()
			want := vh.List(r["vec"])
			ok := len(want) == len(p.Events)
			for i := 0; ok && i < len(want); i++ {
				w := vh.Map(want[i])
				e := p.Events[i]
				ok = bytes.Equal(e.Data, toBytes(w["data"])) && bytes.Equal(e.Type, toBytes(w["type"])) && bytes.Equal(e.ID, toBytes(w["id"]))
			}
			if !ok {
				res.Drift("C32", fmt.Sprintf("harness EventSource parser disagrees with the spec on vector %q: spec %s harness %+v", vec, vh.J(want), p.Events), row)
			}
			var wd [][]byte
			for _, w := range want {
				wd = append(wd, toBytes(vh.Map(w)["data"]))
			}
			checkParse("es", vec, wd, "vector", row)
			res.Count("vectors", 1)
			res.Done(1, 1)
			continue
		}
		for _, k := range []struct{ field, kind string }{{"sse", "es"}, {"split", "es"}, {"nd", "nd"}, {"pb", "pb"}} {
			f := vh.Map(r[k.field])
			wire, want := toBytes(f["wire"]), toMsgs(f["parsed"])
			checkParse(k.kind, wire, want, k.field, row)
			if !sameRecs(want, msgs) {
				res.Count("torn_"+k.field, 1) // message lists this framing does not carry (counted, judged by the spec's invariants)
			}
		}
		cross := vh.Map(r["cross"])
		checkParse("nd", toBytes(vh.Map(r["sse"])["wire"]), toMsgs(cross["ndOfSse"]), "sse-as-nd", row)
		checkParse("pb", toBytes(vh.Map(r["nd"])["wire"]), toMsgs(cross["pbOfNd"]), "nd-as-pb", row)
		checkParse("es", toBytes(vh.Map(r["nd"])["wire"]), toMsgs(cross["esOfNd"]), "nd-as-es", row)

		// real code: the Protobuf data encoder used by HTTPStreamHandler
		enc := protocol.GetDataEncoder(protocol.TypeProtobuf)
		for _, m := range msgs {
			_ = enc.Encode(m)
		}
		realWire := enc.Finish()
		protocol.PutDataEncoder(protocol.TypeProtobuf, enc)
		if !bytes.Equal(realWire, toBytes(vh.Map(r["pb"])["wire"])) {
			if !sameRecs(parseAll("pb", realWire), msgs) {
				res.Violate("C32", "pb:data-encoder", fmt.Sprintf("protocol.ProtobufDataEncoder frames %s as %q which does not decode back", show(msgs), realWire), row)
			} else {
				res.Drift("C32", fmt.Sprintf("protocol.ProtobufDataEncoder frames %s as %q, spec says %q", show(msgs), realWire, toBytes(vh.Map(r["pb"])["wire"])), row)
			}
		}
		// real code: protocol.Raw.MarshalJSON (what the JSON reply encoder does to an embedded payload)
		raws := toMsgs(r["raw"])
		for i, m := range msgs {
			got, err := protocol.Raw(m).MarshalJSON()
			if err != nil || !bytes.Equal(got, raws[i]) {
				res.Drift("C32", fmt.Sprintf("protocol.Raw(%q).MarshalJSON() = %q, %v; spec RawJSON says %q", m, got, err, raws[i]), row)
			}
		}
		if len(msgs) > 0 {
			res.Distinct(show(msgs))
		}
		if len(msgs) == 2 {
			res.Sample(map[string]any{"msgs": show(msgs), "sse_wire": fmt.Sprintf("%q", toBytes(vh.Map(r["sse"])["wire"])), "sse_parsed": show(toMsgs(vh.Map(r["sse"])["parsed"]))})
		}
		res.Done(1, 1)
	}
	// the real Protobuf data encoder at every varint boundary (the handler adds nothing that depends on the
	// length; 2 MiB messages through HTTP would only test the 1 s write deadline of the handler)
	for _, n := range []int{0, 1, 127, 128, 129, 16383, 16384, 16385, 2097151, 2097152, 2097153} {
		a, b := bytes.Repeat([]byte{'\n'}, n), bytes.Repeat([]byte{0x80}, n)
		enc := protocol.GetDataEncoder(protocol.TypeProtobuf)
		_ = enc.Encode(a)
		_ = enc.Encode(nil)
		_ = enc.Encode(b)
		wire := enc.Finish()
		protocol.PutDataEncoder(protocol.TypeProtobuf, enc)
		if !sameRecs(parseAll("pb", wire), [][]byte{a, {}, b}) {
			res.Violate("C32", "pb:data-encoder", fmt.Sprintf("protocol.ProtobufDataEncoder: messages of length %d, 0, %d do not decode back", n, n), n)
		}
		res.Count("varint_boundaries", 1)
	}
	return nil
}

// ---------------------------------------------------------------------------------------------------------
// replay mode: the real handlers

type replayIn struct {
	Alphabet []int            `json:"alphabet"` // byte classes TLC enumerated: each must occur raw in some payload
	Unsafe   map[string][]int `json:"unsafe"`   // spec: unsafe classes per framing (sse, split, nd, pb, reach*)
	MaxWire  int              `json:"max_wire"` // bodies up to this size are exported for validation by TLC
}

// what a scenario does after the connect reply arrived
type action struct {
	Kind    string // publish | publish-info | publish-tags | send | rpc-ok | rpc-err | wait-pings
	Channel string
	Data    []byte
	Info    []byte
	Str     string
}

type scenario struct {
	ID        string
	Transport string // sse-get | sse-post | hs-json | hs-pb
	Class     string // byte class (signature part)
	Field     string // where the class sits (signature part)
	What      string
	Channel   string
	ConnData  []byte
	ConnInfo  []byte
	ChanInfo  []byte
	SubData   []byte
	Reason    string // disconnect reason
	Delay     time.Duration
	Ping      bool
	Actions   []action
	// expected application payloads in order of arrival: path into the decoded reply + the published bytes
	Expect []expectation
}

type expectation struct {
	Path string // e.g. push.pub.data
	Want []byte
	Str  bool // compare as string instead of as JSON / bytes
}

func (s *scenario) proto() string {
	if s.Transport == "hs-pb" {
		return "protobuf"
	}
	return "json"
}

func (s *scenario) tname() string {
	switch s.Transport {
	case "sse-get", "sse-post":
		return "sse"
	}
	return "http_stream"
}

func (s *scenario) sig(suffix string) string {
	g := s.tname() + ":" + s.proto() + ":" + s.Class + "-in-" + s.Field
	if suffix != "" {
		g += ":" + suffix
	}
	return g
}

type connState struct {
	sc     *scenario
	client *centrifuge.Client
	ready  chan struct{}
	mu     sync.Mutex
	wrote  [][]byte // messages handed to the transport, in order (OnTransportWrite)
	frames []string
}

type world struct {
	node   *centrifuge.Node
	server *httptest.Server
	mu     sync.Mutex
	conns  map[string]*connState // by scenario id (connect request name)
	byCID  map[string]*connState // by client id
}

func newWorld() (*world, error) {
	w := &world{conns: map[string]*connState{}, byCID: map[string]*connState{}}
	node, err := centrifuge.New(centrifuge.Config{LogLevel: centrifuge.LogLevelNone, ClientQueueMaxSize: 512 * 1024 * 1024})
	if err != nil {
		return nil, err
	}
	w.node = node
	node.OnConnecting(func(ctx context.Context, e centrifuge.ConnectEvent) (centrifuge.ConnectReply, error) {
		w.mu.Lock()
		cs := w.conns[e.Name]
		if cs != nil {
			w.byCID[e.ClientID] = cs
		}
		w.mu.Unlock()
		if cs == nil {
			return centrifuge.ConnectReply{}, centrifuge.DisconnectBadRequest
		}
		sc := cs.sc
		rep := centrifuge.ConnectReply{
			Credentials: &centrifuge.Credentials{UserID: "u-" + sc.ID, Info: sc.ConnInfo},
			Data:        sc.ConnData,
			WriteDelay:  sc.Delay,
		}
		if sc.Channel != "" {
			rep.Subscriptions = map[string]centrifuge.SubscribeOptions{
				sc.Channel: {ChannelInfo: sc.ChanInfo, Data: sc.SubData},
			}
		}
		return rep, nil
	})
	node.OnConnect(func(c *centrifuge.Client) {
		w.mu.Lock()
		cs := w.byCID[c.ID()]
		w.mu.Unlock()
		if cs == nil {
			return
		}
		c.OnRPC(func(e centrifuge.RPCEvent, cb centrifuge.RPCCallback) {
			if e.Method == "err" {
				// JSON protocol: the request data is a JSON string literal, the message is its value
				msg := string(e.Data)
				var s string
				if cs.sc.Transport != "hs-pb" && json.Unmarshal(e.Data, &s) == nil {
					msg = s
				}
				cb(centrifuge.RPCReply{}, &centrifuge.Error{Code: 1000, Message: msg})
				return
			}
			// echo the scenario's payload (the request carries an index into the actions)
			var idx int
			_ = json.Unmarshal(e.Data, &idx)
			if cs.sc.Transport == "hs-pb" && len(e.Data) == 1 {
				idx = int(e.Data[0])
			}
			cb(centrifuge.RPCReply{Data: cs.sc.Actions[idx].Data}, nil)
		})
		cs.client = c
		close(cs.ready)
	})
	node.OnTransportWrite(func(c *centrifuge.Client, e centrifuge.TransportWriteEvent) bool {
		w.mu.Lock()
		cs := w.byCID[c.ID()]
		w.mu.Unlock()
		if cs != nil {
			cs.mu.Lock()
			cs.wrote = append(cs.wrote, append([]byte{}, e.Data...))
			cs.frames = append(cs.frames, e.FrameType.String())
			cs.mu.Unlock()
		}
		return true
	})
	if err := node.Run(); err != nil {
		return nil, err
	}
	ping := centrifuge.PingPongConfig{PingInterval: 250 * time.Millisecond, PongTimeout: -1}
	mux := http.NewServeMux()
	mux.Handle("/sse", centrifuge.NewSSEHandler(node, centrifuge.SSEConfig{}))
	mux.Handle("/sse_ping", centrifuge.NewSSEHandler(node, centrifuge.SSEConfig{PingPongConfig: ping}))
	mux.Handle("/hs", centrifuge.NewHTTPStreamHandler(node, centrifuge.HTTPStreamConfig{}))
	mux.Handle("/hs_ping", centrifuge.NewHTTPStreamHandler(node, centrifuge.HTTPStreamConfig{PingPongConfig: ping}))
	mux.Handle("/emulation", centrifuge.NewEmulationHandler(node, centrifuge.EmulationConfig{}))
	w.server = httptest.NewServer(mux)
	return w, nil
}

func (w *world) close() {
	w.server.Close()
	ctx, cancel := context.WithTimeout(context.Background(), 5*time.Second)
	defer cancel()
	_ = w.node.Shutdown(ctx)
}

// stream reader: feeds the parser as chunks arrive
type stream struct {
	mu     sync.Mutex
	p      parser
	body   []byte
	eof    bool
	err    error
	notify chan struct{}
}

func (s *stream) run(r io.Reader) {
	buf := make([]byte, 32*1024)
	for {
		n, err := r.Read(buf)
		s.mu.Lock()
		if n > 0 {
			s.body = append(s.body, buf[:n]...)
			s.p.Write(buf[:n])
		}
		if err != nil {
			s.p.Close()
			s.eof = true
			if err != io.EOF {
				s.err = err
			}
		}
		s.mu.Unlock()
		select {
		case s.notify <- struct{}{}:
		default:
		}
		if err != nil {
			return
		}
	}
}

func (s *stream) count() (int, bool) {
	s.mu.Lock()
	defer s.mu.Unlock()
	return len(s.p.Records()), s.eof
}

const (
	writeWait   = 15 * time.Second // for the server to hand a message to the transport
	deliverWait = 10 * time.Second // for a message handed to the transport to show up at the client, connection idle
)

type outcome struct {
	ID        string   `json:"id"`
	Sig       string   `json:"sig"`
	Transport string   `json:"transport"`
	OK        bool     `json:"ok"`
	Problems  []string `json:"problems,omitempty"`
	NMsgs     int      `json:"nmsgs"`
	Raw       []int    `json:"raw_classes"` // alphabet bytes occurring raw in the messages handed to the transport
}

type wireRec struct {
	ID   string  `json:"id"`
	T    string  `json:"t"` // sse | nd | pb
	Body []int   `json:"body"`
	Msgs [][]int `json:"msgs"`
}

func ints(b []byte) []int {
	out := make([]int, len(b))
	for i, c := range b {
		out[i] = int(c)
	}
	return out
}

func (w *world) runScenario(sc *scenario, res *vh.Result, in *replayIn) (out outcome, wire *wireRec) {
	out = outcome{ID: sc.ID, Sig: sc.sig(""), Transport: sc.Transport}
	problem := func(kind, format string, a ...any) {
		msg := fmt.Sprintf(format, a...)
		out.Problems = append(out.Problems, kind+": "+msg)
	}
	cs := &connState{sc: sc, ready: make(chan struct{})}
	w.mu.Lock()
	w.conns[sc.ID] = cs
	w.mu.Unlock()

	// --- the connect request, as the handler tests send it
	cmd := &protocol.Command{Id: 1, Connect: &protocol.ConnectRequest{Name: sc.ID}}
	var req *http.Request
	var err error
	path := map[string]string{"sse-get": "/sse", "sse-post": "/sse", "hs-json": "/hs", "hs-pb": "/hs"}[sc.Transport]
	if sc.Ping {
		path += "_ping"
	}
	kind := "es"
	switch sc.Transport {
	case "sse-get":
		data, _ := json.Marshal(cmd)
		u, _ := url.Parse(w.server.URL + path)
		q := u.Query()
		q.Add("cf_connect", string(data))
		u.RawQuery = q.Encode()
		req, err = http.NewRequest(http.MethodGet, u.String(), nil)
	case "sse-post":
		data, _ := json.Marshal(cmd)
		req, err = http.NewRequest(http.MethodPost, w.server.URL+path, bytes.NewReader(data))
	case "hs-json":
		kind = "nd"
		data, _ := json.Marshal(cmd)
		req, err = http.NewRequest(http.MethodPost, w.server.URL+path, bytes.NewReader(data))
	case "hs-pb":
		kind = "pb"
		data, _ := protocol.NewProtobufCommandEncoder().Encode(cmd)
		req, err = http.NewRequest(http.MethodPost, w.server.URL+path, bytes.NewReader(data))
		if err == nil {
			req.Header.Set("Content-Type", "application/octet-stream")
		}
	}
	if err != nil {
		res.Drift("C32", "cannot build request: "+err.Error(), sc.ID)
		return
	}
	ctx, cancel := context.WithCancel(context.Background())
	defer cancel()
	req = req.WithContext(ctx)

	st := &stream{p: newParser(kind), notify: make(chan struct{}, 1)}
	type doRes struct {
		resp *http.Response
		err  error
	}
	doCh := make(chan doRes, 1)
	go func() {
		resp, err := http.DefaultTransport.RoundTrip(req)
		doCh <- doRes{resp, err}
	}()
	nWrote := func() int {
		cs.mu.Lock()
		defer cs.mu.Unlock()
		return len(cs.wrote)
	}
	waitWrote := func(n int) bool {
		deadline := time.Now().Add(writeWait)
		for nWrote() < n {
			if time.Now().After(deadline) {
				return false
			}
			time.Sleep(time.Millisecond)
		}
		return true
	}
	// wait until everything handed to the transport so far has arrived (the connection is otherwise idle)
	heldBack := false
	waitDelivered := func(what string) bool {
		if heldBack {
			return false // already reported for this connection: do not wait again
		}
		deadline := time.After(deliverWait)
		for {
			n, eof := st.count()
			if n >= nWrote() {
				return true
			}
			if eof {
				return false
			}
			select {
			case <-st.notify:
			case <-time.After(20 * time.Millisecond):
			case <-deadline:
				if n2, _ := st.count(); n2 >= nWrote() {
					return true
				}
				if !heldBack {
					heldBack = true
					problem("held-back", "%s: %d messages handed to the transport, only %d records at the client after %v of idle connection", what, nWrote(), n, deliverWait)
				}
				return false
			}
		}
	}

	// response headers: SSE flushes them with its preamble; http_stream with the first message
	var resp *http.Response
	select {
	case r := <-doCh:
		if r.err != nil {
			res.Drift("C32", "request failed: "+r.err.Error(), sc.ID)
			return
		}
		resp = r.resp
	case <-time.After(writeWait + deliverWait):
		if nWrote() > 0 {
			problem("held-back", "no response headers %v after the connect reply was handed to the transport", writeWait+deliverWait)
			heldBack = true
		} else {
			res.Drift("C32", "no response and nothing written for scenario "+sc.ID, sc.ID)
		}
		out.OK = false
		return
	}
	defer func() { _ = resp.Body.Close() }()
	if resp.StatusCode != 200 {
		res.Drift("C32", fmt.Sprintf("status %d for scenario %s", resp.StatusCode, sc.ID), sc.ID)
		return
	}
	go st.run(resp.Body)

	select {
	case <-cs.ready:
	case <-time.After(writeWait):
		res.Drift("C32", "client did not connect in scenario "+sc.ID, sc.ID)
		return
	}
	if !waitWrote(1) {
		res.Drift("C32", "connect reply never handed to the transport in "+sc.ID, sc.ID)
		return
	}
	waitDelivered("connect reply")

	// session / node for emulation requests: from the server's own connect reply
	var session, nodeID string
	{
		cs.mu.Lock()
		first := cs.wrote[0]
		cs.mu.Unlock()
		var rep protocol.Reply
		if sc.Transport == "hs-pb" {
			_ = rep.UnmarshalVT(first)
		} else {
			_ = json.Unmarshal(first, &rep)
		}
		if rep.Connect != nil {
			session, nodeID = rep.Connect.Session, rep.Connect.Node
		}
	}
	emulate := func(c *protocol.Command) error {
		var body []byte
		ct := "application/json"
		if sc.Transport == "hs-pb" {
			data, _ := protocol.NewProtobufCommandEncoder().Encode(c)
			body, _ = (&protocol.EmulationRequest{Node: nodeID, Session: session, Data: data}).MarshalVT()
			ct = "application/octet-stream"
		} else {
			data, _ := json.Marshal(c)
			str, _ := json.Marshal(string(data))
			body, _ = json.Marshal(map[string]any{"node": nodeID, "session": session, "data": json.RawMessage(str)})
		}
		r, err := http.Post(w.server.URL+"/emulation", ct, bytes.NewReader(body))
		if err != nil {
			return err
		}
		_ = r.Body.Close()
		if r.StatusCode != http.StatusNoContent {
			return fmt.Errorf("emulation status %d", r.StatusCode)
		}
		return nil
	}

	expectWrites := 1
	for i, a := range sc.Actions {
		var aerr error
		switch a.Kind {
		case "publish":
			_, aerr = w.node.Publish(a.Channel, a.Data)
			expectWrites++
		case "publish-info":
			_, aerr = w.node.Publish(a.Channel, a.Data, centrifuge.WithClientInfo(&centrifuge.ClientInfo{ClientID: "c", UserID: "u", ConnInfo: a.Info, ChanInfo: a.Info}))
			expectWrites++
		case "publish-tags":
			_, aerr = w.node.Publish(a.Channel, a.Data, centrifuge.WithTags(map[string]string{"t": a.Str}))
			expectWrites++
		case "send":
			aerr = cs.client.Send(a.Data)
			expectWrites++
		case "rpc-ok":
			d := []byte(fmt.Sprint(i))
			if sc.Transport == "hs-pb" {
				d = []byte{byte(i)}
			}
			aerr = emulate(&protocol.Command{Id: uint32(10 + i), Rpc: &protocol.RPCRequest{Method: "ok", Data: d}})
			expectWrites++
		case "rpc-err":
			d, _ := json.Marshal(a.Str)
			if sc.Transport == "hs-pb" {
				d = []byte(a.Str)
			}
			aerr = emulate(&protocol.Command{Id: uint32(10 + i), Rpc: &protocol.RPCRequest{Method: "err", Data: d}})
			expectWrites++
		case "wait-pings":
			expectWrites += 2
		}
		if aerr != nil {
			res.Drift("C32", fmt.Sprintf("scenario %s action %d (%s) failed: %v", sc.ID, i, a.Kind, aerr), sc.ID)
			return
		}
		if sc.Delay > 0 {
			continue // batch scenario: let the writer coalesce
		}
		if !waitWrote(expectWrites) {
			res.Drift("C32", fmt.Sprintf("scenario %s action %d (%s): the server never handed message %d to the transport (payload rejected by the encoder?)", sc.ID, i, a.Kind, expectWrites), sc.ID)
			return
		}
		waitDelivered(fmt.Sprintf("action %d (%s)", i, a.Kind))
	}
	if sc.Delay > 0 {
		if !waitWrote(expectWrites) {
			res.Drift("C32", fmt.Sprintf("batch scenario %s: only %d of %d messages handed to the transport", sc.ID, nWrote(), expectWrites), sc.ID)
			return
		}
		waitDelivered("batch")
	}
	// server side disconnect: flushes, pushes a disconnect message, ends the response
	reason := sc.Reason
	if reason == "" {
		reason = "bye"
	}
	cs.client.Disconnect(centrifuge.Disconnect{Code: 3501, Reason: reason})
	deadline := time.After(writeWait)
	for {
		_, eof := st.count()
		if eof {
			break
		}
		select {
		case <-st.notify:
		case <-time.After(20 * time.Millisecond):
		case <-deadline:
			res.Drift("C32", "response did not end after server-side disconnect in "+sc.ID, sc.ID)
			return
		}
	}
	w.mu.Lock()
	delete(w.conns, sc.ID)
	w.mu.Unlock()

	// --- compare
	st.mu.Lock()
	got := st.p.Records()
	body := st.body
	st.mu.Unlock()
	cs.mu.Lock()
	wrote := cs.wrote
	cs.mu.Unlock()
	out.NMsgs = len(wrote)
	if pp, ok := st.p.(*pbParser); ok && pp.Err != nil {
		problem("garbage", "length prefix does not decode: %v", pp.Err)
	}
	if es, ok := st.p.(*esParser); ok {
		for i, e := range es.Events {
			if string(e.Type) != "message" || len(e.ID) != 0 {
				problem("event-fields", "event %d has type %q id %q", i, e.Type, e.ID)
			}
		}
	}
	if len(got) != len(wrote) {
		problem("count", "%d messages handed to the transport, %d records at the client", len(wrote), len(got))
	}
	rawSet := map[int]bool{}
	for _, m := range wrote {
		for _, a := range in.Alphabet {
			if bytes.IndexByte(m, byte(a)) >= 0 {
				rawSet[a] = true
			}
		}
	}
	for a := range rawSet {
		out.Raw = append(out.Raw, a)
	}
	sort.Ints(out.Raw)
	n := len(got)
	if len(wrote) < n {
		n = len(wrote)
	}
	var decoded []*protocol.Reply
	for i := 0; i < n; i++ {
		if sc.Transport == "hs-pb" {
			if !bytes.Equal(got[i], wrote[i]) {
				problem("content", "record %d is %q, the server message was %q", i, clip(got[i]), clip(wrote[i]))
				continue
			}
			var rep protocol.Reply
			if err := rep.UnmarshalVT(got[i]); err != nil {
				problem("content", "record %d does not decode: %v", i, err)
				continue
			}
			decoded = append(decoded, &rep)
			continue
		}
		var a, b any
		if err := json.Unmarshal(got[i], &a); err != nil {
			problem("content", "record %d is not a JSON document (%v): %q; the server message was %q", i, err, clip(got[i]), clip(wrote[i]))
			continue
		}
		if err := json.Unmarshal(wrote[i], &b); err != nil {
			res.Drift("C32", fmt.Sprintf("server message %d is not JSON in %s: %q", i, sc.ID, clip(wrote[i])), sc.ID)
			continue
		}
		if !reflect.DeepEqual(a, b) {
			problem("content", "record %d decodes to a different message: %q vs server message %q", i, clip(got[i]), clip(wrote[i]))
			continue
		}
		// the client's own decoder
		rep, err := protocol.NewJSONReplyDecoder(got[i]).Decode()
		if err != nil {
			problem("content", "record %d rejected by the protocol's reply decoder: %v", i, err)
			continue
		}
		decoded = append(decoded, rep)
	}
	// application payloads, end to end (covers the encoder's treatment of the payload)
	if len(out.Problems) == 0 {
		ei := 0
		for _, rep := range decoded {
			if ei >= len(sc.Expect) {
				break
			}
			e := sc.Expect[ei]
			v, found := lookup(rep, e.Path)
			if !found {
				continue
			}
			ei++
			same := false
			switch {
			case e.Str || sc.Transport == "hs-pb":
				same = bytes.Equal(v, e.Want)
			default:
				var a, b any
				ea, eb := json.Unmarshal(v, &a), json.Unmarshal(e.Want, &b)
				same = ea == nil && eb == nil && reflect.DeepEqual(a, b)
			}
			if !same {
				problem("payload", "%s arrived as %q, published %q", e.Path, clip(v), clip(e.Want))
			}
		}
		if ei != len(sc.Expect) {
			problem("payload", "only %d of %d expected payloads arrived (next: %s)", ei, len(sc.Expect), sc.Expect[ei].Path)
		}
	}
	out.OK = len(out.Problems) == 0
	if len(body) <= in.MaxWire {
		t := map[string]string{"es": "sse", "nd": "nd", "pb": "pb"}[kind]
		wr := &wireRec{ID: sc.ID, T: t, Body: ints(body)}
		for _, m := range wrote {
			wr.Msgs = append(wr.Msgs, ints(m))
		}
		wire = wr
	}
	return
}

func clip(b []byte) []byte {
	if len(b) > 160 {
		return append(append([]byte{}, b[:150]...), []byte("...")...)
	}
	return b
}

// lookup extracts a payload from a decoded reply.
func lookup(r *protocol.Reply, path string) ([]byte, bool) {
	switch path {
	case "connect.data":
		if r.Connect != nil {
			return r.Connect.Data, true
		}
	case "connect.subs.data":
		if r.Connect != nil {
			for _, s := range r.Connect.Subs {
				return s.Data, true
			}
		}
	case "push.pub.data":
		if r.Push != nil && r.Push.Pub != nil {
			return r.Push.Pub.Data, true
		}
	case "push.pub.info.conn_info":
		if r.Push != nil && r.Push.Pub != nil && r.Push.Pub.Info != nil {
			return r.Push.Pub.Info.ConnInfo, true
		}
	case "push.pub.info.chan_info":
		if r.Push != nil && r.Push.Pub != nil && r.Push.Pub.Info != nil {
			return r.Push.Pub.Info.ChanInfo, true
		}
	case "push.pub.tags.t":
		if r.Push != nil && r.Push.Pub != nil && r.Push.Pub.Tags != nil {
			return []byte(r.Push.Pub.Tags["t"]), true
		}
	case "push.channel":
		if r.Push != nil && r.Push.Pub != nil {
			return []byte(r.Push.Channel), true
		}
	case "push.message.data":
		if r.Push != nil && r.Push.Message != nil {
			return r.Push.Message.Data, true
		}
	case "rpc.data":
		if r.Rpc != nil {
			return r.Rpc.Data, true
		}
	case "error.message":
		if r.Error != nil {
			return []byte(r.Error.Message), true
		}
	case "push.disconnect.reason":
		if r.Push != nil && r.Push.Disconnect != nil {
			return []byte(r.Push.Disconnect.Reason), true
		}
	}
	return nil, false
}

// ---------------------------------------------------------------------------------------------------------
// the catalogue

type jsonPayload struct {
	Class string // byte class: what is special about the bytes
	What  string
	Data  string
}

func jsonCatalogue() []jsonPayload {
	big := strings.Repeat("x", 100*1024)
	return []jsonPayload{
		{"plain", "single-line object", `{"a":1,"b":"x"}`},
		{"empty-object", "empty object", `{}`},
		{"scalar-number", "a number", `123`},
		{"scalar-string", "a string", `"x"`},
		{"raw-LF", "LF between tokens", "{\"a\":1,\n\"b\":2}"},
		{"raw-LF", "LF first", "\n{\"a\":1}"},
		{"raw-LF", "LF last", "{\"a\":1}\n"},
		{"raw-LF", "pretty printed", "{\n  \"a\": [\n    1,\n    2\n  ],\n  \"d\": \"x\"\n}"},
		{"raw-CR", "CR between tokens", "{\"a\":1,\r\"b\":2}"},
		{"raw-CR", "CR first", "\r{\"a\":1}"},
		{"raw-CR", "CR last", "{\"a\":1}\r"},
		{"raw-CR", "CR before the colon (rest of the line looks like a comment)", "{\"a\"\r:1}"},
		{"raw-CR", "CR inside an array", "[1,\r2]"},
		{"raw-CR", "CR before a member named data", "{\"a\":1,\r\"data\":2}"},
		{"raw-CRCR", "two CR", "{\"a\":1,\r\r\"b\":2}"},
		{"raw-CRLF", "CRLF between tokens", "{\"a\":1,\r\n\"b\":2}"},
		{"raw-CRLF", "pretty printed with CRLF", "{\r\n  \"a\": 1,\r\n  \"d\": \"x\"\r\n}"},
		{"raw-LFCR", "LF CR between tokens", "{\"a\":1,\n\r\"b\":2}"},
		{"raw-TAB", "TAB between tokens", "{\"a\":\t1}"},
		{"raw-SP", "spaces first and between tokens", "  { \"a\" : 1 }  "},
		{"escaped-LF", "escaped LF in a string", `{"a":"x\ny"}`},
		{"escaped-CR", "escaped CR in a string", `{"a":"x\ry\r\nz"}`},
		{"escaped-LF", "\\u000a and \\u000d in a string", `{"a":"x\u000ay\u000dz"}`},
		{"backslash", "literal backslash followed by n", `{"a":"x\\ny"}`},
		{"colon", "colons and spaces in strings", `{"a":":x: y","d":" : "}`},
		{"colon", "a string starting with a colon", `":x"`},
		{"data-prefix", "strings that look like SSE fields", `{"data: ":"data: x","event":"id: 1","retry":"1"}`},
		{"data-prefix", "a string that is exactly a field line", `"data: x"`},
		{"quotes", "nested quotes", `{"a":"say \"hi\" {\"d\":1}"}`},
		{"unicode-separators", "U+2028, U+2029, U+0085 raw in a string", "{\"a\":\"x\u2028y\u2029z\u0085w\"}"},
		{"html", "characters the encoder escapes in its own strings", `{"a":"<b>&</b>"}`},
		{"large", "100 KiB string", `{"a":"` + big + `"}`},
		{"large-raw-LF", "100 KiB with LF between tokens", "{\"a\":\"" + big + "\",\n\"b\":2}"},
		{"raw-CR-large", "100 KiB with CR between tokens", "{\"a\":\"" + big + "\",\r\"b\":2}"},
	}
}

// odd strings for fields the encoder writes as JSON strings (channel, error message, tags, disconnect reason)
func oddStrings() []jsonPayload {
	return []jsonPayload{
		{"str-CR", "CR in a string field", "x\ry"},
		{"str-LF", "LF in a string field", "x\ny"},
		{"str-CRLF", "CRLF in a string field", "x\r\ny\r\n"},
		{"str-colon-space", "leading colon / space / data:", ": x"},
		{"str-data-prefix", "looks like a field line", "data: x"},
		{"str-quotes", "quotes and backslashes", `q"q\n\`},
		{"str-unicode-separators", "U+2028 U+0085", "x\u2028y\u0085z"},
	}
}

func pbCatalogue() [][2]any {
	all := make([]byte, 256)
	for i := range all {
		all[i] = byte(i)
	}
	return [][2]any{
		{"empty", []byte{}},
		{"LF", []byte("a\nb")},
		{"CR", []byte("a\rb\r\n")},
		{"only-LF", []byte("\n\n\n")},
		{"high-bit", []byte{0x80, 0xff, 0x81, 0x00, 0x7f}},
		{"looks-like-prefix", []byte{0x03, 'a', 'b', 'c', 0x80, 0x01}},
		{"all-bytes", all},
		{"json-with-CR", []byte("{\"a\":1,\r\"b\":2}")},
	}
}

// randomJSON: a random JSON text with random insignificant whitespace (SP, TAB, LF, CR, CRLF) at every token
// boundary; strings carry escapes and characters that matter to line-oriented framings.
func randomJSON(r *rand.Rand, cr bool) []byte {
	var b bytes.Buffer
	wsSet := []string{"", "", " ", "\t", "\n", "  \n "}
	if cr {
		wsSet = append(wsSet, "\r", "\r\n", "\n\r", " \r ")
	}
	ws := func() { b.WriteString(wsSet[r.Intn(len(wsSet))]) }
	strs := []string{`"x"`, `"data: x"`, `": x"`, `" d"`, `"a\nb"`, `"a\rb"`, `"q\"q"`, `"\\n"`, `"\u000d\u000a"`, `"{\"d\":1}"`, "\"x\u2028y\"", `""`, `"event"`, `"id"`}
	var val func(depth int)
	val = func(depth int) {
		k := r.Intn(6)
		if depth >= 3 && k < 2 {
			k += 2
		}
		switch k {
		case 0:
			b.WriteByte('{')
			ws()
			n := r.Intn(4)
			for i := 0; i < n; i++ {
				if i > 0 {
					b.WriteByte(',')
					ws()
				}
				b.WriteString(strs[r.Intn(len(strs))])
				ws()
				b.WriteByte(':')
				ws()
				val(depth + 1)
				ws()
			}
			b.WriteByte('}')
		case 1:
			b.WriteByte('[')
			ws()
			n := r.Intn(4)
			for i := 0; i < n; i++ {
				if i > 0 {
					b.WriteByte(',')
					ws()
				}
				val(depth + 1)
				ws()
			}
			b.WriteByte(']')
		case 2:
			b.WriteString(strs[r.Intn(len(strs))])
		case 3:
			fmt.Fprintf(&b, "%d", r.Intn(2000)-1000)
		case 4:
			b.WriteString([]string{"true", "false", "1.5e3", "-0.25"}[r.Intn(4)])
		default:
			b.WriteString(strs[r.Intn(len(strs))])
		}
	}
	ws()
	b.WriteByte('{')
	ws()
	b.WriteString(`"v"`)
	ws()
	b.WriteByte(':')
	ws()
	val(0)
	ws()
	b.WriteByte('}')
	ws()
	return b.Bytes()
}

func buildScenarios(thorough bool) []*scenario {
	var out []*scenario
	n := 0
	id := func() string { n++; return fmt.Sprintf("s%03d", n) }
	jsonTransports := []string{"sse-get", "sse-post", "hs-json"}
	rnd := rand.New(rand.NewSource(vh.Seed()))
	// 0. seed dependent: random JSON texts with random whitespace between tokens, many per connection (the
	//    class, hence the signature, only says whether raw CR was allowed among the whitespace)
	nRandom := 25
	if thorough {
		nRandom = 400
	}
	for _, tr := range jsonTransports {
		for _, cr := range []bool{false, true} {
			sc := &scenario{ID: id(), Transport: tr, Class: "random-whitespace", Field: "payload", Channel: "ch", What: fmt.Sprintf("seed %d", vh.Seed())}
			if cr {
				sc.Class = "raw-CR-random-whitespace"
			}
			for i := 0; i < nRandom; i++ {
				d := randomJSON(rnd, cr)
				if cr && bytes.IndexByte(d, '\r') < 0 {
					d = append(d, '\r')
				}
				if !json.Valid(d) {
					panic(fmt.Sprintf("generator produced invalid JSON %q", d))
				}
				sc.Actions = append(sc.Actions, action{Kind: "publish", Channel: "ch", Data: d})
				sc.Expect = append(sc.Expect, expectation{Path: "push.pub.data", Want: d})
			}
			out = append(out, sc)
		}
	}
	// 1. every payload class in the publication data, one connection each
	for _, tr := range jsonTransports {
		for _, p := range jsonCatalogue() {
			if tr == "sse-post" && !thorough && !strings.Contains(p.Class, "CR") && p.Class != "plain" {
				continue // POST shares the write path with GET: quick tier keeps the CR classes and one plain
			}
			d := []byte(p.Data)
			out = append(out, &scenario{ID: id(), Transport: tr, Class: p.Class, Field: "payload", What: p.What, Channel: "ch",
				Actions: []action{{Kind: "publish", Channel: "ch", Data: d}, {Kind: "publish", Channel: "ch", Data: []byte(`{"after":1}`)}},
				Expect:  []expectation{{Path: "push.pub.data", Want: d}, {Path: "push.pub.data", Want: []byte(`{"after":1}`)}}})
		}
	}
	// 2. the same byte classes in the other raw JSON fields
	others := []jsonPayload{{"plain", "", `{"a":1}`}, {"raw-LF", "", "{\"a\":1,\n\"b\":2}"}, {"raw-CR", "", "{\"a\":1,\r\"b\":2}"}, {"raw-CRLF", "", "{\"a\":1,\r\n\"b\":2}"}}
	for _, tr := range []string{"sse-get", "hs-json"} {
		for _, p := range others {
			d := []byte(p.Data)
			out = append(out,
				&scenario{ID: id(), Transport: tr, Class: p.Class, Field: "connect-data", Channel: "ch", ConnData: d,
					Expect: []expectation{{Path: "connect.data", Want: d}}},
				&scenario{ID: id(), Transport: tr, Class: p.Class, Field: "subscribe-data", Channel: "ch", SubData: d,
					Expect: []expectation{{Path: "connect.subs.data", Want: d}}},
				&scenario{ID: id(), Transport: tr, Class: p.Class, Field: "conn-info", Channel: "ch",
					Actions: []action{{Kind: "publish-info", Channel: "ch", Data: []byte(`{"a":1}`), Info: d}},
					Expect:  []expectation{{Path: "push.pub.info.conn_info", Want: d}}},
				&scenario{ID: id(), Transport: tr, Class: p.Class, Field: "message-data",
					Actions: []action{{Kind: "send", Data: d}},
					Expect:  []expectation{{Path: "push.message.data", Want: d}}},
				&scenario{ID: id(), Transport: tr, Class: p.Class, Field: "rpc-result",
					Actions: []action{{Kind: "rpc-ok", Data: d}},
					Expect:  []expectation{{Path: "rpc.data", Want: d}}},
			)
		}
		// 3. string fields: the encoder escapes them
		for _, p := range oddStrings() {
			s := p.Data
			out = append(out,
				&scenario{ID: id(), Transport: tr, Class: p.Class, Field: "channel", Channel: s,
					Actions: []action{{Kind: "publish", Channel: s, Data: []byte(`{"a":1}`)}},
					Expect:  []expectation{{Path: "push.channel", Want: []byte(s), Str: true}}},
				&scenario{ID: id(), Transport: tr, Class: p.Class, Field: "tags", Channel: "ch",
					Actions: []action{{Kind: "publish-tags", Channel: "ch", Data: []byte(`{"a":1}`), Str: s}},
					Expect:  []expectation{{Path: "push.pub.tags.t", Want: []byte(s), Str: true}}},
				&scenario{ID: id(), Transport: tr, Class: p.Class, Field: "error-message",
					Actions: []action{{Kind: "rpc-err", Str: s}},
					Expect:  []expectation{{Path: "error.message", Want: []byte(s), Str: true}}},
				&scenario{ID: id(), Transport: tr, Class: p.Class, Field: "disconnect-reason", Reason: s,
					Expect: []expectation{{Path: "push.disconnect.reason", Want: []byte(s), Str: true}}},
			)
		}
	}
	// 4. several messages per flush (write delay lets the writer coalesce), all payloads of the catalogue that
	//    the as-is framing is expected to carry, plus a second connection with the CR classes
	for _, tr := range jsonTransports {
		for _, cr := range []bool{false, true} {
			sc := &scenario{ID: id(), Transport: tr, Class: "batch", Field: "payload", Channel: "ch", Delay: 30 * time.Millisecond}
			if cr {
				sc.Class = "raw-CR-batch"
			}
			for _, p := range jsonCatalogue() {
				isCR := strings.HasPrefix(p.Class, "raw-") && strings.Contains(p.Class, "CR")
				if isCR != cr || strings.Contains(p.Class, "large") {
					continue
				}
				d := []byte(p.Data)
				sc.Actions = append(sc.Actions, action{Kind: "publish", Channel: "ch", Data: d})
				sc.Expect = append(sc.Expect, expectation{Path: "push.pub.data", Want: d})
			}
			out = append(out, sc)
		}
		// 5. pings (server initiated, go through the same writer)
		out = append(out, &scenario{ID: id(), Transport: tr, Class: "ping", Field: "frame", Ping: true,
			Actions: []action{{Kind: "wait-pings"}}})
	}
	// 6. Protobuf over http_stream: arbitrary bytes, varint boundaries of the MESSAGE length
	for _, p := range pbCatalogue() {
		d := p[1].([]byte)
		out = append(out, &scenario{ID: id(), Transport: "hs-pb", Class: p[0].(string), Field: "payload", Channel: "ch",
			Actions: []action{{Kind: "publish", Channel: "ch", Data: d}, {Kind: "publish", Channel: "ch", Data: []byte("after")}},
			Expect:  []expectation{{Path: "push.pub.data", Want: d}, {Path: "push.pub.data", Want: []byte("after")}}})
	}
	for _, p := range pbCatalogue()[:4] {
		d := p[1].([]byte)
		out = append(out,
			&scenario{ID: id(), Transport: "hs-pb", Class: p[0].(string), Field: "connect-data", Channel: "ch", ConnData: d,
				Expect: []expectation{{Path: "connect.data", Want: d}}},
			&scenario{ID: id(), Transport: "hs-pb", Class: p[0].(string), Field: "message-data",
				Actions: []action{{Kind: "send", Data: d}}, Expect: []expectation{{Path: "push.message.data", Want: d}}},
			&scenario{ID: id(), Transport: "hs-pb", Class: p[0].(string), Field: "rpc-result",
				Actions: []action{{Kind: "rpc-ok", Data: d}}, Expect: []expectation{{Path: "rpc.data", Want: d}}},
		)
	}
	for _, p := range oddStrings()[:3] {
		s := p.Data
		out = append(out,
			&scenario{ID: id(), Transport: "hs-pb", Class: p.Class, Field: "channel", Channel: s,
				Actions: []action{{Kind: "publish", Channel: s, Data: []byte("x")}},
				Expect:  []expectation{{Path: "push.channel", Want: []byte(s), Str: true}}},
			&scenario{ID: id(), Transport: "hs-pb", Class: p.Class, Field: "error-message",
				Actions: []action{{Kind: "rpc-err", Str: s}}, Expect: []expectation{{Path: "error.message", Want: []byte(s), Str: true}}},
			&scenario{ID: id(), Transport: "hs-pb", Class: p.Class, Field: "disconnect-reason", Reason: s,
				Expect: []expectation{{Path: "push.disconnect.reason", Want: []byte(s), Str: true}}},
		)
	}
	// message lengths around the varint boundaries: payload sizes chosen so that the encoded reply crosses
	// 127/128 and 16383/16384 (the envelope adds a constant number of bytes; a window covers it)
	windows := [][2]int{{100, 132}, {16340, 16390}}
	if thorough {
		windows = [][2]int{{90, 140}, {16300, 16400}}
	}
	for _, wdw := range windows {
		sc := &scenario{ID: id(), Transport: "hs-pb", Class: fmt.Sprintf("length-%d-%d", wdw[0], wdw[1]), Field: "payload", Channel: "ch"}
		batch := &scenario{ID: id(), Transport: "hs-pb", Class: fmt.Sprintf("length-%d-%d-batch", wdw[0], wdw[1]), Field: "payload", Channel: "ch", Delay: 30 * time.Millisecond}
		for sz := wdw[0]; sz <= wdw[1]; sz++ {
			d := make([]byte, sz)
			for i := range d {
				d[i] = byte(rnd.Intn(256))
				if i%5 == 0 {
					d[i] = '\n'
				}
			}
			for _, s := range []*scenario{sc, batch} {
				s.Actions = append(s.Actions, action{Kind: "publish", Channel: "ch", Data: d})
				s.Expect = append(s.Expect, expectation{Path: "push.pub.data", Want: d})
			}
		}
		out = append(out, sc, batch)
	}
	out = append(out, &scenario{ID: id(), Transport: "hs-pb", Class: "ping", Field: "frame", Ping: true, Actions: []action{{Kind: "wait-pings"}}})
	// connections run concurrently on one node: every scenario gets its own channel
	for _, sc := range out {
		sfx := "-" + sc.ID
		if sc.Channel != "" {
			sc.Channel += sfx
		}
		for i := range sc.Actions {
			if sc.Actions[i].Channel != "" {
				sc.Actions[i].Channel += sfx
			}
		}
		for i := range sc.Expect {
			if sc.Expect[i].Path == "push.channel" {
				sc.Expect[i].Want = []byte(string(sc.Expect[i].Want) + sfx)
			}
		}
	}
	return out
}

func replay(inRaw json.RawMessage, res *vh.Result) error {
	var in replayIn
	if err := json.Unmarshal(inRaw, &in); err != nil {
		return err
	}
	w, err := newWorld()
	if err != nil {
		return err
	}
	defer w.close()
	scs := buildScenarios(vh.Thorough())
	outcomes := make([]outcome, len(scs))
	wires := make([]*wireRec, len(scs))
	// scenarios are independent connections: run a few at a time
	sem := make(chan struct{}, 8)
	var wg sync.WaitGroup
	for i, sc := range scs {
		wg.Add(1)
		sem <- struct{}{}
		go func(i int, sc *scenario) {
			defer wg.Done()
			defer func() { <-sem }()
			defer func() {
				if p := recover(); p != nil {
					res.Drift("C32", fmt.Sprintf("panic in scenario %s: %v", sc.ID, p), sc.ID)
				}
			}()
			outcomes[i], wires[i] = w.runScenario(sc, res, &in)
		}(i, sc)
	}
	wg.Wait()
	covered := map[int]bool{}
	var wl []*wireRec
	for i, sc := range scs {
		o := outcomes[i]
		res.Done(1, 1)
		res.Count("messages", o.NMsgs)
		res.Distinct(o.Sig)
		for _, a := range o.Raw {
			covered[a] = true
		}
		for _, a := range sc.Actions { // classes in what was PUBLISHED (LF does not survive the encoder)
			for _, al := range in.Alphabet {
				if bytes.IndexByte(a.Data, byte(al)) >= 0 || bytes.IndexByte(a.Info, byte(al)) >= 0 {
					covered[al] = true
				}
			}
		}
		if !o.OK && len(o.Problems) > 0 {
			kinds := map[string]bool{}
			for _, p := range o.Problems {
				kinds[strings.SplitN(p, ":", 2)[0]] = true
			}
			what := fmt.Sprintf("%s %s: %s in %s (%s): %s", sc.tname(), sc.proto(), sc.Class, sc.Field, sc.What, strings.Join(o.Problems, "; "))
			suffix := ""
			if kinds["held-back"] && len(kinds) == 1 {
				suffix = "held-back"
			}
			res.Violate("C32", sc.sig(suffix), what, map[string]any{"scenario": sc.ID, "transport": sc.Transport, "class": sc.Class, "field": sc.Field,
				"actions": describe(sc), "problems": o.Problems})
		}
		if wires[i] != nil {
			wl = append(wl, wires[i])
		}
		if i < 3 {
			res.Sample(map[string]any{"scenario": sc.ID, "transport": sc.Transport, "class": sc.Class, "field": sc.Field, "messages": o.NMsgs, "ok": o.OK})
		}
	}
	for _, a := range in.Alphabet {
		if !covered[a] {
			res.Drift("C32", fmt.Sprintf("byte class %d enumerated by TLC does not occur in any published payload", a), nil)
		}
	}
	res.Extra["outcomes"] = outcomes
	res.Extra["wires"] = wl
	return nil
}

func describe(sc *scenario) []string {
	var out []string
	for _, a := range sc.Actions {
		out = append(out, fmt.Sprintf("%s ch=%q data=%q info=%q str=%q", a.Kind, a.Channel, clip(a.Data), clip(a.Info), a.Str))
	}
	return out
}

// ---------------------------------------------------------------------------------------------------------
// stall mode: a connection whose ResponseWriter.Write is stalled BEFORE it has consumed its argument, while
// another connection of the same transport gets a message through. The bytes handed to Write belong to the
// stalled connection until Write returns: whatever the handler does meanwhile for other connections (pooled
// encoders / buffers) must not change them. In process, real handler, own http.ResponseWriter.

type gateWriter struct {
	hdr     http.Header
	mu      sync.Mutex
	p       parser
	body    []byte
	armed   bool
	entered chan struct{} // Write was called while armed (argument not read yet)
	release chan struct{}
	notify  chan struct{}
}

func newGateWriter(kind string) *gateWriter {
	return &gateWriter{hdr: http.Header{}, p: newParser(kind), entered: make(chan struct{}, 1), release: make(chan struct{}), notify: make(chan struct{}, 1)}
}

func (g *gateWriter) Header() http.Header { return g.hdr }
func (g *gateWriter) WriteHeader(int)     {}
func (g *gateWriter) Flush()              {}

// the handlers set write deadlines through http.ResponseController
func (g *gateWriter) SetWriteDeadline(time.Time) error { return nil }

func (g *gateWriter) Write(b []byte) (int, error) {
	g.mu.Lock()
	armed := g.armed
	g.armed = false
	g.mu.Unlock()
	if armed {
		g.entered <- struct{}{}
		<-g.release // the argument has not been looked at yet
	}
	g.mu.Lock()
	g.body = append(g.body, b...)
	g.p.Write(b)
	g.mu.Unlock()
	select {
	case g.notify <- struct{}{}:
	default:
	}
	return len(b), nil
}

func (g *gateWriter) arm() {
	g.mu.Lock()
	g.armed = true
	g.mu.Unlock()
}

func (g *gateWriter) records() [][]byte {
	g.mu.Lock()
	defer g.mu.Unlock()
	return append([][]byte{}, g.p.Records()...)
}

func (g *gateWriter) waitRecords(n int, d time.Duration) bool {
	deadline := time.After(d)
	for {
		if len(g.records()) >= n {
			return true
		}
		select {
		case <-g.notify:
		case <-time.After(10 * time.Millisecond):
		case <-deadline:
			return len(g.records()) >= n
		}
	}
}

type stallConn struct {
	name   string
	gw     *gateWriter
	cs     *connState
	cancel context.CancelFunc
	done   chan struct{}
}

func (w *world) stallConnect(transport, name string, res *vh.Result) (*stallConn, error) {
	sc := &scenario{ID: name, Transport: transport, Class: "stalled-write", Field: "payload", Channel: "ch-" + name}
	cs := &connState{sc: sc, ready: make(chan struct{})}
	w.mu.Lock()
	w.conns[name] = cs
	w.mu.Unlock()
	cmd := &protocol.Command{Id: 1, Connect: &protocol.ConnectRequest{Name: name}}
	var body []byte
	kind := "nd"
	var h http.Handler
	switch transport {
	case "hs-pb":
		kind = "pb"
		body, _ = protocol.NewProtobufCommandEncoder().Encode(cmd)
		h = centrifuge.NewHTTPStreamHandler(w.node, centrifuge.HTTPStreamConfig{})
	case "hs-json":
		body, _ = json.Marshal(cmd)
		h = centrifuge.NewHTTPStreamHandler(w.node, centrifuge.HTTPStreamConfig{})
	case "sse-post":
		kind = "es"
		body, _ = json.Marshal(cmd)
		h = centrifuge.NewSSEHandler(w.node, centrifuge.SSEConfig{})
	}
	ctx, cancel := context.WithCancel(context.Background())
	req := httptest.NewRequest(http.MethodPost, "/x", bytes.NewReader(body)).WithContext(ctx)
	if transport == "hs-pb" {
		req.Header.Set("Content-Type", "application/octet-stream")
	}
	c := &stallConn{name: name, gw: newGateWriter(kind), cs: cs, cancel: cancel, done: make(chan struct{})}
	go func() {
		defer close(c.done)
		h.ServeHTTP(c.gw, req)
	}()
	select {
	case <-cs.ready:
	case <-time.After(writeWait):
		cancel()
		return nil, fmt.Errorf("%s did not connect", name)
	}
	if !c.gw.waitRecords(1, writeWait) {
		cancel()
		return nil, fmt.Errorf("%s: no connect reply", name)
	}
	return c, nil
}

func pubData(transport string, rec []byte) (string, []byte, error) {
	rep := &protocol.Reply{}
	if transport == "hs-pb" {
		if err := rep.UnmarshalVT(rec); err != nil {
			return "", nil, err
		}
	} else {
		r, err := protocol.NewJSONReplyDecoder(rec).Decode()
		if err != nil {
			return "", nil, err
		}
		rep = r
	}
	if rep.Push == nil || rep.Push.Pub == nil {
		return "", nil, errors.New("not a publication")
	}
	return rep.Push.Channel, rep.Push.Pub.Data, nil
}

func stall(inRaw json.RawMessage, res *vh.Result) error {
	var in struct {
		Rounds int `json:"rounds"`
	}
	if err := json.Unmarshal(inRaw, &in); err != nil {
		return err
	}
	if in.Rounds <= 0 {
		in.Rounds = 20
	}
	// one P: a sync.Pool hands an object put back by one goroutine to the next goroutine that asks (per-P
	// private slot), which is what makes reuse of a pooled buffer by the other connection deterministic
	prev := runtime.GOMAXPROCS(1)
	defer runtime.GOMAXPROCS(prev)
	w, err := newWorld()
	if err != nil {
		return err
	}
	defer w.close()
	rnd := rand.New(rand.NewSource(vh.Seed()))
	for _, transport := range []string{"hs-pb", "hs-json", "sse-post"} {
		sc := &scenario{Transport: transport, Class: "stalled-write", Field: "payload"}
		a, err := w.stallConnect(transport, "stall-a-"+transport, res)
		if err != nil {
			res.Drift("C32", "stall probe: "+err.Error(), nil)
			continue
		}
		b, err := w.stallConnect(transport, "stall-b-"+transport, res)
		if err != nil {
			a.cancel()
			res.Drift("C32", "stall probe: "+err.Error(), nil)
			continue
		}
		conns := [2]*stallConn{a, b}
		for round := 0; round < in.Rounds; round++ {
			st, other := conns[round%2], conns[(round+1)%2] // the stalled connection alternates
			n := 8 + rnd.Intn(300)
			mk := func(tag byte) []byte {
				if transport == "hs-pb" {
					d := bytes.Repeat([]byte{tag}, n)
					d[0], d[n-1] = byte(round), '\n'
					return d
				}
				return []byte(fmt.Sprintf(`{"who":"%s","round":%d}`, strings.Repeat(string(tag), n), round))
			}
			mine, theirs := mk('S'), mk('O') // same length
			nSt, nOther := len(st.gw.records()), len(other.gw.records())
			st.gw.arm()
			if _, err := w.node.Publish(st.cs.sc.Channel, mine); err != nil {
				return err
			}
			select {
			case <-st.gw.entered:
			case <-time.After(writeWait):
				res.Drift("C32", fmt.Sprintf("stall probe %s round %d: Write of the stalled connection never entered", transport, round), nil)
				continue
			}
			if _, err := w.node.Publish(other.cs.sc.Channel, theirs); err != nil {
				return err
			}
			otherOK := other.gw.waitRecords(nOther+1, writeWait)
			st.gw.release <- struct{}{}
			if !otherOK {
				res.Drift("C32", fmt.Sprintf("stall probe %s round %d: the other connection did not get its message while one Write was stalled", transport, round), nil)
				continue
			}
			if !st.gw.waitRecords(nSt+1, writeWait) {
				res.Violate("C32", sc.sig("lost"), fmt.Sprintf("%s: the message of a connection whose Write was stalled never arrived as a record (round %d)", transport, round), map[string]any{"transport": transport, "round": round})
				continue
			}
			for _, chk := range []struct {
				c    *stallConn
				idx  int
				want []byte
				who  string
			}{{st, nSt, mine, "stalled"}, {other, nOther, theirs, "other"}} {
				rec := chk.c.gw.records()[chk.idx]
				ch, data, err := pubData(transport, rec)
				same := err == nil && ch == chk.c.cs.sc.Channel
				if same {
					if transport == "hs-pb" {
						same = bytes.Equal(data, chk.want)
					} else {
						var x, y any
						same = json.Unmarshal(data, &x) == nil && json.Unmarshal(chk.want, &y) == nil && reflect.DeepEqual(x, y)
					}
				}
				if !same {
					res.Violate("C32", sc.sig(""), fmt.Sprintf("%s: connection A's ResponseWriter.Write was stalled before consuming its argument while connection B received a message; "+
						"the %s connection then received a record that is not its message: channel %q data %q (err %v), expected channel %q data %q (round %d)",
						transport, chk.who, ch, clip(data), err, chk.c.cs.sc.Channel, clip(chk.want), round),
						map[string]any{"transport": transport, "round": round, "stalled": st.name, "length": n})
				}
			}
			res.Done(1, 1)
			res.Distinct(fmt.Sprintf("%s/%d", transport, round))
		}
		for _, c := range conns {
			c.cancel()
			select {
			case <-c.done:
			case <-time.After(writeWait):
				res.Drift("C32", "stall probe: handler did not return after its request context was cancelled", nil)
			}
		}
	}
	return nil
}

func main() { vh.Main(map[string]vh.Mode{"table": table, "replay": replay, "stall": stall}) }
