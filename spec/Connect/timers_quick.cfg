SPECIFICATION Spec
CONSTANTS
  MaxNow = 4
  MaxActs = 5
  CfgSet <- CfgAllT
  ServerZeroRearms = FALSE
VIEW View
INVARIANTS TypeOK
PROPERTIES C36_Pong C36_Stale C36_Expire C36_OnlyTimers C36_Sub C36_SubOnlyTicks
CHECK_DEADLOCK FALSE
