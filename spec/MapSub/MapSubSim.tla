----------------------------- MODULE MapSubSim -----------------------------
(* Behaviour generator for the replay (TLC -simulate): the same actions as MapSub.  TLC's simulator picks uniformly
   among the successor STATES; the environment has up to eight distinct successors against one protocol step and one
   delivery, so with the plain Next all environment operations would fire in the first few steps.  Here the protocol
   step and the delivery contribute WP / WD distinct successors each (the slot variable w makes them distinct), which
   spreads the environment operations over the whole protocol; publishes get WU slots per key so that most
   operations are updates (removals, expiries, Clear and sub refresh one each). *)
EXTENDS MapSub

CONSTANTS WP, WD, WU
VARIABLE w
simvars == <<vars, w>>

Proto == StateCmd \/ StateLast \/ StateDecide \/ StreamCmd \/ StreamDecide \/ JoinCmd \/ TransRead \/ TransFinish \/ TransStop \/ Snapshot \/ Resub
Env   == \/ \E k \in Keys : RemoveKey(k) \/ KeyExpiry(k)
         \/ StreamExpiry \/ Clear
         \/ \E c \in BOOLEAN : SubRefresh(c)

SimNext == IF Unblocking THEN Unblock /\ w' = 0 ELSE
           \/ \E s \in 1..WP : Proto /\ w' = s
           \/ \E s \in 1..WD : (Deliver \/ DeliverBlocked) /\ w' = s
           \/ \E s \in 1..2 : PosCheck /\ w' = s
           \/ \E s \in 1..WU, k \in Keys : Publish(k) /\ w' = s
           \/ Env /\ w' = 0
           \/ \E s \in 1..4, t \in {"stream", "join", "state"} : Jump(t) /\ w' = s

SimSpec == Init /\ w = 0 /\ [][SimNext]_simvars
=============================================================================
