SPECIFICATION Spec
CONSTANTS
  Alphabet = {"_", "p", "d", "j", "l", "0", "1", "2", ":", "-", "x"}
  MaxAll = 5
  MaxTail = 5
  TailChars = {"0", "1", "2", ":", "-", "x", "_"}
  MaxPTail = 6
  MaxDTail = 6
  MaxD2Tail = 7
  MaxD3Tail = 6
  PayChars = {":", "_", "1", "x", "-"}
  MaxPay = 3
  MaxDeltaPay = 2
  EpochChars = {"x", "2", "-"}
  MaxEpoch = 2
  Offs = {0, 1, 2, 10, 12, 201}
  MaxBasePay = 2
  BaseOffs = {0, 1, 12}
  SubstChars = {"_", ":", "0", "1", "2", "-", "x", "p"}
INVARIANTS Total RoundTrip Canonical
CHECK_DEADLOCK FALSE
