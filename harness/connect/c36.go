// C36: replay of spec/Connect/ConnTimers behaviours. One node per behaviour (its own harness TimerScheduler);
// ping / pong / presence / stale timers are fired when the behaviour says, a model Tick is one REAL second
// (connection expiry compares time.Now().Unix(), subscription expiry the node's clock), actions run mid-second.
// A behaviour whose actions could not be placed inside their second (loaded machine) is discarded, not judged.
package main

import (
	"context"
	"encoding/json"
	"fmt"
	"sync"
	"sync/atomic"
	"time"

	"github.com/centrifugal/centrifuge"
	"github.com/centrifugal/protocol"

	"verifharness/cl"
	"verifharness/vh"
)

type cfg36 struct {
	Ping bool `json:"ping"`
	Pong bool `json:"pong"`
	E    int  `json:"E"`
	CSR  bool `json:"csr"`
	S    int  `json:"S"`
	SCSR bool `json:"scsr"`
}

type f36 struct {
	T    string `json:"t"`
	Code int    `json:"code"`
}

type run36 struct {
	cfg  cfg36
	env  *cl.Env
	sch  *sched
	conn *cl.Conn
	t    *cl.Transport
	ch   string

	mu   sync.Mutex
	mode string // scripted answer of the next handler invocation
	log  []string
}

func (r *run36) logCB(k string) {
	r.mu.Lock()
	r.log = append(r.log, k)
	r.mu.Unlock()
}

func (r *run36) cbLog() []string {
	r.mu.Lock()
	defer r.mu.Unlock()
	return append([]string(nil), r.log...)
}

func (r *run36) getMode() string {
	r.mu.Lock()
	defer r.mu.Unlock()
	return r.mode
}

func (r *run36) setMode(m string) {
	r.mu.Lock()
	r.mode = m
	r.mu.Unlock()
}

func newRun36(c cfg36) (*run36, error) {
	r := &run36{cfg: c, sch: &sched{}}
	env, err := cl.NewEnv(centrifuge.Config{
		LogLevel:                     centrifuge.LogLevelNone,
		ClientTimerScheduler:         r.sch,
		ClientPresenceUpdateInterval: 10 * time.Hour,
		ClientStaleCloseDelay:        10 * time.Hour,
		ClientExpiredCloseDelay:      time.Second,
		ClientExpiredSubCloseDelay:   time.Second,
	})
	if err != nil {
		return nil, err
	}
	r.env = env
	env.OnConnecting = func(_ context.Context, _ centrifuge.ConnectEvent) (centrifuge.ConnectReply, error) {
		switch r.getMode() {
		case "err":
			return centrifuge.ConnectReply{}, centrifuge.ErrorUnauthorized
		case "sserr":
			// accepted, but the connect-time server-side subscription is already expired: error reply after
			// the connection authenticated and was registered
			return centrifuge.ConnectReply{Credentials: &centrifuge.Credentials{UserID: "u"},
				Subscriptions: map[string]centrifuge.SubscribeOptions{"ss36": {ExpireAt: time.Now().Unix() - 10}}}, nil
		}
		cred := &centrifuge.Credentials{UserID: "u"}
		if c.E > 0 {
			cred.ExpireAt = time.Now().Unix() + int64(c.E)
		}
		return centrifuge.ConnectReply{Credentials: cred, ClientSideRefresh: c.CSR}, nil
	}
	env.OnSubscribe = func(_ *centrifuge.Client, _ centrifuge.SubscribeEvent, cb centrifuge.SubscribeCallback) {
		opts := centrifuge.SubscribeOptions{}
		if c.S > 0 {
			opts.ExpireAt = time.Now().Unix() + int64(c.S)
		}
		cb(centrifuge.SubscribeReply{Options: opts, ClientSideRefresh: c.SCSR}, nil)
	}
	env.Setup = func(cc *centrifuge.Client) {
		cc.OnAlive(func() { r.logCB("alive") })
		cc.OnRefresh(func(_ centrifuge.RefreshEvent, cb centrifuge.RefreshCallback) {
			r.logCB("refresh")
			switch r.getMode() {
			case "extend":
				cb(centrifuge.RefreshReply{ExpireAt: time.Now().Unix() + 2}, nil)
			case "zero":
				cb(centrifuge.RefreshReply{}, nil)
			case "expired":
				cb(centrifuge.RefreshReply{Expired: true}, nil)
			case "disc":
				cb(centrifuge.RefreshReply{}, handlerDisc)
			default:
				cb(centrifuge.RefreshReply{ExpireAt: time.Now().Unix() + 2}, nil)
			}
		})
		cc.OnSubRefresh(func(_ centrifuge.SubRefreshEvent, cb centrifuge.SubRefreshCallback) {
			r.logCB("sub_refresh")
			switch r.getMode() {
			case "extend":
				cb(centrifuge.SubRefreshReply{ExpireAt: time.Now().Unix() + 2}, nil)
			case "zero":
				cb(centrifuge.SubRefreshReply{}, nil)
			case "past":
				cb(centrifuge.SubRefreshReply{ExpireAt: time.Now().Unix() - 5}, nil)
			case "expired":
				cb(centrifuge.SubRefreshReply{Expired: true}, nil)
			case "err":
				cb(centrifuge.SubRefreshReply{}, handlerErr)
			default:
				cb(centrifuge.SubRefreshReply{ExpireAt: time.Now().Unix() + 2}, nil)
			}
		})
	}
	env.Hook = func(ev cl.Event) {
		switch ev.Kind {
		case "connecting", "connect", "subscribe", "unsubscribe", "disconnect":
			r.logCB(ev.Kind)
		}
	}
	if err := env.Run(); err != nil {
		return nil, err
	}
	return r, nil
}

func (r *run36) frames() []f36 {
	var out []f36
	for _, rep := range r.t.Replies() {
		if isBarrierID(rep.Id) {
			continue
		}
		switch {
		case rep.Error != nil:
			out = append(out, f36{"error", int(rep.Error.Code)})
		case rep.Connect != nil:
			out = append(out, f36{"connect", 0})
		case rep.Subscribe != nil:
			out = append(out, f36{"subscribe", 0})
		case rep.Refresh != nil:
			out = append(out, f36{"refresh", 0})
		case rep.SubRefresh != nil:
			out = append(out, f36{"sub_refresh", 0})
		case rep.Push != nil && rep.Push.Refresh != nil:
			out = append(out, f36{"push_refresh", 0})
		case rep.Push != nil && rep.Push.Unsubscribe != nil:
			out = append(out, f36{"unsub", int(rep.Push.Unsubscribe.Code)})
		case rep.Push != nil && rep.Push.Disconnect != nil:
		case rep.Push == nil && rep.Id == 0:
			out = append(out, f36{"ping", 0})
		default:
			out = append(out, f36{"other:" + cl.Describe(rep), 0})
		}
	}
	if closed, d := r.t.Closed(); closed {
		out = append(out, f36{"disc", int(d.Code)})
	}
	return out
}

func model36(st map[string]any) ([]f36, []string) {
	var out []f36
	for _, x := range vh.List(st["out"]) {
		m := vh.Map(x)
		out = append(out, f36{vh.Str(m["t"]), vh.Int(m["code"])})
	}
	var cb []string
	for _, x := range vh.List(st["cb"]) {
		cb = append(cb, vh.Str(vh.Map(x)["k"]))
	}
	return out, cb
}

var skipped36 atomic.Int64

const inf36 = int64(1) << 60

// run executes one behaviour. Returns false when it had to be discarded for timing reasons.
func (r *run36) run(bi int, beh []map[string]any, res *vh.Result) bool {
	c := r.cfg
	defer r.env.Close()
	r.ch = fmt.Sprintf("c36_%d_%d", vh.Seed(), bi)
	t := cl.NewTransport(centrifuge.ProtocolTypeJSON)
	r.t = t
	if c.Ping {
		pp := centrifuge.PingPongConfig{PingInterval: time.Second, PongTimeout: 400 * time.Millisecond}
		if !c.Pong {
			pp.PongTimeout = -1
		}
		t.SetPing(pp)
	}
	// start mid-second
	now := time.Now()
	t0 := now.Truncate(time.Second).Add(1500 * time.Millisecond)
	time.Sleep(time.Until(t0))
	tick := 0
	timingOK := func() bool {
		// the action must have run inside the second the model assigns it to
		d := time.Since(t0.Add(time.Duration(tick) * time.Second))
		return d > -300*time.Millisecond && d < 350*time.Millisecond
	}
	r.sch.setOwner("c")
	conn, err := r.env.NewConnT("", t)
	if err != nil {
		res.Drift("C36", "NewConn: "+err.Error(), nil)
		res.Done(1, 0)
		return true
	}
	r.conn = conn
	defer conn.Cancel()
	var steps []any
	replay := func() map[string]any {
		return map[string]any{"cfg": c, "steps": steps, "frames": r.frames(), "handler_log": r.cbLog()}
	}
	completed := 1
	drift := func(what string) {
		res.Drift("C36", fmt.Sprintf("%s (behaviour %d, cfg %s)", what, bi, vh.J(c)), replay())
		completed = 0
	}
	violate := func(sig, what string) {
		res.Violate("C36", sig, fmt.Sprintf("%s (behaviour %d, cfg %s)", what, bi, vh.J(c)), replay())
		completed = 0
	}
	// the reference, kept by the harness from its own actions in real unix seconds
	dl, sdl := inf36, inf36
	lastRefresh := "none"
	var fired *vtimer      // dequeued by TimerFire, run by TimerRun
	var diffs []string     // internal differences (timer state) remembered until an observable consequence shows
	failedConnect := false // a connect command was answered with an error reply
	racedRefresh := false  // a refresh was applied between the dequeuing of a timer and the run of its callback
	owed, connected, subLive := false, false, false
	nontrivial := false
	closedCode := func() (bool, int) {
		cl, d := t.Closed()
		return cl, int(d.Code)
	}
	for si := 1; si < len(beh) && completed == 1; si++ {
		st := beh[si]
		step := vh.Map(st["step"])
		act := vh.Str(step["act"])
		steps = append(steps, step)
		mode := sget(step, "mode")
		mo, mcb := model36(st)
		pendingDrift := ""
		fireTimed, fireOK := false, true
		dlBefore := dl
		before := r.frames()
		wasClosed, _ := closedCode()
		nowUnix := time.Now().Unix()
		switch act {
		case "Tick":
			tick++
			time.Sleep(time.Until(t0.Add(time.Duration(tick) * time.Second)))
			// A real scheduler fires a timer when its duration has elapsed. Where the only real-time deadline is the
			// connection's expiry (no pings), a timer the code armed for an EARLIER instant than the model's deadline is
			// fired now, like any scheduler would: closing before the deadline then shows as such.
			if a := r.sch.active("c"); fired == nil && !c.Ping && len(a) == 1 && a[0].d < time.Hour && time.Until(a[0].at.Add(a[0].d)) < 400*time.Millisecond {
				mt := vh.Map(st["tmr"])
				if !(vh.Str(mt["op"]) == "expire" && vh.Int(mt["at"]) <= vh.Int(st["now"])) && timingOK() {
					nowU := time.Now().Unix()
					r.setMode("extend")
					r.sch.fire("c")
					time.Sleep(20 * time.Millisecond)
					if cl, code := closedCode(); cl && code == codeExpired && (dl == inf36 || nowU < dl) {
						steps = append(steps, map[string]any{"act": fmt.Sprintf("the timer armed for %s ran out and was fired", a[0].d)})
						violate("expire:closed-before-deadline:"+lastRefresh, fmt.Sprintf("a timer armed for %s closed the connection as expired although its deadline (last refresh: %s) is %s", a[0].d, lastRefresh, rel(dl, nowU)))
					}
				}
			}
			continue
		case "Connect":
			r.setMode(mode)
			conn.Do(&protocol.Command{Id: conn.NextID(), Connect: &protocol.ConnectRequest{}})
			if mode != "ok" {
				failedConnect = true
			}
			if mode == "ok" {
				connected = true
				if c.E > 0 {
					dl = nowUnix + int64(c.E)
					if c.CSR {
						dl++
					}
				}
			}
		case "Subscribe":
			conn.Do(&protocol.Command{Id: conn.NextID(), Subscribe: &protocol.SubscribeRequest{Channel: r.ch}})
			subLive = true
			if c.S > 0 {
				sdl = nowUnix + int64(c.S) + 1
			}
		case "Pong":
			conn.Do(&protocol.Command{})
			if owed {
				owed = false
			}
		case "ClientRefresh":
			racedRefresh = racedRefresh || (fired != nil && mode == "extend")
			r.setMode(mode)
			conn.Do(&protocol.Command{Id: conn.NextID(), Refresh: &protocol.RefreshRequest{Token: "t"}})
			if c.CSR {
				switch mode {
				case "extend":
					dl = nowUnix + 2 + 1
				case "zero":
					dl = inf36
				}
				lastRefresh = "client-" + mode
			}
			nontrivial = true
		case "ServerRefresh":
			racedRefresh = racedRefresh || (fired != nil && mode == "extend")
			switch mode {
			case "extend":
				_ = conn.Client.Refresh(centrifuge.WithRefreshExpireAt(nowUnix + 2))
				dl = nowUnix + 2 + 1
			case "zero":
				_ = conn.Client.Refresh(centrifuge.WithRefreshExpireAt(0))
				dl = inf36
			case "expired":
				_ = conn.Client.Refresh(centrifuge.WithRefreshExpired(true))
			}
			lastRefresh = "server-" + mode
			nontrivial = true
		case "SubRefresh":
			r.setMode(mode)
			conn.Do(&protocol.Command{Id: conn.NextID(), SubRefresh: &protocol.SubRefreshRequest{Channel: r.ch, Token: "t"}})
			switch mode {
			case "extend":
				sdl = nowUnix + 2 + 1
			case "zero":
				sdl = inf36
			}
			nontrivial = true
		case "TimerFire":
			// the scheduler dequeues the armed timer; its callback runs at the TimerRun step
			fired = nil
			switch a := r.sch.active("c"); len(a) {
			case 1:
				fired = r.sch.take("c")
			case 0:
				// an internal difference (the model has a timer armed, the code has none): remembered; what the
				// connection observably does when the model's deadline passes decides
				diffs = append(diffs, fmt.Sprintf("the model has the %s timer armed, the connection has no timer at all", sget(step, "op")))
			default:
				drift(fmt.Sprintf("expected exactly one armed timer (%s), found %d", sget(step, "op"), len(a)))
				continue
			}
			continue
		case "TimerRun":
			r.setMode(mode)
			ticks0 := ticksDone(conn.Client.ID())
			fireRan := fired != nil
			if fired != nil {
				fired.cb()
			}
			fired = nil
			fireTimed, fireOK = true, timingOK()
			if sget(step, "op") == "presence" && fireRan {
				// the tick runs on its own goroutine: wait for its callbacks and for its end (a tick fired while the
				// previous one is still finishing would be skipped by the code)
				deadline := time.Now().Add(syncWait)
				for len(r.cbLog()) < len(mcb) && time.Now().Before(deadline) {
					time.Sleep(200 * time.Microsecond)
				}
				waitTickDone(conn.Client.ID(), ticks0, syncWait)
			}
			if vh.Str(vh.Map(st["tmr"])["op"]) != "none" && len(vh.List(st["closing"])) == 0 && vh.Str(st["status"]) != "closed" {
				armed := false
				for deadline := time.Now().Add(syncWait); time.Now().Before(deadline); time.Sleep(200 * time.Microsecond) {
					if armed = len(r.sch.active("c")) > 0; armed {
						break
					}
					if cl, _ := t.Closed(); cl {
						break
					}
				}
				if !armed {
					// remembered; judged by what the connection observably does (now or at a later deadline)
					diffs = append(diffs, fmt.Sprintf("no timer armed after the %s callback ran (the model has %s armed)", sget(step, "op"), vh.Str(vh.Map(st["tmr"])["op"])))
				}
			}
			nontrivial = true
		case "CloseRun":
		default:
			drift("unknown action " + act)
			continue
		}
		if (fireTimed && !fireOK) || (!fireTimed && !timingOK()) {
			skipped36.Add(1)
			return false
		}
		// quiescence
		if len(vh.List(st["closing"])) > 0 || vh.Str(st["status"]) == "closed" {
			t.WaitFor(closeWait, func(_ []*protocol.Reply, closed bool) bool { return closed })
		}
		deadline := time.Now().Add(syncWait)
		for len(r.cbLog()) < len(mcb) && time.Now().Before(deadline) {
			time.Sleep(200 * time.Microsecond)
		}
		if cl, _ := t.Closed(); !cl && vh.Str(st["status"]) == "connected" {
			conn.Barrier(syncWait)
			// a push written by a goroutine the step spawned (expired unsubscribe) may still be on its way
			for deadline := time.Now().Add(syncWait); len(r.frames()) < len(mo) && time.Now().Before(deadline); time.Sleep(200 * time.Microsecond) {
			}
			conn.Barrier(syncWait)
		} else if !cl {
			t.WaitFor(syncWait, func(rs []*protocol.Reply, closed bool) bool { return len(rs) >= len(mo) || closed })
		}
		real := r.frames()
		nowClosed, code := closedCode()
		closedNow := nowClosed && !wasClosed
		newUnsub := false
		for _, f := range real[min(len(before), len(real)):] {
			if f.T == "unsub" && f.Code == 2501 {
				newUnsub = true
			}
		}
		// ---- monitors: the action properties of ConnTimers.tla on the real connection
		explicitExpired := mode == "expired" && (act == "ClientRefresh" || act == "ServerRefresh" || (act == "TimerRun" && sget(step, "op") == "expire"))
		if closedNow && code == codeExpired && !explicitExpired && !(dlBefore != inf36 && nowUnix >= dlBefore) && !(act == "TimerRun" && sget(step, "op") == "expire") {
			violate("expire:closed-although-refreshed:"+lastRefresh, fmt.Sprintf("%s closed the connection as expired although its deadline (last refresh: %s) is %s", act, lastRefresh, rel(dlBefore, nowUnix)))
			break
		}
		if act == "TimerRun" && !wasClosed {
			switch sget(step, "op") {
			case "pong":
				if owed && !(closedNow && code == codeNoPong) {
					violate("no-pong:not-closed", fmt.Sprintf("the pong timer fired with the last ping unanswered and the connection was not disconnected with no-pong (closed=%v code=%d)", nowClosed, code))
				}
				if !owed && closedNow {
					violate("no-pong:closed-although-answered", fmt.Sprintf("the pong timer fired after the ping had been answered and the connection was closed with %d", code))
				}
			case "stale":
				if !connected && !(closedNow && code == codeStale) {
					sig, what := "stale:not-closed", "that never authenticated"
					if failedConnect {
						sig, what = "stale:not-closed:after-failed-connect", "whose connect command was answered with an error reply"
					}
					violate(sig, fmt.Sprintf("the stale close delay passed on a connection %s and it was not closed as stale (closed=%v code=%d, timers armed: %d)", what, nowClosed, code, len(r.sch.active("c"))))
				}
				if connected && closedNow {
					violate("stale:closed-authenticated", fmt.Sprintf("the stale timer closed an authenticated connection with %d", code))
				}
			case "expire":
				switch mode {
				case "-":
					past := dl != inf36 && nowUnix >= dl
					if past && !(closedNow && code == codeExpired) {
						sig := "expire:not-closed"
						if racedRefresh {
							sig += ":refresh-between-fire-and-run"
						}
						violate(sig, fmt.Sprintf("the expire timer fired %d s past the connection's deadline and the connection was not closed as expired (closed=%v code=%d)", nowUnix-dl, nowClosed, code))
					}
					if !past && closedNow {
						violate("expire:closed-although-refreshed:"+lastRefresh, fmt.Sprintf("the expire timer closed the connection with %d although its deadline (last refresh: %s) is %s", code, lastRefresh, rel(dl, nowUnix)))
					}
				case "extend", "zero":
					if closedNow {
						violate("expire:closed-although-refreshed:handler-"+mode, fmt.Sprintf("the RefreshHandler refreshed the connection (%s) and it was closed with %d", mode, code))
					} else if mode == "extend" {
						dl = nowUnix + 2
					} else {
						dl = inf36
					}
				default:
					if !closedNow {
						violate("expire:not-closed:handler-"+mode, "the RefreshHandler answered "+mode+" and the connection stayed open")
					}
				}
			case "presence":
				refreshedNow := mode == "extend" || mode == "zero"
				due := subLive && sdl != inf36 && nowUnix > sdl && !refreshedNow
				if due && !newUnsub {
					violate("sub-expire:not-unsubscribed", fmt.Sprintf("a presence tick ran %d s past the subscription's deadline and no expired unsubscribe was sent", nowUnix-sdl))
				}
				if !due && newUnsub {
					violate("sub-expire:unsubscribed-although-valid", fmt.Sprintf("a presence tick unsubscribed the subscription as expired although its deadline is %s (answer %q)", rel(sdl, nowUnix), mode))
				}
				if refreshedNow && subLive && sdl != inf36 && nowUnix > sdl {
					if mode == "extend" {
						sdl = nowUnix + 2 + 1
					} else {
						sdl = inf36
					}
				}
				if newUnsub {
					subLive = false
				}
			}
		} else {
			if closedNow && code == codeExpired && !((act == "ClientRefresh" || act == "ServerRefresh") && mode == "expired") && act != "CloseRun" {
				violate("expire:closed-by-"+act, fmt.Sprintf("%s(%s) closed the connection as expired", act, mode))
			}
			if newUnsub {
				violate("sub-expire:unsubscribed-by-"+act, fmt.Sprintf("%s(%s) ended the subscription as expired", act, mode))
			}
		}
		if completed == 0 {
			break
		}
		if pendingDrift != "" {
			drift(pendingDrift)
			break
		}
		if act == "ClientRefresh" && mode == "zero" && c.CSR && !c.Ping && dlBefore != inf36 && !nowClosed {
			// the client was told "no expiration"; a connection that still carries its old expiry deadline will be
			// closed as expired although it was refreshed: let the armed timer run out and see (witness continuation)
			if a := r.sch.active("c"); len(a) == 1 && a[0].d < time.Hour {
				time.Sleep(time.Until(a[0].at.Add(a[0].d + 600*time.Millisecond)))
				r.sch.fire("c")
				t.WaitFor(closeWait, func(_ []*protocol.Reply, closed bool) bool { return closed })
				if cl, code := closedCode(); cl && code == codeExpired {
					steps = append(steps, map[string]any{"act": "witness: wait for the armed timer and fire it"})
					violate("expire:closed-although-refreshed:client-zero", "the RefreshHandler answered the refresh command with ExpireAt = 0 (no expiration, the reply says expires=false) and the connection was closed as expired at its old deadline")
				} else {
					drift(fmt.Sprintf("after a refresh to no expiration a %s timer stayed armed; firing it gave closed=%v code=%d", a[0].d, cl, code))
				}
				break
			}
		}
		for _, f := range real[min(len(before), len(real)):] {
			if f.T == "ping" {
				owed = true
			}
		}
		if len(vh.List(st["closing"])) > 0 {
			continue // the model performs the spawned close in its next step
		}
		if vh.J(real) != vh.J(mo) && !(len(real) == 0 && len(mo) == 0) {
			drift(fmt.Sprintf("frames differ after %s: real %s, model %s", vh.J(step), vh.J(real), vh.J(mo)))
			break
		}
		if rcb := r.cbLog(); vh.J(rcb) != vh.J(mcb) && !(len(rcb) == 0 && len(mcb) == 0) {
			drift(fmt.Sprintf("handler log differs after %s: real %s, model %s", vh.J(step), vh.J(rcb), vh.J(mcb)))
			break
		}
	}
	if cl, _ := t.Closed(); !cl {
		_ = conn.CloseF()
	}
	if completed == 1 && len(diffs) > 0 {
		// nothing observable followed from it within the behaviour: the model does not explain the code
		drift(diffs[0])
	}
	if completed == 1 && nontrivial {
		res.Distinct(vh.J(c) + vh.J(steps))
	}
	if bi < 2 {
		res.Sample(replay())
	}
	res.Done(1, completed)
	return true
}

func rel(dl, now int64) string {
	if dl == inf36 {
		return "never"
	}
	return fmt.Sprintf("in %d s", dl-now)
}

type in36 struct {
	Behaviours [][]map[string]any `json:"behaviours"`
}

func c36(in json.RawMessage, res *vh.Result) error {
	var ri in36
	if err := json.Unmarshal(in, &ri); err != nil {
		return err
	}
	const par = 48
	sem := make(chan struct{}, par)
	var wg sync.WaitGroup
	for bi := range ri.Behaviours {
		sem <- struct{}{}
		wg.Add(1)
		go func(bi int) {
			defer wg.Done()
			defer func() { <-sem }()
			beh := ri.Behaviours[bi]
			var c cfg36
			_ = json.Unmarshal([]byte(vh.J(beh[0]["cfg"])), &c)
			for attempt := 0; attempt < 3; attempt++ {
				r, err := newRun36(c)
				if err != nil {
					res.Drift("C36", "node: "+err.Error(), nil)
					res.Done(1, 0)
					return
				}
				if r.run(bi, beh, res) {
					return
				}
			}
			res.Count("discarded_for_timing", 1)
		}(bi)
	}
	wg.Wait()
	res.Extra["timing_retries"] = skipped36.Load()
	return nil
}

// c36probe tells which variant of Client.Refresh(ExpireAt = 0) the tree under test has: whether it clears the
// expiry deadline of the multiplexed timer (the simulated behaviours are generated for that variant; the C36
// monitors are the same for both).
func c36probe(_ json.RawMessage, res *vh.Result) error {
	r, err := newRun36(cfg36{E: 100})
	if err != nil {
		return err
	}
	defer r.env.Close()
	r.sch.setOwner("c")
	conn, err := r.env.NewConn("", centrifuge.ProtocolTypeJSON)
	if err != nil {
		return err
	}
	defer conn.Cancel()
	r.setMode("ok")
	if conn.Connect() == nil {
		return fmt.Errorf("probe: connect failed")
	}
	_ = conn.Client.Refresh(centrifuge.WithRefreshExpireAt(0))
	conn.Barrier(syncWait)
	a := r.sch.active("c")
	res.Extra["server_zero_rearms"] = len(a) == 1 && a[0].d > time.Hour
	res.Done(1, 1)
	return nil
}
