SPECIFICATION Spec
CONSTANTS
  Conns = {"c1"}
  Keys = {"k1"}
  MaxChg = 1
  MaxFlips = 0
  MaxOps = 6
  Versioned = TRUE
  Timer = FALSE
  AllowRevoke = TRUE
  AllowPublish = FALSE
  SplitTrack = FALSE
  AsCoded = {"removal-unlocked"}
  Replay = TRUE
VIEW View
INVARIANTS TypeOK VersionConsistent C25_Epoch
PROPERTIES C25_Frames
CHECK_DEADLOCK FALSE
