SPECIFICATION Spec
CONSTANTS
  Kinds = {"bytes", "slices", "items"}
  Small = {0, 1, 2, 3, 4, 5, 8, 9}
  Around <- AroundStd
  PoolBound = 2
  Reslice = FALSE
VIEW View
INVARIANTS PoolInv PoolClean
PROPERTIES GetOK
CHECK_DEADLOCK FALSE
