//go:build verif

package centrifuge

// Overlay-injected (never committed to /repo): re-export of the internal/websocket reader for the
// /verif wsreader harness (C29). See /verif/FRAMEWORK.md.

import (
	"compress/flate"
	"errors"
	"io"
	"net"

	"github.com/centrifugal/centrifuge/internal/websocket"
)

type VerifWSConn struct{ c *websocket.Conn }

// VerifNewWSConn builds a Conn the way server.go (isServer) / client.go construct it and applies the
// limits the way handler_websocket.go does (SetReadLimit, SetDecompressedReadLimit); 0 = not set.
func VerifNewWSConn(conn net.Conn, isServer bool, readBuf, writeBuf int, compression bool, readLimit, decompressedLimit int64) *VerifWSConn {
	c := websocket.VerifNewConn(conn, isServer, readBuf, writeBuf, compression)
	if readLimit > 0 {
		c.SetReadLimit(readLimit)
	}
	if decompressedLimit > 0 {
		c.SetDecompressedReadLimit(decompressedLimit)
	}
	return &VerifWSConn{c}
}

func (v *VerifWSConn) ReadMessage() (int, []byte, error)    { return v.c.ReadMessage() }
func (v *VerifWSConn) NextReader() (int, io.Reader, error)  { return v.c.NextReader() }
func (v *VerifWSConn) CloseCode() (code int, incoming bool) { return v.c.CloseCode() }

// VerifWSErrClass maps a reader error to: "close" (a *CloseError other than 1006, code = its code),
// "eof" (abnormal closure 1006 / io.EOF / io.ErrUnexpectedEOF), "toobig" (ErrReadLimit), "baddata"
// (compress/flate rejected the data), "other" (errors.New: protocol errors and anything else).
func VerifWSErrClass(err error) (class string, code int) {
	var ce *websocket.CloseError
	if errors.As(err, &ce) {
		if ce.Code == websocket.CloseAbnormalClosure {
			return "eof", ce.Code
		}
		return "close", ce.Code
	}
	if errors.Is(err, websocket.ErrReadLimit) {
		return "toobig", 0
	}
	if errors.Is(err, io.EOF) || errors.Is(err, io.ErrUnexpectedEOF) {
		return "eof", 0
	}
	var cie flate.CorruptInputError
	var ie flate.InternalError
	if errors.As(err, &cie) || errors.As(err, &ie) {
		return "baddata", 0
	}
	return "other", 0
}
