// C09, concurrent completion of asynchronous handler callbacks (spec/Connect/ConnConc.tla).
//
// c09conc: every path of the model's dump. N commands with ids are in flight with asynchronous handlers; the
// harness completes them from its own goroutines; an error completion is parked inside Config.LogHandler (the
// library logs "client command error" between stamping the command id on the error reply and encoding it: a
// natural gate on the error path) until the path says it ends, so that several completions are inside
// writeEncodedCommandReply at once.
// c09stress: no gate; N error completions are released simultaneously from N goroutines, many rounds.
// Judged on the frames the connection received: exactly one reply per id, each with its own command's error.
package main

import (
	"encoding/json"
	"fmt"
	"sync"
	"time"

	"github.com/centrifugal/centrifuge"
	"github.com/centrifugal/protocol"

	"verifharness/cl"
	"verifharness/vh"
)

var concKinds = []string{"rpc", "publish", "history", "presence"}

type concConn struct {
	conn *cl.Conn
	mu   sync.Mutex
	kept map[string]func(err error) // keyed by the command's marker (its 1-based number as string)
	gate *cl.Gate                   // where the next "client command error" log entry parks
}

type concWorker struct {
	env   *cl.Env
	conns sync.Map // client id -> *concConn
}

func newConcWorker(gated bool) (*concWorker, error) {
	w := &concWorker{}
	conf := centrifuge.Config{LogLevel: centrifuge.LogLevelNone}
	if gated {
		conf.LogLevel = centrifuge.LogLevelInfo
		conf.LogHandler = func(e centrifuge.LogEntry) {
			if e.Message != "client command error" {
				return
			}
			id, _ := e.Fields["client"].(string)
			v, ok := w.conns.Load(id)
			if !ok {
				return
			}
			c := v.(*concConn)
			c.mu.Lock()
			g := c.gate
			c.gate = nil
			c.mu.Unlock()
			if g != nil {
				g.Arrive(gateHold)
			}
		}
	}
	env, err := cl.NewEnv(conf)
	if err != nil {
		return nil, err
	}
	w.env = env
	env.Setup = func(cc *centrifuge.Client) {
		v, ok := w.conns.Load(cc.ID())
		if !ok {
			return
		}
		c := v.(*concConn)
		keep := func(marker string, fin func(err error)) {
			c.mu.Lock()
			c.kept[marker] = fin
			c.mu.Unlock()
		}
		cc.OnRPC(func(e centrifuge.RPCEvent, cb centrifuge.RPCCallback) {
			if e.Method == "barrier" {
				cb(centrifuge.RPCReply{Data: []byte("{}")}, nil)
				return
			}
			keep(e.Method, func(err error) { cb(centrifuge.RPCReply{Data: []byte("{}")}, err) })
		})
		cc.OnPublish(func(e centrifuge.PublishEvent, cb centrifuge.PublishCallback) {
			keep(e.Channel, func(err error) { cb(centrifuge.PublishReply{Result: &centrifuge.PublishResult{}}, err) })
		})
		cc.OnHistory(func(e centrifuge.HistoryEvent, cb centrifuge.HistoryCallback) {
			keep(e.Channel, func(err error) { cb(centrifuge.HistoryReply{Result: &centrifuge.HistoryResult{}}, err) })
		})
		cc.OnPresence(func(e centrifuge.PresenceEvent, cb centrifuge.PresenceCallback) {
			keep(e.Channel, func(err error) { cb(centrifuge.PresenceReply{Result: &centrifuge.PresenceResult{}}, err) })
		})
	}
	if err := env.Run(); err != nil {
		return nil, err
	}
	return w, nil
}

func concErr(n int) error {
	return &centrifuge.Error{Code: uint32(470 + n), Message: fmt.Sprintf("verif error of command %d", n)}
}

// open connects a client and puts n asynchronous commands (ids 2..n+1) in flight.
func (w *concWorker) open(proto centrifuge.ProtocolType, n int, kinds []string) (*concConn, error) {
	conn, err := w.env.NewConn("u", proto)
	if err != nil {
		return nil, err
	}
	c := &concConn{conn: conn, kept: map[string]func(error){}}
	w.conns.Store(conn.Client.ID(), c)
	conn.Do(&protocol.Command{Id: 1, Connect: &protocol.ConnectRequest{}})
	if conn.WaitReply(1, syncWait) == nil {
		return nil, fmt.Errorf("connect failed")
	}
	for i := 1; i <= n; i++ {
		marker := fmt.Sprint(i)
		cmd := &protocol.Command{Id: uint32(i + 1)}
		switch kinds[(i-1)%len(kinds)] {
		case "rpc":
			cmd.Rpc = &protocol.RPCRequest{Method: marker, Data: []byte("{}")}
		case "publish":
			cmd.Publish = &protocol.PublishRequest{Channel: marker, Data: []byte("{}")}
		case "history":
			cmd.History = &protocol.HistoryRequest{Channel: marker}
		case "presence":
			cmd.Presence = &protocol.PresenceRequest{Channel: marker}
		}
		conn.Do(cmd)
	}
	c.mu.Lock()
	kept := len(c.kept)
	c.mu.Unlock()
	if kept != n {
		return nil, fmt.Errorf("%d of %d handlers kept their callback", kept, n)
	}
	return c, nil
}

func (w *concWorker) closeConn(c *concConn) {
	w.conns.Delete(c.conn.Client.ID())
	c.conn.Client.Disconnect()
	c.conn.Cancel()
}

type concReply struct {
	ID   int `json:"id"`
	Code int `json:"code"`
}

func concReplies(c *concConn) []concReply {
	var out []concReply
	for _, r := range c.conn.T.Replies() {
		if r.Id <= 1 || isBarrierID(r.Id) {
			continue
		}
		code := 0
		if r.Error != nil {
			code = int(r.Error.Code)
		}
		out = append(out, concReply{int(r.Id), code})
	}
	return out
}

// judge: exactly one reply per id, carrying that command's answer. want[n] = expected code of command n (0 = result).
func judgeConc(got []concReply, want map[int]int, how string) []verdict {
	var vs []verdict
	count := map[int]int{}
	for _, r := range got {
		count[r.ID]++
	}
	for n, code := range want {
		id := n + 1
		switch {
		case count[id] > 1:
			vs = append(vs, verdict{"reply:id-answered-twice:" + how, fmt.Sprintf("command id %d was answered %d times: %s", id, count[id], vh.J(got))})
		case count[id] == 0:
			vs = append(vs, verdict{"reply:id-never-answered:" + how, fmt.Sprintf("command id %d was never answered although its callback completed: %s", id, vh.J(got))})
		default:
			for _, r := range got {
				if r.ID == id && r.Code != code {
					vs = append(vs, verdict{"reply:wrong-answer:" + how, fmt.Sprintf("command id %d was answered with code %d, its handler answered %d: %s", id, r.Code, code, vh.J(got))})
				}
			}
		}
	}
	for _, r := range got {
		if _, ok := want[r.ID-1]; !ok {
			vs = append(vs, verdict{"reply-unknown-id", fmt.Sprintf("reply with id %d that no completed command carries: %s", r.ID, vh.J(got))})
		}
	}
	return vs
}

type inConc struct {
	N      int                `json:"n"`
	Protos []string           `json:"protos"`
	Paths  [][]map[string]any `json:"paths"`
	Rounds int                `json:"rounds"`
}

func c09conc(in json.RawMessage, res *vh.Result) error {
	var ri inConc
	if err := json.Unmarshal(in, &ri); err != nil {
		return err
	}
	type job struct {
		pi    int
		proto string
	}
	jobs := make(chan job)
	var wg sync.WaitGroup
	for i := 0; i < 8; i++ {
		w, err := newConcWorker(true)
		if err != nil {
			return err
		}
		wg.Add(1)
		go func() {
			defer wg.Done()
			defer w.env.Close()
			for j := range jobs {
				w.runPath(j.pi, ri.Paths[j.pi], ri.N, j.proto, res)
			}
		}()
	}
	for pi := range ri.Paths {
		for _, p := range ri.Protos {
			jobs <- job{pi, p}
		}
	}
	close(jobs)
	wg.Wait()
	return nil
}

func (w *concWorker) runPath(pi int, path []map[string]any, n int, proto string, res *vh.Result) {
	replay := map[string]any{"proto": proto, "steps": path}
	fail := func(what string) {
		res.Drift("C09", fmt.Sprintf("%s (path %d, %s)", what, pi, proto), replay)
		res.Done(1, 0)
	}
	c, err := w.open(protoOf(proto), n, concKinds)
	if err != nil {
		fail(err.Error())
		return
	}
	defer w.closeConn(c)
	gates := map[int]*cl.Gate{}
	done := map[int]chan struct{}{}
	want := map[int]int{}
	defer func() {
		for _, g := range gates {
			g.Release()
		}
	}()
	overlapped := false
	for _, st := range path {
		act, k := vh.Str(st["act"]), vh.Int(st["n"])
		c.mu.Lock()
		fin := c.kept[fmt.Sprint(k)]
		c.mu.Unlock()
		switch act {
		case "Ok":
			fin(nil)
			want[k] = 0
			if c.conn.WaitReply(uint32(k+1), syncWait) == nil {
				break
			}
		case "ErrBegin":
			g := cl.NewGate()
			gates[k] = g
			c.mu.Lock()
			c.gate = g
			c.mu.Unlock()
			d := make(chan struct{})
			done[k] = d
			go func() { defer close(d); fin(concErr(k)) }()
			if !g.WaitArrived(gateWait) {
				fail(fmt.Sprintf("the error completion of command %d did not reach the log handler", k))
				return
			}
			if len(gates) > 1 {
				for kk, gg := range gates {
					if kk != k && gg != nil {
						select {
						case <-done[kk]:
						default:
							overlapped = true
						}
					}
				}
			}
		case "ErrEnd":
			gates[k].Release()
			select {
			case <-done[k]:
			case <-time.After(gateWait):
				fail(fmt.Sprintf("the error completion of command %d did not return", k))
				return
			}
			want[k] = 470 + k
			c.conn.WaitReply(uint32(k+1), syncWait)
		}
	}
	c.conn.Barrier(syncWait)
	got := concReplies(c)
	replay["replies"] = got
	how := "sequential-async-completions"
	if overlapped {
		how = "concurrent-async-errors"
	}
	vs := judgeConc(got, want, how)
	for _, v := range vs {
		res.Violate("C09", v.sig, fmt.Sprintf("%s (path %d, %s, steps %s)", v.what, pi, proto, vh.J(path)), replay)
	}
	if len(vs) > 0 {
		res.Done(1, 0)
		return
	}
	if overlapped {
		res.Distinct(proto + vh.J(path))
	}
	if pi < 2 {
		res.Sample(replay)
	}
	res.Done(1, 1)
}

// c09stress: rounds x (n asynchronous commands, all completed with their own error at the same instant).
func c09stress(in json.RawMessage, res *vh.Result) error {
	var ri inConc
	if err := json.Unmarshal(in, &ri); err != nil {
		return err
	}
	w, err := newConcWorker(false)
	if err != nil {
		return err
	}
	defer w.env.Close()
	var wg sync.WaitGroup
	sem := make(chan struct{}, 4)
	for round := 0; round < ri.Rounds; round++ {
		sem <- struct{}{}
		wg.Add(1)
		go func(round int) {
			defer wg.Done()
			defer func() { <-sem }()
			proto := ri.Protos[round%len(ri.Protos)]
			c, err := w.open(protoOf(proto), ri.N, []string{"rpc"})
			if err != nil {
				res.Drift("C09", "stress: "+err.Error(), nil)
				res.Done(1, 0)
				return
			}
			defer w.closeConn(c)
			start := make(chan struct{})
			var fw sync.WaitGroup
			want := map[int]int{}
			for k := 1; k <= ri.N; k++ {
				want[k] = 470 + k
				c.mu.Lock()
				fin := c.kept[fmt.Sprint(k)]
				c.mu.Unlock()
				fw.Add(1)
				go func(k int) {
					defer fw.Done()
					<-start
					fin(concErr(k))
				}(k)
			}
			close(start)
			fw.Wait()
			c.conn.Barrier(syncWait)
			got := concReplies(c)
			vs := judgeConc(got, want, "concurrent-async-errors")
			for _, v := range vs {
				res.Violate("C09", v.sig, fmt.Sprintf("%s (stress round %d, %s, %d error completions released at once)", v.what, round, proto, ri.N), map[string]any{"round": round, "proto": proto, "replies": got})
			}
			if len(vs) > 0 {
				res.Done(1, 0)
				return
			}
			res.Done(1, 1)
		}(round)
	}
	wg.Wait()
	return nil
}
