---------------------------- MODULE MapBrokerSim ----------------------------
(* Behaviour generator for replay (TLC -simulate): the same actions as MapBroker.
   TLC's simulator picks uniformly among the successor STATES, so every operation
   class contributes a fixed number of distinct successors (slot variable `w`)
   and the arguments of a slot are derived from a hash of the slot and the
   current state (RandomElement is useless: TLC re-seeds it per behaviour).
   Besides the free draws there are "aimed" slots: a CAS that names the key's
   current position, and publishes for which at least two of the three checks
   (version, key mode, CAS) would each suppress -- the cases on which the
   canonical check order is observable.

   sim.cfg      Deterministic = TRUE, Manual = FALSE: replayed with the broker's
                own sweeper goroutines, one tick = one second.
   manual.cfg   Manual = TRUE: the harness calls expireKeysIteration itself and
                holds a gate between phase 1 and phase 2; operations are placed
                between the phases, phase 2 then runs to completion (one sweep
                call processes all its candidates). *)
EXTENDS MapBroker

VARIABLE w
simvars == <<vars, w>>

Q(S) == SetToSeq(S)
BoolQ == <<FALSE, TRUE>>

Card(f) == Cardinality(DOMAIN f)
H(s) == (s * 7919 + nops * 10473 + npub * 12997 + now * 15487 + top * 32443 + Len(win) * 49999
         + Card(st) * 611953 + epc * 86243 + Len(pend) * 21701) % 1000003
Sel(q, h, d) == q[((h \div d) % Len(q)) + 1]
Pick(S, h) == Sel(Q(S), h, 1)

KeyQ3 == KeySeq
\* free draw: every component from its own digits of the hash
FreeArgs(h) ==
  LET v  == IF (h \div 5) % 2 = 0 THEN 0 ELSE Sel(Q(Versions), h, 11)
      ik == IF (h \div 7) % 3 = 0 THEN Sel(Q(IdemKeys), h, 13) ELSE ""
  IN [k    |-> Sel(KeyQ3, h, 1),
      km   |-> IF (h \div 3) % 2 = 0 THEN "" ELSE Sel(Q(KeyModes), h, 17),
      cas  |-> IF IsEph /\ (h \div 43) % 8 # 0 THEN NoCas
               ELSE IF (h \div 19) % 4 = 0 THEN Sel(Q(Cases), h, 23) ELSE NoCas,
      v    |-> IF IsEph /\ (h \div 47) % 8 # 0 THEN 0 ELSE v,
      ve   |-> IF v = 0 \/ (IsEph /\ (h \div 47) % 8 # 0) THEN "" ELSE Sel(Q(VerEpochs), h, 29),
      ik   |-> ik,
      ittl |-> IF ik = "" THEN AnIdemTTL ELSE Sel(Q(IdemTTLs), h, 31),
      sc   |-> IF cf.ord THEN Sel(Q(Scores), h, 37) ELSE AScore]
DoPublish(a) == Publish(a.k, a.km, a.cas, a.v, a.ve, a.ik, a.ittl, a.sc)

SimPublish(s) == DoPublish(FreeArgs(H(s)))

\* aimed draws: arguments built around the key's stored position / version
E1 == IF chEx THEN ep ELSE epc + 1
Mk(k, km, cas, v, ve, h) ==
  [k |-> k, km |-> km, cas |-> cas, v |-> v, ve |-> ve, ik |-> "", ittl |-> AnIdemTTL,
   sc |-> IF cf.ord THEN Sel(Q(Scores), h, 37) ELSE AScore]
Held == {k \in DOMAIN st : st[k].ver > 0}
WrongCas(k, h) ==
  IF k \in DOMAIN st
    THEN Sel(<<[has |-> TRUE, off |-> st[k].off + 1, ep |-> E1], [has |-> TRUE, off |-> st[k].off, ep |-> E1 + 1],
               [has |-> TRUE, off |-> st[k].off, ep |-> 0], [has |-> TRUE, off |-> 0, ep |-> E1]>>, h, 41)
    ELSE Sel(<<[has |-> TRUE, off |-> 1, ep |-> E1], [has |-> TRUE, off |-> 0, ep |-> E1]>>, h, 41)
FailKm(k, h) == IF k \in DOMAIN st THEN Sel(<<"if_new", "if_new_refresh">>, h, 43) ELSE "if_exists"
StaleV(k, h) == IF (h \div 47) % 2 = 0 THEN st[k].ver ELSE 1
StaleVe(k, h) == IF (h \div 53) % 2 = 0 THEN "" ELSE st[k].vep

\* publish to an existing key with its current position as ExpectedPosition (CAS can succeed)
SimCasHit(s) ==
  LET h == H(s + 50) IN
  ~IsEph /\ DOMAIN st # {} /\
  LET k == Sel(Q(DOMAIN st), h, 1)
      v == IF (h \div 5) % 3 = 0 THEN Sel(Q(Versions), h, 11) ELSE 0
  IN DoPublish(Mk(k, IF (h \div 3) % 3 = 0 THEN Sel(Q(KeyModes), h, 17) ELSE "",
                  [has |-> TRUE, off |-> st[k].off, ep |-> ep], v, IF v = 0 THEN "" ELSE Sel(Q(VerEpochs), h, 29), h))
\* at least two checks would suppress
SimMulti(s) ==
  LET h == H(s + 70)
      k == Sel(KeyQ3, h, 1)
      p == IF k \in Held THEN (h \div 3) % 4 ELSE 0
  IN ~IsEph /\
     DoPublish(CASE p = 0 -> Mk(k, FailKm(k, h), WrongCas(k, h), 0, "", h)
                 [] p = 1 -> Mk(k, FailKm(k, h), NoCas, StaleV(k, h), StaleVe(k, h), h)
                 [] p = 2 -> Mk(k, "", WrongCas(k, h), StaleV(k, h), StaleVe(k, h), h)
                 [] OTHER -> Mk(k, FailKm(k, h), WrongCas(k, h), StaleV(k, h), StaleVe(k, h), h))
\* versioned publish to a key that holds a version (equal / lower / higher, same or other epoch)
SimVersioned(s) ==
  LET h == H(s + 90) IN
  Held # {} /\
  DoPublish(Mk(Sel(Q(Held), h, 1), "", NoCas, Sel(Q(Versions \ {0}), h, 11), Sel(Q(VerEpochs), h, 29), h))
\* keep-alive of an existing key
SimRefresh(s) ==
  LET h == H(s + 110) IN
  DOMAIN st # {} /\ DoPublish(Mk(Sel(Q(DOMAIN st), h, 1), "if_new_refresh", NoCas, 0, "", h))

\* a write that carries an idempotency key (repeats inside the result TTL, after it, after Clear)
SimIdem(s) ==
  LET h == H(s + 120)
      a == FreeArgs(h)
      ik == Sel(Q(IdemKeys \ {""}), h, 13)
  IN IdemKeys \ {""} # {} /\
     IF (h \div 3) % 4 = 0
       THEN RemoveKey(a.k, NoCas, ik, Sel(Q(IdemTTLs), h, 31))
       ELSE DoPublish([a EXCEPT !.ik = ik, !.ittl = Sel(Q(IdemTTLs), h, 31), !.cas = NoCas, !.km = IF (h \div 5) % 3 = 0 THEN a.km ELSE ""])

\* C19 witness, step 2: an idempotency key whose saved result has EXPIRED is saved again with the longest TTL (the queue
\* item of the first save may still be queued); step 3 is SimIdemRetry after the cleaner ran: must be suppressed
MaxIdemTTL == CHOOSE x \in IdemTTLs : \A y \in IdemTTLs : x >= y
SimIdemAgain(s) ==
  LET h == H(s + 210)
      S == {k \in DOMAIN idem : idem[k].exp <= now} \cup (DOMAIN gidem \ DOMAIN idem) \cup {i.k : i \in iq}
      a == FreeArgs(h)
  IN S # {} /\
     LET ik == Sel(Q(S), h, 13) IN
     ~IdemHit(ik) /\
     IF (h \div 3) % 3 = 0 /\ a.k \in DOMAIN st
       THEN RemoveKey(a.k, NoCas, ik, MaxIdemTTL)
       ELSE DoPublish([a EXCEPT !.ik = ik, !.ittl = MaxIdemTTL, !.cas = NoCas, !.km = "", !.v = 0, !.ve = ""])
\* a retry inside the TTL of the saved result (Publish or Remove)
SimIdemRetry(s) ==
  LET h == H(s + 230)
      S == {k \in DOMAIN idem : idem[k].exp > now}
      a == FreeArgs(h)
  IN S # {} /\
     LET ik == Sel(Q(S), h, 13) IN
     IF (h \div 3) % 3 = 0
       THEN RemoveKey(a.k, NoCas, ik, Sel(Q(IdemTTLs), h, 31))
       ELSE DoPublish([a EXCEPT !.ik = ik, !.ittl = Sel(Q(IdemTTLs), h, 31)])

\* right after a sweep removed a key: a write to the same channel, mostly a re-publish of that very key (the harness runs it
\* while the sweeper still sits in the event-handler call of the removal: the broadcast-order probe)
SimAfterExpiry(s) ==
  LET h == H(s + 250) IN
  step.act = "ExpirePhase2" /\ pend = <<>> /\ step.removed /\
  IF (h \div 3) % 4 = 0 /\ DOMAIN st # {}
    THEN RemoveKey(Sel(Q(DOMAIN st), h, 1), NoCas, "", AnIdemTTL)
    ELSE DoPublish(Mk(IF (h \div 5) % 4 = 0 THEN Sel(KeyQ3, h, 1) ELSE step.key, "", NoCas, 0, "", h))

SimRemove(s) ==
  LET h == H(s + 130)
      ik == IF (h \div 7) % 3 = 0 THEN Sel(Q(IdemKeys), h, 13) ELSE ""
  IN RemoveKey(Sel(KeyQ3, h, 1), IF IsEph \/ (h \div 19) % 3 # 0 THEN NoCas ELSE Sel(Q(Cases), h, 23),
               ik, IF ik = "" THEN AnIdemTTL ELSE Sel(Q(IdemTTLs), h, 31))
SimRemoveHit(s) ==
  LET h == H(s + 150)
      k == Sel(KeyQ3, h, 1)
  IN k \in DOMAIN st /\
     RemoveKey(k, IF IsEph \/ (h \div 3) % 2 = 0 THEN NoCas ELSE [has |-> TRUE, off |-> st[k].off, ep |-> ep], "", AnIdemTTL)

SimReadState(s) ==
  LET h == H(s + 170)
      cur == Pick(Cursors, h)  asc == Sel(BoolQ, h, 7)  rev == Sel(Q(Revs), h, 11)
      single == (h \div 3) % 4 = 0
  IN IF single THEN ReadState(NoCur, -1, FALSE, Pick(Keys, h), NoRev)
     ELSE ReadState(IF cur.has /\ ~cf.ord THEN [cur EXCEPT !.sc = 0] ELSE cur, Sel(Q(Limits), h, 13), asc, "",
                    IF (h \div 17) % 3 = 0 THEN rev ELSE NoRev)
\* the whole state, both directions (what the harness also reads by itself after every step)
SimReadStream(s) ==
  LET h == H(s + 190)
  IN ReadStream(Sel(Q(Sinces), h, 1), Sel(Q(Limits), h, 29), Sel(BoolQ, h, 31))

Focus19 == FALSE      \* sim-c19.cfg: more idempotency / version traffic
InP2 == step.act = "ExpirePhase2" /\ pend # <<>>

SimNext ==
  IF Manual /\ InP2 THEN ExpirePhase2 /\ w' = 0
  ELSE
  \/ (~Manual /\ (SweepExpire \/ SweepRemove \/ SweepIdem)) /\ w' = 0
  \/ \E s \in 1..(IF Manual THEN 6 ELSE 1) : ExpirePhase2 /\ w' = s
  \/ ExpireDeliver /\ w' = 0
  \/ \E s \in 1..(IF Manual /\ Candidates(now) # {} THEN 3 ELSE 1) : ExpirePhase1 /\ w' = s
  \/ \E s \in 1..3 : Tick /\ w' = s
  \/ \E s \in 1..3 : SimPublish(s) /\ w' = s
  \/ \E s \in 1..1 : SimCasHit(s) /\ w' = s
  \/ \E s \in 1..2 : SimMulti(s) /\ w' = s
  \/ \E s \in 1..(IF Focus19 THEN 3 ELSE 1) : SimVersioned(s) /\ w' = s
  \/ \E s \in 1..2 : SimRefresh(s) /\ w' = s
  \/ \E s \in 1..(IF Focus19 THEN 3 ELSE 1) : SimIdem(s) /\ w' = s
  \/ \E s \in 1..(IF Focus19 THEN 4 ELSE 2) : SimIdemAgain(s) /\ w' = s
  \/ \E s \in 1..(IF Focus19 THEN 3 ELSE 1) : SimIdemRetry(s) /\ w' = s
  \/ \E s \in 1..(IF Manual THEN 10 ELSE 1) : SimAfterExpiry(s) /\ w' = s
  \/ \E s \in 1..1 : SimRemove(s) /\ w' = s
  \/ \E s \in 1..1 : SimRemoveHit(s) /\ w' = s
  \/ \E s \in 1..2 : SimReadState(s) /\ w' = s
  \/ \E s \in 1..1 : SimReadStream(s) /\ w' = s
  \/ ((H(7) % 5 = 0) \/ (DOMAIN idem # {} /\ H(7) % 2 = 0)) /\ Clear /\ w' = 0

SimSpec == Init /\ w = 0 /\ [][SimNext /\ Frame]_simvars
=============================================================================
