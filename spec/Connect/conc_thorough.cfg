SPECIFICATION Spec
CONSTANTS N = 4
INVARIANT C09_Conc
CHECK_DEADLOCK FALSE
