----------------------------- MODULE MapPresence -----------------------------
(* C05 on the map-presence path ("nothing of a connection survives its end"): a subscription with
   SubscribeOptions.MapClientPresenceChannel / MapUserPresenceChannel (map or stream subscription) or a map
   subscription with MapRemoveClientOnUnsubscribe keeps keys in map channels on behalf of the connection:
     "cp"  key = client id in the client presence channel  (setupMapPresenceAndJoin / publishJoinAndPresence ->
           addMapClientPresence, refreshed by the tick: updateMapPresence; removed by removeMapPresence)
     "up"  key = user id in the user presence channel      (added / refreshed the same way; NOT removed on purpose:
           it expires by KeyTTL as a debounce for quick reconnects - it is the user's key, not the connection's)
     "ck"  key = client id in the data channel, published by the client itself (MapRemoveClientOnUnsubscribe removes it)
   removeMapPresence runs in unsubscribe() and in close()'s unsubscribe loop - AFTER close() closed the transport.
   Environment fact: a MapBroker call made with a cancelled context fails (a broker that honours ctx: the Redis map
   broker; the memory broker ignores ctx) and the failure of a removal is only logged.  The connection context is
   cancelled when the peer goes away (request context of SSE / HTTP streaming / HTTP2 WebSocket) or by a transport
   whose Close cancels it.

   CleanupUsesConnCtx = FALSE: the removals use context.Background() (the code as it is);
   CleanupUsesConnCtx = TRUE : they use the connection context (witness: C05M violated).                        *)
EXTENDS Naturals, FiniteSets

CONSTANTS CleanupUsesConnCtx, MaxTicks

VARIABLES
  cfg,     \* [kind: "map" | "stream", cpres, upres, cleanup, closeCancels]
  ctx,     \* connection context: "live" | "cancelled"
  conn,    \* "open" | "closing" (status closed, transport closed) | "closed" (close() returned)
  sub,     \* "none" | "live" | "gone"
  keys,    \* keys held in the broker on behalf of the connection: subset of {"cp", "up", "ck"}
  ticks, step

vars == <<cfg, ctx, conn, sub, keys, ticks, step>>

Cfgs == {c \in [kind : {"map", "stream"}, cpres : BOOLEAN, upres : BOOLEAN, cleanup : BOOLEAN, closeCancels : BOOLEAN] :
           /\ (c.cleanup => c.kind = "map")
           /\ (c.cpres \/ c.upres \/ c.cleanup)}

Init == cfg \in Cfgs /\ ctx = "live" /\ conn = "open" /\ sub = "none" /\ keys = {} /\ ticks = 0 /\ step = [act |-> "Init"]

PresenceKeys == (IF cfg.cpres THEN {"cp"} ELSE {}) \cup (IF cfg.upres THEN {"up"} ELSE {})

\* subscribe command: presence is published with the connection context
Subscribe ==
  /\ conn = "open" /\ sub = "none" /\ ctx = "live"
  /\ sub' = "live" /\ keys' = keys \cup PresenceKeys
  /\ UNCHANGED <<cfg, ctx, conn, ticks>> /\ step' = [act |-> "Subscribe"]

\* the client publishes its own key (key = client id) into the data channel
ClientPublish ==
  /\ conn = "open" /\ sub = "live" /\ cfg.cleanup /\ "ck" \notin keys /\ ctx = "live"
  /\ keys' = keys \cup {"ck"}
  /\ UNCHANGED <<cfg, ctx, conn, sub, ticks>> /\ step' = [act |-> "ClientPublish"]

\* periodic tick: keep-alive of the presence keys with the connection context (fails silently once it is cancelled)
Tick ==
  /\ conn = "open" /\ sub = "live" /\ ticks < MaxTicks
  /\ ticks' = ticks + 1
  /\ keys' = IF ctx = "live" THEN keys \cup PresenceKeys ELSE keys
  /\ UNCHANGED <<cfg, ctx, conn, sub>> /\ step' = [act |-> "Tick"]

\* the peer goes away: the request context is cancelled before the handler calls the close function
CtxCancel ==
  /\ conn = "open" /\ ctx = "live"
  /\ ctx' = "cancelled"
  /\ UNCHANGED <<cfg, conn, sub, keys, ticks>> /\ step' = [act |-> "CtxCancel"]

RemovalCtx == IF CleanupUsesConnCtx THEN ctx ELSE "live"
Removed(k) == IF RemovalCtx = "live" THEN k \ {"cp", "ck"} ELSE k

\* unsubscribe command of the client (only a working connection sends one)
Unsubscribe ==
  /\ conn = "open" /\ sub = "live" /\ ctx = "live"
  /\ sub' = "gone" /\ keys' = Removed(keys)
  /\ UNCHANGED <<cfg, ctx, conn, ticks>> /\ step' = [act |-> "Unsubscribe"]

\* close(): status closed, transport closed (a transport may cancel the context here) ...
CloseTransport ==
  /\ conn = "open"
  /\ conn' = "closing"
  /\ ctx' = IF cfg.closeCancels THEN "cancelled" ELSE ctx
  /\ UNCHANGED <<cfg, sub, keys, ticks>>
  /\ step' = [act |-> "CloseTransport", peer |-> ctx = "cancelled"]

\* ... then the unsubscribe loop with removeMapPresence
CloseCleanup ==
  /\ conn = "closing"
  /\ conn' = "closed"
  /\ IF sub = "live" THEN sub' = "gone" /\ keys' = Removed(keys) ELSE UNCHANGED <<sub, keys>>
  /\ UNCHANGED <<cfg, ctx, ticks>> /\ step' = [act |-> "CloseCleanup"]

Next == Subscribe \/ ClientPublish \/ Tick \/ CtxCancel \/ Unsubscribe \/ CloseTransport \/ CloseCleanup
Spec == Init /\ [][Next]_vars

\* C05 (map part): once the subscription ended - by unsubscribe or by the end of the connection - no key of the CONNECTION
\* (client id) remains; the user presence key may stay until its TTL (by design, see above)
C05M == (sub = "gone" \/ conn = "closed") => keys \cap {"cp", "ck"} = {}
TypeOK == keys \subseteq {"cp", "up", "ck"} /\ ticks <= MaxTicks
View == <<cfg, ctx, conn, sub, keys, ticks>>
=============================================================================
