SPECIFICATION Spec
CONSTANTS
  Keys = {1, 2}
  MaxPub = 4
  MaxSubs = 3
  Filts = {FALSE, TRUE}
  Withhold = FALSE
  DeltaOpts = {TRUE, FALSE}
  AsCodedFilter = FALSE
VIEW View
INVARIANTS TypeOK C14Map
CHECK_DEADLOCK FALSE
