---------------------------- MODULE ConnLifeMap ----------------------------
(* C08, subscription kind "map": a client-side map subscription of a connected client whose subscribe command is
   parked inside MapBroker.ReadState (reservation in c.mapSubscribing installed, not yet committed), a server-side
   Client.Unsubscribe of that channel arriving in that window (it waits for the in-flight subscribe and then
   unsubscribes the subscription that became live), unsubscribes of a live subscription, re-subscription, close().
   Property (the C08 unsubscribe count): one unsubscribe callback per established subscription that ended.
   One state per path (hist): the dump is the set of schedules the harness replays (mode c08map).               *)
EXTENDS Naturals, Sequences, FiniteSets

CONSTANTS MaxSub, MaxUnsub

VARIABLES
  ms,      \* "none" | "loading" | "live" | "ended"
  uw,      \* a Client.Unsubscribe waits for the subscribe in flight
  closed,
  nsub, nunsub,
  out,     \* frames: "subscribe" (reply), "unsub" (unsubscribe push), "disc"
  cb,      \* callbacks: "subscribe", "unsubscribe", "disconnect"
  hist

vars == <<ms, uw, closed, nsub, nunsub, out, cb, hist>>

Init == ms = "none" /\ uw = FALSE /\ closed = FALSE /\ nsub = 0 /\ nunsub = 0 /\ out = <<>> /\ cb = <<>> /\ hist = <<>>

\* the subscribe command: OnSubscribe handler, reservation, parked in MapBroker.ReadState
SubBegin ==
  /\ ~closed /\ ms \in {"none", "ended"} /\ nsub < MaxSub
  /\ ms' = "loading" /\ nsub' = nsub + 1
  /\ cb' = Append(cb, "subscribe")
  /\ hist' = Append(hist, "SubBegin")
  /\ UNCHANGED <<uw, closed, nunsub, out>>

\* Client.Unsubscribe: waits while the subscription is loading; unsubscribes a live one (callback, push)
Unsub ==
  /\ ~closed /\ nunsub < MaxUnsub /\ ~uw /\ ms \in {"loading", "live"}
  /\ nunsub' = nunsub + 1
  /\ hist' = Append(hist, "Unsub")
  /\ IF ms = "loading"
       THEN uw' = TRUE /\ UNCHANGED <<ms, out, cb>>
       ELSE ms' = "ended" /\ cb' = Append(cb, "unsubscribe") /\ out' = Append(out, "unsub") /\ UNCHANGED uw
  /\ UNCHANGED <<closed, nsub>>

\* ReadState returns: the reply, the commit; a waiting unsubscribe then ends the subscription that just became live
SubEnd ==
  /\ ms = "loading"
  /\ hist' = Append(hist, "SubEnd")
  /\ IF uw
       THEN /\ ms' = "ended" /\ uw' = FALSE
            /\ out' = out \o <<"subscribe", "unsub">>
            /\ cb' = Append(cb, "unsubscribe")
       ELSE ms' = "live" /\ out' = Append(out, "subscribe") /\ UNCHANGED <<uw, cb>>
  /\ UNCHANGED <<closed, nsub, nunsub>>

Close ==
  /\ ~closed /\ ms # "loading"
  /\ closed' = TRUE
  /\ cb' = IF ms = "live" THEN cb \o <<"unsubscribe", "disconnect">> ELSE Append(cb, "disconnect")
  /\ out' = Append(out, "disc")
  /\ hist' = Append(hist, "Close")
  /\ UNCHANGED <<ms, uw, nsub, nunsub>>

Next == SubBegin \/ Unsub \/ SubEnd \/ Close
Spec == Init /\ [][Next]_vars

Count(s, x) == Cardinality({i \in 1..Len(s) : s[i] = x})
C08_Unsub ==
  /\ Count(cb, "unsubscribe") <= Count(out, "subscribe")
  /\ closed => Count(cb, "unsubscribe") = Count(out, "subscribe")
  \* a subscription that ended (unsubscribe push / close) had its callback
  /\ Count(out, "unsub") <= Count(cb, "unsubscribe")
=============================================================================
