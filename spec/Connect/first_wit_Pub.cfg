SPECIFICATION Spec
CONSTANTS
  Conns = {1, 2}
  MaxEnv = 2
  Urgent = TRUE
  Guard = TRUE
  SS = TRUE
  Exp = {}
  Pushes = TRUE
INVARIANTS WitPushPub
CHECK_DEADLOCK FALSE
