SPECIFICATION Spec
CONSTANTS
  Tier = "thorough"
INVARIANTS RemoteIsLocalMinusLost AgreeUnlessLost CulpritsAreLost
CHECK_DEADLOCK FALSE
