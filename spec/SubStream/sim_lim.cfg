SPECIFICATION Spec
CONSTANTS
  MaxPub = 4
  HistSize = 3
  MaxFaults = 1
  Kinds = {"rec", "cache"}
  UrgentAsync = TRUE
  RecLimit = 2
  MaxChecks = 0
  Servers = {FALSE, TRUE}
INVARIANTS TypeOK C01 C02 C03 C10 C16 PosConsistent
CHECK_DEADLOCK FALSE
