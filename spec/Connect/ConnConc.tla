------------------------------ MODULE ConnConc ------------------------------
(* C09, concurrent completion of asynchronous handler callbacks.

   N commands with ids are in flight on one connected connection, every
   handler kept its callback.  The application completes them from its own
   goroutines: with a result (Ok: reply written in one step) or with a client
   error.  The error path is two steps - ErrBegin: writeDisconnectOrErrorFlush
   builds the error reply and writeEncodedCommandReply stamps the command id on
   it and logs "client command error" (an application callback: the harness
   parks the goroutine there); ErrEnd: the reply is encoded and queued.
   Several completions may be between their two steps at once.  Every
   completion owns its reply, so whatever the interleaving each id is answered
   exactly once, with its own command's error.

   The dump (one state per path) is replayed on real clients with the
   completing goroutines parked inside Config.LogHandler.                    *)
EXTENDS Naturals, Sequences, FiniteSets

CONSTANTS N

VARIABLES pend, infl, out, hist
vars == <<pend, infl, out, hist>>

Id(n)   == n + 1                 \* id 1 is the connect command
Code(n) == 470 + n               \* the error the handler of command n answers with

Init == pend = 1..N /\ infl = {} /\ out = <<>> /\ hist = <<>>

Ok(n) ==
  /\ n \in pend /\ pend' = pend \ {n}
  /\ out' = Append(out, [id |-> Id(n), code |-> 0])
  /\ hist' = Append(hist, [act |-> "Ok", n |-> n]) /\ UNCHANGED infl

ErrBegin(n) ==
  /\ n \in pend /\ pend' = pend \ {n} /\ infl' = infl \cup {n}
  /\ hist' = Append(hist, [act |-> "ErrBegin", n |-> n]) /\ UNCHANGED out

ErrEnd(n) ==
  /\ n \in infl /\ infl' = infl \ {n}
  /\ out' = Append(out, [id |-> Id(n), code |-> Code(n)])
  /\ hist' = Append(hist, [act |-> "ErrEnd", n |-> n]) /\ UNCHANGED pend

Next == \E n \in 1..N : Ok(n) \/ ErrBegin(n) \/ ErrEnd(n)
Spec == Init /\ [][Next]_vars

\* C09: exactly one reply per id, carrying the answer of that command
C09_Conc ==
  /\ \A n \in 1..N : Cardinality({x \in 1..Len(out) : out[x].id = Id(n)}) <= 1
  /\ \A x \in 1..Len(out) : \E n \in 1..N : out[x].id = Id(n) /\ out[x].code \in {0, Code(n)}
  /\ (pend = {} /\ infl = {}) => \A n \in 1..N : \E x \in 1..Len(out) : out[x].id = Id(n)
=============================================================================
