SPECIFICATION Spec
CONSTANTS
  RecheckAtCommit = FALSE
  RecheckAtJoin = TRUE
  AllowResub = FALSE
  Replay = TRUE
VIEW View
INVARIANTS TypeOK C05_Keyed C05_Gen
CHECK_DEADLOCK FALSE
