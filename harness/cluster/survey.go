// C41: gate replay of spec/Cluster/Survey behaviours on a real node.
//
// One real node; the other nodes of the cluster are fake uids registered through node-info control messages (shim
// encoder), so that Node.Survey expects numNodes answers. Everything the model schedules is done through public
// interfaces: the OnSurvey handler parks the surveying goroutine before the collector exists (Start..HandlerDone)
// and answers inside the handler ("sync") or keeps the callback for later ("async"); Controller.PublishControl sees
// the survey request; responses (any order, duplicates, late, foreign ids, unknown nodes) are encoded by the shim
// and handed to Node.HandleControl under a watchdog; the deadline is the Done() channel of a harness
// context.Context and its Err() method - called by Survey after the collector finished and before the deferred
// registry delete - parks the survey in the model's "exited" state. After every step the response channel of every
// registered survey must have drained (collector running) or hold exactly the model's buffer (shim: len/cap).
//
// Monitors (violations): HandleControl or a local callback does not return (blocked), Survey does not reach its
// return although every expected node answered / the deadline passed, Survey returns although answers are missing,
// returned results differ from the model's (missing / foreign / duplicated-as-new entries, wrong error).
package main

import (
	"context"
	"encoding/json"
	"fmt"
	"sort"
	"strings"
	"sync"
	"time"

	"github.com/centrifugal/centrifuge"

	"verifharness/vh"
)

const c41Wait = 2 * time.Second

type c41In struct {
	Nodes      []string           `json:"nodes"`
	Extra      []string           `json:"extra"`
	Behaviours [][]map[string]any `json:"behaviours"`
	Workers    int                `json:"workers"`
}

type gateCtx struct {
	done    chan struct{}
	errGate func()
}

func (c *gateCtx) Deadline() (time.Time, bool) { return time.Now().Add(time.Hour), true }
func (c *gateCtx) Done() <-chan struct{}       { return c.done }
func (c *gateCtx) Value(any) any               { return nil }
func (c *gateCtx) Err() error {
	c.errGate()
	select {
	case <-c.done:
		return context.DeadlineExceeded
	default:
		return nil
	}
}

type surveyRet struct {
	res map[string]centrifuge.SurveyResult
	err error
}

type survey41 struct {
	tag       string
	mode      string
	realID    uint64
	ctx       *gateCtx
	inHandler chan struct{} // closed when the OnSurvey handler runs
	release   chan struct{} // closed to let the handler return
	cb        centrifuge.SurveyCallback
	published chan struct{} // closed when the request passed the controller
	exited    chan struct{} // closed when Survey evaluates ctx.Err()
	retGate   chan struct{} // closed to let ctx.Err() return
	ret       chan surveyRet
}

type c41Worker struct {
	nodes, extra []string
	nd           *cnode
	mu           sync.Mutex
	byTag        map[string]*survey41
	byReal       map[uint64]*survey41
	issued       uint64 // surveys started on this node so far (= n.surveyID)
}

func (w *c41Worker) fresh() error {
	if w.nd != nil {
		go w.nd.env.Close() // may hang on goroutines a violated run left behind: do not wait
	}
	nd, err := newNode("S", false)
	if err != nil {
		return err
	}
	w.nd = nd
	w.issued = 0
	w.mu.Lock()
	w.byTag = map[string]*survey41{}
	w.byReal = map[uint64]*survey41{}
	w.mu.Unlock()
	nd.env.Node.OnSurvey(func(ev centrifuge.SurveyEvent, cb centrifuge.SurveyCallback) {
		w.mu.Lock()
		sv := w.byTag[string(ev.Data)]
		w.mu.Unlock()
		if sv == nil {
			return
		}
		close(sv.inHandler)
		<-sv.release
		if sv.mode == "sync" {
			cb(centrifuge.SurveyReply{Code: 1, Data: []byte(sv.tag + ":self:1")})
			return
		}
		sv.cb = cb
	})
	nd.ctrl.capture = func(data []byte, _ string) {
		d, err := decodeControl(data)
		if err != nil || vh.Str(d["kind"]) != "survey_request" {
			return
		}
		id := uint64(vh.Int(vh.Map(d["fields"])["id"]))
		w.mu.Lock()
		sv := w.byReal[id]
		w.mu.Unlock()
		if sv != nil {
			close(sv.published)
		}
	}
	return nd.env.Run()
}

// handle injects a control message with a watchdog. Returns false if HandleControl did not return in time.
func (w *c41Worker) handle(data []byte) bool {
	done := make(chan struct{})
	go func() {
		_ = w.nd.env.Node.HandleControl(data)
		close(done)
	}()
	select {
	case <-done:
		return true
	case <-time.After(c41Wait):
		return false
	}
}

func waitCh(ch chan struct{}, d time.Duration) bool {
	select {
	case <-ch:
		return true
	case <-time.After(d):
		return false
	}
}

func isClosed(ch chan struct{}) bool {
	select {
	case <-ch:
		return true
	default:
		return false
	}
}

func (w *c41Worker) run(bi int, beh []map[string]any, res *vh.Result) {
	completed := 1
	clean := true // false: the node may hold blocked goroutines, use a new one next time
	var steps []any
	svs := map[int]*survey41{}
	nontrivial := false
	defer func() {
		// let everything that is still parked finish
		for _, sv := range svs {
			if !isClosed(sv.release) {
				close(sv.release)
			}
			if !isClosed(sv.ctx.done) {
				close(sv.ctx.done)
			}
			if !isClosed(sv.retGate) {
				close(sv.retGate)
			}
		}
		for _, sv := range svs {
			select {
			case <-sv.ret:
			case <-time.After(c41Wait):
				clean = false
			}
		}
		if !clean {
			if err := w.fresh(); err != nil {
				res.Drift("C41", "cannot create a node: "+err.Error(), nil)
			}
		}
		if completed == 1 && nontrivial {
			res.Distinct(vh.J(steps))
		}
		res.Done(1, completed)
	}()
	drift := func(what string) {
		res.Drift("C41", fmt.Sprintf("%s (behaviour %d)", what, bi), map[string]any{"steps": steps})
		completed = 0
		clean = false
	}
	violate := func(sig, what string) {
		res.Violate("C41", sig, fmt.Sprintf("%s (behaviour %d; %d nodes expected, schedule: %s)", what, bi, 1+len(w.nodes), schedule(steps)), map[string]any{"steps": steps, "nodes": w.nodes, "extra": w.extra})
		completed = 0
		clean = false
	}
	node := w.nd.env.Node
	// the fake nodes are known (and fresh) in the registry, the extra ones are not
	for _, u := range w.nodes {
		b, _ := centrifuge.VerifClusterEncodeNode(u, u)
		if !w.handle(b) {
			drift("node info injection blocked")
			return
		}
	}
	if n := centrifuge.VerifClusterNumNodes(node); n != 1+len(w.nodes) {
		drift(fmt.Sprintf("node registry has %d entries, expected %d", n, 1+len(w.nodes)))
		return
	}
	base := w.issued
	maxS := size(beh[0]["st"])
	realOf := func(id int) uint64 { return base + uint64(id) }

	// quiesce: channel state of every survey as the model says
	// suspect: the registry (read through the shim) is not what the model says. An internal difference alone is not
	// a verdict: the behaviour goes on and the observable consequences (a survey that does not finish, a result that
	// lacks answers) decide; without any it is reported as drift at the end.
	suspect := ""
	overlapped := map[int]bool{} // surveys that were in flight when another survey returned
	defer func() {
		if suspect != "" && completed == 1 {
			drift("internal state only, no observable consequence in this behaviour: " + suspect)
		}
	}()
	quiesce := func(st map[string]any) bool {
		if suspect != "" {
			time.Sleep(time.Millisecond)
			return true
		}
		for i := 1; i <= maxS; i++ {
			state := vh.Str(at(st["st"], i))
			want := len(vh.List(at(st["buf"], i)))
			start := time.Now()
			deadline := start.Add(c41Wait)
			for {
				l, c, ok := centrifuge.VerifClusterSurveyChan(node, realOf(i))
				good := false
				switch state {
				case "idle", "returned":
					good = !ok
				case "collecting":
					good = ok && l == 0
				default: // handler, exited
					good = ok && l == want
				}
				if good && ok && c != 1+len(w.nodes) {
					drift(fmt.Sprintf("survey %d channel capacity %d, expected %d", i, c, 1+len(w.nodes)))
					return false
				}
				if good {
					break
				}
				regMismatch := ok != (state != "idle" && state != "returned")
				if time.Now().After(deadline) || (regMismatch && time.Since(start) > 50*time.Millisecond) {
					sv := svs[i]
					if state == "collecting" && sv != nil && isClosed(sv.exited) {
						violate("early-return", fmt.Sprintf("survey %d finished collecting although only %s answered and the deadline has not passed", i, answered(vh.Map(at(st["results"], i)))))
						return false
					}
					if regMismatch {
						suspect = fmt.Sprintf("survey %d is in model state %s but the survey registry says registered=%v (ids registered: %v)", i, state, ok, centrifuge.VerifClusterSurveyIDs(node))
						return true
					}
					drift(fmt.Sprintf("survey %d in model state %s: registered=%v channel len=%d, model buffer %d", i, state, ok, l, want))
					return false
				}
				time.Sleep(100 * time.Microsecond)
			}
		}
		return true
	}

	for si := 1; si < len(beh); si++ {
		st := beh[si]
		step := vh.Map(st["step"])
		act := vh.Str(step["act"])
		steps = append(steps, step)
		id := 0
		if v, ok := step["id"]; ok {
			id = vh.Int(v)
		}
		sv := svs[id]
		expectExit := func(cause string) bool {
			if !waitCh(sv.exited, c41Wait) {
				sig, extra := "no-return:"+cause, ""
				if cause == "complete" && overlapped[id] {
					sig, extra = "overlap:newer-survey-loses-answers", " (another survey returned while this one was in flight)"
				}
				if suspect != "" {
					extra += "; " + suspect
				}
				violate(sig, fmt.Sprintf("survey %d does not finish although %s%s", id, map[string]string{"complete": "every expected node answered", "deadline": "the deadline passed"}[cause], extra))
				return false
			}
			return true
		}
		switch act {
		case "Start":
			tag := fmt.Sprintf("b%d-s%d", bi, id)
			sv = &survey41{tag: tag, mode: vh.Str(step["mode"]), realID: realOf(id), inHandler: make(chan struct{}), release: make(chan struct{}),
				published: make(chan struct{}), exited: make(chan struct{}), retGate: make(chan struct{}), ret: make(chan surveyRet, 1)}
			var once sync.Once
			sv.ctx = &gateCtx{done: make(chan struct{})}
			sv.ctx.errGate = func() {
				once.Do(func() { close(sv.exited) })
				<-sv.retGate
			}
			svs[id] = sv
			w.mu.Lock()
			w.byTag[tag] = sv
			w.byReal[sv.realID] = sv
			w.mu.Unlock()
			w.issued++
			go func(sv *survey41) {
				r, err := node.Survey(sv.ctx, "verif", []byte(sv.tag), "")
				sv.ret <- surveyRet{r, err}
			}(sv)
			if !waitCh(sv.inHandler, c41Wait) {
				drift(fmt.Sprintf("survey %d: local handler not invoked", id))
				return
			}
			if ids := centrifuge.VerifClusterSurveyIDs(node); !containsID(ids, sv.realID) {
				drift(fmt.Sprintf("survey %d: expected registry id %d, registry has %v", id, sv.realID, ids))
				return
			}
		case "HandlerDone":
			close(sv.release)
			if vh.Bool(step["stuck"]) {
				drift("reference model says stuck (not expected with LocalSend = nonblocking)")
				return
			}
			if !waitCh(sv.published, c41Wait) {
				// the surveying goroutine did not get past the local callback
				violate("survey-stuck-in-local-callback", fmt.Sprintf("survey %d: the survey request was never published: Survey is blocked sending the local answer", id))
				return
			}
			if vh.Bool(step["exits"]) && !expectExit("complete") {
				return
			}
		case "Deliver":
			uid := vh.Str(step["uid"])
			k := vh.Int(step["k"])
			rid := realOf(id)
			tag := fmt.Sprintf("b%d-s%d", bi, id)
			data, err := centrifuge.VerifClusterEncodeSurveyResponse(uid, rid, uint32(k), []byte(fmt.Sprintf("%s:%s:%d", tag, uid, k)))
			if err != nil {
				drift("encode: " + err.Error())
				return
			}
			if !w.handle(data) {
				violate("handle-control-blocks:"+vh.Str(step["fate"]), fmt.Sprintf("Node.HandleControl did not return within %v for a survey response (id %d from %s, answer #%d) that the model %s", c41Wait, id, uid, k, fateText(vh.Str(step["fate"]))))
				return
			}
			if vh.Str(step["fate"]) != "ignored" {
				nontrivial = true
			}
			if vh.Bool(step["exits"]) && !expectExit("complete") {
				return
			}
		case "Deadline":
			close(sv.ctx.done)
			if !expectExit("deadline") {
				return
			}
		case "Return":
			close(sv.retGate)
			var r surveyRet
			select {
			case r = <-sv.ret:
			case <-time.After(c41Wait):
				violate("no-return:after-collector", fmt.Sprintf("survey %d does not return after its collector finished", id))
				return
			}
			sv.ret <- r // keep for the cleanup
			for j, o := range svs {
				if j != id && !isClosed(o.retGate) {
					overlapped[j] = true
				}
			}
			want := map[string]string{}
			for u, p := range vh.Map(step["res"]) {
				pm := vh.Map(p)
				if vh.Int(pm["id"]) == 0 {
					continue
				}
				key := u
				val := fmt.Sprintf("b%d-s%d:%s:%d", bi, vh.Int(pm["id"]), u, vh.Int(pm["k"]))
				if u == "n1" {
					key = node.ID()
					val = fmt.Sprintf("b%d-s%d:self:1", bi, vh.Int(pm["id"]))
				}
				want[key] = val
			}
			got := map[string]string{}
			for u, v := range r.res {
				got[u] = string(v.Data)
			}
			if kind, what := diffResults(want, got, node.ID()); kind != "" {
				if kind == "other-duplicate" {
					// which of a node's duplicated answers is kept is not part of the property
					drift(fmt.Sprintf("survey %d returned %v, the model keeps the latest duplicate %v: %s", id, got, want, what))
					return
				}
				violate("result:"+kind, fmt.Sprintf("survey %d returned %v, expected %v: %s", id, got, want, what))
				return
			}
			if (r.err != nil) != vh.Bool(step["err"]) {
				violate("result:error", fmt.Sprintf("survey %d returned error %v, deadline passed = %v", id, r.err, vh.Bool(step["err"])))
				return
			}
		case "LocalReply":
			if sv.cb == nil {
				drift(fmt.Sprintf("survey %d: no stored callback", id))
				return
			}
			done := make(chan struct{})
			go func(sv *survey41) {
				sv.cb(centrifuge.SurveyReply{Code: 1, Data: []byte(sv.tag + ":self:1")})
				close(done)
			}(sv)
			if !waitCh(done, c41Wait) {
				if vh.Str(step["fate"]) == "blocks" {
					// LocalSend = "blocking" transcription: the model expects it
					clean = false
					continue
				}
				violate("late-local-reply-blocks", fmt.Sprintf("survey %d: the local handler's callback, called after the collector had finished, did not return within %v: it is blocked forever sending into the full response channel (the model %s)", id, c41Wait, fateText(vh.Str(step["fate"]))))
				return
			}
			nontrivial = true
			if vh.Bool(step["exits"]) && !expectExit("complete") {
				return
			}
		default:
			drift("unknown action " + act)
			return
		}
		if !quiesce(st) {
			return
		}
		// a survey the model still has collecting must not have finished
		for i, s := range svs {
			if vh.Str(at(st["st"], i)) == "collecting" && isClosed(s.exited) {
				violate("early-return", fmt.Sprintf("survey %d finished collecting although only %s answered and the deadline has not passed", i, answered(vh.Map(at(st["results"], i)))))
				return
			}
		}
	}
	if bi < 2 {
		res.Sample(map[string]any{"schedule": schedule(steps)})
	}
}

// at reads element i (1-based) of a TLA+ function with domain 1..n, which TLC prints as a sequence (or as a
// function with string keys).
func at(v any, i int) any {
	if l, ok := v.([]any); ok {
		if i-1 < len(l) {
			return l[i-1]
		}
		return nil
	}
	return vh.Map(v)[fmt.Sprint(i)]
}

func size(v any) int {
	if l, ok := v.([]any); ok {
		return len(l)
	}
	return len(vh.Map(v))
}

func containsID(ids []uint64, id uint64) bool {
	for _, x := range ids {
		if x == id {
			return true
		}
	}
	return false
}

func fateText(f string) string {
	switch f {
	case "ignored":
		return "ignores (no such survey in flight)"
	case "collected":
		return "hands to the collector"
	case "buffered":
		return "leaves in the channel (nobody reads)"
	case "dropped":
		return "drops (channel full, nobody reads)"
	}
	return f
}

func answered(r map[string]any) string {
	var out []string
	for u, p := range r {
		if vh.Int(vh.Map(p)["id"]) != 0 {
			out = append(out, u)
		}
	}
	sort.Strings(out)
	return "[" + strings.Join(out, " ") + "]"
}

func diffResults(want, got map[string]string, self string) (string, string) {
	for u, v := range want {
		g, ok := got[u]
		if !ok {
			return "missing", fmt.Sprintf("no entry for %s", u)
		}
		if g != v {
			if i, j := strings.LastIndexByte(g, ':'), strings.LastIndexByte(v, ':'); i > 0 && j > 0 && g[:i] == v[:j] {
				return "other-duplicate", fmt.Sprintf("entry for %s is %q, expected %q", u, g, v)
			}
			return "wrong-answer", fmt.Sprintf("entry for %s is %q, expected %q", u, g, v)
		}
	}
	for u := range got {
		if _, ok := want[u]; !ok {
			return "extra", fmt.Sprintf("unexpected entry for %s (%q)", u, got[u])
		}
	}
	return "", ""
}

func schedule(steps []any) string {
	var out []string
	for _, s := range steps {
		m := vh.Map(s)
		switch vh.Str(m["act"]) {
		case "Start":
			out = append(out, fmt.Sprintf("Start(%d,%s)", vh.Int(m["id"]), vh.Str(m["mode"])))
		case "Deliver":
			out = append(out, fmt.Sprintf("Deliver(id=%d from %s #%d: %s)", vh.Int(m["id"]), vh.Str(m["uid"]), vh.Int(m["k"]), vh.Str(m["fate"])))
		case "LocalReply":
			out = append(out, fmt.Sprintf("LocalReply(%d: %s)", vh.Int(m["id"]), vh.Str(m["fate"])))
		default:
			out = append(out, fmt.Sprintf("%s(%d)", vh.Str(m["act"]), vh.Int(m["id"])))
		}
	}
	return strings.Join(out, "; ")
}

func c41(in json.RawMessage, res *vh.Result) error {
	var ci c41In
	if err := json.Unmarshal(in, &ci); err != nil {
		return err
	}
	nw := ci.Workers
	if nw <= 0 {
		nw = 4
	}
	var wg sync.WaitGroup
	jobs := make(chan int)
	for i := 0; i < nw; i++ {
		w := &c41Worker{nodes: ci.Nodes, extra: ci.Extra}
		if err := w.fresh(); err != nil {
			return err
		}
		wg.Add(1)
		go func() {
			defer wg.Done()
			for bi := range jobs {
				w.run(bi, ci.Behaviours[bi], res)
			}
			go w.nd.env.Close()
		}()
	}
	for bi := range ci.Behaviours {
		jobs <- bi
	}
	close(jobs)
	wg.Wait()
	return nil
}
