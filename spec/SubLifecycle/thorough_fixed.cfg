SPECIFICATION Spec
CONSTANTS
  OpSets <- UpTo4
  JoinRaceFixed = TRUE
  UrgentClose = FALSE
  JobsLast = FALSE
  NoPush = {FALSE, TRUE}
  AttrPairs <- AP_None
  Faults = {}
  MaxFaults = 0
VIEW View
INVARIANTS TypeOK C04 C05 C06 C07_Count C08 C26_Safe C26_Exact C07_Order C07_Prefix
CHECK_DEADLOCK FALSE
