SPECIFICATION Spec
CONSTANTS
  Keys = {"a", "b"}
  NonPub = {"join", "leave"}
  Sizes = {0, 2}
  Delays = {TRUE, FALSE}
  Lates = {TRUE, FALSE}
  Threads = {1}
  MaxAdds = 4
  MaxEnds = 2
  AtomicAdd = TRUE
  ClosedRefuses = TRUE
  SplitGet = FALSE
  RecheckOnStore = TRUE
  StaleTimers = TRUE
VIEW View
INVARIANTS TypeOK LatUnique PendingAgree TimerSane
PROPERTIES OrderPreserved LatestCoalesced EndFlushesAll EndDiscards NoOrphanFlush SizeExact
CHECK_DEADLOCK FALSE
