SPECIFICATION Spec
CONSTANTS
  Conns = {1, 2}
  MaxEnv = 3
  Urgent = FALSE
  Guard = TRUE
  SS = TRUE
  Exp = {}
  Pushes = TRUE
VIEW View
INVARIANTS TypeOK C08 C11_First
CHECK_DEADLOCK FALSE
