SPECIFICATION FairSpecR
CONSTANTS
  Workers = {1, 2}
  Jobs = {1, 2, 3}
  MaxFail = 2
  AllowClose = TRUE
  AtomicWait = TRUE
PROPERTIES Succeeds WorkersExit
CHECK_DEADLOCK FALSE
