SPECIFICATION Spec
CONSTANTS
  Chans = {"a", "b"}
  PresCh = {"a"}
  JLCh = {"a", "b"}
  Free <- FreeSmall
  EmptyMeans = "all"
  ClientArgs = {"", "c1", "c3"}
  SessionArgs = {"", "s1", "s3"}
  LabelArgs = {"", "pro", "free"}
  NamedArgs = {"a", "b"}
  CustomArgs = {FALSE, TRUE}
VIEW View
INVARIANTS TypeOK Consistent
PROPERTIES EmptyChannelUnsubscribesAll NamedChannelUnsubscribesOne
CHECK_DEADLOCK FALSE
