SPECIFICATION SimSpec
CONSTANTS
  MaxCmds = 7
  MaxAsync = 2
  MaxFires = 4
  MaxEnv = 1
  UrgentClose = TRUE
  AfterClose = TRUE
  WithHist = FALSE
  Reduced = FALSE
  CfgSet <- CfgQuick
  GenericKinds = {"publish", "presence", "presence_stats", "history", "rpc"}
INVARIANTS TypeOK
CHECK_DEADLOCK FALSE
