SPECIFICATION Spec
CONSTANTS
  KeySeq <- KeySeq2
  Configs <- ConfigsOrder
  KeyModes = {""}
  CasOffs = {}
  CasEps = {}
  Versions = {0}
  VerEpochs = {""}
  IdemKeys = {""}
  IdemTTLs = {1}
  Scores = {0}
  Limits <- LimitsTiny
  ReadEps <- ReadEpsSmall
  SinceOffs <- SinceOffsTiny
  PageSizes = {1, 2}
  MaxNow = 2
  MaxPubs = 3
  MaxOps = 3
  Deterministic = FALSE
  Manual = FALSE
  SplitDeliver <- TrueDef
VIEW View
INVARIANTS TypeOK ReadStreamIsRetainedSuffix ReadStateIsRefPage PaginationEnumerates PageAfterCursor OrderedFlagFollowsOptions OverdueKeysGone SweeperArmed SubscriberConverges
PROPERTIES FoldPublish FoldRemove OnlyWritesChangeState CheckOrder RemoveReason SuppressedChangesNothing AppliedAppendsAndBroadcastsOnce BroadcastOnlyByChange EpochStable EpochFresh SingleKeyExact ExpiryRemovesOnce ExpiryDeliversQueued RefreshedSurvive ExpiryNoopChangesNothing NeverLostNeverTwice VersionExact UnversionedKeepsVersion VersionedStoresVersion IdemReturnsOriginal IdemSavedOnApply IdemExact IdemSweepKeepsValid HandlerInOffsetOrder WritersWaitForSweeper
CHECK_DEADLOCK FALSE
