SPECIFICATION SimSpec
CONSTANTS
  KeySeq <- KeySeq3
  Configs <- ConfigsManual
  KeyModes = {"", "if_new", "if_new_refresh", "if_exists"}
  CasOffs = {0, 1, 2, 3, 4}
  CasEps = {0, 1, 2}
  Versions = {0, 1, 2, 3}
  VerEpochs = {"", "va", "vb"}
  IdemKeys = {"", "k1", "k2"}
  IdemTTLs = {1, 2, 3}
  Scores <- ScoresSim
  Limits <- LimitsBig
  PageSizes = {1, 2}
  MaxNow = 6
  MaxPubs = 8
  MaxOps = 16
  Deterministic = FALSE
  Manual = TRUE
INVARIANTS TypeOK SweeperArmed SubscriberConverges ReadStreamIsRetainedSuffix ReadStateIsRefPage PageAfterCursor OrderedFlagFollowsOptions
CHECK_DEADLOCK FALSE
