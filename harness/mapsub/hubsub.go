// C26 (map part): replay of spec/MapSub/MapHubSub behaviours.
//
// The node must be subscribed to a map channel in the map broker whenever it has local subscribers, and after the
// deferred (dissolver) jobs drained: broker-subscribed <=> local subscribers.  The memory map broker's Subscribe is a
// no-op, so the node's map broker here is a wrapper (subMapBroker) that tracks Subscribe / Unsubscribe per channel,
// can fail the next Subscribe, and - like Redis PUB/SUB - hands publications to the node only for channels the node
// is subscribed to.  After every step the wrapper's view is compared with Node.Hub().NumSubscribers(channel) and a
// live publication must reach every subscribed connection.
package main

import (
	"context"
	"encoding/json"
	"errors"
	"fmt"
	"sync"
	"time"

	"github.com/centrifugal/centrifuge"
	"github.com/centrifugal/protocol"

	"verifharness/cl"
	"verifharness/vh"
)

type subMapBroker struct {
	*ctxMapBroker // plain forwarding of the data calls
	handler       centrifuge.BrokerEventHandler

	mu         sync.Mutex
	subscribed map[string]bool
	failNext   map[string]bool
	calls      map[string][]string
}

type pubsubFilter struct{ b *subMapBroker }

func (f pubsubFilter) HandlePublication(ch string, pub *centrifuge.Publication, sp centrifuge.StreamPosition, delta bool, prev *centrifuge.Publication) error {
	f.b.mu.Lock()
	ok := f.b.subscribed[ch]
	f.b.mu.Unlock()
	if !ok {
		return nil // the node is not subscribed to this channel in the broker: PUB/SUB delivers nothing
	}
	return f.b.handler.HandlePublication(ch, pub, sp, delta, prev)
}
func (f pubsubFilter) HandleJoin(ch string, info *centrifuge.ClientInfo) error {
	return f.b.handler.HandleJoin(ch, info)
}
func (f pubsubFilter) HandleLeave(ch string, info *centrifuge.ClientInfo) error {
	return f.b.handler.HandleLeave(ch, info)
}

func (b *subMapBroker) RegisterEventHandler(h centrifuge.BrokerEventHandler) error {
	b.handler = h
	return b.Inner.RegisterEventHandler(pubsubFilter{b})
}

func (b *subMapBroker) Subscribe(chs ...string) error {
	b.mu.Lock()
	defer b.mu.Unlock()
	for _, ch := range chs {
		if b.failNext[ch] {
			delete(b.failNext, ch)
			b.calls[ch] = append(b.calls[ch], "subscribe-failed")
			return errors.New("verif: map broker unavailable")
		}
		b.subscribed[ch] = true
		b.calls[ch] = append(b.calls[ch], "subscribe")
	}
	return nil
}

func (b *subMapBroker) Unsubscribe(chs ...string) error {
	b.mu.Lock()
	defer b.mu.Unlock()
	for _, ch := range chs {
		b.subscribed[ch] = false
		b.calls[ch] = append(b.calls[ch], "unsubscribe")
	}
	return nil
}

func (b *subMapBroker) isSubscribed(ch string) bool {
	b.mu.Lock()
	defer b.mu.Unlock()
	return b.subscribed[ch]
}

func (b *subMapBroker) callLog(ch string) []string {
	b.mu.Lock()
	defer b.mu.Unlock()
	return append([]string(nil), b.calls[ch]...)
}

type hubWorker struct {
	env *cl.Env
	b   *subMapBroker
}

func newHubWorker() (*hubWorker, error) {
	env, err := cl.NewEnv(centrifuge.Config{
		LogLevel: centrifuge.LogLevelNone,
		Map: centrifuge.MapConfig{GetMapChannelOptions: func(string) centrifuge.MapChannelOptions {
			return centrifuge.MapChannelOptions{Mode: centrifuge.MapModeRecoverable, KeyTTL: time.Hour, MinPageSize: 1, SubscribeCatchUpTimeout: -1}
		}},
	})
	if err != nil {
		return nil, err
	}
	inner, err := centrifuge.NewMemoryMapBroker(env.Node, centrifuge.MemoryMapBrokerConfig{})
	if err != nil {
		return nil, err
	}
	b := &subMapBroker{ctxMapBroker: &ctxMapBroker{Inner: inner}, subscribed: map[string]bool{}, failNext: map[string]bool{}, calls: map[string][]string{}}
	env.Node.SetMapBroker(b)
	env.OnSubscribe = func(_ *centrifuge.Client, _ centrifuge.SubscribeEvent, cb centrifuge.SubscribeCallback) {
		cb(centrifuge.SubscribeReply{Options: centrifuge.SubscribeOptions{Type: centrifuge.SubscriptionTypeMap}}, nil)
	}
	if err := env.Run(); err != nil {
		return nil, err
	}
	return &hubWorker{env: env, b: b}, nil
}

func (w *hubWorker) run(bi int, try int, beh []map[string]any, res *attempt) {
	ch := fmt.Sprintf("hs%d_%d_%d", vh.Seed(), bi, try)
	conns := map[int]*cl.Conn{}
	defer func() {
		for _, c := range conns {
			c.Client.Disconnect()
			c.Cancel()
		}
	}()
	var steps []any
	completed := 1
	replay := func() map[string]any {
		fr := map[string][]string{}
		for c, conn := range conns {
			fr[fmt.Sprint(c)] = cl.DescribeAll(conn.Frames())
		}
		return map[string]any{"steps": steps, "broker_calls": w.b.callLog(ch), "frames": fr}
	}
	drift := func(what string) {
		res.Drift("C26", fmt.Sprintf("%s (behaviour %d)", what, bi), replay())
		completed = 0
	}
	violate := func(sig, what string) {
		res.Violate("C26", sig, fmt.Sprintf("%s (behaviour %d)", what, bi), replay())
		completed = 0
	}
	conn := func(c int) *cl.Conn {
		if x, ok := conns[c]; ok {
			return x
		}
		x, err := w.env.NewConn(fmt.Sprintf("u%d", c), centrifuge.ProtocolTypeJSON)
		if err != nil || x.Connect() == nil {
			drift("connect failed")
			return nil
		}
		conns[c] = x
		return x
	}
	hadFailure := false
	npub := 0
	for si := 1; si < len(beh) && completed == 1; si++ {
		st := beh[si]
		step := vh.Map(st["step"])
		act := vh.Str(step["act"])
		steps = append(steps, step)
		switch act {
		case "Subscribe":
			c := conn(vh.Int(step["c"]))
			if c == nil {
				break
			}
			if vh.Bool(step["fail"]) {
				w.b.mu.Lock()
				w.b.failNext[ch] = true
				w.b.mu.Unlock()
				hadFailure = true
			}
			id := c.NextID()
			c.Do(&protocol.Command{Id: id, Subscribe: &protocol.SubscribeRequest{Channel: ch, Type: int32(centrifuge.SubscriptionTypeMap), Phase: centrifuge.MapPhaseState, Limit: 100}})
			rep := c.WaitReply(id, 10*time.Second)
			switch {
			case rep == nil:
				drift("no answer to the subscribe command")
			case vh.Bool(step["ok"]) && rep.Subscribe == nil:
				drift("the subscribe was expected to succeed: " + cl.Describe(rep))
			case !vh.Bool(step["ok"]) && rep.Error == nil:
				drift("the subscribe was expected to fail (MapBroker.Subscribe error): " + cl.Describe(rep))
			}
		case "Unsubscribe":
			c := conn(vh.Int(step["c"]))
			if c == nil {
				break
			}
			id := c.NextID()
			c.Do(&protocol.Command{Id: id, Unsubscribe: &protocol.UnsubscribeRequest{Channel: ch}})
			if rep := c.WaitReply(id, 10*time.Second); rep == nil || rep.Unsubscribe == nil {
				drift("unsubscribe failed")
			}
		case "JobsDrain":
			// the dissolver job runs one second after the channel became empty
			if len(vh.List(st["hub"])) == 0 {
				deadline := time.Now().Add(10 * time.Second)
				for w.b.isSubscribed(ch) && time.Now().Before(deadline) {
					time.Sleep(10 * time.Millisecond)
				}
			} else {
				time.Sleep(1500 * time.Millisecond)
			}
		case "Publish":
			npub++
			data := fmt.Sprintf("%d", npub)
			if _, err := w.env.Node.MapPublish(context.Background(), ch, "k", centrifuge.MapPublishOptions{Data: []byte(data)}); err != nil {
				drift("publish: " + err.Error())
				break
			}
			for _, lc := range vh.List(st["live"]) {
				c := conns[vh.Int(lc)]
				got := c.T.WaitFor(5*time.Second, func(rs []*protocol.Reply, closed bool) bool {
					for _, rep := range rs {
						if rep.Push != nil && rep.Push.Channel == ch && rep.Push.Pub != nil && string(rep.Push.Pub.Data) == data {
							return true
						}
					}
					return closed
				})
				if !got || !w.b.isSubscribed(ch) {
					sig := "map-broker-not-subscribed:unexplained:publication-not-delivered"
					if hadFailure {
						sig = "map-broker-not-subscribed:after-failed-first-subscribe:publication-not-delivered"
					}
					violate(sig, fmt.Sprintf("connection %v is subscribed to the map channel (live reply received) but a live publication did not reach it: the node is %ssubscribed to the channel in the map broker (calls %v)", lc, map[bool]string{true: "", false: "NOT "}[w.b.isSubscribed(ch)], w.b.callLog(ch)))
					break
				}
			}
		default:
			drift("unknown action " + act)
		}
		if completed == 0 {
			break
		}
		// C26 at rest
		n := w.env.Node.Hub().NumSubscribers(ch)
		sub := w.b.isSubscribed(ch)
		mhub, mjobs, mbsub := len(vh.List(st["hub"])), vh.Int(st["jobs"]), vh.Bool(st["bsub"])
		switch {
		case n > 0 && !sub:
			sig := "map-broker-not-subscribed:unexplained"
			if hadFailure {
				sig = "map-broker-not-subscribed:after-failed-first-subscribe"
			}
			violate(sig, fmt.Sprintf("after %s the node has %d local subscriber entr%s for the map channel but is not subscribed to it in the map broker (broker calls %v; reference: %d entries, subscribed=%v)", act, n, map[bool]string{true: "y", false: "ies"}[n == 1], w.b.callLog(ch), mhub, mbsub))
		case mjobs == 0 && sub && n == 0:
			violate("map-broker-subscribed-without-subscribers", fmt.Sprintf("after %s (deferred jobs drained) the node has no local subscriber for the map channel but is still subscribed to it in the map broker (broker calls %v)", act, w.b.callLog(ch)))
		case n != mhub || sub != mbsub:
			drift(fmt.Sprintf("after %s: hub entries %d (model %d), broker-subscribed %v (model %v)", act, n, mhub, sub, mbsub))
		}
	}
	if completed == 1 {
		res.Distinct(vh.J(steps))
	}
	if bi < 2 {
		res.Sample(replay())
	}
	res.Done(1, completed)
}

func hubsub(in json.RawMessage, res *vh.Result) error {
	var ri struct {
		Behaviours [][]map[string]any `json:"behaviours"`
	}
	if err := json.Unmarshal(in, &ri); err != nil {
		return err
	}
	w, err := newHubWorker()
	if err != nil {
		return err
	}
	defer w.env.Close()
	const nw = 12 // the behaviours mostly wait for the one-second dissolver delay
	var wg sync.WaitGroup
	jobs := make(chan int)
	for i := 0; i < nw; i++ {
		wg.Add(1)
		go func() {
			defer wg.Done()
			for bi := range jobs {
				var final, first *attempt
				for try := 0; try < 3; try++ {
					a := &attempt{}
					func() {
						defer func() {
							if p := recover(); p != nil {
								a.Drift("C26", fmt.Sprintf("panic in behaviour %d: %v", bi, p), nil)
							}
						}()
						w.run(bi, try, ri.Behaviours[bi], a)
					}()
					final = a
					if first == nil {
						first = a
					}
					if len(a.violations) == 0 && len(a.drifts) == 0 {
						break
					}
					if try > 0 && len(a.violations) > 0 && a.sigs() == first.sigs() {
						break
					}
				}
				for _, v := range final.violations {
					res.Violate(v.Prop, v.Sig, v.What, v.Replay)
				}
				for _, d := range final.drifts {
					res.Drift(d.Prop, d.What, d.Replay)
				}
				for _, k := range final.distinct {
					res.Distinct(k)
				}
				for _, x := range final.samples {
					res.Sample(x)
				}
				res.Done(1, final.completed)
			}
		}()
	}
	for bi := range ri.Behaviours {
		jobs <- bi
	}
	close(jobs)
	wg.Wait()
	return nil
}
