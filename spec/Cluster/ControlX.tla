------------------------------ MODULE ControlX ------------------------------
(* C27, extension of Control.tla (which treats the label filter as ONE fixed filter and unsubscribes a named,
   established channel): the label filter as a parameter over the whole filter grammar, and the remote
   unsubscribe of a subscription that is still being set up on the node that holds the connection.

   1. Filter rows.  A Node-level call with a label filter applies filter.Match(f, Client.labels) on the calling node
      to the caller's tree f, and on every other node to the tree rebuilt from the control message:
          node.go controlpbFilterFromProto  (Enc)   copies Op, Key, Cmp, Val, Vals and, recursively, Nodes
          node.go protoFilterFromControlpb  (Dec)   copies the same six fields back
      Reference: the receiving node evaluates exactly the caller's filter, Dec(Enc(f)) = f (RoundTripIsIdentity),
      hence the same connections are touched (SameTouched).  Match is internal/filter.Match (leaf comparators
      eq neq in nin ex nex sw ew ct gt gte lt lte, a missing key satisfies only neq / nin / nex; and / or / not).
      Strings are atomic in TLC: the prefix / suffix / infix / numeric relations are given as the tables of the
      values used (Holds).  The connections of user "u" on the node that holds them (the harness creates these):
          T  labels {tier: "pro",  lvl: "10"}      D  labels {tier: "free", lvl: "5"}      U  no labels
      and E (user "v", labels as T) that must never be touched.  The values of the 13 leaves below are chosen so
      that the operand of every comparator matters on {T, D, U} (ASSUME OperandMatters).

   2. Phase rows.  Node.Unsubscribe(user, ch) with ch the named channel or "" while the target connection's
      subscription to the channel is: established ("live"), waiting for the OnSubscribe callback ("cb": reservation
      in Client.channels, NOT yet in the hub), parked in Broker.Subscribe client-side / server-side ("csbr" / "ssbr":
      already in the hub).  Local and remote path both end in hub.unsubscribe -> Client.Unsubscribe, whose per-channel
      semantics waits for the subscribe in flight and then tears it down: after release and settling the outcome is
      the same whichever node was called (PhaseOutcome).                                                        *)
EXTENDS Naturals, Sequences, FiniteSets, TLC

CONSTANTS Tier    \* "quick" | "thorough"

Ops == {"subscribe", "unsubscribe", "disconnect", "refresh"}

Node(op, key, cmp, val, vals, nodes) == [op |-> op, key |-> key, cmp |-> cmp, val |-> val, vals |-> vals, nodes |-> nodes]
Leaf(key, cmp, val, vals) == Node("", key, cmp, val, vals, <<>>)
Not(a)    == Node("not", "", "", "", <<>>, <<a>>)
And(a, b) == Node("and", "", "", "", <<>>, <<a, b>>)
Or(a, b)  == Node("or", "", "", "", <<>>, <<a, b>>)

Conns == {"T", "D", "U"}
Labels(c) == CASE c = "T" -> [tier |-> "pro", lvl |-> "10"]
               [] c = "D" -> [tier |-> "free", lvl |-> "5"]
               [] OTHER   -> [k \in {} |-> ""]

\* relation tables over the values used: <<label value, operand>>
StartsWith == {<<"pro", "pr">>}
EndsWith   == {<<"free", "ee">>}
Contains   == {<<"free", "re">>, <<"free", "ee">>, <<"pro", "pr">>}
NumVal(s)  == CASE s = "10" -> 10 [] s = "5" -> 5 [] s = "7" -> 7 [] OTHER -> 0
IsNum(s)   == s \in {"10", "5", "7"}
InSeq(v, q) == \E i \in 1..Len(q) : q[i] = v

LeafHolds(f, l) ==
  LET ok == f.key \in DOMAIN l
      v  == IF ok THEN l[f.key] ELSE ""
  IN CASE f.cmp = "eq"  -> ok /\ v = f.val
       [] f.cmp = "neq" -> ~ok \/ v # f.val
       [] f.cmp = "in"  -> ok /\ InSeq(v, f.vals)
       [] f.cmp = "nin" -> ~ok \/ ~InSeq(v, f.vals)
       [] f.cmp = "ex"  -> ok
       [] f.cmp = "nex" -> ~ok
       [] f.cmp = "sw"  -> ok /\ (f.val = "" \/ <<v, f.val>> \in StartsWith)
       [] f.cmp = "ew"  -> ok /\ (f.val = "" \/ <<v, f.val>> \in EndsWith)
       [] f.cmp = "ct"  -> ok /\ (f.val = "" \/ <<v, f.val>> \in Contains)
       [] f.cmp = "gt"  -> ok /\ IsNum(v) /\ IsNum(f.val) /\ NumVal(v) > NumVal(f.val)
       [] f.cmp = "gte" -> ok /\ IsNum(v) /\ IsNum(f.val) /\ NumVal(v) >= NumVal(f.val)
       [] f.cmp = "lt"  -> ok /\ IsNum(v) /\ IsNum(f.val) /\ NumVal(v) < NumVal(f.val)
       [] f.cmp = "lte" -> ok /\ IsNum(v) /\ IsNum(f.val) /\ NumVal(v) <= NumVal(f.val)

RECURSIVE Match(_, _)
Match(f, l) ==
  CASE f.op = ""    -> LeafHolds(f, l)
    [] f.op = "and" -> \A i \in 1..Len(f.nodes) : Match(f.nodes[i], l)
    [] f.op = "or"  -> \E i \in 1..Len(f.nodes) : Match(f.nodes[i], l)
    [] f.op = "not" -> ~Match(f.nodes[1], l)

\* the two conversions, field by field as the code copies them
RECURSIVE Enc(_), Dec(_)
Enc(f) == [op |-> f.op, key |-> f.key, cmp |-> f.cmp, val |-> f.val, vals |-> f.vals,
           nodes |-> [i \in 1..Len(f.nodes) |-> Enc(f.nodes[i])]]
Dec(w) == [op |-> w.op, key |-> w.key, cmp |-> w.cmp, val |-> w.val, vals |-> w.vals,
           nodes |-> [i \in 1..Len(w.nodes) |-> Dec(w.nodes[i])]]

Touched(f) == {c \in Conns : Match(f, Labels(c))}

Leaves ==
  { Leaf("tier", "eq", "pro", <<>>),  Leaf("tier", "neq", "pro", <<>>),
    Leaf("tier", "in", "", <<"pro", "gold">>), Leaf("tier", "nin", "", <<"pro", "gold">>),
    Leaf("tier", "ex", "", <<>>),     Leaf("tier", "nex", "", <<>>),
    Leaf("tier", "sw", "pr", <<>>),   Leaf("tier", "ew", "ee", <<>>),  Leaf("tier", "ct", "re", <<>>),
    Leaf("lvl", "gt", "7", <<>>),     Leaf("lvl", "gte", "10", <<>>),
    Leaf("lvl", "lt", "7", <<>>),     Leaf("lvl", "lte", "5", <<>>) }
Core == {l \in Leaves : l.cmp \in {"eq", "nin", "in", "nex", "sw", "lt"}}
Pairs(S) == {And(a, b) : a \in S, b \in S} \cup {Or(a, b) : a \in S, b \in S}
Trees ==
  Leaves \cup {Not(l) : l \in Leaves}
  \cup Pairs(IF Tier = "thorough" THEN Leaves ELSE Core)
  \cup {Or(And(a, b), Not(c)) : a \in {Leaf("tier", "ex", "", <<>>)}, b \in Core, c \in Core}
  \cup {Not(Or(a, b)) : a \in Core, b \in {Leaf("tier", "nin", "", <<"pro", "gold">>), Leaf("lvl", "gt", "7", <<>>)}}

Phases == {"live", "cb", "csbr", "ssbr"}

FilterRows == {[kind |-> "filter", op |-> o, f |-> f, wire |-> Enc(f), dec |-> Dec(Enc(f)),
                touched |-> Touched(f), rtouched |-> Touched(Dec(Enc(f)))] : o \in Ops, f \in Trees}
\* the outcome once everything is released and settled: not subscribed, no hub entry, the unsubscribe callback and push once
PhaseOutcome == [subscribed |-> FALSE, hub |-> 0, callbacks |-> 1, pushes |-> 1]
PhaseRows == {[kind |-> "phase", phase |-> p, emptych |-> e, local |-> PhaseOutcome, remote |-> PhaseOutcome] : p \in Phases, e \in BOOLEAN}

VARIABLE row
Init == row \in FilterRows \cup PhaseRows
Next == UNCHANGED row
Spec == Init /\ [][Next]_row

RoundTripIsIdentity == row.kind = "filter" => row.dec = row.f
SameTouched         == row.kind = "filter" => row.touched = row.rtouched
SameOutcome         == row.kind = "phase" => row.local = row.remote
\* the chosen values make every operand matter: a conversion that loses the operand of a leaf changes whom the leaf
\* matches among T, D, U (so losing it on the way to another node is visible)
ASSUME OperandMatters ==
  \A l \in Leaves : (l.val # "" \/ l.vals # <<>>) => Touched(l) # Touched([l EXCEPT !.val = "", !.vals = <<>>])
=============================================================================
