SPECIFICATION Spec
CONSTANTS
  Keys = {1, 2}
  MaxPub = 4
  MaxSubs = 3
  Filts = {TRUE}
  Withhold = FALSE
  DeltaOpts = {TRUE}
  AsCodedFilter = TRUE
VIEW View
INVARIANTS TypeOK C14Map
CHECK_DEADLOCK FALSE
