"""C17, C19 (memory half) -- spec/MemBroker bound to the real MemoryBroker in both directions:
replay of TLC-simulated behaviours (spec -> code) and validation of recorded traces (code -> spec)."""
from lib import vf


def _run(c, prop):
    quick = c.tier == 'quick'
    # 1. design check: exhaustive TLC on the small configuration, all invariants and action properties
    r = c.tlc_exhaustive('MemBroker', 'MemBroker', 'quick.cfg' if quick else 'thorough.cfg', workers=8, timeout=1500)
    c.log('TLC exhaustive: %d distinct / %d generated states, depth %d' % (r['distinct'], r['states'], r['depth']))
    binp = c.go_build('membroker')
    # 2. spec -> code: behaviours simulated by TLC replayed into the real broker (tick clock)
    nb = 600 if quick else 6000
    s = c.tlc('MemBroker', 'MemBrokerSim', 'sim.cfg', simulate=nb, depth=26, timeout=600)
    if not s['ok']:
        raise vf.Inconclusive('simulation failed: %s' % s['out'][-2000:])
    behs = c.behaviours(s)
    c.log('TLC simulate: %d behaviours' % len(behs))
    res = c.harness(binp, 'replay', behs, timeout=300)
    c.absorb(res)
    c.cov['traces_validated_against_impl'] += res['completed']
    c.cov['evaluations'] += res['executed']
    c.cov['distinct_nontrivial'] += res['nontrivial']
    c.cov['samples'] += res['samples'][:2]
    c.cov['replay_counters'] = res['counters']
    # 3. code -> spec: traces recorded from a seeded random driver validated by TLC against MemBrokerTrace
    nt = 150 if quick else 1500
    tr = c.harness(binp, 'trace', {'n': nt, 'ops': 22, 'ticks': 6}, timeout=300)
    c.absorb(tr)
    indexed = [(i, t) for i, t in enumerate(tr['extra']['traces']) if t]
    traces = [t for _, t in indexed]
    index_of = {id(t): i for i, t in indexed}
    accepted = 0
    remaining = list(traces)
    for _round in range(12):
        events = []
        bounds = []
        for t in remaining:
            events += t
            events.append({'ev': 'Reset'})
            bounds.append(len(events))
        if not events:
            break
        ok, info = c.validate_trace('MemBroker', 'MemBrokerTrace', 'trace.cfg', events, timeout=900)
        if ok:
            accepted += len(remaining)
            break
        # locate the rejected trace, judge it alone, drop it and validate the rest
        pref = info.get('matched_prefix', 0)
        bad_i = next((i for i, b in enumerate(bounds) if pref < b), len(remaining) - 1)
        t = remaining[bad_i]
        ok1, info1 = c.validate_trace('MemBroker', 'MemBrokerTrace', 'trace.cfg', t, timeout=300)
        if ok1:
            raise vf.Inconclusive('batch trace rejected but the single trace is accepted: %s' % info)
        # real time is involved: the same driver (same seed, same operations) is executed again alone; a rejection
        # must reproduce, otherwise it was a sweeper/goroutine delayed by machine load
        ti = index_of[id(t)]
        tr2 = c.harness(binp, 'trace', {'n': nt, 'ops': 22, 'ticks': 6, 'only': [ti]}, timeout=300)
        t2 = tr2['extra']['traces'][ti]
        if t2:
            ok2, _ = c.validate_trace('MemBroker', 'MemBrokerTrace', 'trace.cfg', t2, timeout=300)
            if ok2:
                c.cov['unreproduced_trace_rejections'] = c.cov.get('unreproduced_trace_rejections', 0) + 1
                accepted += bad_i
                remaining = remaining[bad_i + 1:]
                continue
        k = info1.get('matched_prefix', 0)
        ev = t[k] if k < len(t) else None
        p = 'C17'
        if ev and ev.get('ev') == 'Publish' and (ev['args']['v'] > 0 or ev['args']['k'] != '' or ev['res']['sup'] != ''):
            p = 'C19'
        if 'violated' in (info1.get('error') or ''):
            what = 'recorded execution violates %s at event %d: %s' % (info1['error'], k, ev)
        else:
            what = 'recorded execution is not a behaviour of the reference stream: event %d %s is not allowed after the matched prefix' % (k, ev)
        if p == c.prop:
            sig = 'trace:%s' % (ev.get('ev') if ev else '?')
            if ev and ev.get('ev') == 'Publish':
                sig = 'publish:suppress:%s' % ev['res'].get('sup', '')
            c.violation(sig, what, {'trace': t, 'matched_prefix': k})
        accepted += bad_i
        remaining = remaining[bad_i + 1:]
    else:
        c.notes.append('more than 12 rejected traces; %d traces left unvalidated' % len(remaining))
    c.cov['traces_validated_against_impl'] += accepted
    c.cov['evaluations'] += len(traces)
    c.cov['trace_events'] = sum(len(t) for t in traces)
    c.cov['samples'].append({'recorded_trace': traces[0][:12]})
    c.cov['rule'] = ('behaviours: TLC -simulate of MemBrokerSim (ops/args by state hash), replayed on the real MemoryBroker with 1 model second = 1 real second; '
                     'non-trivial = behaviour completed with a suppressed publish or a non-empty history read, distinct by operation list; '
                     'traces: seeded random driver, validated by TLC against MemBrokerTrace with silent sweeps')
    c.assumptions += ['single channel per behaviour (every map of the code is keyed by channel)',
                      'sweeper wake-up jitter < 0.5 s (operations run mid-second)',
                      'no-history publishes and delta (prevPub) are outside this spec',
                      'Redis half of the property is not observable in this sandbox (no Redis / Lua)']


def c17(c):
    _run(c, 'C17')


def c19(c):
    """C19 = stream broker half (this family) + map broker half (fam/mapbroker.py c19_map); counters are summed."""
    _run(c, 'C19')
    # blocking assumption of the model: Publish (cache lookup, append, save) is one action under the channel's publish lock
    pr = c.harness(c.go_build('membroker'), 'idemrace', {'n': 5 if c.tier == 'quick' else 40}, timeout=300)
    c.absorb(pr)
    c.cov['idempotency_race_probes'] = pr['completed']
    c.cov['traces_validated_against_impl'] += pr['completed']
    c.cov['evaluations'] += pr['executed']
    from fam import mapbroker
    mapbroker.c19_map(c)


CHECKS = {'C17': c17, 'C19': c19}

_note = ('Bounds: exhaustive config <=3 (quick) / <=4 (thorough) operations, sizes 1-2, TTL 1-2 s, 3 versions x 3 version epochs, 1 idempotency key; '
         'replay/trace configs up to 12-22 operations, sizes 1-3, TTL 1-3 s. Memory broker only. Trusted: TLC, lib/tlaparse.py, harness comparison code, 1 s sweeper period.')
META = {
    'C17': dict(level='model_checking',
                text='MemBroker.tla models the memory broker step by step (stream window, top, epoch creation, expiry/removal queues with the two sweepers, idempotency cache) together with an independent reference for history reads; TLC checks the stream-semantics invariants and action properties exhaustively on a small configuration, then hundreds of simulated behaviours are replayed on the real broker in real time and randomly driven executions of the real broker are validated as behaviours of the spec, every invariant evaluated at every step.',
                note=_note, technique='TLA+ spec + TLC exhaustive; behaviour replay into MemoryBroker; trace validation of recorded executions'),
    'C19': dict(level='model_checking',
                text='Same specification: suppression by idempotency key (with result TTL, ambiguous boundary second modelled as either outcome) and by version/version-epoch are actions of MemBroker.tla with action properties (suppressed changes nothing, exact version rule, unversioned publishes keep the stored version, idempotent repeat returns the original position); bound to the real broker by replay and trace validation, including what reaches the event handler.',
                note=_note + ' Map-broker half: MapBroker.tla with the idempotency result cache, its stale expiry items and the once-a-second cleaner (fam/mapbroker.py c19_map): 200 (quick) aimed behaviours replayed on the real MemoryMapBroker.', technique='TLA+ spec + TLC exhaustive; behaviour replay; trace validation'),
}
