SPECIFICATION Spec
CONSTANTS
  Chans = {"a", "b", "c"}
  PresCh = {"a", "c"}
  JLCh = {"a", "b"}
  Free <- FreeBig
  EmptyMeans = "all"
  ClientArgs = {"", "c1"}
  SessionArgs = {"", "s3"}
  LabelArgs = {"", "free"}
  NamedArgs = {"c"}
  CustomArgs = {FALSE, TRUE}
VIEW View
INVARIANTS TypeOK Consistent
PROPERTIES EmptyChannelUnsubscribesAll NamedChannelUnsubscribesOne
CHECK_DEADLOCK FALSE
