SPECIFICATION SubSpec
CONSTANTS
  Keys = {"a"}
  NonPub = {"join", "leave"}
  Sizes = {2}
  Delays = {TRUE}
  Lates = {FALSE}
  Threads = {1}
  MaxAdds = 2
  MaxEnds = 100
  AtomicAdd = TRUE
  ClosedRefuses = TRUE
  SplitGet = FALSE
  RecheckOnStore = TRUE
  StaleTimers = FALSE
  EarlyDel = TRUE
  MaxGen = 2
  BatchedKinds = {"pub", "join", "leave", "other"}
  SubSplit = FALSE
  CfgSwitch = "direct"
VIEW SubView
INVARIANTS TypeOK WireOrdered

CHECK_DEADLOCK FALSE
