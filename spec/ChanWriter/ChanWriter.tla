----------------------------- MODULE ChanWriter -----------------------------
(* Per-channel batching of a connection: client_experimental.go
   perChannelWriter (writers map under pcw.mu: getWriter / delWriter / Close /
   Add) and channelWriter (buffer, latestPubs, timer + timerStop identity under
   w.mu: Add, waitTimer, stopTimerLocked, flushLocked, close), for ONE channel
   (the writers map is keyed by channel, writers share nothing).

   Property decided here: C13 -- per channel the flushed sequence is the added
   sequence (normal mode); in latest-publication mode every flush is the
   non-publication items in order followed by only the newest publication of
   each key in last-update order; nothing added before DelWriter(false) /
   Close(false) is flushed afterwards; DelWriter(true) / Close(true) lose
   nothing.

   Writer objects are numbered by creation (`w` is the sequence of all writer
   objects ever created, `cur` the one in the map, 0 = none): getWriter after
   delWriter creates a NEW object, a goroutine that obtained the old object
   before delWriter still adds to the old one (an orphan).  perChannelWriter.Add
   is the two critical sections GetWriter (pcw.mu) and WAdd (w.mu); with
   AtomicAdd = TRUE they are one step (single producer / the sequences the
   property quantifies over), with FALSE a DelWriter may run in between
   (race.cfg: the window of DESIGN section 10 item 3).

   Timers.  Add arms a timer when the writer holds exactly one item and none is
   armed; the identity of a timer is the Add that armed it (the code: a fresh
   timerStop channel per timer).  `tg` is the set of waitTimer goroutines that
   have not finished: TimerFire(x) is the tm.C branch (acts only if x is still
   the writer's active timer), TimerExit(x) the stop branch of a cancelled
   one.  A cancelled timer whose channel already fired may take either branch:
   both are in the model (StaleTimers = TRUE).                              *)
EXTENDS Integers, Sequences, FiniteSets, TLC

CONSTANTS
  Keys,          \* publication keys
  NonPub,        \* non-publication item kinds offered: subset of {"join", "leave", "other"}
  Sizes,         \* MaxSize values (0 = no size flush)
  Delays,        \* subset of BOOLEAN: MaxDelay > 0
  Lates,         \* subset of BOOLEAN: FlushLatestPublication
  Threads,       \* adder goroutines
  MaxAdds, MaxEnds,
  AtomicAdd,     \* perChannelWriter.Add is one step
  SplitGet,      \* getWriter itself is two steps: the RLock lookup, and (on a miss) the creation under pcw.mu.Lock
  ClosedRefuses, \* a closed channelWriter refuses items and perChannelWriter.Add looks the writer up again (the code: TRUE)
  RecheckOnStore,\* ... which looks the channel up again before storing a new writer (the code: TRUE)
  StaleTimers    \* cancelled waitTimer goroutines stay in `tg` until they fire (no-op) or exit

VARIABLES
  cfg,           \* the channel's ChannelBatchConfig: [size, delay, latest]
  cur,           \* writer object in pcw.writers[ch] (0 = none)
  w,             \* all writer objects: <<[buf, lat, timer]>>; timer = id of the active timer, 0 = nil
  tg,            \* unfinished waitTimer goroutines: set of [id, g]
  infl,          \* per thread: [g, it] between getWriter and w.Add; g = 0: idle
  nadd, nend,
  pclosed,       \* perChannelWriter.closed (set by Close)
  ref,           \* REFERENCE, per writer object: items added and neither flushed nor discarded, in add order
  step

vars == <<cfg, cur, w, tg, infl, nadd, nend, pclosed, ref, step>>

NoItem == [id |-> 0, k |-> "", key |-> ""]
Idle   == [g |-> 0, it |-> NoItem]
EmptyW == [buf |-> <<>>, lat |-> <<>>, timer |-> 0, closed |-> FALSE]

Items(id) == {[id |-> id, k |-> "pub", key |-> key] : key \in Keys}
             \cup {[id |-> id, k |-> k, key |-> ""] : k \in NonPub}

IsPub(it) == it.k = "pub"
Ids(s) == [i \in 1..Len(s) |-> s[i].id]
RECURSIVE Flat(_)
Flat(bs) == IF bs = <<>> THEN <<>> ELSE Head(bs) \o Flat(Tail(bs))
IsPrefix(a, b) == Len(a) <= Len(b) /\ \A i \in 1..Len(a) : a[i] = b[i]

Cfgs == {c \in [size : Sizes, delay : Delays, latest : Lates] : c.size > 0 \/ c.delay}

Init ==
  /\ cfg \in Cfgs
  /\ cur = 0 /\ w = <<>> /\ tg = {} /\ infl = [t \in Threads |-> Idle]
  /\ nadd = 0 /\ nend = 0 /\ ref = <<>> /\ pclosed = FALSE
  /\ step = [act |-> "Init"]

---------------------------------------------------------------------------
(* channelWriter, statement by statement *)

\* flushLocked: the batch handed to flushFn
Batch(ws) == IF cfg.latest /\ ws.lat # <<>> THEN ws.buf \o ws.lat ELSE ws.buf
Holds(ws) == Len(ws.buf) + Len(ws.lat) > 0

\* "for i, existing := range latestPubs { if existing.Key == item.Key { remove i; break } }"
RECURSIVE RemoveFirstKey(_, _)
RemoveFirstKey(s, key) ==
  IF s = <<>> THEN <<>>
  ELSE IF Head(s).key = key THEN Tail(s) ELSE <<Head(s)>> \o RemoveFirstKey(Tail(s), key)

\* channelWriter.Add(item, cfg) on writer state ws
AddImpl(ws, it) ==
  LET coal  == cfg.latest /\ IsPub(it)
      lat1  == IF coal THEN Append(RemoveFirstKey(ws.lat, it.key), it) ELSE ws.lat
      buf1  == IF coal THEN ws.buf ELSE Append(ws.buf, it)
      total == Len(buf1) + Len(lat1)
      arm   == cfg.delay /\ total = 1 /\ ws.timer = 0
      tm1   == IF arm THEN it.id ELSE ws.timer
      full  == cfg.size > 0 /\ total >= cfg.size
      ws1   == [buf |-> buf1, lat |-> lat1, timer |-> tm1, closed |-> FALSE]
  IN [ws      |-> IF full THEN EmptyW ELSE ws1,            \* stopTimerLocked + flushLocked
      flushed |-> IF full THEN <<Batch(ws1)>> ELSE <<>>,
      armed   |-> arm,
      stopped |-> IF full THEN tm1 ELSE 0]

\* channelWriter.close(flushRemaining)
CloseImpl(ws, fl) ==
  [ws      |-> [EmptyW EXCEPT !.closed = ClosedRefuses],       \* w.closed = true
   flushed |-> IF fl /\ Holds(ws) THEN <<Batch(ws)>> ELSE <<>>,
   stopped |-> ws.timer]

\* a cancelled timer's goroutine: stays until it exits (StaleTimers) or disappears at once
Cancel(set, g, id) == IF id = 0 \/ StaleTimers THEN set ELSE set \ {[id |-> id, g |-> g]}

\* the reference after a step that flushed the items `ids` from the pending sequence r: in latest mode a flush
\* consumes everything pending (delivered or superseded by a newer publication of its key)
Minus(r, ids) == IF ids = <<>> THEN r
                 ELSE IF cfg.latest THEN <<>>
                 ELSE SelectSeq(r, LAMBDA x : \A i \in 1..Len(ids) : ids[i] # x.id)

---------------------------------------------------------------------------
(* perChannelWriter *)

GetWriterG == IF cur = 0 THEN Len(w) + 1 ELSE cur

\* the w.Add critical section of thread t on writer object g with item it
DoWAdd(g, it, wbase, refbase, act, t, created) ==
  LET r == AddImpl(wbase[g], it)
      pre == Append(refbase[g], it)
  IN /\ w' = [wbase EXCEPT ![g] = r.ws]
     /\ tg' = Cancel(IF r.armed THEN tg \cup {[id |-> it.id, g |-> g]} ELSE tg, g, r.stopped)
     /\ ref' = [refbase EXCEPT ![g] = Minus(pre, Ids(Flat(r.flushed)))]
     /\ step' = [act |-> act, t |-> t, item |-> it, gen |-> g, created |-> created, armed |-> r.armed,
                 orphan |-> (g # cur'), fl |-> FALSE, flushed |-> r.flushed]

Add(t, it) ==                                  \* AtomicAdd: getWriter + w.Add
  /\ AtomicAdd /\ nadd < MaxAdds
  /\ nadd' = nadd + 1
  /\ IF cur # 0 /\ w[cur].closed
       THEN \* the writer in the map was closed by Close: w.Add refuses, pcw.closed: the item is dropped
            /\ UNCHANGED <<cur, w, tg, ref>>
            /\ step' = [act |-> "Add", t |-> t, item |-> it, gen |-> cur, created |-> FALSE, armed |-> FALSE,
                        orphan |-> FALSE, fl |-> FALSE, flushed |-> <<>>, dropped |-> TRUE]
       ELSE
     LET g == GetWriterG
         created == cur = 0
         wb == IF created THEN Append(w, EmptyW) ELSE w
         rb == IF created THEN Append(ref, <<>>) ELSE ref
     IN /\ cur' = g
        /\ DoWAdd(g, it, wb, rb, "Add", t, created)
  /\ UNCHANGED <<cfg, pclosed, infl, nend>>

GetWriter(t, it) ==
  /\ ~AtomicAdd /\ ~SplitGet /\ infl[t].g = 0 /\ nadd < MaxAdds
  /\ nadd' = nadd + 1
  /\ LET g == GetWriterG
         created == cur = 0
     IN /\ cur' = g
        /\ w' = IF created THEN Append(w, EmptyW) ELSE w
        /\ ref' = IF created THEN Append(ref, <<>>) ELSE ref
        /\ infl' = [infl EXCEPT ![t] = [g |-> g, it |-> it]]
        /\ step' = [act |-> "GetWriter", t |-> t, item |-> it, gen |-> g, created |-> created, armed |-> FALSE,
                    orphan |-> FALSE, fl |-> FALSE, flushed |-> <<>>]
  /\ UNCHANGED <<cfg, pclosed, tg, nend>>

\* getWriter in its two critical sections.  Lookup: "RLock; w, exists := writers[ch]; RUnlock" (a miss is g = -1).
\* Store: "Lock; [w, exists = writers[ch]; if !exists] { w = newChannelWriter; writers[ch] = w }; Unlock": without the
\* re-check a writer stored by another goroutine meanwhile is overwritten and stays behind, unreachable from the map.
Lookup(t, it) ==
  /\ ~AtomicAdd /\ SplitGet /\ infl[t].g = 0 /\ nadd < MaxAdds
  /\ nadd' = nadd + 1
  /\ infl' = [infl EXCEPT ![t] = [g |-> IF cur = 0 THEN -1 ELSE cur, it |-> it]]
  /\ UNCHANGED <<cfg, pclosed, cur, w, tg, nend, ref>>
  /\ step' = [act |-> "Lookup", t |-> t, item |-> it, gen |-> cur, created |-> FALSE, armed |-> FALSE,
              orphan |-> FALSE, fl |-> FALSE, flushed |-> <<>>]

Store(t) ==
  /\ ~AtomicAdd /\ SplitGet /\ infl[t].g = -1
  /\ LET reuse == RecheckOnStore /\ cur # 0
         g == IF reuse THEN cur ELSE Len(w) + 1
     IN /\ cur' = g
        /\ w' = IF reuse THEN w ELSE Append(w, EmptyW)
        /\ ref' = IF reuse THEN ref ELSE Append(ref, <<>>)
        /\ infl' = [infl EXCEPT ![t].g = g]
        /\ step' = [act |-> "Store", t |-> t, item |-> infl[t].it, gen |-> g, created |-> ~reuse, armed |-> FALSE,
                    orphan |-> FALSE, fl |-> FALSE, flushed |-> <<>>]
  /\ UNCHANGED <<cfg, pclosed, tg, nadd, nend>>

WAdd(t) ==
  /\ ~AtomicAdd /\ infl[t].g > 0
  /\ cur' = cur
  /\ IF w[infl[t].g].closed
       THEN \* refused; perChannelWriter.Add returns if the whole perChannelWriter is closed, else fetches the writer again
            /\ infl' = [infl EXCEPT ![t] = IF pclosed THEN Idle ELSE [g |-> -2, it |-> infl[t].it]]
            /\ UNCHANGED <<w, tg, ref>>
            /\ step' = [act |-> "WAdd", t |-> t, item |-> infl[t].it, gen |-> infl[t].g, created |-> FALSE, armed |-> FALSE,
                        orphan |-> (infl[t].g # cur), fl |-> FALSE, flushed |-> <<>>, refused |-> TRUE, dropped |-> pclosed]
       ELSE /\ infl' = [infl EXCEPT ![t] = Idle]
            /\ DoWAdd(infl[t].g, infl[t].it, w, ref, "WAdd", t, FALSE)
  /\ UNCHANGED <<cfg, pclosed, nadd, nend>>

\* the loop of perChannelWriter.Add after a refusal: getWriter again
Retry(t) ==
  /\ ~AtomicAdd /\ infl[t].g = -2
  /\ IF SplitGet
       THEN /\ infl' = [infl EXCEPT ![t].g = IF cur = 0 THEN -1 ELSE cur]
            /\ UNCHANGED <<cur, w, ref>>
       ELSE /\ cur' = GetWriterG
            /\ w' = IF cur = 0 THEN Append(w, EmptyW) ELSE w
            /\ ref' = IF cur = 0 THEN Append(ref, <<>>) ELSE ref
            /\ infl' = [infl EXCEPT ![t].g = GetWriterG]
  /\ step' = [act |-> "Retry", t |-> t, item |-> infl[t].it, gen |-> IF cur = 0 THEN Len(w) + 1 ELSE cur, created |-> (cur = 0 /\ ~SplitGet),
              armed |-> FALSE, orphan |-> FALSE, fl |-> FALSE, flushed |-> <<>>]
  /\ UNCHANGED <<cfg, pclosed, tg, nadd, nend>>

\* waitTimer, case <-tm.C
TimerFire(x) ==
  /\ x \in tg
  /\ tg' = tg \ {x}
  /\ LET ws == w[x.g]
         live == ws.timer = x.id                     \* "if w.timerStop == stop"
     IN \/ /\ live
           /\ w' = [w EXCEPT ![x.g] = EmptyW]
           /\ ref' = [ref EXCEPT ![x.g] = Minus(ref[x.g], Ids(IF Holds(ws) THEN Batch(ws) ELSE <<>>))]
           /\ step' = [act |-> "TimerFire", id |-> x.id, gen |-> x.g, stale |-> FALSE, orphan |-> (x.g # cur),
                       fl |-> FALSE, item |-> NoItem, flushed |-> IF Holds(ws) THEN <<Batch(ws)>> ELSE <<>>]
        \/ /\ ~live
           /\ UNCHANGED <<w, ref>>
           /\ step' = [act |-> "TimerFire", id |-> x.id, gen |-> x.g, stale |-> TRUE, orphan |-> (x.g # cur),
                       fl |-> FALSE, item |-> NoItem, flushed |-> <<>>]
  /\ UNCHANGED <<cfg, pclosed, cur, infl, nadd, nend>>

\* waitTimer, case <-stop (only a cancelled timer)
TimerExit(x) ==
  /\ x \in tg /\ w[x.g].timer # x.id
  /\ tg' = tg \ {x}
  /\ UNCHANGED <<cfg, pclosed, cur, w, infl, nadd, nend, ref>>
  /\ step' = [act |-> "TimerExit", id |-> x.id, gen |-> x.g, orphan |-> FALSE, fl |-> FALSE, item |-> NoItem, flushed |-> <<>>]

DelWriter(fl) ==
  /\ nend < MaxEnds /\ nend' = nend + 1
  /\ IF cur = 0
       THEN /\ UNCHANGED <<w, tg, ref, cur>>
            /\ step' = [act |-> "Del", fl |-> fl, gen |-> 0, orphan |-> FALSE, item |-> NoItem, flushed |-> <<>>]
       ELSE LET r == CloseImpl(w[cur], fl)
            IN /\ w' = [w EXCEPT ![cur] = r.ws]
               /\ tg' = Cancel(tg, cur, r.stopped)
               /\ ref' = [ref EXCEPT ![cur] = <<>>]
               /\ cur' = 0
               /\ step' = [act |-> "Del", fl |-> fl, gen |-> cur, orphan |-> FALSE, item |-> NoItem, flushed |-> r.flushed]
  /\ UNCHANGED <<cfg, pclosed, infl, nadd>>

\* perChannelWriter.Close: every writer in the map is closed, none is removed
Close(fl) ==
  /\ nend < MaxEnds /\ nend' = nend + 1
  /\ IF cur = 0
       THEN /\ UNCHANGED <<w, tg, ref>>
            /\ step' = [act |-> "Close", fl |-> fl, gen |-> 0, orphan |-> FALSE, item |-> NoItem, flushed |-> <<>>]
       ELSE LET r == CloseImpl(w[cur], fl)
            IN /\ w' = [w EXCEPT ![cur] = r.ws]
               /\ tg' = Cancel(tg, cur, r.stopped)
               /\ ref' = [ref EXCEPT ![cur] = <<>>]
               /\ step' = [act |-> "Close", fl |-> fl, gen |-> cur, orphan |-> FALSE, item |-> NoItem, flushed |-> r.flushed]
  /\ pclosed' = TRUE                       \* pcw.closed
  /\ UNCHANGED <<cfg, cur, infl, nadd>>

Next ==
  \/ \E t \in Threads, it \in Items(nadd + 1) : Add(t, it) \/ GetWriter(t, it) \/ Lookup(t, it)
  \/ \E t \in Threads : WAdd(t) \/ Store(t) \/ Retry(t)
  \/ \E x \in tg : TimerFire(x) \/ TimerExit(x)
  \/ \E fl \in BOOLEAN : DelWriter(fl) \/ Close(fl)

Spec == Init /\ [][Next]_vars

---------------------------------------------------------------------------
(* C13.  The reference `ref` knows nothing of buffer / latestPubs / timers: it is the add order minus what was
   flushed or discarded.  All checks are ACTION properties over step' (FRAMEWORK rule 0).                  *)

NonPubs(s) == SelectSeq(s, LAMBDA x : ~IsPub(x))
Pubs(s)    == SelectSeq(s, IsPub)
\* the newest publication of each key, in last-update order
RECURSIVE LastPerKey(_)
LastPerKey(ps) ==
  IF ps = <<>> THEN <<>>
  ELSE IF \E j \in 2..Len(ps) : ps[j].key = ps[1].key THEN LastPerKey(Tail(ps))
  ELSE <<ps[1]>> \o LastPerKey(Tail(ps))
Coalesced(s) == NonPubs(s) \o LastPerKey(Pubs(s))
Expected(s)  == IF cfg.latest THEN Coalesced(s) ELSE s

Flushing == step'.act \in {"Add", "WAdd", "TimerFire", "Del", "Close"} /\ step'.flushed # <<>>
\* what was pending on the flushing writer object, including the item of this very Add
Pre == LET g == step'.gen
           r == IF g <= Len(ref) THEN ref[g] ELSE <<>>
       IN IF step'.act \in {"Add", "WAdd"} THEN Append(r, step'.item) ELSE r

\* normal mode: the flushed sequence is the added sequence
OrderPreserved == [][ (Flushing /\ ~cfg.latest) => IsPrefix(Flat(step'.flushed), Pre) ]_vars
\* latest mode: join/leave in order, then only the newest publication per key in last-update order
LatestCoalesced == [][ (Flushing /\ cfg.latest) => (Len(step'.flushed) = 1 /\ step'.flushed[1] = Coalesced(Pre)) ]_vars
\* removal / close with flush lose nothing, without flush deliver nothing
EndFlushesAll == [][ (step'.act \in {"Del", "Close"} /\ step'.fl /\ step'.gen # 0) =>
                        Flat(step'.flushed) = Expected(Pre) ]_vars
EndDiscards   == [][ (step'.act \in {"Del", "Close"} /\ ~step'.fl) => step'.flushed = <<>> ]_vars
\* nothing reaches the connection from a writer object that was removed (the subscription ended)
NoOrphanFlush == [][ Flushing => ~step'.orphan ]_vars
\* a size flush happens exactly when the size is reached
\* (an Add refused by a closed writer, or dropped after Close, adds nothing)
Accepted(st) == "dropped" \notin DOMAIN st /\ "refused" \notin DOMAIN st
SizeExact == [][ (step'.act \in {"Add", "WAdd"} /\ Accepted(step')) =>
                   ((step'.flushed # <<>>) <=> (cfg.size > 0 /\ Len(Expected(Pre)) >= cfg.size)) ]_vars

\* state invariants (design level; the harness compares them through read-only accessors)
LatUnique == \A g \in 1..Len(w) : \A i, j \in 1..Len(w[g].lat) : (i # j) => w[g].lat[i].key # w[g].lat[j].key
PendingAgree == \A g \in 1..Len(w) : w[g].buf \o w[g].lat = Expected(ref[g])
TimerSane == \A g \in 1..Len(w) :
               /\ (w[g].timer # 0) => (cfg.delay /\ Holds(w[g]) /\ [id |-> w[g].timer, g |-> g] \in tg)
               /\ (cfg.delay /\ Holds(w[g])) => w[g].timer # 0         \* nothing waits without a timer
\* (configurations without removals) every buffered item sits in the writer the map reaches
SingleWriter == \A g \in 1..Len(w) : (g # cur) => ~Holds(w[g])
TypeOK == /\ cur \in 0..Len(w)
          /\ (cur # 0 /\ w[cur].closed) => pclosed      \* a closed writer stays in the map only after Close /\ Len(ref) = Len(w) /\ nadd <= MaxAdds /\ nend <= MaxEnds
          /\ \A g \in 1..Len(w) : (g # cur /\ AtomicAdd) => ~Holds(w[g])

View == <<cfg, cur, w, tg, infl, nadd, nend, pclosed, ref>>
=============================================================================
