package main

import (
	"encoding/json"
	"fmt"
	"sort"
	"sync"
	"sync/atomic"
	"time"

	"github.com/centrifugal/centrifuge"

	"verifharness/vh"
)

type readersIn struct {
	Keys    int `json:"keys"`
	Seconds int `json:"seconds"`
}

// readers (C21): concurrent ReadState calls on ONE ordered channel, no writer. The reference treats reads as atomic with respect
// to each other (blocking assumption of MapBroker.tla: a read's view is one consistent sorted order): whatever other readers
// do -- in particular readers of the opposite direction, which make the code re-sort its cached key slice -- every walk
// enumerates every key exactly once in its direction's (score, key) order. A panic inside ReadState is a violation.
func readers(in json.RawMessage, res *vh.Result) error {
	var cfg readersIn
	if err := json.Unmarshal(in, &cfg); err != nil {
		return err
	}
	reg := &registry{}
	b, _, closeFn := newBroker(reg, false)
	defer closeFn()
	ch := fmt.Sprintf("rd%d", vh.Seed())
	reg.set(ch, chanCfg{Mode: "per", Ord: true, Size: 8, STTL: 50}.options(time.Second))
	type kv struct {
		k  string
		sc int64
	}
	var all []kv
	for i := 0; i < cfg.Keys; i++ {
		k := fmt.Sprintf("k%05d", (i*7919)%cfg.Keys)
		sc := int64((i * 31) % 97) // many ties
		o := centrifuge.VerifMapScore(centrifuge.MapPublishOptions{Data: []byte("1")}, sc)
		if _, err := b.Publish(bg, ch, k, o); err != nil {
			return err
		}
		all = append(all, kv{k, sc})
	}
	order := func(asc bool) []string {
		s := append([]kv(nil), all...)
		sort.Slice(s, func(i, j int) bool {
			if s[i].sc != s[j].sc {
				return (s[i].sc < s[j].sc) == asc
			}
			return (s[i].k < s[j].k) == asc
		})
		out := make([]string, len(s))
		for i, x := range s {
			out[i] = x.k
		}
		return out
	}
	ref := map[bool][]string{true: order(true), false: order(false)}
	deadline := time.Now().Add(time.Duration(cfg.Seconds) * time.Second)
	var walks int64
	var wg sync.WaitGroup
	for ri := 0; ri < 4; ri++ {
		wg.Add(1)
		go func(ri int) {
			defer wg.Done()
			asc := ri%2 == 0
			limits := []int{-1, 1000, 250}
			for n := 0; time.Now().Before(deadline); n++ {
				limit := limits[(n+ri)%len(limits)]
				var got []string
				cursor := ""
				bad := ""
				for pi := 0; pi <= cfg.Keys; pi++ {
					r := readState(b, ch, centrifuge.MapReadStateOptions{Cursor: cursor, Limit: limit, Asc: asc})
					if r.Err != "" {
						bad = r.Err
						break
					}
					for _, p := range r.Pubs {
						got = append(got, p.Key)
					}
					if r.Next == "" {
						break
					}
					if r.Next == cursor || len(r.Pubs) == 0 {
						bad = "no progress"
						break
					}
					cursor = r.Next
				}
				if bad == "" {
					want := ref[asc]
					if len(got) != len(want) {
						bad = fmt.Sprintf("%d keys enumerated, the state holds %d", len(got), len(want))
					} else {
						for i := range got {
							if got[i] != want[i] {
								bad = fmt.Sprintf("position %d is %s, the sort order has %s", i, got[i], want[i])
								break
							}
						}
					}
				}
				atomic.AddInt64(&walks, 1)
				if bad != "" {
					res.Violate("C21", "pages:concurrent-opposite-readers", fmt.Sprintf("a walk with page size %d asc=%v over an unchanging ordered channel of %d keys, "+
						"while 3 other readers (both directions) read the same channel, does not enumerate the sorted keys exactly once: %s", limit, asc, cfg.Keys, bad),
						map[string]any{"keys": cfg.Keys, "limit": limit, "asc": asc})
					return
				}
			}
		}(ri)
	}
	fin := make(chan struct{})
	go func() { wg.Wait(); close(fin) }()
	select {
	case <-fin:
	case <-time.After(time.Duration(cfg.Seconds+5) * time.Second): // a reader that crashed inside the broker may have left a lock behind
		res.Count("readers_still_blocked_at_the_end", 1)
	}
	res.Count("concurrent_walks", int(atomic.LoadInt64(&walks)))
	res.Done(int(atomic.LoadInt64(&walks)), int(atomic.LoadInt64(&walks)))
	return nil
}
