SPECIFICATION SubSpec
CONSTANTS
  Keys = {"a"}
  NonPub = {}
  Sizes = {2}
  Delays = {TRUE}
  Lates = {FALSE}
  Threads = {1}
  MaxAdds = 2
  MaxEnds = 100
  AtomicAdd = TRUE
  ClosedRefuses = TRUE
  SplitGet = FALSE
  RecheckOnStore = TRUE
  StaleTimers = FALSE
  EarlyDel = FALSE
  MaxGen = 2
  BatchedKinds = {"pub", "join", "leave", "other"}
  SubSplit = FALSE
  CfgSwitch = "none"
VIEW SubView
INVARIANTS TypeOK
PROPERTIES GenBracket
CHECK_DEADLOCK FALSE
