-------------------------- MODULE ConnTimersSim --------------------------
(* Behaviour generator for replay (TLC -simulate) over ConnTimers: every action class contributes a fixed number
   of slots (`w` makes them distinct successors) so that ticks, connects and timer firings are as likely as the
   many refresh variants. *)
EXTENDS ConnTimers

VARIABLE w
simvars == <<vars, w>>

Modes == {"-", "extend", "zero", "expired", "err", "disc", "past"}

SimNext ==
  IF closing # <<>> THEN CloseRun /\ w' = 0
  ELSE IF status = "closed" /\ ~run THEN FALSE          \* the behaviour ends with the connection
  ELSE
  \/ \E s \in (IF status = "connecting" \/ run THEN 1..1 ELSE IF tmr.op = "expire" /\ now < tmr.at THEN 1..8 ELSE 1..3) : Tick /\ w' = s
  \/ \E s \in 1..8 : Connect("ok") /\ w' = s
  \/ \E s \in 1..2, m \in {"err", "sserr"} : Connect(m) /\ w' = s
  \/ \E s \in 1..3 : Subscribe /\ w' = s
  \/ \E s \in 1..2 : Pong /\ w' = s
  \/ \E s \in (IF tmr.op = "stale" /\ ~unusable THEN 1..1 ELSE IF tmr.op = "expire" THEN 1..6 ELSE 1..2) : TimerFire /\ w' = s
  \* a dequeued callback usually runs at once; sometimes something gets in between
  \/ \E s \in 1..8, m \in Modes : TimerRun(m) /\ w' = s
  \/ \E m \in Modes : (ClientRefresh(m) \/ ServerRefresh(m) \/ SubRefresh(m)) /\ w' = 0

SimSpec == Init /\ w = 0 /\ [][SimNext]_simvars
=============================================================================
