SPECIFICATION Spec
CONSTANTS
  InitCaps = {1, 2, 3}
  MaxItems = 9
  Batches <- BatchesStd
  BufLens = {1, 2, 3, 16}
  ByteSizes = {1, 2}
  ManyLens = {0, 2, 3}
VIEW View
INVARIANTS Refines LenSizeCap TypeOK
PROPERTIES ReturnsFifoPrefix GrowRule ShrinkRule
CHECK_DEADLOCK FALSE
