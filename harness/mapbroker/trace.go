package main

import (
	"encoding/json"

	"verifharness/vh"
)

func trace(in json.RawMessage, res *vh.Result) error { return nil }
