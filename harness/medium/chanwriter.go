package main

// C13: sequential replay of spec/ChanWriter behaviours and the concurrent trace driver, both on the REAL
// perChannelWriter (overlay shim), with the observable-only monitors of the property.

import (
	"encoding/json"
	"fmt"
	"math/rand"
	"runtime"
	"sort"
	"strconv"
	"strings"
	"sync"
	"time"

	"github.com/centrifugal/centrifuge"

	"verifharness/vh"
)

const cwChannel = "c"

type cwItem struct {
	ID  int    `json:"id"`
	K   string `json:"k"`
	Key string `json:"key"`
}

type cwCfg struct {
	Size   int  `json:"size"`
	Delay  bool `json:"delay"`
	Latest bool `json:"latest"`
}

type verdict struct{ sig, what string }

func cwQueueItem(it cwItem) centrifuge.VerifMItem {
	ft := centrifuge.VerifMFrameOther
	switch it.K {
	case "pub":
		ft = centrifuge.VerifMFramePub
	case "join":
		ft = centrifuge.VerifMFrameJoin
	case "leave":
		ft = centrifuge.VerifMFrameLeave
	}
	return centrifuge.VerifMItem{Data: []byte(strconv.Itoa(it.ID)), Key: it.Key, FrameType: ft}
}

func cwBatchCfg(c cwCfg, d time.Duration) centrifuge.ChannelBatchConfig {
	bc := centrifuge.ChannelBatchConfig{MaxSize: int64(c.Size), FlushLatestPublication: c.Latest}
	if c.Delay {
		bc.MaxDelay = d
	}
	return bc
}

func cwItemOf(v any) cwItem {
	m := vh.Map(v)
	return cwItem{ID: vh.Int(m["id"]), K: vh.Str(m["k"]), Key: vh.Str(m["key"])}
}

func cwIDs(v any) []int {
	out := []int{}
	for _, x := range vh.List(v) {
		out = append(out, vh.Int(vh.Map(x)["id"]))
	}
	return out
}

func cwBatches(v any) [][]int {
	out := [][]int{}
	for _, b := range vh.List(v) {
		out = append(out, cwIDs(b))
	}
	return out
}

func sameInts(a, b []int) bool {
	if len(a) != len(b) {
		return false
	}
	for i := range a {
		if a[i] != b[i] {
			return false
		}
	}
	return true
}

func sameBatches(a, b [][]int) bool {
	if len(a) != len(b) {
		return false
	}
	for i := range a {
		if !sameInts(a[i], b[i]) {
			return false
		}
	}
	return true
}

// ---------------------------------------------------------------- recording flush function

// cwBatch: one call of the flush function; gid = goroutine that made the call (flushFn runs synchronously inside
// Add / delWriter / Close on the caller's goroutine, or on the writer's waitTimer goroutine).
type cwBatch struct {
	ids []int
	gid int64
}

type cwRec struct {
	mu      sync.Mutex
	cond    *sync.Cond
	batches []cwBatch
	taken   int
	onFlush func(ids []int, gid int64) // called under mu (trace driver: event log)
}

func goid() int64 {
	var buf [64]byte
	n := runtime.Stack(buf[:], false)
	// "goroutine 123 [running]:"
	f := strings.Fields(string(buf[:n]))
	if len(f) < 2 {
		return -1
	}
	id, _ := strconv.ParseInt(f[1], 10, 64)
	return id
}

func newCwRec() *cwRec {
	r := &cwRec{}
	r.cond = sync.NewCond(&r.mu)
	return r
}

// flush is the flushFn handed to newPerChannelWriter: it runs under the channelWriter's mutex and must copy.
func (r *cwRec) flush(items []centrifuge.VerifMItem) error {
	ids := make([]int, len(items))
	for i, it := range items {
		id, err := strconv.Atoi(string(it.Data))
		if err != nil {
			id = -1
		}
		ids[i] = id
	}
	g := goid()
	r.mu.Lock()
	r.batches = append(r.batches, cwBatch{ids, g})
	if r.onFlush != nil {
		r.onFlush(ids, g)
	}
	r.cond.Broadcast()
	r.mu.Unlock()
	return nil
}

// take returns the batches flushed since the previous take.
func (r *cwRec) take() []cwBatch {
	r.mu.Lock()
	defer r.mu.Unlock()
	out := append([]cwBatch{}, r.batches[r.taken:]...)
	r.taken = len(r.batches)
	return out
}

func batchIDs(bs []cwBatch) [][]int {
	out := [][]int{}
	for _, b := range bs {
		out = append(out, b.ids)
	}
	return out
}

// waitNew waits until at least one batch not yet taken exists.
func (r *cwRec) waitNew(timeout time.Duration) bool {
	deadline := time.Now().Add(timeout)
	tm := time.AfterFunc(timeout, func() { r.mu.Lock(); r.cond.Broadcast(); r.mu.Unlock() })
	defer tm.Stop()
	r.mu.Lock()
	defer r.mu.Unlock()
	for len(r.batches) == r.taken {
		if time.Now().After(deadline) {
			return false
		}
		r.cond.Wait()
	}
	return true
}

// ---------------------------------------------------------------- C13 monitor, sequential driver
//
// Observable only: the items the driver added (in order), the batches the flush function received, the
// removals / closes the driver issued. `pend` is what the PROPERTY says is still owed to the connection.

type cwMon struct {
	latest bool
	pend   []cwItem
	items  map[int]cwItem
	gone   map[int]string // flushed | discarded | superseded
}

func newCwMon(latest bool) *cwMon {
	return &cwMon{latest: latest, items: map[int]cwItem{}, gone: map[int]string{}}
}

func (m *cwMon) add(it cwItem) {
	m.items[it.ID] = it
	m.pend = append(m.pend, it)
}

func coalesced(p []cwItem) []cwItem {
	var out []cwItem
	for _, it := range p {
		if it.K != "pub" {
			out = append(out, it)
		}
	}
	for i, it := range p {
		if it.K != "pub" {
			continue
		}
		newer := false
		for _, jt := range p[i+1:] {
			if jt.K == "pub" && jt.Key == it.Key {
				newer = true
				break
			}
		}
		if !newer {
			out = append(out, it)
		}
	}
	return out
}

func idsOf(p []cwItem) []int {
	out := make([]int, len(p))
	for i, it := range p {
		out[i] = it.ID
	}
	return out
}

// flush judges one batch. inCall: the item whose Add call was in progress when the batch arrived (0 = none);
// own: the flush function was called on the driver's own goroutine (a size flush inside that Add: the item is in);
// otherwise a timer flush that may have happened just before the item went in.
func (m *cwMon) flush(batch []int, inCall int, own bool) *verdict {
	if m.latest && inCall != 0 && !own && len(m.pend) > 0 && m.pend[len(m.pend)-1].ID == inCall {
		rest := m.pend[:len(m.pend)-1]
		if !sameInts(batch, idsOf(coalesced(m.pend))) && sameInts(batch, idsOf(coalesced(rest))) {
			x := m.pend[len(m.pend)-1]
			m.pend = append([]cwItem{}, rest...)
			v := m.flush(batch, 0, false)
			m.pend = append(m.pend, x)
			return v
		}
	}
	for _, id := range batch {
		if _, ok := m.items[id]; !ok {
			return &verdict{"unknown-item", fmt.Sprintf("flushed batch %v contains item %d that was never added", batch, id)}
		}
		switch m.gone[id] {
		case "discarded":
			return &verdict{"flush-after-end", fmt.Sprintf("item %d was buffered when the channel writer was removed / closed without flush and is flushed afterwards (batch %v)", id, batch)}
		case "flushed":
			return &verdict{"duplicate", fmt.Sprintf("item %d flushed twice (batch %v)", id, batch)}
		case "superseded":
			return &verdict{"latest:older-publication", fmt.Sprintf("publication %d (key %q) was superseded by a newer publication of its key in an earlier flush and is delivered afterwards (batch %v)", id, m.items[id].Key, batch)}
		}
	}
	if !m.latest {
		n := len(batch)
		if n <= len(m.pend) && sameInts(batch, idsOf(m.pend[:n])) {
			for _, id := range batch {
				m.gone[id] = "flushed"
			}
			m.pend = m.pend[n:]
			return nil
		}
		a := append([]int{}, batch...)
		sort.Ints(a)
		if n <= len(m.pend) {
			b := idsOf(m.pend[:n])
			sort.Ints(b)
			if sameInts(a, b) {
				return &verdict{"normal:reorder", fmt.Sprintf("flushed %v, added order %v", batch, idsOf(m.pend[:n]))}
			}
		}
		return &verdict{"normal:skipped", fmt.Sprintf("flushed %v is not the head of the added sequence %v (an earlier item is missing or lost)", batch, idsOf(m.pend))}
	}
	exp := coalesced(m.pend)
	if sameInts(batch, idsOf(exp)) {
		in := map[int]bool{}
		for _, id := range batch {
			in[id] = true
		}
		for _, it := range m.pend {
			if in[it.ID] {
				m.gone[it.ID] = "flushed"
			} else {
				m.gone[it.ID] = "superseded"
			}
		}
		m.pend = nil
		return nil
	}
	// classify
	seenPub := false
	for _, id := range batch {
		it := m.items[id]
		if it.K == "pub" {
			seenPub = true
		} else if seenPub {
			return &verdict{"latest:nonpub-after-pub", fmt.Sprintf("flushed %v: %s item %d after a publication; expected %v", batch, it.K, id, idsOf(exp))}
		}
	}
	expIn := map[int]bool{}
	for _, it := range exp {
		expIn[it.ID] = true
	}
	for _, id := range batch {
		if it := m.items[id]; it.K == "pub" && !expIn[id] {
			return &verdict{"latest:older-publication", fmt.Sprintf("flushed %v contains publication %d of key %q although a newer publication of that key was added before the flush; expected %v (added %v)", batch, id, it.Key, idsOf(exp), idsOf(m.pend))}
		}
	}
	return &verdict{"latest:mismatch", fmt.Sprintf("flushed %v, the coalescing rule gives %v (added since the last flush: %v)", batch, idsOf(exp), idsOf(m.pend))}
}

// end: DelWriter(fl) / Close(fl) returned; `during` are the batches flushed inside the call.
// A batch flushed on the driver's own goroutine was flushed by the call itself; one flushed on another goroutine is
// a timer flush that slipped in before the call took the writer's lock (legitimate either way).
func (m *cwMon) end(what string, fl bool, during []cwBatch, driver int64) []verdict {
	var vs []verdict
	if !fl {
		for _, b := range during {
			if b.gid == driver {
				vs = append(vs, verdict{"discard-flushed:" + what, fmt.Sprintf("%s(flush=false) itself flushed %v", what, b.ids)})
				continue
			}
			if v := m.flush(b.ids, 0, false); v != nil {
				vs = append(vs, *v)
			}
		}
		for _, it := range m.pend {
			m.gone[it.ID] = "discarded"
		}
		m.pend = nil
		return vs
	}
	for _, b := range during {
		if v := m.flush(b.ids, 0, false); v != nil {
			vs = append(vs, *v)
			return vs
		}
	}
	if len(m.pend) > 0 {
		vs = append(vs, verdict{"lost-on-flush:" + what, fmt.Sprintf("%s(flush=true) returned while %v were added and never flushed", what, idsOf(m.pend))})
		m.pend = nil
	}
	return vs
}

// ---------------------------------------------------------------- cwreplay

type cwOutcome struct {
	vs         []verdict
	mismatch   string // model and code disagree although every monitor holds
	missing    bool   // mismatch is "the timer flush the model expects never came"
	steps      []any
	nontrivial bool
}

func cwModelWriter(st map[string]any) (exists bool, buf, lat []int, timer bool) {
	cur := vh.Int(st["cur"])
	if cur == 0 {
		return false, nil, nil, false
	}
	ws := vh.Map(vh.List(st["w"])[cur-1])
	return true, cwIDs(ws["buf"]), cwIDs(ws["lat"]), vh.Int(ws["timer"]) != 0
}

func cwRealIDs(items []centrifuge.VerifMItem) []int {
	out := []int{}
	for _, it := range items {
		id, _ := strconv.Atoi(string(it.Data))
		out = append(out, id)
	}
	return out
}

func cwRunBehaviour(beh []map[string]any, d time.Duration) (o cwOutcome) {
	var cfg cwCfg
	b, _ := json.Marshal(beh[0]["cfg"])
	_ = json.Unmarshal(b, &cfg)
	rec := newCwRec()
	pcw := centrifuge.VerifMNewPCW(rec.flush)
	defer pcw.Close(false)
	mon := newCwMon(cfg.Latest)
	bc := cwBatchCfg(cfg, d)
	flushWait := d + 3*time.Second

	driver := goid()
	// after perChannelWriter.Close the connection is gone: what is added afterwards is not owed to it (the code drops it,
	// or buffers it in a fresh writer when the channel had none); such items are left out of the judgement
	closedPCW := false
	optional := map[int]bool{}
	owed := func(bs []cwBatch) []cwBatch {
		if len(optional) == 0 {
			return bs
		}
		var out []cwBatch
		for _, x := range bs {
			var ids []int
			for _, id := range x.ids {
				if !optional[id] {
					ids = append(ids, id)
				}
			}
			if len(ids) > 0 {
				out = append(out, cwBatch{ids, x.gid})
			}
		}
		return out
	}
	feed := func(bs []cwBatch, inCall int) bool { // returns false when a monitor fired
		for _, x := range bs {
			ids := x.ids
			if len(optional) > 0 {
				ids = nil
				for _, id := range x.ids {
					if !optional[id] {
						ids = append(ids, id)
					}
				}
				if len(ids) == 0 {
					continue
				}
			}
			if v := mon.flush(ids, inCall, x.gid == driver); v != nil {
				o.vs = append(o.vs, *v)
				return false
			}
		}
		return true
	}
	compareState := func(st map[string]any, act string) bool {
		ex, buf, lat, tm := cwModelWriter(st)
		rs := pcw.State(cwChannel)
		if rs.Exists != ex {
			o.mismatch = fmt.Sprintf("after %s: writer in the map = %v, model %v", act, rs.Exists, ex)
			return false
		}
		if !ex {
			return true
		}
		if !sameInts(cwRealIDs(rs.Buf), buf) || !sameInts(cwRealIDs(rs.Lat), lat) || rs.Timer != tm {
			o.mismatch = fmt.Sprintf("after %s: writer state buffer %v latestPubs %v timer %v, model buffer %v latestPubs %v timer %v",
				act, cwRealIDs(rs.Buf), cwRealIDs(rs.Lat), rs.Timer, buf, lat, tm)
			return false
		}
		return true
	}

	for si := 1; si < len(beh); si++ {
		st := beh[si]
		step := vh.Map(st["step"])
		act := vh.Str(step["act"])
		o.steps = append(o.steps, step)
		want := cwBatches(step["flushed"])
		for _, w := range want {
			if len(w) >= 2 {
				o.nontrivial = true
			}
		}
		var got [][]int
		switch act {
		case "Add":
			it := cwItemOf(step["item"])
			if closedPCW {
				optional[it.ID] = true
			} else {
				mon.add(it)
			}
			pcw.Add(cwQueueItem(it), cwChannel, bc)
			bs := rec.take()
			got = batchIDs(bs)
			if !feed(bs, it.ID) {
				return
			}
		case "TimerFire":
			if vh.Bool(step["stale"]) {
				continue
			}
			if !rec.waitNew(flushWait) {
				// nothing flushed although items wait and a delay is configured: give the timer its full chance
				stuck := len(mon.pend) > 0 && cfg.Delay && !rec.waitNew(d+3*time.Second)
				if stuck {
					o.missing = true
				}
				if o.mismatch == "" || stuck {
					o.mismatch = fmt.Sprintf("TimerFire: no flush within %v although %v are buffered and MaxDelay is %v", flushWait+d+3*time.Second, idsOf(mon.pend), d)
					flushWait = d + 300*time.Millisecond
				}
				if !stuck && len(mon.pend) > 0 && cfg.Delay {
					// it came late: fall through to take it
				} else {
					continue
				}
			}
			bs := rec.take()
			got = batchIDs(bs)
			if !feed(bs, 0) {
				return
			}
		case "Del", "Close":
			fl := vh.Bool(step["fl"])
			if len(mon.pend) > 0 && !fl {
				o.nontrivial = true
			}
			if act == "Del" {
				pcw.DelWriter(cwChannel, fl)
			} else {
				pcw.Close(fl)
				closedPCW = true
			}
			bs := rec.take()
			got = batchIDs(bs)
			what := "delWriter"
			if act == "Close" {
				what = "Close"
			}
			if vs := mon.end(what, fl, owed(bs), driver); len(vs) > 0 {
				o.vs = append(o.vs, vs...)
				return
			}
		default:
			o.mismatch = "unknown action " + act
			return
		}
		// a disagreement with the model is remembered (drift unless a monitor fires later); the behaviour goes on
		// so that the monitors see what the code finally delivers
		if o.mismatch == "" {
			if !sameBatches(got, want) {
				o.mismatch = fmt.Sprintf("step %d %s: flushed %v, model %v", si, act, got, want)
			} else {
				compareState(st, act)
			}
			if o.mismatch != "" {
				flushWait = d + 300*time.Millisecond
			}
		}
	}
	if o.mismatch != "" {
		// let a pending timer fire, then demand everything still owed
		if cfg.Delay {
			time.Sleep(d + d/2)
		}
		if !feed(rec.take(), 0) {
			return
		}
		pcw.DelWriter(cwChannel, true)
		if vs := mon.end("delWriter", true, owed(rec.take()), driver); len(vs) > 0 {
			o.vs = append(o.vs, vs...)
		}
		return
	}
	// final phase (beyond the behaviour, monitor only): the armed timer fires, nothing else arrives, a flushing
	// removal delivers whatever is still owed
	last := beh[len(beh)-1]
	if ex, buf, lat, tm := cwModelWriter(last); ex && tm {
		if !rec.waitNew(flushWait) {
			o.mismatch = fmt.Sprintf("final timer: no flush within %v although %v are buffered and MaxDelay is %v", flushWait, idsOf(mon.pend), d)
			o.missing = len(mon.pend) > 0
			return
		}
		bs := rec.take()
		if !feed(bs, 0) {
			return
		}
		if !sameBatches(batchIDs(bs), [][]int{append(append([]int{}, buf...), lat...)}) {
			o.mismatch = fmt.Sprintf("final timer flush %v, model %v", batchIDs(bs), append(buf, lat...))
			return
		}
	}
	if cfg.Delay {
		time.Sleep(d + d/2)
	}
	if late := rec.take(); len(late) > 0 {
		if !feed(late, 0) {
			return
		}
		o.mismatch = fmt.Sprintf("flush %v after the last expected one", batchIDs(late))
		return
	}
	pcw.DelWriter(cwChannel, true)
	if vs := mon.end("delWriter", true, owed(rec.take()), driver); len(vs) > 0 {
		o.vs = append(o.vs, vs...)
	}
	return
}

func cwReplay(in json.RawMessage, res *vh.Result) error {
	var behs [][]map[string]any
	if err := json.Unmarshal(in, &behs); err != nil {
		return err
	}
	delays := []time.Duration{30 * time.Millisecond, 200 * time.Millisecond, time.Second}
	jobs := make(chan int)
	var wg sync.WaitGroup
	for i := 0; i < 16; i++ {
		wg.Add(1)
		go func() {
			defer wg.Done()
			for bi := range jobs {
				beh := behs[bi]
				var o cwOutcome
				for ai, d := range delays {
					o = cwRunBehaviour(beh, d)
					if len(o.vs) > 0 || o.mismatch == "" {
						break
					}
					res.Count(fmt.Sprintf("retries_after_attempt_%d", ai+1), 1)
				}
				replay := map[string]any{"cfg": beh[0]["cfg"], "steps": o.steps}
				switch {
				case len(o.vs) > 0:
					for _, v := range o.vs {
						res.Violate("C13", v.sig, fmt.Sprintf("%s (behaviour %d, cfg %s)", v.what, bi, vh.J(beh[0]["cfg"])), replay)
					}
					res.Done(1, 0)
				case o.mismatch != "" && o.missing:
					res.Violate("C13", "timer-flush-missing", fmt.Sprintf("%s: buffered pushes are never delivered (behaviour %d, cfg %s)", o.mismatch, bi, vh.J(beh[0]["cfg"])), replay)
					res.Done(1, 0)
				case o.mismatch != "":
					res.Drift("C13", fmt.Sprintf("%s (behaviour %d, cfg %s)", o.mismatch, bi, vh.J(beh[0]["cfg"])), replay)
					res.Done(1, 0)
				default:
					if o.nontrivial {
						res.Distinct(vh.J(replay))
					}
					if bi < 2 {
						res.Sample(replay)
					}
					res.Done(1, 1)
				}
			}
		}()
	}
	for bi := range behs {
		jobs <- bi
	}
	close(jobs)
	wg.Wait()
	return nil
}

// ---------------------------------------------------------------- cwtrace

type cwEvent map[string]any

type cwTraceIn struct {
	N    int `json:"n"`
	Adds int `json:"adds"`
}

func cwTrace(in json.RawMessage, res *vh.Result) error {
	var tin cwTraceIn
	if err := json.Unmarshal(in, &tin); err != nil {
		return err
	}
	traces := make([][]cwEvent, tin.N)
	var wg sync.WaitGroup
	sem := make(chan struct{}, 24)
	for ti := 0; ti < tin.N; ti++ {
		wg.Add(1)
		sem <- struct{}{}
		go func(ti int) {
			defer wg.Done()
			defer func() { <-sem }()
			evs, cfg := cwOneTrace(vh.Seed()*1000003+int64(ti), tin.Adds)
			traces[ti] = evs
			vs := cwTraceMonitor(evs, cfg)
			for _, v := range vs {
				res.Violate("C13", "trace:"+v.sig, fmt.Sprintf("%s (recorded trace %d, cfg %s)", v.what, ti, vh.J(cfg)), map[string]any{"cfg": cfg, "events": evs})
			}
			multi := false
			for _, e := range evs {
				if e["ev"] == "Flush" && len(e["ids"].([]int)) >= 2 {
					multi = true
				}
			}
			if multi && len(vs) == 0 {
				res.Distinct(vh.J(evs))
			}
			if len(vs) == 0 {
				res.Done(1, 1)
			} else {
				res.Done(1, 0)
			}
		}(ti)
	}
	wg.Wait()
	res.Extra["traces"] = traces
	return nil
}

func cwOneTrace(seed int64, adds int) ([]cwEvent, cwCfg) {
	rng := rand.New(rand.NewSource(seed))
	cfg := cwCfg{Size: []int{0, 2, 3, 4}[rng.Intn(4)], Delay: rng.Intn(3) > 0, Latest: rng.Intn(2) == 0}
	if cfg.Size == 0 {
		cfg.Delay = true
	}
	d := 2 * time.Millisecond
	bc := cwBatchCfg(cfg, d)
	rec := newCwRec()
	var evs []cwEvent
	nextID := 0
	roles := map[int64]int{} // goroutine -> 1, 2 (adders), 9 (unsubscriber / closer); unknown = 0 (a waitTimer goroutine)
	role := func(r int) {
		g := goid()
		rec.mu.Lock()
		roles[g] = r
		rec.mu.Unlock()
	}
	role(9)
	rec.onFlush = func(ids []int, gid int64) {
		evs = append(evs, cwEvent{"ev": "Flush", "ids": ids, "by": roles[gid]})
	}
	log := func(e cwEvent) {
		rec.mu.Lock()
		evs = append(evs, e)
		rec.mu.Unlock()
	}
	evs = append(evs, cwEvent{"ev": "Reset", "cfg": cfg})
	pcw := centrifuge.VerifMNewPCW(rec.flush)
	pause := func(r *rand.Rand) {
		switch r.Intn(6) {
		case 0, 1:
		case 2:
			time.Sleep(50 * time.Microsecond)
		case 3:
			time.Sleep(500 * time.Microsecond)
		case 4:
			time.Sleep(d + time.Millisecond)
		default:
			time.Sleep(time.Duration(r.Intn(1500)) * time.Microsecond)
		}
	}
	var wg sync.WaitGroup
	for t := 1; t <= 2; t++ {
		wg.Add(1)
		r := rand.New(rand.NewSource(seed*31 + int64(t)))
		go func(t int, r *rand.Rand) {
			defer wg.Done()
			role(t)
			for i := 0; i < adds; i++ {
				pause(r)
				it := cwItem{K: "pub", Key: []string{"a", "b"}[r.Intn(2)]}
				if r.Intn(5) < 2 {
					it = cwItem{K: []string{"join", "leave"}[r.Intn(2)]}
				}
				rec.mu.Lock()
				nextID++
				it.ID = nextID
				evs = append(evs, cwEvent{"ev": "AddCall", "t": t, "item": it})
				rec.mu.Unlock()
				pcw.Add(cwQueueItem(it), cwChannel, bc)
				log(cwEvent{"ev": "AddRet", "t": t})
			}
		}(t, r)
	}
	wg.Add(1)
	ru := rand.New(rand.NewSource(seed*31 + 7))
	go func() {
		defer wg.Done()
		role(9)
		n := ru.Intn(3)
		for i := 0; i < n; i++ {
			time.Sleep(time.Duration(300+ru.Intn(4000)) * time.Microsecond)
			fl := ru.Intn(3) == 0
			log(cwEvent{"ev": "DelCall", "fl": fl})
			pcw.DelWriter(cwChannel, fl)
			log(cwEvent{"ev": "DelRet"})
		}
	}()
	wg.Wait()
	if rng.Intn(2) == 0 {
		time.Sleep(2*d + time.Millisecond)
	}
	fl := rng.Intn(2) == 0
	log(cwEvent{"ev": "CloseCall", "fl": fl})
	pcw.Close(fl)
	log(cwEvent{"ev": "CloseRet"})
	time.Sleep(3*d + 2*time.Millisecond)
	rec.mu.Lock()
	out := append([]cwEvent{}, evs...)
	rec.mu.Unlock()
	return out, cfg
}

// cwTraceMonitor: C13 on a recorded concurrent execution. Only what is certain from call / return / flush order is
// judged: an item whose Add overlaps a removal / close may be linearised on either side of it and is left out.
func cwTraceMonitor(evs []cwEvent, cfg cwCfg) []verdict {
	type itemInfo struct {
		it        cwItem
		t         int
		call, ret int
		flushSeq  int
		batch     int
		pos       int
	}
	type endInfo struct {
		what      string
		fl        bool
		call, ret int
	}
	items := map[int]*itemInfo{}
	var order []int
	var ends []*endInfo
	open := map[int]int{} // thread -> item id in flight
	var curEnd *endInfo
	var vs []verdict
	nbatch := 0
	type batchInfo struct {
		seq int
		ids []int
	}
	var batches []batchInfo
	for seq, e := range evs {
		switch e["ev"] {
		case "AddCall":
			it := e["item"].(cwItem)
			t := e["t"].(int)
			items[it.ID] = &itemInfo{it: it, t: t, call: seq, ret: 1 << 30, flushSeq: -1}
			order = append(order, it.ID)
			open[t] = it.ID
		case "AddRet":
			t := e["t"].(int)
			items[open[t]].ret = seq
		case "DelCall", "CloseCall":
			what := "delWriter"
			if e["ev"] == "CloseCall" {
				what = "Close"
			}
			curEnd = &endInfo{what: what, fl: e["fl"].(bool), call: seq, ret: 1 << 30}
			ends = append(ends, curEnd)
		case "DelRet", "CloseRet":
			curEnd.ret = seq
		case "Flush":
			ids := e["ids"].([]int)
			batches = append(batches, batchInfo{seq, ids})
			for p, id := range ids {
				ii, ok := items[id]
				if !ok {
					vs = append(vs, verdict{"unknown-item", fmt.Sprintf("flush %v contains item %d that was not added", ids, id)})
					continue
				}
				if ii.flushSeq >= 0 {
					vs = append(vs, verdict{"duplicate", fmt.Sprintf("item %d flushed twice", id)})
					continue
				}
				ii.flushSeq, ii.batch, ii.pos = seq, nbatch, p
			}
			nbatch++
		}
	}
	ambiguous := func(i *itemInfo) bool {
		for _, e := range ends {
			if e.call < i.ret && e.ret > i.call {
				return true
			}
		}
		return false
	}
	before := func(i, j *itemInfo) bool { // position in the delivered stream
		return i.batch < j.batch || (i.batch == j.batch && i.pos < j.pos)
	}
	sameClass := func(i, j *itemInfo) bool { return !cfg.Latest || (i.it.K == "pub") == (j.it.K == "pub") }
	// order: items certainly added one after the other are delivered in that order
	for _, a := range order {
		for _, b := range order {
			i, j := items[a], items[b]
			if a == b || i.flushSeq < 0 || j.flushSeq < 0 || ambiguous(i) {
				continue
			}
			certain := (i.t == j.t && i.call < j.call) || i.ret < j.call
			if !certain {
				continue
			}
			if sameClass(i, j) {
				if !before(i, j) {
					vs = append(vs, verdict{"order", fmt.Sprintf("item %d was added before item %d and is delivered after it (batches %d/%d)", a, b, i.batch, j.batch)})
				}
			} else if i.batch > j.batch {
				vs = append(vs, verdict{"order", fmt.Sprintf("item %d was added before item %d and is delivered in a later batch", a, b)})
			}
		}
	}
	// nothing buffered before a removal / close without flush is delivered after it
	for _, e := range ends {
		if e.fl {
			continue
		}
		for _, a := range order {
			i := items[a]
			if i.ret < e.call && i.flushSeq > e.ret && !ambiguous(i) {
				vs = append(vs, verdict{"flush-after-end", fmt.Sprintf("item %d was added before %s(flush=false) and is flushed after it returned", a, e.what)})
			}
		}
	}
	// a removal / close without flush does not flush by itself
	for seq, e := range evs {
		if e["ev"] != "Flush" || e["by"].(int) != 9 {
			continue
		}
		for _, en := range ends {
			if !en.fl && en.call < seq && seq < en.ret {
				vs = append(vs, verdict{"discard-flushed:" + en.what, fmt.Sprintf("%s(flush=false) itself flushed %v", en.what, e["ids"])})
			}
		}
	}
	supersededBy := func(i *itemInfo, limit int) bool {
		if !cfg.Latest || i.it.K != "pub" {
			return false
		}
		for _, b := range order {
			q := items[b]
			if q != i && q.it.K == "pub" && q.it.Key == i.it.Key && !(q.ret < i.call) && q.call < limit {
				return true
			}
		}
		return false
	}
	// loss: an item that is never flushed must have been discarded by a flush=false end or superseded
	for _, a := range order {
		i := items[a]
		if i.flushSeq >= 0 {
			continue
		}
		// the first flushing end that certainly started after the add returned
		var E *endInfo
		for _, e := range ends {
			if e.fl && e.call > i.ret {
				E = e
				break
			}
		}
		limit := len(evs)
		if E != nil {
			limit = E.ret
		}
		excused := supersededBy(i, limit)
		for _, e := range ends {
			if !e.fl && e.ret > i.call && e.call < limit {
				excused = true
			}
		}
		if E != nil && !excused {
			vs = append(vs, verdict{"lost-on-flush:" + E.what, fmt.Sprintf("item %d was added before %s(flush=true) and was never flushed", a, E.what)})
			continue
		}
		// a later item of the same class was delivered while this one, certainly added earlier, never is
		for _, b := range order {
			j := items[b]
			if j.flushSeq < 0 || !(i.ret < j.call) || !sameClass(i, j) || ambiguous(i) {
				continue
			}
			ex := supersededBy(i, j.flushSeq)
			for _, e := range ends {
				if !e.fl && e.ret > i.call && e.call < j.flushSeq {
					ex = true
				}
			}
			if !ex {
				vs = append(vs, verdict{"skipped", fmt.Sprintf("item %d was delivered although item %d, added before it, never is", b, a)})
				break
			}
		}
	}
	// latest mode: shape of every batch
	if cfg.Latest {
		for _, b := range batches {
			seenPub := false
			keys := map[string]int{}
			for _, id := range b.ids {
				ii := items[id]
				if ii == nil {
					continue
				}
				if ii.it.K == "pub" {
					seenPub = true
					if o, dup := keys[ii.it.Key]; dup {
						vs = append(vs, verdict{"latest:two-per-key", fmt.Sprintf("batch %v carries publications %d and %d of key %q", b.ids, o, id, ii.it.Key)})
					}
					keys[ii.it.Key] = id
					// a newer publication of the key certainly added before this flush
					for _, c := range order {
						q := items[c]
						if q.it.K == "pub" && q.it.Key == ii.it.Key && ii.ret < q.call && q.ret < b.seq && !ambiguous(ii) && !ambiguous(q) {
							vs = append(vs, verdict{"latest:older-publication", fmt.Sprintf("batch %v delivers publication %d of key %q although publication %d of that key was added before the flush", b.ids, id, ii.it.Key, c)})
							break
						}
					}
				} else if seenPub {
					vs = append(vs, verdict{"latest:nonpub-after-pub", fmt.Sprintf("batch %v: %s item %d after a publication", b.ids, ii.it.K, id)})
				}
			}
		}
	}
	// de-duplicate by signature
	seen := map[string]bool{}
	var out []verdict
	for _, v := range vs {
		if !seen[v.sig] {
			seen[v.sig] = true
			out = append(out, v)
		}
	}
	return out
}
